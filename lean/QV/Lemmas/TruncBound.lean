import QV.Model.Taylor
import Mathlib.Analysis.Normed.Algebra.Exponential
import Mathlib.Analysis.SpecialFunctions.Exponential

/-!
# The truncation bound of the short-exponential expansion

In a complete normed `ℚ`-algebra (e.g. matrices, or linear maps on matrices =
superoperators, with any submultiplicative norm with `‖1‖ = 1`):

* `norm_exp_sub_taylor_le`: `‖exp X − T_L X‖ ≤ e^{‖X‖} − T_L ‖X‖`  (one step);
* `norm_pow_sub_pow_le`: `‖Aᵐ − Bᵐ‖ ≤ m · M^{m−1} · ‖A − B‖` when `‖A‖, ‖B‖ ≤ M` (accumulation);
* `trunc_bound`: `‖(T_L X)ᵐ − exp(m•X)‖ ≤ m · e^{(m−1)‖X‖} · (e^{‖X‖} − T_L ‖X‖)`.

`T_L X = ∑_{k ≤ L} X^k / k!` is exactly what the code's loop computes (`taylorStep_eq_sum`).
-/
namespace QV
open NormedSpace Finset

section bound
variable {𝔸 : Type} [NormedRing 𝔸] [NormOneClass 𝔸] [NormedAlgebra ℚ 𝔸] [CompleteSpace 𝔸]

/-- the order-`L` Taylor polynomial of the exponential (`n = L+1` terms) -/
noncomputable def taylorPoly (n : ℕ) (x : 𝔸) : 𝔸 := ∑ m ∈ range n, ((m.factorial : ℚ)⁻¹) • x ^ m

theorem norm_term_le (x : 𝔸) (m : ℕ) : ‖((m.factorial : ℚ)⁻¹) • x ^ m‖ ≤ ‖x‖ ^ m / m.factorial := by
  have hq : ‖((m.factorial : ℕ) : ℚ)‖ = (m.factorial : ℝ) := by
    rw [← Rat.norm_cast_real]; simp
  rw [norm_smul, norm_inv, hq, div_eq_inv_mul]
  exact mul_le_mul_of_nonneg_left (norm_pow_le x m) (by positivity)

theorem real_exp_series (r : ℝ) : HasSum (fun m : ℕ => r ^ m / m.factorial) (Real.exp r) := by
  have := NormedSpace.expSeries_div_hasSum_exp (𝔸 := ℝ) r
  rwa [← Real.exp_eq_exp_ℝ] at this

/-- **one step**: the remainder of the Taylor polynomial is dominated by the scalar remainder at `‖x‖` -/
theorem norm_exp_sub_taylor_le (x : 𝔸) (n : ℕ) :
    ‖exp x - taylorPoly n x‖ ≤ Real.exp ‖x‖ - ∑ m ∈ range n, ‖x‖ ^ m / m.factorial := by
  have hs : Summable fun m : ℕ => ((m.factorial : ℚ)⁻¹) • x ^ m := expSeries_summable' (𝕂 := ℚ) x
  have hr := real_exp_series ‖x‖
  have e1 : exp x - taylorPoly n x = ∑' m : ℕ, ((((m + n).factorial : ℚ)⁻¹) • x ^ (m + n)) := by
    rw [exp_eq_tsum ℚ]
    simp only [taylorPoly]
    rw [← hs.sum_add_tsum_nat_add n]
    abel
  have e2 : Real.exp ‖x‖ - ∑ m ∈ range n, ‖x‖ ^ m / m.factorial
      = ∑' m : ℕ, ‖x‖ ^ (m + n) / (m + n).factorial := by
    rw [← hr.tsum_eq, ← hr.summable.sum_add_tsum_nat_add n]
    ring
  rw [e1, e2]
  have hsum : Summable fun m : ℕ => ‖x‖ ^ (m + n) / (m + n).factorial :=
    (summable_nat_add_iff n).mpr hr.summable
  exact tsum_of_norm_bounded hsum.hasSum (fun m => norm_term_le x (m + n))

theorem norm_taylorPoly_le (x : 𝔸) (n : ℕ) : ‖taylorPoly n x‖ ≤ Real.exp ‖x‖ := by
  have hr := real_exp_series ‖x‖
  calc ‖taylorPoly n x‖ ≤ ∑ m ∈ range n, ‖((m.factorial : ℚ)⁻¹) • x ^ m‖ := norm_sum_le _ _
    _ ≤ ∑ m ∈ range n, ‖x‖ ^ m / m.factorial := Finset.sum_le_sum fun m _ => norm_term_le x m
    _ ≤ Real.exp ‖x‖ := by
      rw [← hr.tsum_eq]
      exact hr.summable.sum_le_tsum _ (fun m _ => by positivity)

/-- **accumulation over `m` steps** (no commutativity needed) -/
theorem norm_pow_sub_pow_le (A B : 𝔸) (M : ℝ) (hA : ‖A‖ ≤ M) (hB : ‖B‖ ≤ M) (m : ℕ) :
    ‖A ^ m - B ^ m‖ ≤ m * M ^ (m - 1) * ‖A - B‖ := by
  have hM : 0 ≤ M := le_trans (norm_nonneg A) hA
  induction m with
  | zero => simp
  | succ k ih =>
    have e : A ^ (k + 1) - B ^ (k + 1) = A ^ k * (A - B) + (A ^ k - B ^ k) * B := by
      rw [pow_succ, pow_succ]; noncomm_ring
    have hAk : ‖A ^ k‖ ≤ M ^ k := le_trans (norm_pow_le A k) (pow_le_pow_left₀ (norm_nonneg A) hA k)
    calc ‖A ^ (k + 1) - B ^ (k + 1)‖ = ‖A ^ k * (A - B) + (A ^ k - B ^ k) * B‖ := by rw [e]
      _ ≤ ‖A ^ k‖ * ‖A - B‖ + ‖A ^ k - B ^ k‖ * ‖B‖ :=
        le_trans (norm_add_le _ _) (add_le_add (norm_mul_le _ _) (norm_mul_le _ _))
      _ ≤ M ^ k * ‖A - B‖ + (k * M ^ (k - 1) * ‖A - B‖) * M := by
        apply add_le_add
        · exact mul_le_mul_of_nonneg_right hAk (norm_nonneg _)
        · exact mul_le_mul ih hB (norm_nonneg _) (by positivity)
      _ = ((k + 1 : ℕ) : ℝ) * M ^ (k + 1 - 1) * ‖A - B‖ := by
        cases k with
        | zero => simp
        | succ j => simp only [Nat.add_sub_cancel, Nat.cast_add, Nat.cast_one]; ring

/-- **the truncation bound**: `m` steps of the order-`L` expansion (`n = L+1` terms) against the exact
exponential over the same time -/
theorem trunc_bound (X : 𝔸) (n m : ℕ) :
    ‖taylorPoly n X ^ m - exp ((m : ℕ) • X)‖ ≤
      m * Real.exp ‖X‖ ^ (m - 1) * (Real.exp ‖X‖ - ∑ k ∈ range n, ‖X‖ ^ k / k.factorial) := by
  rw [exp_nsmul]
  have hE : ‖exp X‖ ≤ Real.exp ‖X‖ := by
    have := norm_exp_sub_taylor_le X 0
    simpa [taylorPoly] using this
  calc ‖taylorPoly n X ^ m - exp X ^ m‖
      ≤ m * Real.exp ‖X‖ ^ (m - 1) * ‖taylorPoly n X - exp X‖ :=
        norm_pow_sub_pow_le _ _ _ (norm_taylorPoly_le X n) hE m
    _ ≤ m * Real.exp ‖X‖ ^ (m - 1) * (Real.exp ‖X‖ - ∑ k ∈ range n, ‖X‖ ^ k / k.factorial) := by
        apply mul_le_mul_of_nonneg_left _ (by positivity)
        rw [norm_sub_rev]
        exact norm_exp_sub_taylor_le X n

/-! ## the loop of the code computes the Taylor polynomial -/

/-- generator of the propagation loop in an algebra: `c * GEN(z) = c • (𝓛 * z)`; for density matrices
`𝔸` is the algebra of superoperators acting on itself (columns = matrix units), for populations the
algebra of matrices -/
def algGen (𝓛 : 𝔸) (c : ℚ) (z : 𝔸) : 𝔸 := c • (𝓛 * z)

theorem taylorLoop_alg (𝓛 : 𝔸) (dt : ℚ) (y : 𝔸) : ∀ (cnt l : ℕ) (r2 : 𝔸),
    taylorLoop (algGen 𝓛) (· + ·) dt (l + 1) cnt (((dt ^ l / (l.factorial : ℚ)) • 𝓛 ^ l) * y) r2
      = r2 + ∑ k ∈ range cnt, ((dt ^ (l + 1 + k) / ((l + 1 + k).factorial : ℚ)) • 𝓛 ^ (l + 1 + k)) * y := by
  intro cnt
  induction cnt with
  | zero => intro l r2; simp [taylorLoop]
  | succ c ih =>
    intro l r2
    have hstep : algGen 𝓛 (dt / ((l + 1 : ℕ) : ℚ)) (((dt ^ l / (l.factorial : ℚ)) • 𝓛 ^ l) * y)
        = ((dt ^ (l + 1) / ((l + 1).factorial : ℚ)) • 𝓛 ^ (l + 1)) * y := by
      unfold algGen
      rw [smul_mul_assoc, mul_smul_comm, smul_smul, ← mul_assoc, ← pow_succ', smul_mul_assoc]
      congr 1
      have hl : ((l + 1 : ℕ) : ℚ) ≠ 0 := by positivity
      have hf : (l.factorial : ℚ) ≠ 0 := by positivity
      rw [Nat.factorial_succ]; push_cast; field_simp; ring
    simp only [taylorLoop]
    rw [hstep, ih (l + 1)]
    rw [Finset.sum_range_succ', add_assoc]
    congr 1
    rw [add_comm]
    congr 1
    apply Finset.sum_congr rfl
    intro k _
    have : l + 1 + 1 + k = l + 1 + (k + 1) := by omega
    rw [this]

/-- **one elementary step of the loop is multiplication by the Taylor polynomial of `dt·𝓛`** -/
theorem taylorStep_alg (𝓛 : 𝔸) (dt : ℚ) (L : ℕ) (y : 𝔸) :
    taylorStep (algGen 𝓛) (· + ·) dt L y = taylorPoly (L + 1) (dt • 𝓛) * y := by
  unfold taylorStep
  have h := taylorLoop_alg 𝓛 dt y L 0 y
  simp only [pow_zero, Nat.factorial_zero, Nat.cast_one, div_one, one_smul, one_mul, zero_add] at h
  rw [h]
  unfold taylorPoly
  rw [Finset.sum_range_succ', add_mul, Finset.sum_mul]
  simp only [pow_zero, Nat.factorial_zero, Nat.cast_one, inv_one, one_smul, one_mul]
  rw [add_comm]
  congr 1
  apply Finset.sum_congr rfl
  intro k _
  rw [smul_pow, smul_smul, add_comm 1 k, div_eq_inv_mul]

theorem taylorSteps_alg (𝓛 : 𝔸) (dt : ℚ) (L : ℕ) : ∀ (m : ℕ) (y : 𝔸),
    taylorSteps (algGen 𝓛) (· + ·) dt L m y = taylorPoly (L + 1) (dt • 𝓛) ^ m * y := by
  intro m
  induction m with
  | zero => intro y; simp [taylorSteps]
  | succ m ih =>
    intro y
    simp only [taylorSteps]
    rw [ih, taylorStep_alg, ← mul_assoc, ← pow_succ]

/-- **C02/C08/C17, accuracy clause**: after `m` elementary steps of order `L` the propagated object is
within the truncation bound of the exact exponential applied to the same initial object -/
theorem steps_within_truncation_bound (𝓛 : 𝔸) (dt : ℚ) (L m : ℕ) (y : 𝔸) :
    ‖taylorSteps (algGen 𝓛) (· + ·) dt L m y - exp ((m : ℕ) • (dt • 𝓛)) * y‖ ≤
      (m * Real.exp ‖dt • 𝓛‖ ^ (m - 1) *
        (Real.exp ‖dt • 𝓛‖ - ∑ k ∈ range (L + 1), ‖dt • 𝓛‖ ^ k / k.factorial)) * ‖y‖ := by
  rw [taylorSteps_alg, ← sub_mul]
  exact le_trans (norm_mul_le _ _) (mul_le_mul_of_nonneg_right (trunc_bound _ _ _) (norm_nonneg _))

/-- refining the step: two expansions of the same generator over the same total time differ by at most
the sum of their truncation bounds -/
theorem refinement_within_bounds (𝓛 : 𝔸) (dt : ℚ) (L m N : ℕ) (hN : 0 < N) (y : 𝔸) :
    ‖taylorSteps (algGen 𝓛) (· + ·) dt L m y - taylorSteps (algGen 𝓛) (· + ·) (dt / N) L (m * N) y‖ ≤
      ((m * Real.exp ‖dt • 𝓛‖ ^ (m - 1) *
          (Real.exp ‖dt • 𝓛‖ - ∑ k ∈ range (L + 1), ‖dt • 𝓛‖ ^ k / k.factorial))
        + ((m * N : ℕ) * Real.exp ‖(dt / N) • 𝓛‖ ^ (m * N - 1) *
          (Real.exp ‖(dt / N) • 𝓛‖ - ∑ k ∈ range (L + 1), ‖(dt / N) • 𝓛‖ ^ k / k.factorial))) * ‖y‖ := by
  have e : ((m * N : ℕ) • ((dt / N) • 𝓛)) = (m : ℕ) • (dt • 𝓛) := by
    have hq : (N : ℚ) ≠ 0 := by positivity
    rw [← Nat.cast_smul_eq_nsmul ℚ, ← Nat.cast_smul_eq_nsmul ℚ, smul_smul, smul_smul]
    congr 1
    push_cast; field_simp
  have h1 := steps_within_truncation_bound 𝓛 dt L m y
  have h2 := steps_within_truncation_bound 𝓛 (dt / N) L (m * N) y
  rw [e] at h2
  calc _ = ‖(taylorSteps (algGen 𝓛) (· + ·) dt L m y - exp ((m : ℕ) • (dt • 𝓛)) * y)
            - (taylorSteps (algGen 𝓛) (· + ·) (dt / N) L (m * N) y - exp ((m : ℕ) • (dt • 𝓛)) * y)‖ := by
          congr 1; abel
    _ ≤ _ := by
          rw [add_mul]
          exact le_trans (norm_sub_le _ _) (add_le_add h1 h2)
end bound

end QV
