import QV.Props.C07Basis
import QV.Lemmas.TaylorRel
import Mathlib.Data.Matrix.Mul
import Mathlib.Tactic.NormNum
import Mathlib.Tactic.FinCases

/-!
# C07 — "in every basis", for the propagated dynamics
Propagating in another basis (Hamiltonian `S1 H SS`, tensor `transform`-ed, initial state `S1 ρ0 SS`) stores, at every
time, the transformed state of the propagation in the original basis: for every expansion order, refinement, number of
steps, tensor, Hamiltonian and dimension, for orthogonal `S1 = SSᵀ`.
-/
namespace QV.Prop
open QV QV.C01 Finset

variable {α : Type} [CommRing α] {n : Nat}

theorem matMul_eq_mul (A B : Mat α n) (i j : Fin n) :
    matMul A B i j = (Matrix.of A * Matrix.of B) i j := by
  simp [matMul, sumFin_eq_sum, Matrix.mul_apply]

theorem sandwich_eq (S1 SS A : Mat α n) (i j : Fin n) :
    sandwich S1 SS A i j = (Matrix.of S1 * (Matrix.of A * Matrix.of SS)) i j := by
  simp [sandwich, matMul, sumFin_eq_sum, Matrix.mul_apply]

/-- the sandwich is multiplicative when `SS · S1 = 1` -/
theorem sandwich_mul (S1 SS A B : Mat α n) (h3 : ∀ x y, ∑ a, SS x a * S1 a y = if x = y then 1 else 0) :
    matMul (sandwich S1 SS A) (sandwich S1 SS B) = sandwich S1 SS (matMul A B) := by
  have h3' : Matrix.of SS * Matrix.of S1 = (1 : Matrix (Fin n) (Fin n) α) := by
    ext x y; simp [Matrix.mul_apply, h3, Matrix.one_apply]
  have hAB : Matrix.of (matMul A B) = Matrix.of A * Matrix.of B := by
    ext i j; simp [matMul_eq_mul]
  funext a b
  have e1 : matMul (sandwich S1 SS A) (sandwich S1 SS B) a b
      = ((Matrix.of S1 * (Matrix.of A * Matrix.of SS)) * (Matrix.of S1 * (Matrix.of B * Matrix.of SS))) a b := by
    rw [Matrix.mul_apply]
    simp only [matMul, sumFin_eq_sum, sandwich_eq]
  rw [e1, sandwich_eq, hAB]
  have hm : Matrix.of S1 * (Matrix.of A * Matrix.of SS) * (Matrix.of S1 * (Matrix.of B * Matrix.of SS))
      = Matrix.of S1 * (Matrix.of A * Matrix.of B * Matrix.of SS) := by
    calc Matrix.of S1 * (Matrix.of A * Matrix.of SS) * (Matrix.of S1 * (Matrix.of B * Matrix.of SS))
        = Matrix.of S1 * (Matrix.of A * ((Matrix.of SS * Matrix.of S1) * (Matrix.of B * Matrix.of SS))) := by
          simp only [Matrix.mul_assoc]
      _ = Matrix.of S1 * (Matrix.of A * Matrix.of B * Matrix.of SS) := by
          rw [h3', Matrix.one_mul]; simp only [Matrix.mul_assoc]
  rw [hm]

/-- the sandwich is linear -/
theorem sandwich_lin (S1 SS A B : Mat α n) (k c : α) :
    sandwich S1 SS (fun a b => -(k * A a b) + c * B a b)
      = fun a b => -(k * sandwich S1 SS A a b) + c * sandwich S1 SS B a b := by
  funext a b
  simp only [sandwich, matMul, sumFin_eq_sum, add_mul, neg_mul, Finset.sum_add_distrib, Finset.sum_neg_distrib,
    mul_add, mul_neg, Finset.mul_sum]
  congr 1
  · congr 1; exact Finset.sum_congr rfl fun x _ => Finset.sum_congr rfl fun y _ => by ring
  · exact Finset.sum_congr rfl fun x _ => Finset.sum_congr rfl fun y _ => by ring

theorem sandwich_sub (S1 SS A B : Mat α n) :
    sandwich S1 SS (fun a b => A a b - B a b) = fun a b => sandwich S1 SS A a b - sandwich S1 SS B a b := by
  funext a b
  simp only [sandwich, matMul, sumFin_eq_sum, sub_mul, Finset.sum_sub_distrib, mul_sub]

theorem sandwich_add (S1 SS A B : Mat α n) :
    sandwich S1 SS (fun a b => A a b + B a b) = fun a b => sandwich S1 SS A a b + sandwich S1 SS B a b := by
  funext a b
  simp only [sandwich, matMul, sumFin_eq_sum, add_mul, Finset.sum_add_distrib, mul_add]

/-- the generator of the propagation is covariant -/
theorem genTensor_covariant (ii : α) (S1 SS H : Mat α n) (R : Tens α n) (c : α) (x y : MatD α n n)
    (h1 : ∀ x y, ∑ c, S1 c x * S1 c y = if x = y then 1 else 0)
    (h2 : ∀ x y, ∑ d, SS x d * SS y d = if x = y then 1 else 0)
    (h3 : ∀ x y, ∑ a, SS x a * S1 a y = if x = y then 1 else 0)
    (hxy : y.fn = sandwich S1 SS x.fn) :
    (genTensor ii (sandwich S1 SS H) (transformTwoPass S1 SS R) c y).fn
      = sandwich S1 SS (genTensor ii H R c x).fn := by
  have ha := transform_apply S1 SS R x.fn h1 h2
  simp only [apply] at ha
  have hc : comm (sandwich S1 SS H) (sandwich S1 SS x.fn) = sandwich S1 SS (comm H x.fn) := by
    unfold comm
    rw [sandwich_sub, sandwich_mul S1 SS H x.fn h3, sandwich_mul S1 SS x.fn H h3]
  simp only [genTensor, MatD.fn_tab, hxy, ha, hc]
  rw [sandwich_lin]

/-- **propagation in the new basis stores the transformed states of the propagation in the old basis** -/
theorem propagate_covariant {β : Type} [Field β] (ii : β) (S1 SS H : Mat β n) (R : Tens β n) (dt : β)
    (L Nref nt : Nat) (ρ0 ρ0' : MatD β n n)
    (h1 : ∀ x y, ∑ c, S1 c x * S1 c y = if x = y then 1 else 0)
    (h2 : ∀ x y, ∑ d, SS x d * SS y d = if x = y then 1 else 0)
    (h3 : ∀ x y, ∑ a, SS x a * S1 a y = if x = y then 1 else 0)
    (h0 : ρ0'.fn = sandwich S1 SS ρ0.fn) :
    List.Forall₂ (fun x y => y.fn = sandwich S1 SS x.fn)
      (rdmPropagate (genTensor ii H R) dt L Nref nt ρ0)
      (rdmPropagate (genTensor ii (sandwich S1 SS H) (transformTwoPass S1 SS R)) dt L Nref nt ρ0') := by
  unfold rdmPropagate
  refine taylorTrajectory_rel (genTensor ii H R) madd (genTensor ii (sandwich S1 SS H) (transformTwoPass S1 SS R)) madd
    (dt / (Nref : β)) (fun x y => y.fn = sandwich S1 SS x.fn) ?_ ?_ L Nref nt ρ0 ρ0' h0
  · intro l x y hxy
    exact genTensor_covariant ii S1 SS H R _ x y h1 h2 h3 hxy
  · intro a a' b b' hab hab'
    simp only [madd, MatD.fn_tab, hab, hab']
    rw [sandwich_add]

/-- **the operator form held in the new basis** (`K, Kd, Λ, Λd` each transformed, as the basis manager does with the
components of a tensor in operator form) **acts on the transformed operator as the transformed result** -/
theorem applyOps_covariant (S1 SS K Kd L Ld ρ : Mat α n)
    (h3 : ∀ x y, ∑ a, SS x a * S1 a y = if x = y then 1 else 0) :
    applyOps (sandwich S1 SS K) (sandwich S1 SS Kd) (sandwich S1 SS L) (sandwich S1 SS Ld) (sandwich S1 SS ρ)
      = sandwich S1 SS (applyOps K Kd L Ld ρ) := by
  unfold applyOps
  simp only [sandwich_mul S1 SS _ _ h3]
  rw [sandwich_sub, sandwich_sub, sandwich_add]

/-- **hence the two forms agree in the new basis**: the operator form with transformed components and the transformed
explicit tensor act identically on every transformed operator (any components, orthogonal `S1 = SSᵀ`) -/
theorem ops_eq_tensor_in_new_basis (S1 SS K Kd L Ld ρ : Mat α n)
    (h1 : ∀ x y, ∑ c, S1 c x * S1 c y = if x = y then 1 else 0)
    (h2 : ∀ x y, ∑ d, SS x d * SS y d = if x = y then 1 else 0)
    (h3 : ∀ x y, ∑ a, SS x a * S1 a y = if x = y then 1 else 0) :
    applyOps (sandwich S1 SS K) (sandwich S1 SS Kd) (sandwich S1 SS L) (sandwich S1 SS Ld) (sandwich S1 SS ρ)
      = apply (transformTwoPass S1 SS (loopTerm K Kd L Ld)) (sandwich S1 SS ρ) := by
  rw [applyOps_covariant S1 SS K Kd L Ld ρ h3, applyOps_transform S1 SS K Kd L Ld ρ h1 h2]

/-- the transpose `Kd = Kᵀ`, which the code recomputes from the transformed `K` instead of storing it, is the
transformed transpose (orthogonal `S1 = SSᵀ`) -/
theorem sandwich_transpose (S1 SS K : Mat α n) (hT : ∀ x y, S1 x y = SS y x) :
    (fun i j => sandwich S1 SS K j i) = sandwich S1 SS (fun i j => K j i) := by
  funext i j
  simp only [sandwich, matMul, sumFin_eq_sum, hT, Finset.mul_sum]
  rw [Finset.sum_comm]
  exact Finset.sum_congr rfl fun y _ => Finset.sum_congr rfl fun x _ => by ring

/-- **the Redfield operator form as the code holds it in the new basis** (`K, Λ, Λd` transformed, `Kd` recomputed as
the transpose of the transformed `K`) **acts as the transformed tensor** -/
theorem redfield_ops_in_new_basis (S1 SS K L Ld ρ : Mat α n)
    (h1 : ∀ x y, ∑ c, S1 c x * S1 c y = if x = y then 1 else 0)
    (h2 : ∀ x y, ∑ d, SS x d * SS y d = if x = y then 1 else 0)
    (h3 : ∀ x y, ∑ a, SS x a * S1 a y = if x = y then 1 else 0)
    (hT : ∀ x y, S1 x y = SS y x) :
    applyOps (sandwich S1 SS K) (fun i j => sandwich S1 SS K j i) (sandwich S1 SS L) (sandwich S1 SS Ld)
        (sandwich S1 SS ρ)
      = apply (transformTwoPass S1 SS (loopTerm K (fun i j => K j i) L Ld)) (sandwich S1 SS ρ) := by
  rw [sandwich_transpose S1 SS K hT]
  exact ops_eq_tensor_in_new_basis S1 SS K (fun i j => K j i) L Ld ρ h1 h2 h3


/-- non-vacuity of the orthogonality hypotheses with a genuine rotation: `SS = [[3/5, 4/5], [-4/5, 3/5]]`, `S1 = SSᵀ` -/
def rotSS : Mat ℚ 2 := fun i j => if i = j then 3/5 else if i.val < j.val then 4/5 else -4/5
def rotS1 : Mat ℚ 2 := fun i j => rotSS j i

example : (∀ x y, ∑ c, rotS1 c x * rotS1 c y = if x = y then 1 else 0)
    ∧ (∀ x y, ∑ d, rotSS x d * rotSS y d = if x = y then 1 else 0)
    ∧ (∀ x y, ∑ a, rotSS x a * rotS1 a y = if x = y then 1 else 0)
    ∧ (∀ x y, rotS1 x y = rotSS y x) := by
  refine ⟨?_, ?_, ?_, fun _ _ => rfl⟩ <;>
  · intro x y
    fin_cases x <;> fin_cases y <;> simp [Fin.sum_univ_two, rotS1, rotSS] <;> norm_num

end QV.Prop
