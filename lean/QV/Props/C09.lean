import QV.Model.C09Cfg
import QV.Lemmas.Bridge
import Mathlib.Algebra.Order.Ring.Rat
import Mathlib.Algebra.BigOperators.Group.Finset.Basic
import Mathlib.Data.Complex.Basic
import Mathlib.Tactic.Ring
import Mathlib.Tactic.Abel
import Mathlib.Tactic.SplitIfs
import Mathlib.Tactic.Linarith
import Mathlib.Data.Nat.ModEq
import Mathlib.Data.Fintype.BigOperators
import Mathlib.Tactic.Zify

/-!
# C09 — bath correlation functions add linearly and carry consistent parameters
Theorems about the model `QV.C09`; the switches of the model (`Cfg`) are re-extracted from
`quantarhei/qm/corfunctions/{correlationfunctions,spectraldensities}.py` on every run.
-/
namespace QV.C09
open QV.Gen.C09

/-! ## the extracted switches say what the theorems need (finite, by `decide`) -/

/-- a configuration under which components are built from their own parameters, accumulated, and
rebuilt in internal units, with refusals that leave the operands alone -/
structure Good (cfg : Cfg) : Prop where
  own : ∀ k, cfg.own k = true
  accData : ∀ k, cfg.accData k = true
  accLamb : ∀ k, cfg.accLamb k = true
  checkFirst : cfg.checkFirst = true
  rebuildInt : cfg.rebuildInt = true

theorem getD_all (l : List Bool) (h : l.all id = true) (k : Nat) : l.getD k true = true := by
  rw [List.getD_eq_getElem?_getD]
  cases hk : l[k]? with
  | none => rfl
  | some b =>
    have hm : b ∈ l := List.mem_of_getElem? hk
    have := List.all_eq_true.mp h b hm
    simpa using this

theorem cf_tables_good : cfOwn.all id = true ∧ cfAccData.all id = true ∧ cfAccLamb.all id = true ∧
    cfCheckFirst = true ∧ cfRebuildInt = true ∧ cfCheckTemp = true := by decide
theorem sd_tables_good : sdOwn.all id = true ∧ sdAccData.all id = true ∧ sdAccLamb.all id = true ∧
    sdRebuildInt = true := by decide

theorem cfCfg_good : Good cfCfg :=
  ⟨getD_all _ cf_tables_good.1, getD_all _ cf_tables_good.2.1, getD_all _ cf_tables_good.2.2.1,
   cf_tables_good.2.2.2.1, cf_tables_good.2.2.2.2.1⟩
theorem sdCfg_good : Good sdCfg :=
  ⟨getD_all _ sd_tables_good.1, getD_all _ sd_tables_good.2.1, getD_all _ sd_tables_good.2.2.1,
   rfl, sd_tables_good.2.2.2⟩
theorem cfCfg_checks : cfCfg.checkTemp = true := cf_tables_good.2.2.2.2.2

section
variable {V : Type} [AddCommMonoid V]

/-! ## consistency of an object with its component list -/

/-- `x` is the cutoff of the list: the largest of 0 and the components' contributions -/
def IsCut (x : Rat) (ps : List Comp) : Prop :=
  0 ≤ x ∧ (∀ c ∈ ps, c.cut ≤ x) ∧ (x = 0 ∨ ∃ c ∈ ps, c.cut = x)

/-- the object is what its parameter list says -/
structure Consistent (cfg : Cfg) (gD gL : Comp → V) (f : Fn V) : Prop where
  data : f.data = total gD f.params
  lamb : f.lamb = total gL f.params
  conv : ∀ c ∈ f.params, c.conv = 0
  temp : cfg.checkTemp = true → ∀ c ∈ f.params, f.temp = some c.temp
  tempNil : cfg.checkTemp = true → f.params = [] → f.temp = none
  cut : IsCut f.cut f.params

theorem total_append (g : Comp → V) (l₁ l₂ : List Comp) : total g (l₁ ++ l₂) = total g l₁ + total g l₂ := by
  induction l₁ with
  | nil => simp [total]
  | cons c cs ih => simp [total, ih, add_assoc]

theorem rmax_eq (a b : Rat) : rmax a b = max a b := by
  unfold rmax
  split_ifs with h
  · exact (max_eq_right (le_of_lt h)).symm
  · exact (max_eq_left (not_lt.mp h)).symm

theorem isCut_nil : IsCut 0 [] := ⟨le_refl _, by simp, Or.inl rfl⟩

theorem isCut_append {x y : Rat} {l₁ l₂ : List Comp} (h₁ : IsCut x l₁) (h₂ : IsCut y l₂) :
    IsCut (rmax x y) (l₁ ++ l₂) := by
  rw [rmax_eq]
  refine ⟨le_trans h₁.1 (le_max_left _ _), ?_, ?_⟩
  · intro c hc
    rcases List.mem_append.mp hc with h | h
    · exact le_trans (h₁.2.1 c h) (le_max_left _ _)
    · exact le_trans (h₂.2.1 c h) (le_max_right _ _)
  · rcases le_total x y with hxy | hxy
    · rw [max_eq_right hxy]
      rcases h₂.2.2 with h0 | ⟨c, hc, e⟩
      · exact Or.inl h0
      · exact Or.inr ⟨c, List.mem_append_right _ hc, e⟩
    · rw [max_eq_left hxy]
      rcases h₁.2.2 with h0 | ⟨c, hc, e⟩
      · exact Or.inl h0
      · exact Or.inr ⟨c, List.mem_append_left _ hc, e⟩

theorem isCut_snoc {x : Rat} {l : List Comp} (h : IsCut x l) (c : Comp) (hc : 0 ≤ c.cut) :
    IsCut (rmax x c.cut) (l ++ [c]) := by
  apply isCut_append h
  exact ⟨hc, by simp, Or.inr ⟨c, by simp, rfl⟩⟩

/-! ## the constructor -/

/-- state of the object under construction after the makers of a prefix `done` of the list ran -/
structure Partial (cfg : Cfg) (gD gL : Comp → V) (done : List Comp) (f : Fn V) : Prop where
  data : f.data = total gD done
  lamb : f.lamb = total gL done
  temp : cfg.checkTemp = true → ∀ c ∈ done, f.temp = some c.temp
  tempNil : cfg.checkTemp = true → done = [] → f.temp = none
  cut : IsCut f.cut done

theorem makeComp_ok {cfg : Cfg} (hg : Good cfg) (gD gL : Comp → V) (last : Comp) {done : List Comp}
    {f f' : Fn V} {c : Comp} (hc : 0 ≤ c.cut) (hp : Partial cfg gD gL done f)
    (h : makeComp cfg gD gL last f c = .ok f') :
    Partial cfg gD gL (done ++ [c]) f' ∧ f'.params = f.params ∧ c.valued = false := by
  unfold makeComp at h
  simp only [hg.own, hg.accData, hg.accLamb, if_true] at h
  split_ifs at h with hv hct
  · -- checkTemp
    have hv' : c.valued = false := by simpa using hv
    cases hft : f.temp with
    | none =>
      rw [hft] at h
      simp only [Except.ok.injEq] at h
      subst h
      refine ⟨⟨?_, ?_, ?_, ?_, ?_⟩, rfl, hv'⟩
      · simp [total_append, total, hp.data]
      · simp [total_append, total, hp.lamb]
      · intro hc' d hd
        rcases List.mem_append.mp hd with hd | hd
        · have := hp.temp hc' d hd
          rw [hft] at this
          cases this
        · simp at hd
          simp [hd]
      · intro _ hnil
        simp at hnil
      · exact isCut_snoc hp.cut c hc
    | some t =>
      rw [hft] at h
      simp only at h
      split_ifs at h with hne
      simp only [Except.ok.injEq] at h
      subst h
      have hte : t = c.temp := by simpa using hne
      refine ⟨⟨?_, ?_, ?_, ?_, ?_⟩, rfl, hv'⟩
      · simp [total_append, total, hp.data]
      · simp [total_append, total, hp.lamb]
      · intro hc' d hd
        rcases List.mem_append.mp hd with hd | hd
        · have := hp.temp hc' d hd
          rw [hft] at this
          simpa using this
        · simp at hd
          simp [hd, hte]
      · intro _ hnil
        simp at hnil
      · exact isCut_snoc hp.cut c hc
  · have hv' : c.valued = false := by simpa using hv
    simp only [Except.ok.injEq] at h
    subst h
    refine ⟨⟨?_, ?_, ?_, ?_, ?_⟩, rfl, hv'⟩
    · simp [total_append, total, hp.data]
    · simp [total_append, total, hp.lamb]
    · intro hc'
      exact absurd hc' hct
    · intro hc'
      exact absurd hc' hct
    · exact isCut_snoc hp.cut c hc

theorem makeAll_ok {cfg : Cfg} (hg : Good cfg) (gD gL : Comp → V) (last : Comp) :
    ∀ (cs done : List Comp) (f f' : Fn V), (∀ c ∈ cs, 0 ≤ c.cut) → Partial cfg gD gL done f →
      makeAll cfg gD gL last f cs = .ok f' →
      Partial cfg gD gL (done ++ cs) f' ∧ f'.params = f.params ∧ ∀ c ∈ cs, c.valued = false := by
  intro cs
  induction cs with
  | nil =>
    intro done f f' _ hp h
    simp only [makeAll, Except.ok.injEq] at h
    subst h
    simpa using hp
  | cons c cs ih =>
    intro done f f' hpos hp h
    simp only [makeAll] at h
    cases hm : makeComp cfg gD gL last f c with
    | error e => rw [hm] at h; cases h
    | ok f1 =>
      rw [hm] at h
      obtain ⟨hp1, hpar1, hv1⟩ := makeComp_ok hg gD gL last (hpos c (by simp)) hp hm
      obtain ⟨hp2, hpar2, hv2⟩ := ih (done ++ [c]) f1 f' (fun d hd => hpos d (by simp [hd])) hp1 h
      refine ⟨by simpa using hp2, hpar2.trans hpar1, ?_⟩
      intro d hd
      rcases List.mem_cons.mp hd with rfl | hd
      · exact hv1
      · exact hv2 d hd

theorem partial_empty (cfg : Cfg) (gD gL : Comp → V) : Partial cfg gD gL [] (empty : Fn V) :=
  ⟨rfl, rfl, by simp, fun _ _ => rfl, isCut_nil⟩

theorem convert_false (ps : List Comp) : ps.map (convert false) = ps := by
  induction ps with
  | nil => rfl
  | cons c cs ih => simp [convert, ih]

/-- **the constructor builds the sum of its components**: whenever it returns, the object has the
given list as `params`, `data = Σ gen`, `lamb = Σ λ`, one temperature shared by all components and
the largest cutoff; nothing in the list is value-defined -/
theorem build_consistent {cfg : Cfg} (hg : Good cfg) (gD gL : Comp → V) (ps : List Comp) (f : Fn V)
    (hpos : ∀ c ∈ ps, 0 ≤ c.cut) (hconv : ∀ c ∈ ps, c.conv = 0)
    (h : build cfg gD gL false ps = .ok f) :
    Consistent cfg gD gL f ∧ f.params = ps ∧ ∀ c ∈ ps, c.valued = false := by
  unfold build at h
  simp only [convert_false] at h
  cases hl : ps.getLast? with
  | none =>
    rw [hl] at h
    simp only [Except.ok.injEq] at h
    subst h
    have : ps = [] := List.getLast?_eq_none_iff.mp hl
    subst this
    exact ⟨⟨rfl, rfl, by simp [empty], by simp [empty], fun _ _ => rfl, isCut_nil⟩, rfl, by simp⟩
  | some l =>
    rw [hl] at h
    simp only at h
    cases hm : makeAll cfg gD gL l empty ps with
    | error e => rw [hm] at h; cases h
    | ok f1 =>
      rw [hm] at h
      simp only [Except.ok.injEq] at h
      subst h
      obtain ⟨hp, _, hv⟩ := makeAll_ok hg gD gL l ps [] empty f1 hpos (partial_empty cfg gD gL) hm
      simp only [List.nil_append] at hp
      exact ⟨⟨hp.data, hp.lamb, hconv, hp.temp, hp.tempNil, hp.cut⟩, rfl, hv⟩

/-! ## addition -/

/-- `a + b` as a function of the two objects (`__add__`: rebuild `a` from its list, `add_to_data(b)`) -/
def plus (cfg : Cfg) (gD gL : Comp → V) (ctx : Bool) (a b : Fn V) : Except Err (Fn V) :=
  match build cfg gD gL (rebuildCtx cfg ctx) a.params with
  | .error e => .error e
  | .ok f => match addToData cfg f b with
    | (_, some e) => .error e
    | (r, none) => .ok r

theorem step_add_eq (cfg : Cfg) (gD gL : Comp → V) (s : Store V) (i j : Nat) (ctx : Bool) (a b : Fn V)
    (hi : s[i]? = some a) (hj : s[j]? = some b) :
    step cfg gD gL s (.add i j ctx) =
      match plus cfg gD gL ctx a b with
      | .ok r => (s ++ [r], none)
      | .error e => (s, some e) := by
  simp only [step, hi, hj, plus]
  cases build cfg gD gL (rebuildCtx cfg ctx) a.params with
  | error e => rfl
  | ok f =>
    simp only
    rcases h : addToData cfg f b with ⟨r, _ | e⟩ <;> simp

theorem rebuildCtx_good {cfg : Cfg} (hg : Good cfg) (ctx : Bool) : rebuildCtx cfg ctx = false := by
  simp [rebuildCtx, hg.rebuildInt]

theorem pos_of_cut {x : Rat} {ps : List Comp} (_h : IsCut x ps) (hp : ∀ c ∈ ps, 0 ≤ c.cut) : ∀ c ∈ ps, 0 ≤ c.cut := hp

/-- all cutoff contributions are non-negative (they are `5·τ` or `5/γ` of positive times) -/
def PosCuts (f : Fn V) : Prop := ∀ c ∈ f.params, 0 ≤ c.cut

theorem addToData_consistent {cfg : Cfg} (gD gL : Comp → V) {f g r : Fn V}
    (hf : Consistent cfg gD gL f) (hgc : Consistent cfg gD gL g)
    (h : addToData cfg f g = (r, none)) :
    Consistent cfg gD gL r ∧ r.params = f.params ++ g.params ∧ r.data = f.data + g.data ∧
      r.lamb = f.lamb + g.lamb := by
  unfold addToData at h
  split_ifs at h with hc
  · simp at h
  · simp at h
  · simp only [Prod.mk.injEq, and_true] at h
    subst h
    refine ⟨⟨?_, ?_, ?_, ?_, ?_, ?_⟩, rfl, rfl, rfl⟩
    · simp [total_append, hf.data, hgc.data]
    · simp [total_append, hf.lamb, hgc.lamb]
    · intro c hc'
      rcases List.mem_append.mp hc' with h | h
      · exact hf.conv c h
      · exact hgc.conv c h
    · intro hct c hc'
      have hte : f.temp = g.temp := by
        by_contra hne
        exact hc (by simp [hct, hne])
      rcases List.mem_append.mp hc' with h | h
      · exact hf.temp hct c h
      · simpa [hte] using hgc.temp hct c h
    · intro hct hnil
      have : f.params = [] := (List.append_eq_nil_iff.mp hnil).1
      exact hf.tempNil hct this
    · exact isCut_append hf.cut hgc.cut

/-- **the sum object**: whenever `a + b` returns, its parameter list is the concatenation, its data
the sum of the data, its reorganisation energy the sum of the reorganisation energies, and it is
again consistent - in any units context -/
theorem plus_spec {cfg : Cfg} (hg : Good cfg) (gD gL : Comp → V) (ctx : Bool) {a b r : Fn V}
    (ha : Consistent cfg gD gL a) (hb : Consistent cfg gD gL b) (hpa : PosCuts a)
    (h : plus cfg gD gL ctx a b = .ok r) :
    Consistent cfg gD gL r ∧ r.params = a.params ++ b.params ∧ r.data = a.data + b.data ∧
      r.lamb = a.lamb + b.lamb := by
  unfold plus at h
  rw [rebuildCtx_good hg] at h
  cases hbd : build cfg gD gL false a.params with
  | error e => rw [hbd] at h; cases h
  | ok f =>
    rw [hbd] at h
    simp only at h
    obtain ⟨hfc, hfp, _⟩ := build_consistent hg gD gL a.params f hpa ha.conv hbd
    rcases hadd : addToData cfg f b with ⟨r', _ | e⟩
    · rw [hadd] at h
      simp only [Except.ok.injEq] at h
      subst h
      obtain ⟨hc, hp, hd, hl⟩ := addToData_consistent gD gL hfc hb hadd
      refine ⟨hc, by rw [hp, hfp], ?_, ?_⟩
      · rw [hd, hfc.data, hfp, ← ha.data]
      · rw [hl, hfc.lamb, hfp, ← ha.lamb]
    · rw [hadd] at h
      cases h

/-- **any grouping gives the same function**: `(a+b)+c` and `a+(b+c)` have the same data, the same
reorganisation energy and the same component list -/
theorem plus_assoc {cfg : Cfg} (hg : Good cfg) (gD gL : Comp → V) (c₁ c₂ c₃ c₄ : Bool) {a b c ab bc l r : Fn V}
    (ha : Consistent cfg gD gL a) (hb : Consistent cfg gD gL b) (hc : Consistent cfg gD gL c)
    (hpa : PosCuts a) (hpb : PosCuts b)
    (h1 : plus cfg gD gL c₁ a b = .ok ab) (h2 : plus cfg gD gL c₂ ab c = .ok l)
    (h3 : plus cfg gD gL c₃ b c = .ok bc) (h4 : plus cfg gD gL c₄ a bc = .ok r) :
    l.data = r.data ∧ l.lamb = r.lamb ∧ l.params = r.params := by
  obtain ⟨hab, pab, dab, lab⟩ := plus_spec hg gD gL c₁ ha hb hpa h1
  have hpab : PosCuts ab := by
    intro x hx
    rw [pab] at hx
    rcases List.mem_append.mp hx with h | h
    · exact hpa x h
    · exact hpb x h
  obtain ⟨_, pl, dl, ll⟩ := plus_spec hg gD gL c₂ hab hc hpab h2
  obtain ⟨hbc, pbc, dbc, lbc⟩ := plus_spec hg gD gL c₃ hb hc hpb h3
  obtain ⟨_, pr, dr, lr⟩ := plus_spec hg gD gL c₄ ha hbc hpa h4
  refine ⟨?_, ?_, ?_⟩
  · rw [dl, dab, dr, dbc, add_assoc]
  · rw [ll, lab, lr, lbc, add_assoc]
  · rw [pl, pab, pr, pbc, List.append_assoc]

/-- **components at different temperatures are refused** and the operands stay as they were -/
theorem plus_refuses {cfg : Cfg} (hg : Good cfg) (hct : cfg.checkTemp = true) (gD gL : Comp → V) (ctx : Bool)
    {a b : Fn V} (ha : Consistent cfg gD gL a) (hpa : PosCuts a) (hne : a.params ≠ [])
    (ht : a.temp ≠ b.temp) : ∃ e, plus cfg gD gL ctx a b = .error e := by
  unfold plus
  rw [rebuildCtx_good hg]
  cases hbd : build cfg gD gL false a.params with
  | error e => exact ⟨e, rfl⟩
  | ok f =>
    simp only
    obtain ⟨hfc, hfp, _⟩ := build_consistent hg gD gL a.params f hpa ha.conv hbd
    obtain ⟨c, hc⟩ := List.exists_mem_of_ne_nil _ hne
    have e1 : f.temp = some c.temp := hfc.temp hct c (by rw [hfp]; exact hc)
    have e2 : a.temp = some c.temp := ha.temp hct c hc
    have hft : f.temp ≠ b.temp := by rw [e1, ← e2]; exact ht
    refine ⟨.temp, ?_⟩
    simp [addToData, hct, hft, hg.checkFirst]

/-- a refused in-place addition leaves the left operand exactly as it was -/
theorem addToData_refusal_keeps {cfg : Cfg} (hg : Good cfg) (f g r : Fn V) (e : Err)
    (h : addToData cfg f g = (r, some e)) : r = f := by
  unfold addToData at h
  simp only [hg.checkFirst, if_true] at h
  split_ifs at h
  · simp only [Prod.mk.injEq] at h
    exact h.1.symm
  · simp at h

/-- **when the rebuild succeeds**: no value-defined component on the left and equal temperatures
are all that is needed -/
theorem makeAll_succeeds {cfg : Cfg} (hg : Good cfg) (gD gL : Comp → V) (last : Comp) (t : Rat) :
    ∀ (cs : List Comp) (f : Fn V), (∀ c ∈ cs, c.valued = false) → (∀ c ∈ cs, c.temp = t) →
      (f.temp = none ∨ f.temp = some t) → ∃ f', makeAll cfg gD gL last f cs = .ok f' := by
  intro cs
  induction cs with
  | nil => intro f _ _ _; exact ⟨f, rfl⟩
  | cons c cs ih =>
    intro f hv ht hf
    have hvc : c.valued = false := hv c (by simp)
    have htc : c.temp = t := ht c (by simp)
    simp only [makeAll]
    have : ∃ f1, makeComp cfg gD gL last f c = .ok f1 ∧ (f1.temp = none ∨ f1.temp = some t) := by
      unfold makeComp
      simp only [hvc, hg.own, hg.accData, hg.accLamb, if_true, Bool.false_eq_true, if_false]
      split_ifs with hct
      · rcases hf with h | h
        · rw [h]; exact ⟨_, rfl, Or.inr (by simp [htc])⟩
        · rw [h]
          simp only [htc, ne_eq, not_true_eq_false, if_false]
          exact ⟨_, rfl, Or.inr rfl⟩
      · exact ⟨_, rfl, Or.inr (by simp [htc])⟩
    obtain ⟨f1, e1, hf1⟩ := this
    rw [e1]
    exact ih f1 (fun d hd => hv d (by simp [hd])) (fun d hd => ht d (by simp [hd])) hf1

theorem plus_succeeds {cfg : Cfg} (hg : Good cfg) (gD gL : Comp → V) (ctx : Bool) {a b : Fn V}
    (ha : Consistent cfg gD gL a) (hpa : PosCuts a) (hct : cfg.checkTemp = true)
    (hv : ∀ c ∈ a.params, c.valued = false) (ht : a.temp = b.temp) :
    ∃ r, plus cfg gD gL ctx a b = .ok r := by
  unfold plus
  rw [rebuildCtx_good hg]
  have hb : ∃ f, build cfg gD gL false a.params = .ok f ∧ f.temp = a.temp := by
    unfold build
    simp only [convert_false]
    cases hl : a.params.getLast? with
    | none =>
      have : a.params = [] := List.getLast?_eq_none_iff.mp hl
      exact ⟨_, rfl, by simp [empty, ha.tempNil hct this]⟩
    | some l =>
      simp only
      have hne : a.params ≠ [] := by
        intro h; rw [h] at hl; simp at hl
      obtain ⟨c0, hc0⟩ := List.exists_mem_of_ne_nil _ hne
      have hall : ∀ c ∈ a.params, c.temp = c0.temp := by
        intro c hc
        have h1 := ha.temp hct c hc
        have h2 := ha.temp hct c0 hc0
        rw [h1] at h2
        exact Option.some.inj h2
      obtain ⟨f', hf'⟩ := makeAll_succeeds hg gD gL l c0.temp a.params empty hv hall (Or.inl rfl)
      rw [hf']
      refine ⟨_, rfl, ?_⟩
      obtain ⟨hp, _, _⟩ := makeAll_ok hg gD gL l a.params [] empty f' hpa (partial_empty cfg gD gL) hf'
      simp only [List.nil_append] at hp
      show f'.temp = a.temp
      rw [hp.temp hct c0 hc0, ha.temp hct c0 hc0]
  obtain ⟨f, hf, hft⟩ := hb
  rw [hf]
  simp only
  have : addToData cfg f b =
      ((⟨f.params ++ b.params, f.data + b.data, f.lamb + b.lamb, f.temp, rmax f.cut b.cut⟩ : Fn V), none) := by
    unfold addToData
    simp [hft, ht]
  rw [this]
  exact ⟨_, rfl⟩

/-! ## in-place addition and whole programs -/

/-- the statement only introduces components with non-negative cutoff contributions whose
parameters were converted once -/
def StmtOK : Stmt → Prop
  | .new ps => ∀ c ∈ ps, 0 ≤ c.cut ∧ c.conv = 0
  | .newValued c => 0 ≤ c.cut ∧ c.conv = 0
  | _ => True

def StoreOK (cfg : Cfg) (gD gL : Comp → V) (s : Store V) : Prop :=
  ∀ f ∈ s, Consistent cfg gD gL f ∧ PosCuts f

theorem posCuts_append {a b r : Fn V} (ha : PosCuts a) (hb : PosCuts b) (h : r.params = a.params ++ b.params) :
    PosCuts r := by
  intro x hx
  rw [h] at hx
  rcases List.mem_append.mp hx with h | h
  · exact ha x h
  · exact hb x h

theorem storeOK_snoc {cfg : Cfg} {gD gL : Comp → V} {s : Store V} {f : Fn V}
    (hs : StoreOK cfg gD gL s) (hf : Consistent cfg gD gL f ∧ PosCuts f) : StoreOK cfg gD gL (s ++ [f]) := by
  intro g hg
  rcases List.mem_append.mp hg with h | h
  · exact hs g h
  · simp at h
    rw [h]
    exact hf

theorem storeOK_set {cfg : Cfg} {gD gL : Comp → V} {s : Store V} {f : Fn V} (i : Nat)
    (hs : StoreOK cfg gD gL s) (hf : Consistent cfg gD gL f ∧ PosCuts f) : StoreOK cfg gD gL (s.set i f) := by
  intro g hg
  rcases List.mem_or_eq_of_mem_set hg with h | h
  · exact hs g h
  · rw [h]
    exact hf

theorem rebuild_ok {cfg : Cfg} (hg : Good cfg) (gD gL : Comp → V) (ctx : Bool) {a f : Fn V}
    (ha : Consistent cfg gD gL a ∧ PosCuts a)
    (h : build cfg gD gL (rebuildCtx cfg ctx) a.params = .ok f) :
    (Consistent cfg gD gL f ∧ PosCuts f) ∧ f.params = a.params ∧ f.data = a.data ∧ f.lamb = a.lamb := by
  rw [rebuildCtx_good hg] at h
  obtain ⟨hc, hp, _⟩ := build_consistent hg gD gL a.params f ha.2 ha.1.conv h
  refine ⟨⟨hc, ?_⟩, hp, ?_, ?_⟩
  · intro x hx
    rw [hp] at hx
    exact ha.2 x hx
  · rw [hc.data, hp, ← ha.1.data]
  · rw [hc.lamb, hp, ← ha.1.lamb]

/-- **`copy()` and the rebuild inside `+` reproduce the object**, in any units context -/
theorem copy_spec {cfg : Cfg} (hg : Good cfg) (gD gL : Comp → V) (ctx : Bool) {a f : Fn V}
    (ha : Consistent cfg gD gL a ∧ PosCuts a)
    (h : build cfg gD gL (rebuildCtx cfg ctx) a.params = .ok f) :
    f.params = a.params ∧ f.data = a.data ∧ f.lamb = a.lamb := (rebuild_ok hg gD gL ctx ha h).2

theorem addToData_ok {cfg : Cfg} (hg : Good cfg) (gD gL : Comp → V) {f g : Fn V}
    (hf : Consistent cfg gD gL f ∧ PosCuts f) (hgc : Consistent cfg gD gL g ∧ PosCuts g) :
    Consistent cfg gD gL (addToData cfg f g).1 ∧ PosCuts (addToData cfg f g).1 := by
  rcases h : addToData cfg f g with ⟨r, _ | e⟩
  · obtain ⟨hc, hp, _, _⟩ := addToData_consistent gD gL hf.1 hgc.1 h
    exact ⟨hc, posCuts_append hf.2 hgc.2 hp⟩
  · have := addToData_refusal_keeps hg f g r e h
    simp only
    rw [this]
    exact hf

/-- **every statement keeps every object consistent with its component list** -/
theorem step_consistent {cfg : Cfg} (hg : Good cfg) (gD gL : Comp → V) (s : Store V) (st : Stmt)
    (hs : StoreOK cfg gD gL s) (hst : StmtOK st) : StoreOK cfg gD gL (step cfg gD gL s st).1 := by
  cases st with
  | new ps =>
    simp only [step]
    cases hb : build cfg gD gL false ps with
    | error e => exact hs
    | ok f =>
      obtain ⟨hc, hp, _⟩ := build_consistent hg gD gL ps f (fun c hc => (hst c hc).1) (fun c hc => (hst c hc).2) hb
      refine storeOK_snoc hs ⟨hc, ?_⟩
      intro x hx
      rw [hp] at hx
      exact (hst x hx).1
  | newValued c =>
    simp only [step]
    refine storeOK_snoc hs ⟨⟨?_, ?_, ?_, ?_, ?_, ?_⟩, ?_⟩
    · simp [total]
    · simp [total]
    · intro d hd
      simp at hd
      rw [hd]
      exact hst.2
    · intro _ d hd
      simp at hd
      rw [hd]
    · intro _ h
      simp at h
    · exact ⟨hst.1, by simp, Or.inr ⟨c, by simp, rfl⟩⟩
    · intro d hd
      simp at hd
      rw [hd]
      exact hst.1
  | add i j ctx =>
    cases hi : s[i]? with
    | none => simp only [step, hi]; exact hs
    | some a =>
      cases hj : s[j]? with
      | none => simp only [step, hi, hj]; exact hs
      | some b =>
        rw [step_add_eq cfg gD gL s i j ctx a b hi hj]
        have ha := hs a (List.mem_of_getElem? hi)
        have hb := hs b (List.mem_of_getElem? hj)
        cases hp : plus cfg gD gL ctx a b with
        | error e => exact hs
        | ok r =>
          obtain ⟨hc, hpar, _, _⟩ := plus_spec hg gD gL ctx ha.1 hb.1 ha.2 hp
          exact storeOK_snoc hs ⟨hc, posCuts_append ha.2 hb.2 hpar⟩
  | iadd i j ctx =>
    cases hi : s[i]? with
    | none => simp only [step, hi]; exact hs
    | some a =>
      cases hj : s[j]? with
      | none => simp only [step, hi, hj]; exact hs
      | some b =>
        have ha := hs a (List.mem_of_getElem? hi)
        have hb := hs b (List.mem_of_getElem? hj)
        simp only [step, hi, hj]
        split_ifs with hij
        · cases hbd : build cfg gD gL (rebuildCtx cfg ctx) b.params with
          | error e => exact hs
          | ok o =>
            have ho := (rebuild_ok hg gD gL ctx hb hbd).1
            exact storeOK_set i hs (addToData_ok hg gD gL ha ho)
        · exact storeOK_set i hs (addToData_ok hg gD gL ha hb)
  | copy i ctx =>
    cases hi : s[i]? with
    | none => simp only [step, hi]; exact hs
    | some a =>
      have ha := hs a (List.mem_of_getElem? hi)
      simp only [step, hi]
      cases hbd : build cfg gD gL (rebuildCtx cfg ctx) a.params with
      | error e => exact hs
      | ok f => exact storeOK_snoc hs (rebuild_ok hg gD gL ctx ha hbd).1

/-- **for every program** (every history of constructions, additions in any grouping, in-place
additions including `x += x`, copies, refused additions in between, in any units context) every
object of the store has `data = Σ` of the generators of its component list, `lamb = Σ` of their
reorganisation energies, a single temperature and the largest cutoff -/
theorem run_consistent {cfg : Cfg} (hg : Good cfg) (gD gL : Comp → V) :
    ∀ (prog : List Stmt) (s : Store V), StoreOK cfg gD gL s → (∀ st ∈ prog, StmtOK st) →
      StoreOK cfg gD gL (run cfg gD gL s prog) := by
  intro prog
  induction prog with
  | nil => intro s hs _; exact hs
  | cons st rest ih =>
    intro s hs hok
    simp only [run]
    exact ih _ (step_consistent hg gD gL s st hs (hok st (by simp))) (fun t ht => hok t (by simp [ht]))

theorem run_consistent_cf (gD gL : Comp → V) (prog : List Stmt) (hok : ∀ st ∈ prog, StmtOK st) :
    StoreOK cfCfg gD gL (run cfCfg gD gL [] prog) :=
  run_consistent cfCfg_good gD gL prog [] (by intro f hf; cases hf) hok
theorem run_consistent_sd (gD gL : Comp → V) (prog : List Stmt) (hok : ∀ st ∈ prog, StmtOK st) :
    StoreOK sdCfg gD gL (run sdCfg gD gL [] prog) :=
  run_consistent sdCfg_good gD gL prog [] (by intro f hf; cases hf) hok

/-- in-place addition of another object: the left operand becomes the sum -/
theorem iadd_spec {cfg : Cfg} (gD gL : Comp → V) (s : Store V) (i j : Nat) (ctx : Bool) (a b : Fn V)
    (hij : i ≠ j) (hi : s[i]? = some a) (hj : s[j]? = some b)
    (hok : (step cfg gD gL s (.iadd i j ctx)).2 = none) :
    ∃ r, (step cfg gD gL s (.iadd i j ctx)).1 = s.set i r ∧ r.data = a.data + b.data ∧
      r.lamb = a.lamb + b.lamb ∧ r.params = a.params ++ b.params := by
  simp only [step, hi, hj, if_neg hij] at hok ⊢
  refine ⟨(addToData cfg a b).1, rfl, ?_⟩
  unfold addToData at hok ⊢
  split_ifs at hok ⊢ <;> simp_all

/-- `x += x` doubles the object (the right operand is rebuilt from the list first) -/
theorem iadd_self_spec {cfg : Cfg} (hg : Good cfg) (gD gL : Comp → V) (s : Store V) (i : Nat) (ctx : Bool)
    (a : Fn V) (ha : Consistent cfg gD gL a ∧ PosCuts a) (hi : s[i]? = some a)
    (hok : (step cfg gD gL s (.iadd i i ctx)).2 = none) :
    ∃ r, (step cfg gD gL s (.iadd i i ctx)).1 = s.set i r ∧ r.data = a.data + a.data ∧
      r.lamb = a.lamb + a.lamb ∧ r.params = a.params ++ a.params := by
  simp only [step, hi, if_true] at hok ⊢
  cases hbd : build cfg gD gL (rebuildCtx cfg ctx) a.params with
  | error e => rw [hbd] at hok; simp at hok
  | ok o =>
    rw [hbd] at hok
    obtain ⟨_, hp, hd, hl⟩ := rebuild_ok hg gD gL ctx ha hbd
    refine ⟨(addToData cfg a o).1, rfl, ?_⟩
    unfold addToData at hok ⊢
    split_ifs at hok ⊢ <;> simp_all

end

/-! ## even and odd Fourier parts -/
section fourier
open Finset QV.C13
variable {α : Type} [CommRing α]

/-- index reflection `m ↦ (n − m) mod n` -/
def refl {n : Nat} (m : Fin n) : Fin n := ⟨(n - m.val) % n, Nat.mod_lt _ (Nat.lt_of_le_of_lt (Nat.zero_le _) m.isLt)⟩

theorem refl_refl {n : Nat} (m : Fin n) : refl (refl m) = m := by
  apply Fin.ext
  simp only [refl]
  have hm := m.isLt
  by_cases h0 : m.val = 0
  · simp [h0]
  · have e1 : (n - m.val) % n = n - m.val := Nat.mod_eq_of_lt (by omega)
    rw [e1]
    have e2 : n - (n - m.val) = m.val := by omega
    rw [e2]
    exact Nat.mod_eq_of_lt hm

theorem refl_mul_modEq {n : Nat} (k m : Fin n) : (refl k).val * (refl m).val ≡ k.val * m.val [MOD n] := by
  have hk := k.isLt
  have hm := m.isLt
  simp only [refl]
  have h1 : (n - k.val) % n ≡ n - k.val [MOD n] := Nat.mod_modEq _ _
  have h2 : (n - m.val) % n ≡ n - m.val [MOD n] := Nat.mod_modEq _ _
  refine (Nat.ModEq.mul h1 h2).trans ?_
  obtain ⟨p, hp⟩ : ∃ p, n = k.val + p := ⟨n - k.val, by omega⟩
  obtain ⟨q, hq⟩ : ∃ q, n = m.val + q := ⟨n - m.val, by omega⟩
  have ep : n - k.val = p := by omega
  have eq : n - m.val = q := by omega
  rw [ep, eq]
  have key : p * q + n * (k.val + m.val) = k.val * m.val + n * n := by
    have hp' : (p : ℤ) = n - k.val := by omega
    have hq' : (q : ℤ) = n - m.val := by omega
    zify
    rw [hp', hq']
    ring
  unfold Nat.ModEq
  calc p * q % n = (p * q + n * (k.val + m.val)) % n := (Nat.add_mul_mod_self_left _ _ _).symm
    _ = (k.val * m.val + n * n) % n := by rw [key]
    _ = k.val * m.val % n := Nat.add_mul_mod_self_left _ _ _

/-- **reflection of the discrete Fourier sum**: the value at `−k` is the sum over the reflected sequence -/
theorem dft_refl {n : Nat} (ζ : α) (x : Fin n → α) (k : Fin n) :
    dft ζ x (refl k) = ∑ m, x (refl m) * npow ζ ((k.val * m.val) % n) := by
  unfold dft
  rw [sumFin_eq_sum]
  have hbij : Function.Bijective (refl : Fin n → Fin n) :=
    Function.Involutive.bijective refl_refl
  refine (Fintype.sum_bijective refl hbij _ _ ?_).symm
  intro m
  congr 2
  exact (refl_mul_modEq k m).symm

/-- the transform of a sequence that is symmetric under `m ↦ −m` is even -/
theorem dft_even {n : Nat} (ζ : α) (x : Fin n → α) (hx : ∀ m, x (refl m) = x m) (k : Fin n) :
    dft ζ x (refl k) = dft ζ x k := by
  rw [dft_refl]
  unfold dft
  rw [sumFin_eq_sum]
  exact Finset.sum_congr rfl (fun m _ => by rw [hx m])

/-- the transform of a sequence that is antisymmetric away from index 0 is odd up to `2·x[0]` -/
theorem dft_odd {n : Nat} (hn : 0 < n) (ζ : α) (x : Fin n → α)
    (hx : ∀ m : Fin n, m.val ≠ 0 → x (refl m) = - x m) (k : Fin n) :
    dft ζ x (refl k) + dft ζ x k = 2 * x ⟨0, hn⟩ := by
  rw [dft_refl]
  unfold dft
  rw [sumFin_eq_sum, ← Finset.sum_add_distrib]
  rw [Finset.sum_eq_single (⟨0, hn⟩ : Fin n)]
  · have : refl (⟨0, hn⟩ : Fin n) = ⟨0, hn⟩ := by apply Fin.ext; simp [refl]
    simp [this, npow, two_mul]
  · intro m _ hm
    have hm0 : m.val ≠ 0 := fun h => hm (Fin.ext h)
    rw [hx m hm0]
    ring
  · intro h
    exact absurd (Finset.mem_univ _) h

/-- the completed sequence of `get_Fourier_transform` (upper-half axis) of data with
`conj y = y` is symmetric -/
theorem completeUpper_sym {N : Nat} (star : α → α) (y : Fin N → α) (hy : ∀ i, star (y i) = y i)
    (m : Fin (2 * N)) : completeUpper star y (refl m) = completeUpper star y m := by
  have hm := m.isLt
  unfold completeUpper refl
  simp only
  by_cases h0 : m.val = 0
  · simp [h0]
  · have e1 : (2 * N - m.val) % (2 * N) = 2 * N - m.val := Nat.mod_eq_of_lt (by omega)
    simp only [e1]
    by_cases h1 : m.val < N
    · have : ¬ (2 * N - m.val < N) := by omega
      have h3 : ¬ (2 * N - m.val = N) := by omega
      simp only [this, h3, h1, dite_false, dite_true]
      have : (⟨2 * N - (2 * N - m.val), by omega⟩ : Fin N) = ⟨m.val, h1⟩ := by apply Fin.ext; simp; omega
      rw [this, hy]
    · by_cases h2 : m.val = N
      · have e3 : 2 * N - N = N := by omega
        simp [h2, e3]
      · have h4 : 2 * N - m.val < N := by omega
        simp only [h4, h1, h2, dite_false, dite_true]
        rw [hy]

/-- ... and of data with `conj y = −y` antisymmetric away from index 0 -/
theorem completeUpper_antisym {N : Nat} (star : α → α) (y : Fin N → α) (hy : ∀ i, star (y i) = - y i)
    (m : Fin (2 * N)) (h0 : m.val ≠ 0) : completeUpper star y (refl m) = - completeUpper star y m := by
  have hm := m.isLt
  unfold completeUpper refl
  simp only
  have e1 : (2 * N - m.val) % (2 * N) = 2 * N - m.val := Nat.mod_eq_of_lt (by omega)
  simp only [e1]
  by_cases h1 : m.val < N
  · have : ¬ (2 * N - m.val < N) := by omega
    have h3 : ¬ (2 * N - m.val = N) := by omega
    simp only [this, h3, h1, dite_false, dite_true]
    have : (⟨2 * N - (2 * N - m.val), by omega⟩ : Fin N) = ⟨m.val, h1⟩ := by apply Fin.ext; simp; omega
    rw [this, hy]
  · by_cases h2 : m.val = N
    · have e3 : 2 * N - N = N := by omega
      simp [h2, e3]
    · have h4 : 2 * N - m.val < N := by omega
      simp only [h4, h1, h2, dite_false, dite_true]
      rw [hy, neg_neg]

/-- data index `N + q` of the shifted transform holds Fourier index `q`, `N − q` holds `−q` -/
theorem fftshift_upper {N : Nat} (G : Fin (2 * N) → α) (q : Nat) (hq : q < N) (hq0 : 0 < q) :
    fftshift G ⟨N + q, by omega⟩ = G ⟨q, by omega⟩ ∧
    fftshift G ⟨N - q, by omega⟩ = G (refl ⟨q, by omega⟩) := by
  unfold fftshift roll refl
  have e : 2 * N / 2 = N := by omega
  have e2 : N % (2 * N) = N := Nat.mod_eq_of_lt (by omega)
  constructor
  · congr 1
    apply Fin.ext
    simp only [e, e2]
    have : N + q + 2 * N - N = q + 2 * N := by omega
    rw [this]
    simp [Nat.mod_eq_of_lt (show q < 2 * N by omega)]
  · congr 1
    apply Fin.ext
    simp only [e, e2]
    have : N - q + 2 * N - N = 2 * N - q := by omega
    rw [this]

/-- **the even Fourier part is even in frequency**: `EvenFTCorrelationFunction.data[N+q] = data[N−q]`
for every length `N` and every real correlation data -/
theorem even_part_is_even {N : Nat} (star : α → α) (ζ dt : α) (y : Fin N → α) (hy : ∀ i, star (y i) = y i)
    (q : Nat) (hq : q < N) (hq0 : 0 < q) :
    ftUpper star ζ dt y ⟨N + q, by omega⟩ = ftUpper star ζ dt y ⟨N - q, by omega⟩ := by
  unfold ftUpper
  obtain ⟨e1, e2⟩ := fftshift_upper (dft ζ (completeUpper star y)) q hq hq0
  rw [e1, e2, dft_even ζ _ (completeUpper_sym star y hy)]

/-- **the odd Fourier part**: for purely imaginary data (`conj y = −y`) the values at `±q` add up to
`2·y[0]·dt`, a purely imaginary number whose real part - the stored data - is zero -/
theorem odd_part_sum {N : Nat} (star : α → α) (ζ dt : α) (y : Fin N → α) (hy : ∀ i, star (y i) = - y i)
    (q : Nat) (hq : q < N) (hq0 : 0 < q) :
    ftUpper star ζ dt y ⟨N - q, by omega⟩ + ftUpper star ζ dt y ⟨N + q, by omega⟩
      = 2 * y ⟨0, by omega⟩ * dt := by
  unfold ftUpper
  obtain ⟨e1, e2⟩ := fftshift_upper (dft ζ (completeUpper star y)) q hq hq0
  rw [e1, e2, ← add_mul, dft_odd (by omega) ζ _ (completeUpper_antisym star y hy)]
  congr 2
  simp [completeUpper, show 0 < N by omega]

/-- **the odd Fourier part is odd in frequency**: `OddFTCorrelationFunction.data[N−q] = −data[N+q]`
(the data are the real parts) for a real time step and purely imaginary input -/
theorem odd_part_is_odd {N : Nat} (ζ : ℂ) (dt : ℝ) (y : Fin N → ℂ) (hy : ∀ i, (y i).re = 0)
    (q : Nat) (hq : q < N) (hq0 : 0 < q) :
    (ftUpper (starRingEnd ℂ) ζ (dt : ℂ) y ⟨N - q, by omega⟩).re
      = - (ftUpper (starRingEnd ℂ) ζ (dt : ℂ) y ⟨N + q, by omega⟩).re := by
  have hy' : ∀ i, (starRingEnd ℂ) (y i) = - y i := by
    intro i
    apply Complex.ext <;> simp [hy i]
  have := congrArg Complex.re (odd_part_sum (starRingEnd ℂ) ζ (dt : ℂ) y hy' q hq hq0)
  simp only [Complex.add_re] at this
  have h0 : (2 * y ⟨0, by omega⟩ * (dt : ℂ)).re = 0 := by
    simp [Complex.mul_re, hy]
  rw [h0] at this
  linarith

/-- the even part is real and even for real input over ℂ -/
theorem even_part_is_even_complex {N : Nat} (ζ : ℂ) (dt : ℝ) (y : Fin N → ℂ) (hy : ∀ i, (y i).im = 0)
    (q : Nat) (hq : q < N) (hq0 : 0 < q) :
    (ftUpper (starRingEnd ℂ) ζ (dt : ℂ) y ⟨N + q, by omega⟩).re
      = (ftUpper (starRingEnd ℂ) ζ (dt : ℂ) y ⟨N - q, by omega⟩).re := by
  have hy' : ∀ i, (starRingEnd ℂ) (y i) = y i := by
    intro i
    apply Complex.ext <;> simp [hy i]
  rw [even_part_is_even (starRingEnd ℂ) ζ (dt : ℂ) y hy' q hq hq0]

end fourier
end QV.C09
