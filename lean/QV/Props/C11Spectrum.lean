import QV.Props.C11
import Mathlib.Algebra.BigOperators.Group.Finset.Basic
import Mathlib.Logic.Equiv.Fintype

/-!
# C11 — the assembled spectrum and its symmetry relations

`AbsSpectrumCalculator._calculate_aggregate` builds the spectrum as

  `A(j) = Σ_a |D_a|² · line(c_a, ω_a)(j)`,   `D_a = Σ_k S[k,a] d_k`,   `c_a = Σ_kl S[k,a]² S[l,a]² C_kl`

(`DD.dipole_strength(0,a)`, `_excitonic_coft`, `one_transition_spectrum`).  The line-shape map
`line` (cumulant exponent, `hfft`, slicing — the index map of `QV.Props.C11`) is left abstract: the
relations below hold for every such map.  That the code assembles the spectrum in exactly this way is
what the harness checks sample by sample (`calculate(raw=True)` against `Σ_a |D_a|²·(Fourier sum of
a_a(t))`).
-/
namespace QV.C11
open QV Finset

section
variable {α : Type} [CommRing α] {T J : Type}

/-- `_excitonic_coft`: participation-weighted matrix of site correlation functions -/
def excCoft {n : Nat} (S : Fin n → Fin n → α) (c : Fin n → Fin n → T → α) (a : Fin n) : T → α :=
  fun t => ∑ k, ∑ l, (S k a) ^ 2 * (S l a) ^ 2 * c k l t

/-- independent baths (`C_kl = 0` for `k ≠ l`): the weights are the fourth powers -/
theorem excCoft_diagonal {n : Nat} (S : Fin n → Fin n → α) (cs : Fin n → T → α) (a : Fin n) (t : T) :
    excCoft S (fun k l => if k = l then cs k else fun _ => 0) a t = ∑ k, (S k a) ^ 4 * cs k t := by
  simp only [excCoft]
  apply Finset.sum_congr rfl; intro k _
  have : ∀ l, S k a ^ 2 * S l a ^ 2 * (if k = l then cs k else fun _ => 0) t
      = if k = l then S k a ^ 4 * cs k t else 0 := by
    intro l; by_cases h : k = l
    · subst h; simp; ring
    · simp [h]
  simp only [this, Finset.sum_ite_eq, Finset.mem_univ, if_true]

/-- the assembled (raw) spectrum -/
def spectrum {n : Nat} (line : (T → α) → α → J → α) (S : Fin n → Fin n → α) (om : Fin n → α)
    (c : Fin n → Fin n → T → α) (d : Fin n → Fin 3 → α) (j : J) : α :=
  ∑ a, strength (excitonDipole S d a) * line (excCoft S c a) (om a) j

theorem excitonDipole_scale {n : Nat} (S : Fin n → Fin n → α) (d : Fin n → Fin 3 → α) (s : α) (a : Fin n) :
    excitonDipole S (fun k i => s * d k i) a = fun i => s * excitonDipole S d a i := by
  funext i
  simp only [excitonDipole, sumFin_eq_sum, Finset.mul_sum]
  apply Finset.sum_congr rfl; intro k _; ring

/-- **dipole scaling**: a common factor `s` on all site dipoles multiplies every sample by `s²` -/
theorem spectrum_scale {n : Nat} (line : (T → α) → α → J → α) (S : Fin n → Fin n → α) (om : Fin n → α)
    (c : Fin n → Fin n → T → α) (d : Fin n → Fin 3 → α) (s : α) (j : J) :
    spectrum line S om c (fun k i => s * d k i) j = s ^ 2 * spectrum line S om c d j := by
  simp only [spectrum, Finset.mul_sum]
  apply Finset.sum_congr rfl; intro a _
  rw [excitonDipole_scale, strength_scale]; ring

theorem excitonDipole_rotate {n : Nat} (S : Fin n → Fin n → α) (d : Fin n → Fin 3 → α)
    (Q : Fin 3 → Fin 3 → α) (a : Fin n) :
    excitonDipole S (fun k => rotate Q (d k)) a = rotate Q (excitonDipole S d a) := by
  funext i
  simp only [excitonDipole, rotate, matVec, sumFin_eq_sum, Finset.mul_sum]
  rw [Finset.sum_comm]
  apply Finset.sum_congr rfl; intro x _
  apply Finset.sum_congr rfl; intro k _; ring

/-- **common rotation** of all dipoles (couplings, hence `S`, `ω`, unchanged — for point-dipole couplings
that is `dot_rotate` applied to the geometry factors): every sample is unchanged -/
theorem spectrum_rotate {n : Nat} (line : (T → α) → α → J → α) (S : Fin n → Fin n → α) (om : Fin n → α)
    (c : Fin n → Fin n → T → α) (d : Fin n → Fin 3 → α) (Q : Fin 3 → Fin 3 → α)
    (hQ : ∀ i j, ∑ k, Q k i * Q k j = if i = j then 1 else 0) (j : J) :
    spectrum line S om c (fun k => rotate Q (d k)) j = spectrum line S om c d j := by
  simp only [spectrum]
  apply Finset.sum_congr rfl; intro a _
  rw [excitonDipole_rotate, strength_rotate Q hQ]

/-- **relabelling of the molecules**: the same system with its sites listed in another order (`σ`):
rows of the eigenvector matrix, dipoles and baths are permuted together; every sample is unchanged -/
theorem spectrum_relabel {n : Nat} (line : (T → α) → α → J → α) (S : Fin n → Fin n → α) (om : Fin n → α)
    (c : Fin n → Fin n → T → α) (d : Fin n → Fin 3 → α) (σ : Equiv.Perm (Fin n)) (j : J) :
    spectrum line (fun k a => S (σ k) a) om (fun k l => c (σ k) (σ l)) (fun k => d (σ k)) j
      = spectrum line S om c d j := by
  simp only [spectrum]
  apply Finset.sum_congr rfl; intro a _
  have h1 : excitonDipole (fun k a => S (σ k) a) (fun k => d (σ k)) a = excitonDipole S d a := by
    funext i
    simp only [excitonDipole, sumFin_eq_sum]
    exact Equiv.sum_comp σ (fun k => S k a * d k i)
  have h2 : excCoft (fun k a => S (σ k) a) (fun k l => c (σ k) (σ l)) a = excCoft S c a := by
    funext t
    simp only [excCoft]
    rw [← Equiv.sum_comp σ (fun k => ∑ l, S k a ^ 2 * S l a ^ 2 * c k l t)]
    apply Finset.sum_congr rfl; intro k _
    exact Equiv.sum_comp σ (fun l => S (σ k) a ^ 2 * S l a ^ 2 * c (σ k) l t)
  rw [h1, h2]

/-- the order in which the eigenstates come out of the diagonalisation (e.g. among degenerate ones) does
not matter either -/
theorem spectrum_reorder_excitons {n : Nat} (line : (T → α) → α → J → α) (S : Fin n → Fin n → α)
    (om : Fin n → α) (c : Fin n → Fin n → T → α) (d : Fin n → Fin 3 → α) (π : Equiv.Perm (Fin n)) (j : J) :
    spectrum line (fun k a => S k (π a)) (fun a => om (π a)) c d j = spectrum line S om c d j := by
  simp only [spectrum]
  have : ∀ a, strength (excitonDipole (fun k a => S k (π a)) d a)
        * line (excCoft (fun k a => S k (π a)) c a) (om (π a)) j
      = (fun b => strength (excitonDipole S d b) * line (excCoft S c b) (om b) j) (π a) := by
    intro a; rfl
  simp only [this]
  exact Equiv.sum_comp π (fun b => strength (excitonDipole S d b) * line (excCoft S c b) (om b) j)

/-- **sum rule for the integral**: when every line integrates (sums over the returned samples) to the same
value `I` — the raw spectrum without the frequency prefactor: `I = 2π/Δω`-normalised area of
`Re ∫ e^{-g(t)} e^{i(ω-ω_a)t}dt`, independent of `a` — the integral of the spectrum is `I·Σ_k |d_k|²`
whatever the couplings (orthogonal `S`) -/
theorem spectrum_integral [Fintype J] {n : Nat} (line : (T → α) → α → J → α) (S : Fin n → Fin n → α)
    (hS : ∀ k l, ∑ a, S k a * S l a = if k = l then 1 else 0) (om : Fin n → α) (c : Fin n → Fin n → T → α)
    (d : Fin n → Fin 3 → α) (I : α) (hI : ∀ a, ∑ j, line (excCoft S c a) (om a) j = I) :
    ∑ j, spectrum line S om c d j = I * ∑ k, strength (d k) := by
  simp only [spectrum]
  rw [Finset.sum_comm]
  have : ∀ a, ∑ j, strength (excitonDipole S d a) * line (excCoft S c a) (om a) j
      = strength (excitonDipole S d a) * I := by
    intro a; rw [← Finset.mul_sum, hI a]
  simp only [this]
  rw [← Finset.sum_mul, sum_rule S hS d]; ring

/-- uncoupled sites (`S = 1`): the spectrum is the sum of the monomer lines -/
theorem spectrum_uncoupled {n : Nat} (line : (T → α) → α → J → α) (om : Fin n → α) (c : Fin n → Fin n → T → α)
    (d : Fin n → Fin 3 → α) (j : J) :
    spectrum line (fun k a => if k = a then (1 : α) else 0) om c d j
      = ∑ a, strength (d a) * line (c a a) (om a) j := by
  simp only [spectrum]
  apply Finset.sum_congr rfl; intro a _
  have h1 : excitonDipole (fun k a => if k = a then (1 : α) else 0) d a = d a := by
    funext i; simp [excitonDipole, sumFin_eq_sum, Finset.sum_ite_eq']
  have h2 : excCoft (fun k a => if k = a then (1 : α) else 0) c a = c a a := by
    funext t
    simp only [excCoft]
    have : ∀ k l, (if k = a then (1 : α) else 0) ^ 2 * (if l = a then (1 : α) else 0) ^ 2 * c k l t
        = if k = a then (if l = a then c k l t else 0) else 0 := by
      intro k l; by_cases h : k = a <;> by_cases h' : l = a <;> simp [h, h']
    simp only [this]
    rw [Finset.sum_eq_single a (by intro k _ hk; simp [hk]) (by simp)]
    rw [Finset.sum_eq_single a (by intro l _ hl; simp [hl]) (by simp)]
    simp
  rw [h1, h2]
end

/-- non-vacuity: a two-site system over ℤ with an explicit line map -/
example : spectrum (n := 2) (T := Unit) (J := Unit) (fun cf w _ => cf () + w)
    (fun k a => if k = a then (1 : Int) else 0) (fun a => ((a : Nat) : Int)) (fun k l _ => if k = l then ((k : Nat) : Int) + 1 else 0)
    (fun k i => if (i : Nat) = (k : Nat) then 2 else 0) () = 4 * 1 + 4 * 3 := by decide

end QV.C11
