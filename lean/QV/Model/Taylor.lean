import QV.Core.Tab
/-!
The short-exponential ("short-exp-L") time stepping shared by the population,
density-matrix, state-vector, HEOM and evolution-superoperator propagators:

    for ll in range(1, L+1):
        rho1 = (dt/ll) * GEN(rho1)
        rho2 = rho2 + rho1
    rho1 = rho2

`gen c x` stands for `c * GEN(x)` (materialised by the caller), `add` for `+`.
-/
namespace QV

/-- inner loop started at expansion index `l`, `cnt` more terms -/
def taylorLoop {X K : Type} [Div K] [NatCast K] (gen : K → X → X) (add : X → X → X) (dt : K) :
    Nat → Nat → X → X → X
  | _, 0, _, r2 => r2
  | l, cnt + 1, r1, r2 =>
    let r1' := gen (dt / (l : K)) r1
    taylorLoop gen add dt (l + 1) cnt r1' (add r2 r1')

/-- one elementary time step with an expansion of order `L` -/
def taylorStep {X K : Type} [Div K] [NatCast K] (gen : K → X → X) (add : X → X → X) (dt : K) (L : Nat)
    (x : X) : X :=
  taylorLoop gen add dt 1 L x x

/-- `n` elementary steps -/
def taylorSteps {X K : Type} [Div K] [NatCast K] (gen : K → X → X) (add : X → X → X) (dt : K) (L : Nat) :
    Nat → X → X
  | 0, x => x
  | n + 1, x => taylorSteps gen add dt L n (taylorStep gen add dt L x)

/-- the stored trajectory: `Nt` points, `Nref` elementary steps between stored points -/
def taylorTrajectory {X K : Type} [Div K] [NatCast K] (gen : K → X → X) (add : X → X → X) (dt : K)
    (L Nref : Nat) : Nat → X → List X
  | 0, _ => []
  | nt + 1, x => x :: taylorTrajectory gen add dt L Nref nt (taylorSteps gen add dt L Nref x)

end QV
