import QV.Core.Num
import QV.Model.C13
open QV QV.C13

instance : OfNat Rat 2 := ⟨2⟩
instance : One GRat := ⟨⟨1, 0⟩⟩

def showF (w : FAxis Rat) : String :=
  s!"{showRat w.start} {w.len} {showRat w.step} {if w.upper then 1 else 0} {showRat w.tstart}"
def showT (t : TAxis Rat) : String :=
  s!"{showRat t.start} {t.len} {showRat t.step} {if t.upper then 1 else 0} {showRat t.fstart}"

def stepD (_ : Unit) (ts : List String) : Unit × String :=
  match ts with
  | ["tofreq", up, st, ln, sp, fs] =>
    match parseRat? st, ln.toNat?, parseRat? sp, parseRat? fs with
    | some st, some ln, some sp, some fs =>
      ((), showF (toFreq { start := st, len := ln, step := sp, upper := up == "1", fstart := fs }))
    | _, _, _, _ => ((), "bad-op")
  | ["totime", up, st, ln, sp, tsr] =>
    match parseRat? st, ln.toNat?, parseRat? sp, parseRat? tsr with
    | some st, some ln, some sp, some tsr =>
      match toTime { start := st, len := ln, step := sp, upper := up == "1", tstart := tsr } with
      | some t => ((), showT t)
      | none => ((), "refused")
    | _, _, _, _ => ((), "bad-op")
  | op :: n :: rest =>
    match n.toNat?, parseGRats? rest with
    | some n, some vals =>
      if vals.length = n + 2 then
        let a := vals.toArray
        let dt := a[0]!
        let z := a[1]!
        let y : Fin n → GRat := (VecD.tab (vecOfArray n (a.extract 2 (n + 2)))).fn
        if op == "ft" then ((), " ".intercalate ((listOfVec (ftComplete z dt y)).map GRat.show_))
        else if op == "ftu" then ((), " ".intercalate ((listOfVec (ftUpper GRat.conj z dt y)).map GRat.show_))
        else if op == "iftu" then
          if n % 2 = 0 then
            let F : Fin (2 * (n / 2)) → GRat := (VecD.tab (vecOfArray (2 * (n / 2)) (a.extract 2 (n + 2)))).fn
            ((), " ".intercalate ((listOfVec (iftUpper z dt F)).map GRat.show_))
          else ((), "bad-op")
        else if op == "ds" then ((), " ".intercalate ((listOfVec (directSum z dt y)).map GRat.show_))
        else ((), "bad-op")
      else ((), "bad-op")
    | _, _ => ((), "bad-op")
  | _ => ((), "bad-op")

def main : IO Unit := runDriver stepD ()
