import QV.Core.Num
import QV.Core.Tab
import QV.Model.C18
open QV QV.C18 QV.Gen.C18

def showRats (l : List Rat) : String := " ".intercalate (l.map showRat)

def splitBar (ts : List String) : List (List String) :=
  let (acc, cur) := ts.foldl (fun (p : List (List String) × List String) t =>
    if t == "|" then (p.1 ++ [p.2], []) else (p.1, p.2 ++ [t])) ([], [])
  acc ++ [cur]

def flatMat {N C : Nat} (f : Fin N → Fin C → Rat) : List Rat :=
  (List.finRange N).flatMap (fun i => (List.finRange C).map (f i))

def step' (_ : Unit) (ts : List String) : Unit × String :=
  match ts with
  | "pack1" :: n :: "|" :: rest =>
    match n.toNat?, (splitBar rest).mapM parseRats? with
    | some n, some [a, d] =>
      if a.length = n ∧ d.length = n then
        ((), "2 | " ++ showRats (flatMat (pack1 (vecOfArray n a.toArray) (vecOfArray n d.toArray))))
      else ((), "bad-op")
    | _, _ => ((), "bad-op")
  | "pack2" :: n :: m :: "|" :: rest =>
    match n.toNat?, m.toNat?, (splitBar rest).mapM parseRats? with
    | some n, some m, some [a, d] =>
      if a.length = n ∧ d.length = n * m then
        ((), s!"{m + 1} | " ++ showRats (flatMat (pack2 m (vecOfArray n a.toArray) (matOfArray n m d.toArray))))
      else ((), "bad-op")
    | _, _, _ => ((), "bad-op")
  | "extract" :: n :: c :: "|" :: rest =>
    match n.toNat?, c.toNat?, parseRats? rest with
    | some n, some c, some f =>
      if f.length = n * c then
        match extract c (matOfArray n c f.toArray : Fin n → Fin c → Rat) with
        | none => ((), "refused")
        | some (ax, .r1 d) => ((), "r1 | " ++ showRats ((List.finRange n).map ax) ++ " | " ++ showRats ((List.finRange n).map d))
        | some (ax, .r2 m d) => ((), s!"r2 {m} | " ++ showRats ((List.finRange n).map ax) ++ " | " ++ showRats (flatMat d))
      else ((), "bad-op")
    | _, _, _ => ((), "bad-op")
  | ["dispatch", ext] =>
    match saveTable.lookup ext, loadTable.lookup ext with
    | some w, some r => ((), s!"{w} {r} {accepted.contains ext} {acceptedLoad.contains ext}")
    | _, _ => ((), s!"unknown {accepted.contains ext} {acceptedLoad.contains ext}")
  | ["readable", b, d] =>
    match b.toNat?, d.toNat? with
    | some b, some d => ((), if readable b d then "yes" else "no")
    | _, _ => ((), "bad-op")
  | _ => ((), "bad-op")

def main : IO Unit := runDriver step' ()
