"""C06 - rates and bath functions obey detailed balance and conserve probability."""
import math
from qvh.core import *

DRIVER = "C06"
PROPS = "QV.Props.C06"
# numerical-accuracy clauses of the statement ("within the accuracy of the numerical half-Fourier transform / integration"):
GOLDEN_RTOL = 0.05        # downhill rate vs (1+coth)J, inside the resolved window
WINDOW_CM = (40.0, 700.0)  # transition frequencies compared with the analytic value (time step 1 fs, 2000 points)
FINT_ATOL = 2.0e-2        # fs, absolute accuracy of the Foerster integral (line-shape functions are stored as complex64)
FINT_RTOL = 2.0e-2


def run(ck):
    import numpy
    qr = import_quantarhei()
    from quantarhei import Molecule, Aggregate, TimeAxis, CorrelationFunction, SpectralDensity, energy_units, eigenbasis_of, convert
    from quantarhei.qm import RedfieldRateMatrix
    from quantarhei.qm.liouvillespace.rates.foersterrates import FoersterRateMatrix, _fintegral
    from quantarhei.qm.liouvillespace.rates.tdredfieldrates import TDRedfieldRateMatrix
    from quantarhei.qm.corfunctions.correlationfunctions import c2g
    from quantarhei.core.units import kB_intK, kB_int, cm2int
    rng = ck.rng
    ck.rule = ("aggregates of 2-5 two-level molecules (site energies 12000 +- 300 1/cm, couplings from {0, +-30, +-80, 150, 250} 1/cm, one "
               "overdamped or underdamped Brownian bath per site with its own reorganisation energy 10-150 1/cm and correlation time "
               "40-150 fs, temperatures 30-600 K, a far-detuned site beyond the 3000 1/cm cut-off in some): RedfieldRateMatrix.data "
               "compared element by element with the rational Lean model fed with the code's eigenvalues, eigenvectors, system operators, "
               "tabulated Re cw(|w|) and Boltzmann factors (1e-11 of the largest rate); oracles: column sums, signs, ground state decoupled, "
               "k(a<-b)/k(b<-a) = exp(-(E_a-E_b)/kT) to 1e-9, downhill rates of the rate matrix and of the tensor (read inside "
               "eigenbasis_of) against sum_n c_na^2 c_nb^2 (1+coth(w/2kT)) J_n(w) to 5% (15% with underdamped baths, whose correlation "
               "function is itself a numerical transform) for 40 < w < 700 1/cm and T >= 77 K, Foerster column sums and detailed balance "
               "w.r.t. E_n - lambda_n up to 2e-2 fs / 2% of the Foerster integral for pairs whose integrand has decayed below 1e-4 on the axis and T >= 77 K, the same rate matrix from a second "
               "evaluation on the same objects; spectral densities odd and C(-w) = exp(-w/kT) C(w) to 1e-9 on the whole axis; "
               "non-trivial = system with unequal reorganisation energies or >= 3 sites")
    ck.trusted += ["harness/c06.py: eigenvalues/eigenvectors (numpy.linalg.eigh, inv), the spline values Re cw.at(w) of the FFT-transformed "
                   "correlation functions and numpy.exp are computed by the harness exactly as _set_rates does and handed to the model as tables",
                   "hand model QV/Model/C06.lean validated on generated systems",
                   "accuracy of the numerical transforms (FFT + spline, spline antiderivative, complex64 line-shape functions) is measured "
                   "against the analytic golden-rule value / the Boltzmann ratio, not proved"]
    ck.prove(PROPS, extra_modules=["QV.Drive.C06"])
    ta = TimeAxis(0.0, 2000, 1.0)
    lines, impl = [], []

    def make(n, energies, coup, baths, T, refused_addition_first=False):
        with energy_units("1/cm"):
            mols = []
            for k in range(n):
                m = Molecule([0.0, energies[k]])
                kind, lam, par = baths[k]
                if kind == "OB":
                    p = dict(ftype="OverdampedBrownian", reorg=lam, cortime=par, T=T, matsubara=60)
                else:
                    p = dict(ftype="UnderdampedBrownian", reorg=lam, freq=par[0], gamma=par[1], T=T)
                cf = CorrelationFunction(ta, p)
                if refused_addition_first:
                    # the script tried to add a function of another temperature to this bath function, was refused, and goes on with it
                    try:
                        cf += CorrelationFunction(ta, dict(ftype="OverdampedBrownian", reorg=55.0, cortime=70.0, T=(77.0 if T != 77.0 else 300.0), matsubara=60))
                    except Exception:
                        pass
                m.set_transition_environment((0, 1), cf)
                mols.append(m)
            agg = Aggregate(mols)
            for i in range(n):
                for j in range(i + 1, n):
                    agg.set_resonance_coupling(i, j, coup[i][j])
        agg.build()
        return agg

    def J_analytic(bath, w):
        kind, lam, par = bath
        l = float(convert(lam, "1/cm", "int"))
        if kind == "OB":
            return (2.0 * l / par) * w / (w ** 2 + (1.0 / par) ** 2)
        w0, g = float(convert(par[0], "1/cm", "int")), float(convert(par[1], "1/cm", "int"))
        return (2.0 * l * g) * (w0 ** 2) * (w / ((w ** 2 - w0 ** 2) ** 2 + w ** 2 * g ** 2))

    nsys = ck.n(10, 80)
    for s in range(nsys):
        n = rng.choice([2, 2, 3, 3, 4, 5]) if not ck.quick else rng.choice([2, 3, 3, 4])
        T = rng.choice([30.0, 77.0, 150.0, 300.0, 600.0])
        energies = [12000.0 + rng.randint(-300, 300) for _ in range(n)]
        far = rng.random() < 0.2
        if far:
            energies[-1] += 3400.0              # beyond the 3000 1/cm frequency cut-off
        coup = [[0.0] * n for _ in range(n)]
        for i in range(n):
            for j in range(i + 1, n):
                coup[i][j] = coup[j][i] = rng.choice([0.0, 30.0, -30.0, 80.0, -80.0, 150.0, 250.0])
        all_ob = rng.random() < 0.7
        baths = []
        for k in range(n):
            lam = rng.choice([10.0, 20.0, 40.0, 80.0, 150.0])
            if all_ob or rng.random() < 0.5:
                baths.append(("OB", lam, rng.choice([40.0, 60.0, 100.0, 150.0])))
            else:
                baths.append(("UB", lam, (rng.choice([180.0, 350.0, 520.0]), rng.choice([30.0, 60.0]))))
        if rng.random() < 0.3:
            baths = [baths[0]] * n                # the usual "one bath for all pigments" set-up
        if s == 1:
            # boundary in every run: an exciton gap of many kT - the uphill rate is orders of magnitude below the downhill one
            n, T = 2, 77.0
            energies = [12000.0, 12400.0]
            coup = [[0.0, 60.0], [60.0, 0.0]]
            baths = [("OB", 40.0, 100.0), ("OB", 20.0, 60.0)]
            far = False
        if s == 3:
            # in every run: a coupled trimer with three different overdamped baths whose transition frequencies lie in the window where the
            # golden rule is evaluated (this is also the system whose bath functions went through a refused addition, below)
            n, T = 3, 300.0
            energies = [12000.0, 12180.0, 12330.0]
            coup = [[0.0, 80.0, 30.0], [80.0, 0.0, -80.0], [30.0, -80.0, 0.0]]
            baths = [("OB", 40.0, 100.0), ("OB", 80.0, 60.0), ("OB", 20.0, 150.0)]
            far = False
        inp = {"sites": n, "energies_cm": energies, "couplings_cm": coup, "baths": baths, "T": T}
        unequal = len({b[1] for b in baths}) > 1
        try:
            refused_first = (s % 4 == 3)
            inp["bath_functions_went_through_a_refused_addition"] = refused_first
            agg = make(n, energies, coup, baths, T, refused_addition_first=refused_first)
            ham = agg.get_Hamiltonian()
            sbi = agg.get_SystemBathInteraction()
            RR = RedfieldRateMatrix(ham, sbi)
        except Exception as e:
            ck.fail("raises:RedfieldRateMatrix", "construction raised %r" % (e,), inp)
            continue
        R = numpy.array(RR.data)
        Na = R.shape[0]
        scale = numpy.abs(R).max() or 1.0
        ck.case(("redfield", s), nontrivial=(unequal or n >= 3), kind="redfield", sites=n, T=T, far=far, unequal_lambda=unequal,
                sample=inp if s == 0 else None)
        # ---------------- model: tables exactly as _set_rates prepares them ----------------------------------------
        hD, SS = numpy.linalg.eigh(ham._data)
        S1 = numpy.linalg.inv(SS)
        KK = numpy.array(sbi.KK)
        Nk = sbi.N
        Temp = sbi.CC.get_correlation_function(0, 0).temperature
        kT = kB_intK * Temp
        cwt = numpy.zeros((Nk, Na, Na))
        bz = numpy.zeros((Na, Na))
        cws = []
        for k in range(Nk):
            cw = sbi.CC.get_correlation_function(k, k).get_Fourier_transform()
            cws.append(cw)
            for a in range(Na):
                for b in range(Na):
                    w = hD[a] - hD[b]
                    if w >= 0.0 and abs(w) <= 3000.0 * cm2int:
                        cwt[k, a, b] = numpy.real(cw.at(w, approx="spline"))
        for a in range(Na):
            for b in range(Na):
                w = hD[a] - hD[b]
                bz[a, b] = numpy.exp(-w / kT) if w >= 0 else 0.0
        F = lambda arr: " ".join(frac(x) for x in numpy.asarray(arr, dtype=float).ravel())
        lines.append("redfield %d %d %s %s | %s | %s | %s | %s | %s | %s" % (Na, Nk, frac(3000.0 * cm2int), frac(1.0e-6), F(hD), F(S1), F(SS),
                                                                      F(KK), F(cwt), F(bz)))
        impl.append(("redfield", inp, R, scale))
        # ---------------- oracles ------------------------------------------------------------------------------------
        cs = numpy.abs(R.sum(axis=0)).max()
        ck.resid("redfield column sums / scale", cs / scale)
        if cs > 1e-12 * scale:
            ck.fail("colsum:redfield", "columns of the Redfield rate matrix do not sum to zero", inp, float(cs))
        off = R - numpy.diag(numpy.diag(R))
        if off.min() < 0.0:
            i, j = numpy.unravel_index(numpy.argmin(off), off.shape)
            ck.fail("sign:redfield", "negative off-diagonal Redfield rate", dict(inp, pair=[int(i), int(j)]), float(off.min()))
        if numpy.abs(R[0, :]).max() > 0 or numpy.abs(R[:, 0]).max() > 0:
            ck.fail("ground:redfield", "transfer to or from the ground state", inp, [float(numpy.abs(R[0, :]).max()), float(numpy.abs(R[:, 0]).max())])
        # tensor of the same system (API builds it with the protected-basis pattern)
        Rt = None
        try:
            RT, hamT = agg.get_RelaxationTensor(ta, relaxation_theory="standard_Redfield")
            with eigenbasis_of(hamT):
                Rt = numpy.real(numpy.array([[RT.data[a, a, b, b] for b in range(Na)] for a in range(Na)]))
        except Exception as e:
            ck.fail("raises:tensor", "get_RelaxationTensor raised %r" % (e,), inp)
        for a in range(1, Na):
            for b in range(1, Na):
                if a == b or not (hD[b] > hD[a]):
                    continue
                w = hD[b] - hD[a]
                pin = dict(inp, pair=[a, b], w_cm=float(w / cm2int))
                # detailed balance (by construction: any pair, inside or outside the cut-off)
                if R[a, b] > 0:
                    err = abs(R[b, a] / R[a, b] / math.exp(-w / kT) - 1.0) if math.exp(-w / kT) > 1e-300 else abs(R[b, a])
                    ck.resid("redfield detailed balance (relative)", err)
                    if err > 1e-9:
                        ck.fail("db:redfield", "k(a<-b)/k(b<-a) differs from exp(-(E_a-E_b)/kT)", pin, float(R[b, a] / R[a, b]), math.exp(-w / kT))
                elif R[b, a] != 0:
                    ck.fail("db:redfield", "uphill rate without a downhill rate", pin, [float(R[a, b]), float(R[b, a])])
                # golden rule
                if WINDOW_CM[0] * cm2int < w < WINDOW_CM[1] * cm2int and T >= 77.0:
                    gr = 0.0
                    for k in range(n):
                        gr += SS[k + 1, a] ** 2 * SS[k + 1, b] ** 2 * (1.0 + 1.0 / math.tanh(w / (2.0 * kT))) * J_analytic(baths[k], w)
                    if gr > 1e-3 * scale:
                        # baths whose correlation function is itself produced numerically from the spectral density
                        # (underdamped) carry the error of that transform as well
                        tolg = GOLDEN_RTOL if all(bt[0] == "OB" for bt in baths) else 3 * GOLDEN_RTOL
                        e1 = abs(R[a, b] / gr - 1.0)
                        ck.resid("rate matrix vs golden rule (relative)", e1)
                        if e1 > tolg:
                            ck.fail("golden:matrix", "downhill Redfield rate differs from sum_n c_na^2 c_nb^2 (1+coth(w/2kT)) J_n(w)", pin, float(R[a, b]), gr)
                        if Rt is not None:
                            e2 = abs(Rt[a, b] / gr - 1.0)
                            ck.resid("tensor vs golden rule (relative)", e2)
                            if e2 > tolg:
                                ck.fail("golden:tensor", "R[a,a,b,b] in the eigenstate basis differs from the golden-rule value", pin, float(Rt[a, b]), gr)
        # a second evaluation on the same objects gives the same matrix
        try:
            R2 = numpy.array(RedfieldRateMatrix(ham, sbi).data)
            if numpy.abs(R2 - R).max() > 1e-13 * scale:
                ck.fail("repeat:redfield", "a second RedfieldRateMatrix from the same Hamiltonian and system-bath interaction differs",
                        inp, float(numpy.abs(R2 - R).max()))
            # deferred initialisation (initialize=False) and a recalculation on the same object: the same matrix both times
            Rd = RedfieldRateMatrix(ham, sbi, initialize=False)
            Rd._set_rates(); rd1 = numpy.array(Rd.data).copy()
            Rd._set_rates(); rd2 = numpy.array(Rd.data).copy()
            if numpy.abs(rd1 - R).max() > 1e-13 * scale or numpy.abs(rd2 - R).max() > 1e-13 * scale:
                ck.fail("repeat:redfield:recalculated", "rates calculated with deferred initialisation / calculated a second time on the same object differ from "
                        "those of a new object (columns then no longer sum to zero)", inp,
                        [float(numpy.abs(rd1 - R).max() / scale), float(numpy.abs(rd2 - R).max() / scale), float(numpy.abs(rd2.sum(axis=0)).max() / scale)])
        except Exception as e:
            ck.fail("raises:RedfieldRateMatrix:second", "second construction raised %r" % (e,), inp)
        # the same system with its system-bath interaction put together by hand (correlation-function matrix created with the number of
        # functions preset and explicit function indices, site projectors): the same rates
        try:
            from quantarhei.qm.corfunctions import CorrelationFunctionMatrix
            from quantarhei.qm import SystemBathInteraction, Operator
            cmx = CorrelationFunctionMatrix(ta, n, n)
            for k in range(n):
                cmx.set_correlation_function(sbi.CC.get_correlation_function(k, k), [(k, k)], k + 1)
            opsx = []
            for k in range(n):
                dk = numpy.zeros((Na, Na)); dk[k + 1, k + 1] = 1.0
                opsx.append(Operator(data=dk))
            R3 = numpy.array(RedfieldRateMatrix(ham, SystemBathInteraction(opsx, cmx)).data)
            ck.case(("redfield-explicit-sbi", s), nontrivial=unequal, kind="redfield", sites=n, T=T, far=far, unequal_lambda=unequal)
            if numpy.abs(R3 - R).max() > 1e-9 * scale:
                ck.fail("golden:matrix:hand-built-sbi", "Redfield rates for a system-bath interaction assembled by hand (explicit function indices) differ "
                        "from those of the aggregate's own system-bath interaction with the same bath functions", inp, float(numpy.abs(R3 - R).max() / scale))
            # filled in two steps: the bath of the first site on all sites, then every other site gets its own function
            cmy = CorrelationFunctionMatrix(ta, n)
            cmy.set_correlation_function(sbi.CC.get_correlation_function(0, 0), [(k, k) for k in range(n)])
            for k in range(1, n):
                if sbi.CC.get_correlation_function(k, k) is not sbi.CC.get_correlation_function(0, 0):
                    cmy.set_correlation_function(sbi.CC.get_correlation_function(k, k), [(k, k)])
            sby = SystemBathInteraction(opsx, cmy)
            lam_y = [float(cmy.get_reorganization_energy(k, k)) for k in range(n)]
            lam_0 = [float(sbi.CC.get_reorganization_energy(k, k)) for k in range(n)]
            ck.case(("refilled-sbi", s), nontrivial=unequal, kind="redfield", sites=n, T=T, far=far, unequal_lambda=unequal)
            if max(abs(a_ - b_) for a_, b_ in zip(lam_y, lam_0)) > 1e-12 * max(lam_0):
                ck.fail("foerster:site-reorganisation-energy:refilled-sbi", "site reorganisation energies of a correlation-function matrix filled in two steps (common bath "
                        "first, own baths afterwards) are not those of the functions the sites ended up with", inp, lam_y, lam_0)
            R4 = numpy.array(RedfieldRateMatrix(ham, sby).data)
            if numpy.abs(R4 - R).max() > 1e-9 * scale:
                ck.fail("golden:matrix:refilled-sbi", "Redfield rates for a correlation-function matrix filled in two steps differ from those of the aggregate's own "
                        "system-bath interaction with the same bath functions", inp, float(numpy.abs(R4 - R).max() / scale))
            F0 = numpy.array(FoersterRateMatrix(ham, sbi).data); F4 = numpy.array(FoersterRateMatrix(ham, sby).data)
            if numpy.abs(F4 - F0).max() > 1e-9 * (numpy.abs(F0).max() or 1.0):
                ck.fail("db:foerster:refilled-sbi", "Foerster rates for a correlation-function matrix filled in two steps differ from those of the aggregate's own "
                        "system-bath interaction with the same bath functions", inp, float(numpy.abs(F4 - F0).max() / (numpy.abs(F0).max() or 1.0)))
        except Exception as e:
            ck.fail("raises:RedfieldRateMatrix:hand-built-sbi", "construction from a hand-built system-bath interaction raised %r" % (e,), inp)
        # the tensor built with a cut-off time on axes of different step (the cut-off is a time, not a number of points): same downhill
        # rates as without it when the cut-off lies where the correlation functions have decayed
        if s % 3 == 0 and all(bt[0] == "OB" for bt in baths) and not far:
            try:
                for stepc in (0.5, 2.0):
                    tac = TimeAxis(0.0, int(1200.0 / stepc), stepc)
                    with energy_units("1/cm"):
                        molsc = []
                        for k in range(n):
                            mc = Molecule([0.0, energies[k]])
                            mc.set_transition_environment((0, 1), CorrelationFunction(tac, dict(ftype="OverdampedBrownian", reorg=baths[k][1], cortime=baths[k][2], T=T)))
                            molsc.append(mc)
                        aggc = Aggregate(molsc)
                        for i in range(n):
                            for j in range(i + 1, n):
                                aggc.set_resonance_coupling(i, j, coup[i][j])
                    aggc.build()
                    Rn, hn = aggc.get_RelaxationTensor(tac, relaxation_theory="standard_Redfield")
                    Rc, hc_ = aggc.get_RelaxationTensor(tac, relaxation_theory="standard_Redfield", relaxation_cutoff_time=900.0)
                    with eigenbasis_of(hn):
                        rn = numpy.real(numpy.array([[Rn.data[a, a, b, b] for b in range(Na)] for a in range(Na)]))
                    with eigenbasis_of(hc_):
                        rc = numpy.real(numpy.array([[Rc.data[a, a, b, b] for b in range(Na)] for a in range(Na)]))
                    scc = float(numpy.abs(rn).max()) or 1.0
                    ck.case(("redfield-cutoff", s, stepc), nontrivial=True, kind="redfield", sites=n, T=T, far=far, unequal_lambda=unequal)
                    dvc = float(numpy.abs(rn - rc).max()) / scc
                    ck.resid("population rates of the tensor with a 900 fs cut-off vs without (relative)", dvc)
                    if dvc > 2e-2:
                        ck.fail("golden:tensor:cutoff-time", "population-transfer elements of the Redfield tensor with relaxation_cutoff_time=900 fs (axis step %g fs) "
                                "differ from those without a cut-off although the bath correlation functions have decayed long before" % stepc,
                                dict(inp, axis_step=stepc), dvc, 2e-2)
            except Exception as e:
                ck.fail("raises:tensor:cutoff-time", "tensor with a cut-off time raised %r" % (e,), inp)
        # ---------------- time-dependent rates: probability conservation at every time -------------------------------
        if s % 3 == 0:
            try:
                TR = numpy.array(TDRedfieldRateMatrix(ham, sbi).data)
                cs = numpy.abs(TR.sum(axis=1)).max()
                ck.resid("td redfield column sums / scale", cs / scale)
                if cs > 1e-11 * max(scale, numpy.abs(TR).max()):
                    ck.fail("colsum:tdredfield", "columns of the time-dependent Redfield rate matrix do not sum to zero", inp, float(cs))
                if numpy.abs(TR[:, 0, :]).max() > 0 or numpy.abs(TR[:, :, 0]).max() > 0:
                    ck.fail("ground:tdredfield", "time-dependent transfer to or from the ground state", inp)
                ck.resid("td redfield long-time limit vs static (relative to scale)", numpy.abs(TR[-1] - R).max() / scale)
            except Exception as e:
                ck.fail("raises:TDRedfieldRateMatrix", "raised %r" % (e,), inp)
        # ---------------- Foerster -------------------------------------------------------------------------------------
        try:
            FR = numpy.array(FoersterRateMatrix(ham, sbi).data)
        except Exception as e:
            ck.fail("raises:FoersterRateMatrix", "construction raised %r" % (e,), inp)
            continue
        ck.case(("foerster", s), nontrivial=(unequal or n >= 3), kind="foerster", sites=n, T=T, unequal_lambda=unequal)
        fscale = numpy.abs(FR).max() or 1.0
        cs = numpy.abs(FR.sum(axis=0)).max()
        ck.resid("foerster column sums / scale", cs / fscale)
        if cs > 1e-12 * fscale:
            ck.fail("colsum:foerster", "columns of the Foerster rate matrix do not sum to zero", inp, float(cs))
        HH = numpy.array(ham.data)
        tt = sbi.TimeAxis.data
        gt = numpy.zeros((Na, sbi.TimeAxis.length), dtype=numpy.complex64)
        ll = numpy.zeros(Na)
        for ii in range(1, Na):
            gt[ii, :] = c2g(sbi.TimeAxis, sbi.CC.get_coft(ii - 1, ii - 1))
            ll[ii] = sbi.CC.get_reorganization_energy(ii - 1, ii - 1)
        fint = numpy.zeros((Na, Na))
        for a in range(Na):
            for b in range(Na):
                if a != b:
                    fint[a, b] = _fintegral(tt, gt[a, :], gt[b, :], HH[b, b], HH[a, a], ll[b])
        lines.append("foerster %d | %s | %s" % (Na, F(numpy.real(HH)), F(fint)))
        impl.append(("foerster", inp, FR, fscale))
        for a in range(1, Na):
            for b in range(a + 1, Na):
                if HH[a, b] == 0.0:
                    if FR[a, b] != 0.0 or FR[b, a] != 0.0:
                        ck.fail("foerster:uncoupled", "Foerster transfer between uncoupled sites", dict(inp, pair=[a, b]))
                    continue
                # the integrand exp(-g_a(t)-g_b(t)) must have decayed on the time axis, otherwise the integral is not resolved
                decay = math.exp(-float(numpy.real(gt[a, -1] + gt[b, -1])))
                ck.dist["foerster_pair_resolved=%s" % (decay < 1e-4 and T >= 77.0)] += 1
                if decay >= 1e-4 or T < 77.0:
                    # below 77 K the truncated Matsubara series of the correlation function is itself only approximately thermal
                    continue
                fa, fb = FR[a, b] / HH[a, b] ** 2, FR[b, a] / HH[a, b] ** 2          # the two Foerster integrals
                Ea, Eb = HH[a, a] - ll[a], HH[b, b] - ll[b]
                x = -(Ea - Eb) / kT
                # compare in the direction in which the Boltzmann factor is <= 1
                if x <= 0:
                    lhs, rhs, big = fa, math.exp(x) * fb, fb
                else:
                    lhs, rhs, big = fb, math.exp(-x) * fa, fa
                err = abs(lhs - rhs)
                ck.resid("foerster detailed balance: integral error (fs)", err)
                ck.resid("foerster detailed balance: error / larger integral", err / abs(big) if big else 0.0)
                if err > FINT_ATOL + FINT_RTOL * abs(big):
                    ck.fail("db:foerster", "Foerster rates violate detailed balance with respect to the relaxed site energies E_n - lambda_n",
                            dict(inp, pair=[a, b], lambdas_int=[float(ll[a]), float(ll[b])]), [float(fa), float(fb)], math.exp(x))

    # ---- model vs implementation ----------------------------------------------------------------------------------------
    out = ck.drive(DRIVER, lines)
    if out is not None:
        for (kind, inp, M, scale), line in zip(impl, out):
            try:
                vals = numpy.array([float(parse_frac(t)) for t in line.split()]).reshape(M.shape)
            except Exception:
                ck.disagree("model output unreadable", inp, None, line[:200])
                continue
            dev = numpy.abs(vals - M).max() / scale
            ck.resid("model vs %s rate matrix / scale" % kind, dev)
            if dev > 1e-11:
                i, j = numpy.unravel_index(numpy.argmax(numpy.abs(vals - M)), M.shape)
                ck.disagree("%s rate matrix element" % kind, dict(inp, element=[int(i), int(j)]), float(M[i, j]), float(vals[i, j]))

    # ---- spectral densities are odd; C(-w) = exp(-w/kT) C(w) ------------------------------------------------------------------
    tb = TimeAxis(0.0, ck.n(500, 2000), 2.0)
    for trial in range(ck.n(10, 60)):
        T = rng.choice([20.0, 77.0, 300.0, 600.0])
        comps = []
        for ic_ in range(rng.choice([1, 1, 2, 3])):
            kind = rng.choice(["OverdampedBrownian", "UnderdampedBrownian", "Underdamped", "B777", "CP29"])
            if ic_ == 0:
                kind = ("B777", "OverdampedBrownian", "B777", "UnderdampedBrownian", "CP29", "Underdamped")[trial % 6]    # every form in every run
            lam = rng.choice([10.0, 40.0, 120.0])
            if kind == "OverdampedBrownian":
                comps.append(dict(ftype=kind, reorg=lam, cortime=rng.choice([30.0, 100.0]), T=T))
            elif kind in ("UnderdampedBrownian", "Underdamped"):
                comps.append(dict(ftype=kind, reorg=lam, freq=rng.choice([150.0, 400.0]), gamma=rng.choice([20.0, 50.0]), T=T))
            elif kind == "B777":
                comps.append(dict(ftype=kind, reorg=lam, gamma=30.0, T=T, alternative_form=(rng.random() < 0.5) if ic_ else (trial % 6 == 0)))
            else:
                comps.append(dict(ftype=kind, reorg=lam, gamma=30.0, T=T))
        inp = {"components": comps, "T": T, "axis": [tb.length, tb.step]}
        try:
            with energy_units("1/cm"):
                sd = SpectralDensity(tb, comps[0] if len(comps) == 1 else comps)
            d = numpy.array(sd.data)
            N = tb.length
            ck.case(("sd", trial), nontrivial=True, kind="spectral-density", components=len(comps))
            odd = numpy.abs(d[N + 1:] + d[1:N][::-1]).max() / numpy.abs(d).max()
            ck.resid("spectral density oddness", odd)
            # the frequency axis itself is antisymmetric only up to rounding (1e-14 of its range): near narrow peaks
            # that shows up as 1e-11 of the peak height
            if odd > 1e-9 or abs(d[N]) > 1e-9 * numpy.abs(d).max():
                ck.fail("odd:spectral-density", "spectral density is not odd in frequency", inp, float(odd))
            # the relation at the temperature of the parameters, then (on the same object) at an explicitly requested other one
            T2 = {77.0: 300.0, 300.0: 77.0}.get(T, T + 100.0)
            for Tuse, ft_call, ktag in ((T, lambda: sd.get_FTCorrelationFunction(), "kms:ftcorr"),
                                        (T2, lambda: sd.get_FTCorrelationFunction(temperature=T2), "kms:ftcorr:explicit-temperature"),
                                        # ... and once more without naming a temperature: the object's own temperature again
                                        (T, lambda: sd.get_FTCorrelationFunction(), "kms:ftcorr:after-explicit-temperature")):
                if (Tuse != T or ktag.endswith("after-explicit-temperature")) and trial % 2 == 0:
                    continue
                ft = ft_call()
                if Tuse == T and trial % 2 == 1 and ktag == "kms:ftcorr":
                    # asked for inside a units context: the same function
                    unk = ("1/cm", "eV", "THz")[(trial // 2) % 3]
                    with energy_units(unk):
                        ftu = sd.get_FTCorrelationFunction()
                    dvu = float(numpy.abs(numpy.array(ftu.data) - numpy.array(ft.data)).max() / numpy.abs(numpy.array(ft.data)).max())
                    ck.resid("FT correlation function requested inside a units context vs outside", dvu)
                    if dvu > 1e-12:
                        ck.fail("kms:ftcorr:units-context", "get_FTCorrelationFunction() called inside energy_units(%r) returns other values than outside (the relation "
                                "C(-w) = exp(-w/kT) C(w) holds for at most one of them)" % unk, dict(inp, units=unk), dvu)
                c = numpy.real(numpy.array(ft.data))
                with energy_units("int"):
                    w = numpy.array(ft.axis.data)
                kT = kB_int * Tuse
                pos, neg = c[N + 1:], c[1:N][::-1]
                wp = w[N + 1:]
                # compare in the form C(-w) e^{+w/kT} = C(w) only where the exponential is representable, else C(-w) <= tiny
                x = wp / kT
                ok = x < 600
                err = numpy.abs(neg[ok] - numpy.exp(-x[ok]) * pos[ok]) / numpy.abs(c).max()
                ck.resid("KMS relation |C(-w) - exp(-w/kT) C(w)| / max|C|", err.max())
                # 1 + 1/tanh(-y) cancels to rounding noise (1e-16 of J) once exp(-2y) < 1e-16: the relative form is meaningful
                # only where the Boltzmann factor is well above that
                sel = (numpy.exp(-x[ok]) > 1e-6) & (numpy.abs(pos[ok]) > 1e-6 * numpy.abs(c).max())
                rel = numpy.abs(neg[ok][sel] / (numpy.exp(-x[ok][sel]) * pos[ok][sel]) - 1.0)
                if rel.size:
                    ck.resid("KMS relation, relative (exp(-w/kT) > 1e-6)", rel.max())
                if err.max() > 1e-10 or (rel.size and rel.max() > 1e-6):
                    ck.fail(ktag, "Fourier-transformed correlation function violates C(-w) = exp(-w/kT) C(w) at T = %g K" % Tuse, dict(inp, T_requested=Tuse),
                            [float(err.max()), float(rel.max()) if rel.size else None])
        except Exception as e:
            ck.fail("raises:spectral-density", "raised %r" % (e,), inp)
    return ck.finish()
