import QV.Lemmas.TruncBound

/-!
# C08 — refinement of the internal step when a pure-dephasing factor is applied after every step

With a Lorentzian pure-dephasing object the propagator multiplies, after every internal step of length `h`,
every matrix element by `exp(-γ_ij h)`.  As a superoperator this factor `D` is diagonal with entries in `(0,1]`,
so `‖D‖ ≤ 1` in every norm the statements of `TruncBound` are made for.  `N` internal steps of the code are
`(D · T_L(hG))^N`; the same steps without truncation are `(D · exp(hG))^N`.

* `dephased_steps_within_truncation_bound` — their distance obeys the *same* bound as without dephasing;
* `refinement_with_dephasing` — two refinements `N₁`, `N₂` of one interval differ by at most the sum of their
  bounds plus the distance of the two untruncated products (which is what the harness measures against: the
  clause "refining the internal step changes U only within the truncation bound" is asserted per refinement
  against `(D(h) exp(hG))^N`).

What ties this to the code: `harness/c08.py` (`pure-dephasing:refine`) builds `D(h)` and `G` from the inputs,
takes `U(Δt)` from `EvolutionSuperOperator` and evaluates both sides of the first inequality numerically
(spectral norm; `‖D‖₂ = max exp(-γh) ≤ 1`).
-/
namespace QV.C08
open QV NormedSpace Finset

section
variable {𝔸 : Type} [NormedRing 𝔸] [NormOneClass 𝔸] [NormedAlgebra ℚ 𝔸] [CompleteSpace 𝔸]

theorem norm_exp_le_exp_norm (X : 𝔸) : ‖exp X‖ ≤ Real.exp ‖X‖ := by
  have := norm_exp_sub_taylor_le X 0
  simpa [taylorPoly] using this

/-- one dephased step: truncated vs untruncated -/
theorem dephased_step_close (D X : 𝔸) (hD : ‖D‖ ≤ 1) (n : ℕ) :
    ‖D * taylorPoly n X - D * exp X‖ ≤ Real.exp ‖X‖ - ∑ k ∈ range n, ‖X‖ ^ k / k.factorial := by
  rw [← mul_sub]
  calc ‖D * (taylorPoly n X - exp X)‖ ≤ ‖D‖ * ‖taylorPoly n X - exp X‖ := norm_mul_le _ _
    _ ≤ 1 * ‖taylorPoly n X - exp X‖ := mul_le_mul_of_nonneg_right hD (norm_nonneg _)
    _ = ‖exp X - taylorPoly n X‖ := by rw [one_mul, norm_sub_rev]
    _ ≤ _ := norm_exp_sub_taylor_le X n

theorem norm_dephased_le (D Y : 𝔸) (hD : ‖D‖ ≤ 1) (M : ℝ) (hY : ‖Y‖ ≤ M) : ‖D * Y‖ ≤ M := by
  have hM : 0 ≤ M := le_trans (norm_nonneg Y) hY
  calc ‖D * Y‖ ≤ ‖D‖ * ‖Y‖ := norm_mul_le _ _
    _ ≤ 1 * M := mul_le_mul hD hY (norm_nonneg _) zero_le_one
    _ = M := one_mul M

/-- **`m` dephased internal steps stay within the truncation bound of the expansion** -/
theorem dephased_steps_within_truncation_bound (D X : 𝔸) (hD : ‖D‖ ≤ 1) (n m : ℕ) :
    ‖(D * taylorPoly n X) ^ m - (D * exp X) ^ m‖ ≤
      m * Real.exp ‖X‖ ^ (m - 1) * (Real.exp ‖X‖ - ∑ k ∈ range n, ‖X‖ ^ k / k.factorial) := by
  calc ‖(D * taylorPoly n X) ^ m - (D * exp X) ^ m‖
      ≤ m * Real.exp ‖X‖ ^ (m - 1) * ‖D * taylorPoly n X - D * exp X‖ :=
        norm_pow_sub_pow_le _ _ _ (norm_dephased_le D _ hD _ (norm_taylorPoly_le X n))
          (norm_dephased_le D _ hD _ (norm_exp_le_exp_norm X)) m
    _ ≤ _ := by
        apply mul_le_mul_of_nonneg_left _ (by positivity)
        exact dephased_step_close D X hD n

/-- two refinements of one interval (`m₁` steps with `D₁, X₁`, `m₂` steps with `D₂, X₂`): the computed values differ by
at most the two truncation bounds plus the distance of the untruncated products -/
theorem refinement_with_dephasing (D₁ X₁ D₂ X₂ : 𝔸) (h₁ : ‖D₁‖ ≤ 1) (h₂ : ‖D₂‖ ≤ 1) (n m₁ m₂ : ℕ) :
    ‖(D₁ * taylorPoly n X₁) ^ m₁ - (D₂ * taylorPoly n X₂) ^ m₂‖ ≤
      m₁ * Real.exp ‖X₁‖ ^ (m₁ - 1) * (Real.exp ‖X₁‖ - ∑ k ∈ range n, ‖X₁‖ ^ k / k.factorial)
      + m₂ * Real.exp ‖X₂‖ ^ (m₂ - 1) * (Real.exp ‖X₂‖ - ∑ k ∈ range n, ‖X₂‖ ^ k / k.factorial)
      + ‖(D₁ * exp X₁) ^ m₁ - (D₂ * exp X₂) ^ m₂‖ := by
  have e : (D₁ * taylorPoly n X₁) ^ m₁ - (D₂ * taylorPoly n X₂) ^ m₂
      = ((D₁ * taylorPoly n X₁) ^ m₁ - (D₁ * exp X₁) ^ m₁)
        + (((D₁ * exp X₁) ^ m₁ - (D₂ * exp X₂) ^ m₂)
        - ((D₂ * taylorPoly n X₂) ^ m₂ - (D₂ * exp X₂) ^ m₂)) := by abel
  rw [e]
  have b1 := dephased_steps_within_truncation_bound D₁ X₁ h₁ n m₁
  have b2 := dephased_steps_within_truncation_bound D₂ X₂ h₂ n m₂
  calc _ ≤ ‖(D₁ * taylorPoly n X₁) ^ m₁ - (D₁ * exp X₁) ^ m₁‖
        + ‖((D₁ * exp X₁) ^ m₁ - (D₂ * exp X₂) ^ m₂) - ((D₂ * taylorPoly n X₂) ^ m₂ - (D₂ * exp X₂) ^ m₂)‖ := norm_add_le _ _
    _ ≤ ‖(D₁ * taylorPoly n X₁) ^ m₁ - (D₁ * exp X₁) ^ m₁‖
        + (‖(D₁ * exp X₁) ^ m₁ - (D₂ * exp X₂) ^ m₂‖ + ‖(D₂ * taylorPoly n X₂) ^ m₂ - (D₂ * exp X₂) ^ m₂‖) :=
        add_le_add le_rfl (norm_sub_le _ _)
    _ ≤ _ := by linarith

/-- without dephasing (`D = 1`) the statement is the truncation bound of `TruncBound` -/
example (X : 𝔸) (n m : ℕ) :
    ‖(1 * taylorPoly n X) ^ m - (1 * exp X) ^ m‖ ≤
      m * Real.exp ‖X‖ ^ (m - 1) * (Real.exp ‖X‖ - ∑ k ∈ range n, ‖X‖ ^ k / k.factorial) :=
  dephased_steps_within_truncation_bound 1 X (by simp) n m
end

/-- non-vacuity: over the reals a factor `1/2` and the first-order polynomial -/
example : ‖((1 / 2 : ℝ) * taylorPoly 2 (1 : ℝ)) ^ 2 - ((1 / 2 : ℝ) * exp (1 : ℝ)) ^ 2‖ ≤
    (2 : ℕ) * Real.exp ‖(1 : ℝ)‖ ^ (2 - 1) * (Real.exp ‖(1 : ℝ)‖ - ∑ k ∈ range 2, ‖(1 : ℝ)‖ ^ k / k.factorial) :=
  dephased_steps_within_truncation_bound (1 / 2 : ℝ) 1 (by norm_num) 2 2

end QV.C08
