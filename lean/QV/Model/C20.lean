import QV.Gen.C20
/-!
Hand model of the dispatch in `block_distributed_range/list/array`
(quantarhei/core/parallel.py) on top of the *extracted* per-rank range kernel
`QV.Gen.C20.rangeLo/rangeHi`.
-/
namespace QV.C20
open QV.Gen.C20

/-- Python `range(a, b)` as a list of integers. -/
def pyRange (a b : Int) : List Int :=
  (List.range (b - a).toNat).map (fun (k : Nat) => a + (k : Int))

/-- what `rank` receives from `block_distributed_range(start, stop)` in a parallel region -/
def blockRange (size rank start stop : Int) : List Int :=
  pyRange (rangeLo size rank start stop) (rangeHi size rank start stop)

/-- indices of the elements `rank` receives from `block_distributed_list/array` of length `len` -/
def blockList (size rank len : Int) : List Int :=
  pyRange (rangeLo size rank 0 len) (rangeHi size rank 0 len)

/-- outside a parallel region (parallel_level ≠ 1) every rank gets everything -/
def serialRange (start stop : Int) : List Int := pyRange start stop

end QV.C20
