import QV.Props.C02

/-!
# C02 — pure dephasing keeps the state valid
The propagation with an elementwise dephasing factor after every refined step (`_APPLY_DEPH`; Lorentzian: a constant
matrix, Gaussian: `E0 ∘ Q^s` for the refined step number `s`) keeps every property that one refined step and one
multiplication by the factor keep: in particular the trace when the factor has a unit diagonal (`γ_aa = 0`) and
Hermiticity when the factor is a Hermitian matrix (real symmetric rates).  Every order, refinement, step and length.
-/
namespace QV.Prop
open QV QV.C01 Finset

variable {n : Nat} {α : Type} [Field α]

/-- anything kept by a refined step and by the factor of every step number is kept by the inner loop … -/
theorem dephG_inner_inv (gen : α → MatD α n n → MatD α n n) (E0 Q : Mat α n) (dt : α) (L Nref : Nat) (P : MatD α n n → Prop)
    (hstep : ∀ ρ, P ρ → P (taylorStep gen madd (dt / (Nref : α)) L ρ))
    (hfac : ∀ s ρ, P ρ → P (dephase (gaussFactor E0 Q s) ρ)) :
    ∀ k s ρ, P ρ → P (rdmPropagateDephG.inner gen E0 Q dt L Nref k s ρ) := by
  intro k
  induction k with
  | zero => intro s ρ h; exact h
  | succ k ih =>
    intro s ρ h
    simp only [rdmPropagateDephG.inner]
    exact ih _ _ (hfac s _ (hstep ρ h))

/-- … and by every stored state -/
theorem dephG_inv (gen : α → MatD α n n → MatD α n n) (E0 Q : Mat α n) (dt : α) (L Nref : Nat) (P : MatD α n n → Prop)
    (hstep : ∀ ρ, P ρ → P (taylorStep gen madd (dt / (Nref : α)) L ρ))
    (hfac : ∀ s ρ, P ρ → P (dephase (gaussFactor E0 Q s) ρ)) :
    ∀ nt s0 ρ0, P ρ0 → ∀ ρ ∈ rdmPropagateDephG gen E0 Q dt L Nref nt s0 ρ0, P ρ := by
  intro nt
  induction nt with
  | zero => intro s0 ρ0 _ ρ hρ; simp [rdmPropagateDephG] at hρ
  | succ nt ih =>
    intro s0 ρ0 h0 ρ hρ
    simp only [rdmPropagateDephG, List.mem_cons] at hρ
    rcases hρ with rfl | hρ
    · exact h0
    · exact ih _ _ (dephG_inner_inv gen E0 Q dt L Nref P hstep hfac Nref s0 ρ0 h0) ρ hρ

theorem deph_inner_inv (gen : α → MatD α n n → MatD α n n) (E : Mat α n) (dt : α) (L Nref : Nat) (P : MatD α n n → Prop)
    (hstep : ∀ ρ, P ρ → P (taylorStep gen madd (dt / (Nref : α)) L ρ)) (hfac : ∀ ρ, P ρ → P (dephase E ρ)) :
    ∀ k ρ, P ρ → P (rdmPropagateDeph.inner gen E dt L Nref k ρ) := by
  intro k
  induction k with
  | zero => intro ρ h; exact h
  | succ k ih =>
    intro ρ h
    simp only [rdmPropagateDeph.inner]
    exact ih _ (hfac _ (hstep ρ h))

theorem deph_inv (gen : α → MatD α n n → MatD α n n) (E : Mat α n) (dt : α) (L Nref : Nat) (P : MatD α n n → Prop)
    (hstep : ∀ ρ, P ρ → P (taylorStep gen madd (dt / (Nref : α)) L ρ)) (hfac : ∀ ρ, P ρ → P (dephase E ρ)) :
    ∀ nt ρ0, P ρ0 → ∀ ρ ∈ rdmPropagateDeph gen E dt L Nref nt ρ0, P ρ := by
  intro nt
  induction nt with
  | zero => intro ρ0 _ ρ hρ; simp [rdmPropagateDeph] at hρ
  | succ nt ih =>
    intro ρ0 h0 ρ hρ
    simp only [rdmPropagateDeph, List.mem_cons] at hρ
    rcases hρ with rfl | hρ
    · exact h0
    · exact ih _ (deph_inner_inv gen E dt L Nref P hstep hfac Nref ρ0 h0) ρ hρ

/-! ## trace -/

theorem dephase_trace (E : Mat α n) (hE : ∀ a, E a a = 1) (ρ : MatD α n n) : trace (dephase E ρ).fn = trace ρ.fn := by
  simp [dephase, trace_eq, hE]

theorem gaussFactor_diag (E0 Q : Mat α n) (h0 : ∀ a, E0 a a = 1) (hQ : ∀ a, Q a a = 1) : ∀ s a, gaussFactor E0 Q s a a = 1 := by
  intro s
  induction s with
  | zero => intro a; exact h0 a
  | succ s ih => intro a; simp [gaussFactor, ih a, hQ a]

/-- **unit trace with Lorentzian pure dephasing** (tensor form, trace-free tensor, no dephasing of populations) -/
theorem rdm_trace_conserved_deph (ii : α) (H : Mat α n) (R : Tens α n) (hR : TraceFree R) (E : Mat α n) (hE : ∀ a, E a a = 1)
    (dt : α) (L Nref nt : Nat) (ρ0 : MatD α n n) :
    ∀ ρ ∈ rdmPropagateDeph (genTensor ii H R) E dt L Nref nt ρ0, trace ρ.fn = trace ρ0.fn :=
  deph_inv _ E dt L Nref (fun ρ => trace ρ.fn = trace ρ0.fn)
    (fun ρ h => by rw [taylorStep_conserved (genTensor ii H R) madd _ (fun x => trace x.fn) madd_trace (genTensor_trace ii H R hR)]; exact h)
    (fun ρ h => by rw [dephase_trace E hE]; exact h) nt ρ0 rfl

/-- **unit trace with Gaussian pure dephasing** -/
theorem rdm_trace_conserved_gauss (ii : α) (H : Mat α n) (R : Tens α n) (hR : TraceFree R) (E0 Q : Mat α n)
    (h0 : ∀ a, E0 a a = 1) (hQ : ∀ a, Q a a = 1) (dt : α) (L Nref nt s0 : Nat) (ρ0 : MatD α n n) :
    ∀ ρ ∈ rdmPropagateDephG (genTensor ii H R) E0 Q dt L Nref nt s0 ρ0, trace ρ.fn = trace ρ0.fn :=
  dephG_inv _ E0 Q dt L Nref (fun ρ => trace ρ.fn = trace ρ0.fn)
    (fun ρ h => by rw [taylorStep_conserved (genTensor ii H R) madd _ (fun x => trace x.fn) madd_trace (genTensor_trace ii H R hR)]; exact h)
    (fun s ρ h => by rw [dephase_trace _ (gaussFactor_diag E0 Q h0 hQ s)]; exact h) nt s0 ρ0 rfl

/-! ## Hermiticity -/
section star
variable [StarRing α]

theorem dephase_dagger (E : Mat α n) (hE : ∀ a b, star (E b a) = E a b) (ρ : MatD α n n) (h : dagger ρ = ρ) :
    dagger (dephase E ρ) = dephase E ρ := by
  have hfn : ∀ a b, star (ρ.fn b a) = ρ.fn a b := by
    intro a b
    have := congrArg (fun x => x.fn a b) h
    simpa [dagger] using this
  unfold dagger dephase
  congr 1
  funext a b
  simp [star_mul', hE a b, hfn a b]

theorem gaussFactor_herm (E0 Q : Mat α n) (h0 : ∀ a b, star (E0 b a) = E0 a b) (hQ : ∀ a b, star (Q b a) = Q a b) :
    ∀ s a b, star (gaussFactor E0 Q s b a) = gaussFactor E0 Q s a b := by
  intro s
  induction s with
  | zero => exact h0
  | succ s ih => intro a b; simp [gaussFactor, star_mul', ih a b, hQ a b]

theorem taylorStep_dagger (ii : α) (hi : star ii = -ii) (H : Mat α n) (hH : ∀ i j, star (H i j) = H j i)
    (R : Tens α n) (hR : HermPres R) (dtd : α) (hdt : star dtd = dtd) (L : Nat) (ρ : MatD α n n) (h : dagger ρ = ρ) :
    dagger (taylorStep (genTensor ii H R) madd dtd L ρ) = taylorStep (genTensor ii H R) madd dtd L ρ := by
  have := taylorLoop_commute_dt (genTensor ii H R) madd dtd dagger dagger_madd
    (fun l x => genTensor_dagger ii hi H hH R hR _ (by simp [star_div₀, hdt]) x) L 1 ρ ρ
  unfold taylorStep
  rw [this, h]

/-- **Hermiticity with Gaussian (and, with `Q = 1`-free statement below, Lorentzian) pure dephasing**: Hermitian
Hamiltonian, conjugation-commuting tensor, real refined step, Hermitian factor matrices -/
theorem rdm_herm_preserved_gauss (ii : α) (hi : star ii = -ii) (H : Mat α n) (hH : ∀ i j, star (H i j) = H j i)
    (R : Tens α n) (hR : HermPres R) (E0 Q : Mat α n) (h0 : ∀ a b, star (E0 b a) = E0 a b) (hQ : ∀ a b, star (Q b a) = Q a b)
    (dt : α) (Nref : Nat) (hdt : star (dt / (Nref : α)) = dt / (Nref : α)) (L nt s0 : Nat) (ρ0 : MatD α n n) (hρ : dagger ρ0 = ρ0) :
    ∀ ρ ∈ rdmPropagateDephG (genTensor ii H R) E0 Q dt L Nref nt s0 ρ0, dagger ρ = ρ :=
  dephG_inv _ E0 Q dt L Nref (fun ρ => dagger ρ = ρ)
    (fun ρ h => taylorStep_dagger ii hi H hH R hR _ hdt L ρ h)
    (fun s ρ h => dephase_dagger _ (gaussFactor_herm E0 Q h0 hQ s) ρ h) nt s0 ρ0 hρ

theorem rdm_herm_preserved_deph (ii : α) (hi : star ii = -ii) (H : Mat α n) (hH : ∀ i j, star (H i j) = H j i)
    (R : Tens α n) (hR : HermPres R) (E : Mat α n) (hE : ∀ a b, star (E b a) = E a b)
    (dt : α) (Nref : Nat) (hdt : star (dt / (Nref : α)) = dt / (Nref : α)) (L nt : Nat) (ρ0 : MatD α n n) (hρ : dagger ρ0 = ρ0) :
    ∀ ρ ∈ rdmPropagateDeph (genTensor ii H R) E dt L Nref nt ρ0, dagger ρ = ρ :=
  deph_inv _ E dt L Nref (fun ρ => dagger ρ = ρ)
    (fun ρ h => taylorStep_dagger ii hi H hH R hR _ hdt L ρ h)
    (fun ρ h => dephase_dagger E hE ρ h) nt ρ0 hρ
end star

end QV.Prop
