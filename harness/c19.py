"""C19 - two-dimensional response storage conserves what was added."""
from qvh.core import *
from qvh import extract as X

DRIVER = "C19"
PROPS = "QV.Props.C19"
BASE = [[1, 2], [3, 5]]


def extract(ck):
    try:
        src = X.read_source(REPO, "quantarhei/spectroscopy/twod2.py")
        consts = X.string_constants(X.read_source(REPO, "quantarhei/__init__.py"))
        t = X.eval_tables(src, ["_ptypes", "_processes", "_signals", "_total", "_resolutions"], consts)
        paths = X.local_literal(src, "_convert_resolution", "_conversion_paths", cls="TwoDSpectrumBase")
        S, L = X.lean_str, X.lean_list
        row = lambda kv: "(%s, %s)" % (S(kv[0]), L(kv[1], S))
        plist = [(o, n, p) for o, d in paths.items() for n, p in d.items()]
        body = ("namespace QV.Gen.C19\n"
                "def ptypes : List String := %s\n"
                "def processes : List (String × List String) := %s\n"
                "def signals : List (String × List String) := %s\n"
                "def total : String := %s\n"
                "def resolutions : List String := %s\n"
                "def convPaths : List (Nat × Nat × List Nat) := %s\n"
                "end QV.Gen.C19\n") % (
            L(t["_ptypes"], S), L(list(t["_processes"].items()), row), L(list(t["_signals"].items()), row),
            S(t["_total"]), L(t["_resolutions"], S),
            L(plist, lambda e: "(%d, %d, %s)" % (e[0], e[1], L(e[2], str))))
    except (X.ExtractError, Exception) as e:
        return ck.tie_fallback("C19", "extraction of the twod2 tables failed: %r" % e)
    ck.gen("C19", body, facts=t)
    return t


def run(ck):
    import numpy, math
    qr = import_quantarhei()
    from quantarhei.spectroscopy import twod2
    ck.rule = ("random histories (<=40 ops) of _add_data at all five levels with tags, set_resolution (incl. inadmissible), "
               "reads under every flag, on TwoDResponse with integer-valued 2x2 arrays; every op's outcome, every read and a "
               "canonical dump of the storage after every mutating op compared exactly with the Lean model; "
               "non-trivial = history with >=2 accepted additions and >=1 refused operation or reduction")
    ck.trusted += ["harness/c19.py + table extractor (restricted evaluator of module-level tables in twod2.py)",
                   "hand model QV/Model/C19.lean of _add_data / d__data getter+setter / set_resolution, validated on generated histories only",
                   "reads on a never-initialised storage are canonicalised to 'uninit' on both sides (the code raises or returns None there)"]
    tables = extract(ck)
    ck.prove(PROPS, extra_modules=["QV.Drive.C19"])
    if tables is None:
        # fall back to the module's own tables for the oracle
        tables = {"_ptypes": twod2._ptypes, "_processes": twod2._processes, "_signals": twod2._signals,
                  "_total": twod2._total, "_resolutions": twod2._resolutions}
    ptypes, procs, sigs, total, ress = (tables[k] for k in ("_ptypes", "_processes", "_signals", "_total", "_resolutions"))
    level_names = {4: ptypes, 3: ptypes, 2: list(procs), 1: list(sigs), 0: [total]}
    base0 = numpy.array(BASE, dtype=complex)
    cur_base = [base0]            # the data shape of the history being run (2x2 mostly; 1x1, 1xN, Nx1, 2x3 as boundary sizes)
    rng = ck.rng

    def tk(tag):
        """wire token of a pathway tag (None -> '-', '' -> 'EMPTY'); falsy tags 0 and '' are legal tags"""
        return "-" if tag is None else ("EMPTY" if tag == "" else str(tag))

    mag = [1.0]                   # overall magnitude of the data of the history being run (a power of two: sums stay exact)

    def arr(v):
        return v * mag[0] * cur_base[0].copy()

    def dec(a):
        if a is None:
            return "none"
        a = numpy.asarray(a)
        base = cur_base[0]
        if a.shape != base.shape:
            return "shape%s" % (a.shape,)
        a = a / mag[0]
        v = a[0, 0]
        if not numpy.array_equal(a, v * base) or v.imag != 0 or v.real != int(v.real):
            return "corrupt"
        return str(int(v.real))

    def dump(r):
        ri = ress.index(r.storage_resolution) if r.storage_resolution in ress else -1
        if not r.storage_initialized:
            return "res=%d uninit" % ri
        items = []
        for k, v in r._d__data.items():
            if isinstance(v, dict):
                for tg, a in v.items():
                    items.append("%s@%s=%s" % (k, tk(tg), dec(a)))
            else:
                items.append("%s@-=%s" % (k, dec(v)))
        return ("res=%d " % ri) + " ".join(sorted(items))

    def cells_of(d):
        return "" if d.endswith("uninit") else d.split(" ", 1)[1] if " " in d else ""

    nhist = ck.n(250, 6000)
    lines, impl = [], []
    hist_starts = []
    for h in range(nhist):
        r = twod2.TwoDResponse()
        shp = (2, 2) if h % 5 else ((1, 1), (1, 3), (3, 1), (2, 3))[(h // 5) % 4]
        cur_base[0] = base0 if shp == (2, 2) else (numpy.arange(1, shp[0] * shp[1] + 1, dtype=complex).reshape(shp) + (numpy.arange(shp[0] * shp[1]).reshape(shp) % 2))
        r.set_axis_1(qr.FrequencyAxis(0.0, shp[0], 1.0))
        r.set_axis_3(qr.FrequencyAxis(0.0, shp[1], 1.0))
        mag[0] = (1.0, 2.0 ** -40, 1.0, 2.0 ** -60, 2.0 ** 30)[(h // 7) % 5] if h % 7 == 3 else 1.0     # responses of any magnitude, e.g. 1e-12
        ck.dist["data magnitude 2^%d" % int(math.log2(mag[0]))] += 1
        hist_starts.append(len(lines))
        lines.append("new"); impl.append("ok")
        accepted = []   # (level, name, tag, v)
        nops = rng.randint(3, 40)
        naccept = nref = nred = 0
        start_low = rng.random() < 0.3
        hist = []
        for i in range(nops):
            x = rng.random()
            cur = ress.index(r.storage_resolution)
            if x < 0.55:
                # ---- add
                if i == 0 and start_low:
                    lev = rng.randint(0, 4)
                elif rng.random() < 0.75:
                    lev = cur
                else:
                    lev = rng.randint(0, 4)
                resarg = None if (lev == cur and rng.random() < 0.5) else ress[lev]
                name = rng.choice(level_names[lev]) if rng.random() < 0.9 else rng.choice(ptypes + list(procs) + list(sigs) + [total, "XYZ"])
                if lev == 4:
                    tag = rng.choice(["a", "b", "c", "d", "e", 0, ""]) if rng.random() < 0.92 else None
                else:
                    tag = None if rng.random() < 0.85 else "a"
                v = rng.randint(-9, 9)
                before = dump(r)
                try:
                    a_in = arr(v)
                    r._add_data(a_in, resolution=resarg, dtype=name, tag=tag)
                    if h % 3 == 1:
                        a_in[...] = 12345.0          # the caller goes on using its array: what was added is what it held at the time
                    out = "ok"
                    naccept += 1
                    accepted.append((lev if resarg is not None else cur, name, tag, v))
                except Exception:
                    out = "refused"
                    nref += 1
                    if cells_of(dump(r)) != cells_of(before):
                        ck.fail("refused-changed:add", "a refused _add_data changed the stored data",
                                {"history": hist + [("add", resarg, name, tag, v)]}, dump(r), before)
                op = "add %s %s %s %d" % (resarg or "-", name, tk(tag), v)
            elif x < 0.67:
                new = rng.choice(ress + ["bogus"]) if rng.random() < 0.5 else ress[max(0, cur - rng.randint(0, 2))]
                before = dump(r)
                try:
                    r.set_resolution(new)
                    out = "ok"
                    if ress.index(r.storage_resolution) < cur:
                        nred += 1
                except Exception:
                    out = "refused"
                    nref += 1
                    if dump(r) != before:
                        ck.fail("refused-changed:set_resolution", "a refused set_resolution changed the storage",
                                {"history": hist + [("setres", new)]}, dump(r), before)
                op = "setres %s" % new
            else:
                name = rng.choice(ptypes + list(procs) + list(sigs) + [total] * 4 + ["XYZ"])
                tag = rng.choice(["a", "b", "c", 0, ""]) if rng.random() < 0.3 else None
                if not r.storage_initialized:
                    out = "uninit"
                else:
                    r.set_data_flag([name, tag] if tag is not None else name)
                    try:
                        out = dec(r.d__data)
                    except Exception:
                        out = "error"
                op = "read %s %s" % (name, tk(tag))
            hist.append(op)
            lines.append(op); impl.append(out)
            if h % 6 == 4 and i % 5 == 3 and r.storage_initialized:
                # a shallow copy (e.g. made for plotting) reduced on its own: the response it was copied from still holds what was added
                import copy as _copy
                before = dump(r)
                try:
                    r2 = _copy.copy(r) if (h // 6) % 2 else r.copy()
                    r2.set_resolution(ress[max(0, ress.index(r2.storage_resolution) - 1 - (i % 2))])
                except Exception:
                    pass
                if dump(r) != before:
                    ck.fail("copy-reduced:original-changed", "reducing the resolution of a copy changed the storage of the response it was copied from",
                            {"history": list(hist), "then": "copy; copy.set_resolution(lower)"}, dump(r), before)
                    break
            if not op.startswith("read"):
                lines.append("dump"); impl.append(dump(r))
            # ---- direct oracle: the property on the implementation
            if r.storage_initialized:
                r.set_data_flag(total)
                try:
                    tot = dec(r.d__data)
                except Exception as e:
                    tot = "error"
                want = str(sum(a[3] for a in accepted))
                if tot != want and not (tot == "none" and want == "0"):
                    ck.fail("total", "total spectrum read back differs from the sum of accepted additions",
                            {"history": list(hist)}, tot, want)
                    break
                cur = ress.index(r.storage_resolution)
                minlev = min([a[0] for a in accepted], default=4)
                # per-view sums, when every accepted addition is attributable to the view's partition
                if cur in (1, 3, 4) and all(a[0] in (1, 3, 4) for a in accepted):
                    for sg, ts in sigs.items():
                        want = sum(a[3] for a in accepted if (a[1] == sg or a[1] in ts))
                        r.set_data_flag(sg)
                        try:
                            got = dec(r.d__data)
                        except Exception:
                            got = "error"
                        if got != str(want) and not (got == "none" and want == 0):
                            ck.fail("view:signal", "signal view differs from the sum of additions belonging to it",
                                    {"history": list(hist), "signal": sg}, got, want)
                if cur in (2, 3, 4) and all(a[0] in (2, 3, 4) for a in accepted):
                    for pc, ts in procs.items():
                        want = sum(a[3] for a in accepted if (a[1] == pc or a[1] in ts))
                        r.set_data_flag(pc)
                        try:
                            got = dec(r.d__data)
                        except Exception:
                            got = "error"
                        if got != str(want) and not (got == "none" and want == 0):
                            ck.fail("view:process", "process view differs from the sum of additions belonging to it",
                                    {"history": list(hist), "process": pc}, got, want)
                if cur in (3, 4) and all(a[0] in (3, 4) for a in accepted):
                    for t in ptypes:
                        want = sum(a[3] for a in accepted if a[1] == t)
                        r.set_data_flag(t)
                        try:
                            got = dec(r.d__data)
                        except Exception:
                            got = "error"
                        if got != str(want) and not (got == "none" and want == 0):
                            ck.fail("view:type", "pathway-type view differs from the sum of additions belonging to it",
                                    {"history": list(hist), "type": t}, got, want)
        ck.case(tuple(hist), nontrivial=(naccept >= 2 and (nref >= 1 or nred >= 1)),
                sample=hist[:12] if h < 2 else None,
                accepted=min(naccept, 10) // 3 * 3, refused=min(nref, 9) // 3 * 3, reductions=min(nred, 3),
                final_res=ress.index(r.storage_resolution))
    model = ck.drive(DRIVER, lines)
    if model is not None:
        bad_hist = set()
        hidx = 0
        for i, (l, a, b) in enumerate(zip(lines, impl, model)):
            while hidx + 1 < len(hist_starts) and hist_starts[hidx + 1] <= i:
                hidx += 1
            if a != b and hidx not in bad_hist:
                bad_hist.add(hidx)
                s0 = hist_starts[hidx]
                ck.disagree("history %d, op %d" % (hidx, i - s0), lines[s0:i + 1], a, b)
        ck.traces = len(hist_starts) - len(bad_hist)
    return ck.finish()
