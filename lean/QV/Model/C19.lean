import QV.Gen.C19
/-!
Model of the storage of `TwoDSpectrumBase` / `TwoDResponse`
(quantarhei/spectroscopy/twod2.py): `_add_data`, the `d__data` getter/setter,
`set_resolution` with `_convert_resolution`/`_convert_res_elementary`.
The tables (`ptypes`, `processes`, `signals`, `resolutions`, `convPaths`) are
the extracted ones.  `V` is the type of the stored arrays (any additive monoid).
-/
namespace QV.C19
open QV.Gen.C19

structure Key where
  name : String
  tag : Option String
  deriving DecidableEq, Repr

structure St (V : Type) where
  res : Nat            -- index into `resolutions`: 0 = off … 4 = pathways
  init : Bool          -- storage_initialized
  cells : List (Key × V)

inductive Out (V : Type) where
  | val (v : V)
  | none
  | error

section
variable {V : Type} [Add V] [Zero V]

/-- a read result as an array, None counted as zeros -/
def Out.toV (o : Out V) : V :=
  match o with
  | .val x => x
  | _ => 0

/-- `odata + data`, or `data` when the getter gave None / raised -/
def Out.addTo (o : Out V) (d : V) : V :=
  match o with
  | .val x => x + d
  | _ => d

def sumWhere (p : Key → Bool) (cells : List (Key × V)) : V :=
  ((cells.filter (fun c => p c.1)).map (·.2)).sum

def sumAll (cells : List (Key × V)) : V := (cells.map (·.2)).sum

def sumName (n : String) (cells : List (Key × V)) : V := sumWhere (fun k => k.name == n) cells

def hasName (n : String) (cells : List (Key × V)) : Bool := cells.any (fun c => c.1.name == n)

def lookup (k : Key) : List (Key × V) → Option V
  | [] => Option.none
  | (k', v) :: rest => if k' = k then some v else lookup k rest

def lookupD (k : Key) (cells : List (Key × V)) : V := (lookup k cells).getD 0

/-- dictionary assignment `storage[k] = v` -/
def setKey (k : Key) (v : V) : List (Key × V) → List (Key × V)
  | [] => [(k, v)]
  | (k', v') :: rest => if k' = k then (k', v) :: rest else (k', v') :: setKey k v rest

/-- names that may be stored / addressed at resolution level `r` -/
def levelNames (r : Nat) : List String :=
  if r = 4 ∨ r = 3 then ptypes
  else if r = 2 then processes.map (·.1)
  else if r = 1 then signals.map (·.1)
  else [total]

def resIdx (r : String) : Option Nat := resolutions.idxOf? r

/-- sum over a table row of per-type sums (pathways storage) -/
def rowSumNames (ts : List String) (cells : List (Key × V)) : V := (ts.map (fun t => sumName t cells)).sum
/-- zeros + every entry of the row that is present (types storage) -/
def rowSumKeys (ts : List String) (cells : List (Key × V)) : V := (ts.map (fun t => lookupD ⟨t, Option.none⟩ cells)).sum

/-- the `d__data` getter for an initialised storage; `name`,`tag` = current flag -/
def readFlag (s : St V) (name : String) (tag : Option String) : Out V :=
  if s.res = 4 then
    if name ∈ ptypes then
      if ¬ hasName name s.cells then .val 0
      else match tag with
        | some t => match lookup ⟨name, some t⟩ s.cells with
            | some v => .val v
            | Option.none => .error
        | Option.none => .val (sumName name s.cells)
    else match processes.lookup name with
      | some ts => .val (rowSumNames ts s.cells)
      | Option.none => match signals.lookup name with
        | some ts => .val (rowSumNames ts s.cells)
        | Option.none =>
          if name = total then .val ((signals.map (fun sg => rowSumNames sg.2 s.cells)).sum)
          else .error
  else if s.res = 3 then
    if name ∈ ptypes then
      match lookup ⟨name, Option.none⟩ s.cells with
      | some v => .val v
      | Option.none => .none
    else match processes.lookup name with
      | some ts => .val (rowSumKeys ts s.cells)
      | Option.none => match signals.lookup name with
        | some ts => .val (rowSumKeys ts s.cells)
        | Option.none =>
          if name = total then .val ((processes.map (fun p => rowSumKeys p.2 s.cells)).sum)
          else .error
  else
    if name ∈ levelNames s.res then
      match lookup ⟨name, Option.none⟩ s.cells with
      | some v => .val v
      | Option.none => .none
    else if name = total then
      .val (rowSumKeys (levelNames s.res) s.cells)
    else .error

/-- the `d__data` setter (value is an array); `none` = it raised -/
def setFlag (s : St V) (name : String) (tag : Option String) (v : V) : Option (St V) :=
  if name ∈ levelNames s.res then
    if s.res = 4 then
      match lookup ⟨name, tag⟩ s.cells with
      | some _ => Option.none                      -- "Tag already exists"
      | Option.none => some { s with cells := s.cells ++ [(⟨name, tag⟩, v)] }
    else some { s with cells := setKey ⟨name, Option.none⟩ v s.cells }
  else Option.none

/-- first lines of `_add_data`: create an empty storage (and adopt the requested
resolution) when nothing has been stored yet -/
def initStep (s : St V) (resArg : Option String) : St V :=
  if s.init then s
  else { res := (match resArg with
                 | some r => (resIdx r).getD s.res
                 | Option.none => s.res), init := true, cells := [] }

/-- `odata = self.d__data` (any exception -> None) followed by
`self.d__data = data` / `odata + data` -/
def getset (s1 : St V) (name : String) (tag : Option String) (d : V) : Option (St V) :=
  setFlag s1 name tag ((readFlag s1 name tag).addTo d)

/-- the rest of `_add_data` on the initialised storage -/
def addCore (s1 : St V) (resArg : Option String) (name : String) (tag : Option String) (d : V) :
    St V × Bool :=
  match (match resArg with
         | Option.none => some s1.res
         | some r => resIdx r) with
  | Option.none => (s1, false)
  | some r =>
    if r > s1.res then (s1, false)
    else if name ∈ levelNames r then
      if (r = 4 ∧ tag.isNone) ∨ (r < 4 ∧ tag.isSome) then (s1, false)
      else if r = 3 ∧ s1.res = 4 then
        -- untagged type-level data kept as the pathway with tag None
        ({ s1 with cells := setKey ⟨name, Option.none⟩ (lookupD ⟨name, Option.none⟩ s1.cells + d) s1.cells }, true)
      else
        match getset s1 name tag d with
        | some s2 => (s2, true)
        | Option.none => (s1, false)
    else (s1, false)

/-- `_add_data(data, resolution, dtype, tag)`; the Bool says whether it returned normally -/
def addData (s : St V) (resArg : Option String) (name : String) (tag : Option String) (d : V) :
    St V × Bool :=
  addCore (initStep s resArg) resArg name tag d

/-- `_convert_res_elementary(old, new)` on an initialised storage -/
def convElem (old new : Nat) (cells : List (Key × V)) : Option (List (Key × V)) :=
  if old = 4 ∧ new = 3 then
    some (ptypes.map fun t => (⟨t, Option.none⟩, sumName t cells))
  else if old = 3 ∧ new = 2 then
    some (processes.map fun p => (⟨p.1, Option.none⟩, rowSumKeys p.2 cells))
  else if old = 3 ∧ new = 1 then
    some (signals.map fun p => (⟨p.1, Option.none⟩, rowSumKeys p.2 cells))
  else if (old = 1 ∨ old = 2) ∧ new = 0 then
    some [(⟨total, Option.none⟩, rowSumKeys (levelNames old) cells)]
  else Option.none

/-- storage after one elementary conversion (an uninitialised storage holds nothing that is ever read) -/
def convState (s : St V) (step : Nat) (c : List (Key × V)) : St V :=
  { s with res := step, cells := if s.init then c else [] }

/-- walk a conversion path `[old, …, new]` -/
def walk (s : St V) : List Nat → St V × Bool
  | [] => (s, true)
  | step :: rest =>
    if step = s.res then walk s rest
    else match convElem s.res step s.cells with
      | some c => walk (convState s step c) rest
      | Option.none => (s, false)

/-- `set_resolution(resolution)` -/
def setRes (s : St V) (rname : String) : St V × Bool :=
  match resIdx rname with
  | Option.none => (s, false)
  | some new =>
    if s.res < new then (s, false)
    else if s.res = new then (s, true)
    else match convPaths.find? (fun p => p.1 == s.res && p.2.1 == new) with
      | Option.none => (s, false)
      | some p => walk s p.2.2

inductive Op (V : Type) where
  | add (resArg : Option String) (name : String) (tag : Option String) (d : V)
  | setRes (r : String)

def step (s : St V) : Op V → St V × Bool
  | .add r n t d => addData s r n t d
  | .setRes r => setRes s r

def run (s : St V) (ops : List (Op V)) : St V := ops.foldl (fun s op => (step s op).1) s

/-- what an accepted operation adds to the total -/
def accepted (s : St V) : Op V → V
  | .add r n t d => if (addData s r n t d).2 then d else 0
  | .setRes _ => 0

/-- sum of everything accepted along a history -/
def acceptedSum (s : St V) : List (Op V) → V
  | [] => 0
  | op :: rest => accepted s op + acceptedSum (step s op).1 rest

def fresh : St V := { res := 4, init := false, cells := [] }
end
end QV.C19
