import QV.Props.C16Dyn
import Mathlib.Algebra.Star.BigOperators
import Mathlib.Algebra.Field.Basic
import Mathlib.Algebra.Star.Basic
import Mathlib.Data.Complex.Basic

/-!
# C16 — the hierarchy's propagation keeps the reduced density matrix Hermitian
For a Hermitian Hamiltonian, Hermitian system parts of the coupling, real bath parameters and a real time step, every
element of the hierarchy stays its own Hermitian conjugate if it starts so - in particular the reduced density matrix at
every stored time, for every number of baths, depth, expansion order and length.
-/
namespace QV.C16
open QV QV.Prop Finset

theorem foldl_rel {β β' γ : Type} (R : β → β' → Prop) (f : β → γ → β) (g : β' → γ → β') (l : List γ) (b : β) (b' : β')
    (h0 : R b b') (hstep : ∀ b b' x, x ∈ l → R b b' → R (f b x) (g b' x)) : R (l.foldl f b) (l.foldl g b') := by
  induction l generalizing b b' with
  | nil => exact h0
  | cons x xs ih =>
    simp only [List.foldl]
    exact ih _ _ (hstep b b' x (by simp) h0) (fun c c' y hy hc => hstep c c' y (by simp [hy]) hc)

theorem forall₂_diag {X : Type} {R : X → X → Prop} : ∀ {xs : List X}, List.Forall₂ R xs xs → ∀ x ∈ xs, R x x := by
  intro xs
  induction xs with
  | nil => intro _ x hx; simp at hx
  | cons a as ih =>
    intro h x hx
    cases h with
    | cons hab htl =>
      rcases List.mem_cons.mp hx with rfl | hx
      · exact hab
      · exact ih htl x hx

variable {α : Type} [Field α] [StarRing α] [Inhabited α] {n : Nat}

/-- Hermitian conjugate of a matrix given as a function -/
def dag (A : Fin n → Fin n → α) : Fin n → Fin n → α := fun a b => star (A b a)

theorem dag_matMul (A B : Fin n → Fin n → α) : dag (matMul A B) = matMul (dag B) (dag A) := by
  funext a b
  simp only [dag, matMul_eq_mul, star_sum, star_mul']
  exact Finset.sum_congr rfl (fun l _ => mul_comm _ _)
theorem dag_matAdd (A B : Fin n → Fin n → α) : dag (matAdd A B) = matAdd (dag A) (dag B) := by
  funext a b; simp [dag, matAdd]
theorem dag_matSub (A B : Fin n → Fin n → α) : dag (matSub A B) = matSub (dag A) (dag B) := by
  funext a b; simp [dag, matSub]
theorem dag_matScale (c : α) (A : Fin n → Fin n → α) : dag (matScale c A) = matScale (star c) (dag A) := by
  funext a b; simp [dag, matScale]
theorem dag_zero : dag (fun (_ _ : Fin n) => (0 : α)) = fun _ _ => 0 := by
  funext a b; simp [dag]

/-- what "real parameters, Hermitian operators" means for a hierarchy -/
structure RealHier (hy : Hier α n) : Prop where
  ii : star hy.ii = -hy.ii
  two : star hy.two = hy.two
  kBT : star hy.kBT = hy.kBT
  lam : ∀ kk, kk < hy.nbath → star hy.lam[kk]! = hy.lam[kk]!
  gam : ∀ kk, kk < hy.nbath → star hy.gamma[kk]! = hy.gamma[kk]!
  gamL : ∀ x ∈ hy.gamma.toList, star x = x
  H : dag hy.HH = hy.HH
  V : ∀ kk, kk < hy.nbath → dag hy.Vs[kk]! = hy.Vs[kk]!

theorem star_bigGamma (g : List α) (hg : ∀ x ∈ g, star x = x) (v : List Nat) : star (bigGamma g v) = bigGamma g v := by
  unfold bigGamma
  induction v generalizing g with
  | nil => simp
  | cons x xs ih =>
    cases g with
    | nil => simp
    | cons y ys =>
      simp only [List.zip_cons_cons, List.map_cons, List.sum_cons, star_add, star_mul', star_natCast]
      rw [hg y (by simp), ih ys (fun z hz => hg z (by simp [hz]))]

/-- the two states are elementwise Hermitian conjugates of each other -/
def Conj (N : Nat) (x y : Ado α n) : Prop :=
  x.size = N ∧ y.size = N ∧ ∀ i, i < N → (y[i]!).fn = dag (x[i]!).fn

theorem nm1_ge (h : List (List Nat)) (nn kk : Nat) : -1 ≤ nm1 h nn kk := by
  unfold nm1
  cases h[nn]? with
  | none => simp
  | some v =>
    simp only
    cases dec v kk with
    | none => simp
    | some w =>
      simp only
      rcases findLast_spec h nn w with ⟨e, _⟩ | ⟨m, e, _, _⟩
      · rw [e]
      · rw [e]; omega

theorem nm1_lt (h : List (List Nat)) (nn kk : Nat) (hn : nn < h.length) : nm1 h nn kk < (h.length : Int) := by
  unfold nm1
  cases h[nn]? with
  | none => simp only; omega
  | some v =>
    simp only
    cases dec v kk with
    | none => simp only; omega
    | some w =>
      simp only
      rcases findLast_spec h nn w with ⟨e, _⟩ | ⟨m, e, hm, _⟩
      · rw [e]; omega
      · rw [e]; omega

theorem pyGet_conj (N : Nat) (hN : 0 < N) (x y : Ado α n) (h : Conj N x y) (jj : Int) (h1 : -1 ≤ jj) (h2 : jj < (N : Int)) :
    pyGet y jj = dag (pyGet x jj) := by
  unfold pyGet
  obtain ⟨hx, hy, he⟩ := h
  by_cases hneg : jj < 0
  · have : jj = -1 := by omega
    subst this
    simp only [hneg, if_true, hx, hy]
    exact he _ (by simp; omega)
  · simp only [hneg, if_false]
    exact he _ (by omega)

/-- one pass of the coupling loop on conjugate states gives conjugate results -/
theorem crosBody_conj (hy : Hier α n) (hr : RealHier hy) (hpos : 0 < hy.h.length) (c : α) (hc : star c = c)
    (x y : Ado α n) (hxy : Conj hy.h.length x y) (nn : Nat) (hn : nn < hy.h.length) (acc acc' : MatD α n n) (kk : Nat)
    (hk : kk < hy.nbath) (hacc : acc'.fn = dag acc.fn) :
    (crosBody hy y c nn acc' kk).fn = dag (crosBody hy x c nn acc kk).fn := by
  unfold crosBody
  have hV := hr.V kk hk
  have hup : ∀ (a1 a1' : MatD α n n), a1'.fn = dag a1.fn →
      (if np1 hy.h nn kk > 0 then
        MatD.tab (matAdd a1'.fn (matScale (hy.ii * c) (matSub (matMul hy.Vs[kk]! (pyGet y (np1 hy.h nn kk)))
          (matMul (pyGet y (np1 hy.h nn kk)) hy.Vs[kk]!))))
      else a1').fn = dag (if np1 hy.h nn kk > 0 then
        MatD.tab (matAdd a1.fn (matScale (hy.ii * c) (matSub (matMul hy.Vs[kk]! (pyGet x (np1 hy.h nn kk)))
          (matMul (pyGet x (np1 hy.h nn kk)) hy.Vs[kk]!))))
      else a1).fn := by
    intro a1 a1' ha
    split_ifs with hp
    · rw [MatD.fn_tab, MatD.fn_tab, pyGet_conj _ hpos x y hxy _ (by omega) (np1_lt hy.h nn kk), ha]
      simp only [dag_matAdd, dag_matScale, dag_matSub, dag_matMul, hV, star_mul', hr.ii, hc]
      funext a b
      simp only [matAdd, matScale, matSub]
      ring
    · exact ha
  refine hup _ _ ?_
  split_ifs with hd
  · rw [MatD.fn_tab, MatD.fn_tab, pyGet_conj _ hpos x y hxy _ (nm1_ge hy.h nn kk) (nm1_lt hy.h nn kk hn), hacc]
    simp only [dag_matAdd, dag_matScale, dag_matSub, dag_matMul, hV, star_mul', hr.ii, hc, hr.two, hr.kBT,
      hr.lam kk hk, hr.gam kk hk, star_natCast]
    funext a b
    simp only [matAdd, matScale, matSub]
    ring
  · exact hacc

/-- the right-hand side of the hierarchy maps conjugate states to conjugate states (real time factor) -/
theorem heomGen_conj (hy : Hier α n) (hr : RealHier hy) (hpos : 0 < hy.h.length) (c : α) (hc : star c = c)
    (x y : Ado α n) (hxy : Conj hy.h.length x y) : Conj hy.h.length (heomGen hy 0 c x) (heomGen hy 0 c y) := by
  refine ⟨by rw [size_heomGen]; exact hxy.1, by rw [size_heomGen]; exact hxy.2.1, ?_⟩
  intro i hi
  rw [heomGen_get hy y c i (by rw [hxy.2.1]; exact hi), heomGen_get hy x c i (by rw [hxy.1]; exact hi),
    MatD.fn_tab, MatD.fn_tab]
  have hc' : ((List.range hy.nbath).foldl (crosBody hy y c i) (MatD.tab (fun _ _ => 0))).fn
      = dag ((List.range hy.nbath).foldl (crosBody hy x c i) (MatD.tab (fun _ _ => 0))).fn :=
    foldl_rel (fun (a : MatD α n n) (a' : MatD α n n) => a'.fn = dag a.fn) _ _ _ _ _ (by simp [dag_zero])
      (fun b b' k hk hb => crosBody_conj hy hr hpos c hc x y hxy i hi b b' k (List.mem_range.mp hk) hb)
  rw [hc', hxy.2.2 i hi]
  simp only [dag_matAdd, dag_matScale, dag_matSub, dag_matMul, hr.H, hr.ii, hc, star_neg,
    star_bigGamma _ hr.gamL]
  funext a b
  simp only [matAdd, matScale, matSub]
  ring

theorem adoAdd_conj (N : Nat) (a a' b b' : Ado α n) (h : Conj N a b) (h' : Conj N a' b') :
    Conj N (adoAdd a a') (adoAdd b b') := by
  refine ⟨by rw [size_adoAdd]; exact h.1, by rw [size_adoAdd]; exact h.2.1, ?_⟩
  intro i hi
  rw [adoAdd_get b b' i (by rw [h.2.1]; exact hi), adoAdd_get a a' i (by rw [h.1]; exact hi), MatD.fn_tab, MatD.fn_tab,
    h.2.2 i hi, h'.2.2 i hi, dag_matAdd]

/-- **the reduced density matrix stays Hermitian**: Hermitian Hamiltonian and coupling operators, real bath parameters,
real step, Hermitian initial state; every number of baths, depth, expansion order and number of steps -/
theorem heom_hermitian_preserved (hy : Hier α n) (hr : RealHier hy) (hpos : 0 < hy.h.length) (dt : α) (hdt : star dt = dt)
    (L nt : Nat) (rho0 : Fin n → Fin n → α) (h0 : dag rho0 = rho0) :
    ∀ ρ ∈ heomPropagate hy dt L nt rho0, dag ρ.fn = ρ.fn := by
  intro ρ hρ
  unfold heomPropagate at hρ
  simp only [List.mem_map] at hρ
  obtain ⟨a, ha, rfl⟩ := hρ
  have h00 : Conj hy.h.length
      (Array.ofFn (n := hy.h.length) fun i => if i.val = 0 then MatD.tab rho0 else MatD.tab (fun _ _ => (0 : α)))
      (Array.ofFn (n := hy.h.length) fun i => if i.val = 0 then MatD.tab rho0 else MatD.tab (fun _ _ => (0 : α))) := by
    refine ⟨by simp, by simp, ?_⟩
    intro i hi
    rw [getElemB_ofFn _ i hi]
    by_cases hi0 : i = 0
    · simp [hi0, h0]
    · simp [hi0, dag_zero]
  have hrel := taylorTrajectory_rel (heomGen hy 0) adoAdd (heomGen hy 0) adoAdd dt (Conj hy.h.length)
    (fun l x y hxy => heomGen_conj hy hr hpos _ (by simp [star_div₀, hdt]) x y hxy)
    (fun a a' b b' hab hab' => adoAdd_conj _ a a' b b' hab hab')
    L 1 nt _ _ h00
  exact ((forall₂_diag hrel a ha).2.2 0 hpos).symm


/-- **valid states** for the hierarchy the package generates (`hinds N depth`, any number of baths and depth): the
reduced density matrix keeps its trace and stays Hermitian at every stored time -/
theorem heom_valid_states (hy : Hier α n) (N depth : Nat) (hh : hy.h = hinds N depth) (hr : RealHier hy)
    (dt : α) (hdt : star dt = dt) (L nt : Nat) (rho0 : Fin n → Fin n → α) (h0 : dag rho0 = rho0) :
    ∀ ρ ∈ heomPropagate hy dt L nt rho0, trace ρ.fn = trace rho0 ∧ dag ρ.fn = ρ.fn := by
  intro ρ hρ
  have hpos : 0 < hy.h.length := by rw [hh]; exact hinds_pos N depth
  have hz : ∀ x ∈ hy.h[0]?.getD [], x = 0 := by rw [hh]; exact hinds_first_zero N depth
  exact ⟨heom_trace_conserved hy hz hpos dt L nt rho0 ρ hρ, heom_hermitian_preserved hy hr hpos dt hdt L nt rho0 h0 ρ hρ⟩

/-- … and with all reorganisation energies zero it is the closed-system trajectory -/
theorem heom_zero_coupling (hy : Hier α n) (N depth : Nat) (hh : hy.h = hinds N depth)
    (hl : ∀ kk, kk < hy.nbath → hy.lam[kk]! = 0) (dt : α) (L nt : Nat) (rho0 : Fin n → Fin n → α) :
    heomPropagate hy dt L nt rho0 = taylorTrajectory (genH hy.ii hy.HH) madd dt L 1 nt (MatD.tab rho0) :=
  heom_zero_coupling_is_closed hy (by rw [hh]; exact hinds_first_zero N depth) (by rw [hh]; exact hinds_pos N depth)
    hl dt L nt rho0

/-- a two-level system with one bath, depth 2, over ℂ -/
noncomputable def demoHier : Hier ℂ 2 :=
  { nbath := 1, h := hinds 1 2,
    HH := fun a b => if a = b then 0 else 1,
    Vs := #[fun a b => if a = 1 ∧ b = 1 then 1 else 0],
    lam := #[3], gamma := #[2], kBT := 5, ii := Complex.I, two := 2 }

example : RealHier demoHier ∧ 0 < demoHier.h.length ∧ (∀ x ∈ demoHier.h[0]?.getD [], x = 0) := by
  refine ⟨⟨by simp [demoHier], by simp [demoHier], by simp [demoHier], ?_, ?_, ?_, ?_, ?_⟩, ?_, ?_⟩
  · intro kk hk
    have : kk = 0 := by simp [demoHier] at hk; omega
    subst this; simp [demoHier]
  · intro kk hk
    have : kk = 0 := by simp [demoHier] at hk; omega
    subst this; simp [demoHier]
  · intro x hx; simp [demoHier] at hx; subst hx; simp
  · funext a b
    simp only [dag, demoHier]
    by_cases h : a = b
    · simp [h]
    · have : ¬ b = a := fun e => h e.symm
      simp [h, this]
  · intro kk hk
    have : kk = 0 := by simp [demoHier] at hk; omega
    subst this
    funext a b
    simp only [dag, demoHier]
    by_cases h : a = 1 ∧ b = 1
    · simp [h]
    · have : ¬ (b = 1 ∧ a = 1) := fun e => h ⟨e.2, e.1⟩
      simp [h, this]
  · exact hinds_pos 1 2
  · exact hinds_first_zero 1 2

end QV.C16
