"""C18 - saved objects and exported data load back to the same physical values."""
import ast
import io
import os
import shutil
import contextlib
from qvh.core import *
from qvh import extract as X

DRIVER = "C18"
PROPS = "QV.Props.C18"
FORMATS = [".dat", ".txt", ".npy", ".npz", ".mat"]


def extract(ck):
    try:
        S, L = X.lean_str, X.lean_list
        B = lambda b: "true" if b else "false"
        tree = ast.parse(X.read_source(REPO, "quantarhei/core/datasaveable.py"))

        def dispatch(fname):
            f = X.find_def(tree, fname, cls="DataSaveable")
            accepted, table = None, []
            for n in ast.walk(f):
                if isinstance(n, ast.Compare) and isinstance(n.ops[0], ast.NotIn) and isinstance(n.left, ast.Name) and n.left.id == "extension":
                    accepted = [e.value for e in n.comparators[0].elts]
            chain = [s for s in f.body if isinstance(s, ast.If) and "extension" in ast.dump(s.test) and not any(isinstance(x, ast.Raise) for x in s.body)]
            node = chain[-1] if chain else None
            while isinstance(node, ast.If):
                exts = []
                for c in ast.walk(node.test):
                    if isinstance(c, ast.Compare) and isinstance(c.ops[0], ast.Eq) and isinstance(c.left, ast.Name) and c.left.id == "extension":
                        exts.append(c.comparators[0].value)
                calls = [s.value for s in node.body if isinstance(s, ast.Expr) and isinstance(s.value, ast.Call)]
                if len(calls) != 1 or not isinstance(calls[0].func, ast.Attribute):
                    raise X.ExtractError("dispatch branch of %s is not one method call" % fname)
                for e in exts:
                    table.append((e, calls[0].func.attr))
                node = node.orelse[0] if len(node.orelse) == 1 and isinstance(node.orelse[0], ast.If) else None
            if accepted is None:
                raise X.ExtractError("accepted extension list of %s not found" % fname)
            return accepted, table
        acc_s, tab_s = dispatch("save_data")
        acc_l, tab_l = dispatch("load_data")

        def packs(m):
            f = X.find_def(tree, m, cls="DataSaveable")
            for n in ast.walk(f):
                if isinstance(n, ast.If) and isinstance(n.test, ast.Compare) and isinstance(n.test.ops[0], ast.IsNot) \
                        and isinstance(n.test.left, ast.Name) and n.test.left.id == "with_axis":
                    return any(isinstance(c, ast.Call) and isinstance(c.func, ast.Attribute) and c.func.attr == "_data_with_axis" for c in ast.walk(n))
            return False

        def unpacks(m):
            f = X.find_def(tree, m, cls="DataSaveable")
            return any(isinstance(c, ast.Call) and isinstance(c.func, ast.Attribute) and c.func.attr == "_extract_data_with_axis"
                       and len(c.args) == 2 and isinstance(c.args[1], ast.Name) and c.args[1].id == "with_axis" for c in ast.walk(f))
        writers = sorted({w for _, w in tab_s})
        readers = sorted({r for _, r in tab_l})
        ex = X.find_def(tree, "_extract_data_with_axis", cls="DataSaveable")
        two = False
        for n in ast.walk(ex):
            if isinstance(n, ast.If) and isinstance(n.test, ast.Compare) and isinstance(n.test.ops[0], ast.Eq) \
                    and isinstance(n.test.comparators[0], ast.Constant) and n.test.comparators[0].value == 2 and "shape" in ast.dump(n.test.left):
                rets = [r for r in ast.walk(ast.Module(body=n.body, type_ignores=[])) if isinstance(r, ast.Return)]
                two = len(rets) == 1 and isinstance(rets[0].value, ast.Subscript) and ast.unparse(rets[0].value).replace(" ", "") == "data[:,1]"
        # BasisManaged.__getstate__: label 0 and the transformations of the open contexts undone innermost first
        mt = ast.parse(X.read_source(REPO, "quantarhei/core/managers.py"))
        portable = False
        try:
            gs = X.find_def(mt, "__getstate__", cls="BasisManaged")
            sets0 = any(isinstance(n, ast.Assign) and isinstance(n.targets[0], ast.Subscript) and isinstance(n.targets[0].slice, ast.Constant)
                        and n.targets[0].slice.value == "_current_basis" and isinstance(n.value, ast.Constant) and n.value.value == 0
                        for n in ast.walk(gs))
            loops = [n for n in ast.walk(gs) if isinstance(n, ast.For) and isinstance(n.iter, ast.Call) and getattr(n.iter.func, "id", "") == "range"
                     and len(n.iter.args) == 3 and isinstance(n.iter.args[2], ast.UnaryOp) and isinstance(n.iter.args[1], ast.Constant)
                     and n.iter.args[1].value == 0]
            undo = any(isinstance(c, ast.Call) and isinstance(c.func, ast.Attribute) and c.func.attr == "transform" and c.args
                       and "inv" in ast.dump(c.args[0]) and any(k.arg == "inv" for k in c.keywords) for l in loops for c in ast.walk(l))
            portable = sets0 and bool(loops) and undo
        except X.ExtractError:
            portable = False
        body = ("namespace QV.Gen.C18\n"
                "def saveTable : List (String × String) := %s\ndef loadTable : List (String × String) := %s\n"
                "def accepted : List String := %s\ndef acceptedLoad : List String := %s\n"
                "/-- writer, packs with `_data_with_axis` exactly when an axis is given -/\n"
                "def writersPack : List (String × Bool) := %s\n"
                "/-- reader, unpacks with `_extract_data_with_axis` -/\n"
                "def readersUnpack : List (String × Bool) := %s\n"
                "def twoColumnsMeansRank1 : Bool := %s\ndef portablePickle : Bool := %s\nend QV.Gen.C18\n") % (
            L(tab_s, lambda p: "(%s, %s)" % (S(p[0]), S(p[1]))), L(tab_l, lambda p: "(%s, %s)" % (S(p[0]), S(p[1]))),
            L(acc_s, S), L(acc_l, S), L(writers, lambda w: "(%s, %s)" % (S(w), B(packs(w)))),
            L(readers, lambda r: "(%s, %s)" % (S(r), B(unpacks(r)))), B(two), B(portable))
    except (X.ExtractError, Exception) as e:
        return ck.tie_fallback("C18", "extraction of the format dispatch failed: %r" % e)
    facts = dict(save=dict(tab_s), load=dict(tab_l), accepted=acc_s)
    ck.gen("C18", body, facts=facts)
    return facts


def run(ck):
    import numpy
    qr = import_quantarhei()
    from quantarhei import (TimeAxis, FrequencyAxis, DFunction, Hamiltonian, ReducedDensityMatrix, Molecule, Aggregate, CorrelationFunction,
                            SpectralDensity, energy_units, eigenbasis_of, load_parcel, AbsSpectrum, AbsSpectrumContainer, convert)
    from quantarhei.qm import Operator, SystemBathInteraction
    from quantarhei.core.datasaveable import DataSaveable
    from quantarhei.spectroscopy import twod2
    from quantarhei.spectroscopy.twodcontainer import TwoDResponseContainer
    rng = ck.rng
    ck.rule = ("(a) data formats: every extension x real/complex x shapes (N,), (N,M>=2), (N,1), (1,N), N in {1,2,5,40} x with/without a "
               "TimeAxis: load_data(save_data(x)) compared exactly (values always; shape wherever the format can hold it: always for "
               "npy/npz/mat, for text when no dimension has length 1), the axis values exactly; _data_with_axis / _extract_data_with_axis "
               "compared with the Lean model on rational data; the methods save_data / load_data call per extension compared with the "
               "extracted dispatch; (b) parcels: axes, functions, operators, Hamiltonians, density matrices, molecules, built aggregates, "
               "bath functions, system-bath interactions, relaxation tensors, evolutions, absorption spectra and containers, 2D responses "
               "and containers saved and loaded (save/load_parcel and scopy) under every combination of {no context, energy_units('1/cm'), "
               "eigenbasis_of(H)} at saving and at loading time, also after the object was read inside the context, observables compared "
               "under a common context (1e-13 relative; exactly when no basis context is involved); axis replaced by an import before "
               "saving; non-trivial = a context active at save or load time or a degenerate shape")
    ck.trusted += ["harness/c18.py + AST extractor of the dispatch chains of save_data/load_data and of the pack/unpack calls of the writers/readers",
                   "hand model QV/Model/C18.lean of _data_with_axis/_extract_data_with_axis; byte-level fidelity of dill, numpy.save/savetxt/"
                   "loadtxt and scipy.io is trusted (observed through the round trips only)",
                   "the basis bookkeeping model is that of C04 (QV/Model/C04.lean)"]
    tabs = extract(ck)
    ck.prove(PROPS, extra_modules=["QV.Drive.C18"])
    tmp = os.path.join(scratch_dir(), "c18_%d_%d" % (os.getpid(), ck.seed))
    os.makedirs(tmp, exist_ok=True)
    quiet = lambda: contextlib.redirect_stdout(io.StringIO())

    class Box(DataSaveable):
        """minimal carrier of a `data` attribute; logs which reader / writer the dispatch calls"""
        def __init__(self, data=None):
            self.data = data
            self.log = []
    for _m in ("_exportDataToText", "_importDataFromText", "_saveBinaryData", "_loadBinaryData", "_saveBinaryData_compressed",
               "_loadBinaryData_compressed", "_saveMatlab", "_loadMatlab"):
        def mk(m):
            def f(self, *a, **k):
                self.log.append(m)
                return getattr(DataSaveable, m)(self, *a, **k)
            return f
        setattr(Box, _m, mk(_m))

    lines, expect = [], []
    # ---------------- (a) data formats ----------------------------------------------------------------------------------
    try:
        shapes = []
        for N in (1, 2, 5, 40):
            shapes += [(N,), (N, 2), (N, 3), (N, 1), (1, N)]
        shapes = sorted(set(shapes))
        reps = ck.n(1, 4)
        fmt_count = [0]
        for rep in range(reps):
            fmt_count[0] = rep
            for ext in FORMATS:
                for shape in shapes:
                    for cplx in (False, True):
                        for with_axis in (False, True):
                            if with_axis and len(shape) == 2 and shape[0] == 1 and shape[1] > 1 and False:
                                continue
                            N = shape[0]
                            d = numpy.array([rng.uniform(-3, 3) * 10 ** rng.randint(-8, 8) for _ in range(int(numpy.prod(shape)))]).reshape(shape)
                            if cplx:
                                # one scale for the whole imaginary part: small signals (1e-9 .. 1e-12) are data too
                                isc = 10.0 ** rng.choice([-12, -9, -6, 0, 0, 3])
                                d = d + 1j * isc * numpy.array([rng.uniform(-3, 3) for _ in range(d.size)]).reshape(shape)
                                if isc < 1e-7 and rng.random() < 0.5:
                                    d = d * 1e-9 / max(1e-300, float(numpy.abs(d.real).max())) if numpy.abs(d.real).max() > 0 else d
                            axis = TimeAxis(rng.choice([0.0, 100.0, -3.5]), N, rng.choice([1.0, 2.5, 0.1])) if with_axis else None
                            ax0 = axis.data.copy() if axis is not None else None
                            inp = {"format": ext, "shape": list(shape), "complex": cplx, "with_axis": with_axis}
                            degenerate = (1 in shape and len(shape) == 2) or N == 1
                            ck.case(("fmt", ext, shape, cplx, with_axis, rep), nontrivial=True, kind="format", format=ext, complex=cplx,
                                    with_axis=with_axis, degenerate=degenerate,
                                    sample=inp if (ext == ".mat" and shape == (5,) and cplx and with_axis and rep == 0) else None)
                            fn = os.path.join(tmp, "x%s" % ext)
                            b = Box(d.copy())
                            try:
                                with quiet():
                                    b.save_data(fn, with_axis=axis)
                            except Exception as e:
                                ck.fail("raises:save_data:%s" % ext, "save_data raised %r" % (e,), inp)
                                continue
                            # the receiving object may hold data already (of another type or shape): an import replaces them
                            recv = (None, "float zeros", "int zeros", "other shape")[fmt_count[0] % 4]; fmt_count[0] += 1
                            b2 = Box(None if recv is None else numpy.zeros(shape, dtype=float) if recv == "float zeros" else
                                     numpy.zeros(shape, dtype=int) if recv == "int zeros" else numpy.zeros((3,), dtype=float))
                            inp["receiving object held"] = recv
                            ax2 = TimeAxis(0.0, N, 1.0) if with_axis else None
                            try:
                                with quiet():
                                    b2.load_data(fn, with_axis=ax2)
                            except Exception as e:
                                ck.fail("raises:load_data:%s%s" % (ext, ":axis" if with_axis else ""), "load_data raised %r on a file written by save_data" % (e,), inp)
                                continue
                            if b2.data is None:
                                ck.fail("values:%s%s" % (ext, ":axis" if with_axis else ""), "load_data returned without importing anything", inp, None, 0.0)
                                continue
                            got = numpy.asarray(b2.data)
                            if got.size != d.size or not numpy.array_equal(got.ravel(), d.ravel()):
                                dev = float(numpy.abs(got.ravel() - d.ravel()).max()) if got.size == d.size else None
                                ck.fail("values:%s%s" % (ext, ":axis" if with_axis else ""), "imported values differ from the exported ones", inp, dev, 0.0)
                                continue
                            # shape: text files cannot tell (N,1)/(1,N) from (N,); with an axis a two-column file is read as 1-D data
                            keeps = True
                            if ext in (".dat", ".txt") and 1 in shape and len(shape) == 2:
                                keeps = False
                            if ext in (".dat", ".txt") and N == 1:
                                keeps = False
                            if with_axis and len(shape) == 2 and shape[1] == 1:
                                keeps = False                      # theorem extract_pack_N1_witness: same values, rank 1
                            ck.dist["shape_kept=%s" % (got.shape == d.shape)] += 1
                            if keeps and got.shape != d.shape:
                                ck.fail("shape:%s%s" % (ext, ":axis" if with_axis else ""), "imported array has another shape", inp, list(got.shape), list(shape))
                            if with_axis:
                                a2 = numpy.asarray(ax2.data)
                                if a2.shape != ax0.shape or not numpy.array_equal(numpy.real(a2), ax0) or numpy.abs(numpy.imag(a2)).max() > 0:
                                    ck.fail("axis:%s" % ext, "imported axis values differ from the exported ones", inp)
                            want = tabs["save"].get(ext) if tabs else None
                            if tabs and (b.log != [want] or b2.log != [tabs["load"].get(ext)]):
                                ck.disagree("methods called by the dispatch", inp, [b.log, b2.log], [want, tabs["load"].get(ext)])
        # ---- the second family of data carriers (MatrixData: rate matrices, state-vector and density-matrix evolutions) ------
        from quantarhei import StateVector, ReducedDensityMatrix
        from quantarhei.qm.liouvillespace.rates.ratematrix import RateMatrix
        from quantarhei.qm.propagators.statevectorevolution import StateVectorEvolution
        from quantarhei.qm.propagators.dmevolution import ReducedDensityMatrixEvolution
        for rep in range(reps):
            nst = rng.choice([2, 3, 4]) if rep % 2 else (4, 5, 6)[(rep // 2) % 3]; ntm = rng.choice([1, 2, 5])
            tam = TimeAxis(0.0, ntm, 1.0)

            def carriers():
                rd = numpy.array([[rng.uniform(-3, 3) for _ in range(nst)] for _ in range(nst)])
                sv = numpy.array([[rng.uniform(-1, 1) + 1j * rng.uniform(-1, 1) * 10.0 ** rng.choice([-9, 0]) for _ in range(nst)] for _ in range(ntm)])
                hm = numpy.array([[[rng.uniform(-1, 1) + 1j * rng.uniform(-1, 1) for _ in range(nst)] for _ in range(nst)] for _ in range(ntm)])
                hm = (hm + numpy.conj(numpy.transpose(hm, (0, 2, 1)))) / 2.0
                r = RateMatrix(dim=nst); r.data = rd.copy()
                e = StateVectorEvolution(tam, StateVector(data=numpy.ones(nst, dtype=complex))); e.data = sv.copy()
                m_ = ReducedDensityMatrixEvolution(tam, ReducedDensityMatrix(data=numpy.eye(nst, dtype=complex) / nst)); m_.data = hm.copy()
                return [("RateMatrix", r, rd, lambda: RateMatrix(dim=nst)),
                        ("StateVectorEvolution", e, sv, lambda: StateVectorEvolution(tam, StateVector(data=numpy.ones(nst, dtype=complex)))),
                        ("ReducedDensityMatrixEvolution", m_, hm,
                         lambda: ReducedDensityMatrixEvolution(tam, ReducedDensityMatrix(data=numpy.eye(nst, dtype=complex) / nst)))]
            for ext in (".dat", ".txt", ".npy", ".npz"):
                for name, obj, d0, fresh in carriers():
                    inp = {"carrier": name, "format": ext, "states": nst, "times": ntm}
                    ck.case(("matrixdata", name, ext, nst, ntm, rep), nontrivial=True, kind="format-matrixdata", format=ext, carrier=name)
                    fn = os.path.join(tmp, "m%s" % ext)
                    try:
                        with quiet():
                            obj.save_data(fn)
                            o2 = fresh()
                            o2.load_data(fn)
                    except Exception as e:
                        ck.fail("raises:matrixdata:%s:%s" % (name, ext), "save_data / load_data raised %r" % (e,), inp)
                        continue
                    got = numpy.asarray(o2.data)
                    if got.size != d0.size or numpy.abs(got.reshape(d0.shape) - d0).max() > 1e-15 * max(1.0, float(numpy.abs(d0).max())):
                        ck.fail("values:matrixdata:%s:%s" % (name, ext), "imported values differ from the exported ones", inp,
                                float(numpy.abs(got.reshape(d0.shape) - d0).max()) if got.size == d0.size else list(got.shape))
        for ext in FORMATS + [".csv", ".h5", ""]:
            lines.append("dispatch %s" % (ext or "NONE"))
            b = Box(numpy.arange(3.0))
            try:
                with quiet():
                    b.save_data(os.path.join(tmp, "y" + ext))
                    b.load_data(os.path.join(tmp, "y" + ext))
                expect.append(("dispatch", ext, "%s %s true true" % (b.log[0], b.log[1])))
            except Exception as e:
                expect.append(("dispatch", ext, "unknown false false" if "Unknown data format" in str(e) else "raised %r" % (e,)))
        # pack / extract against the model
        for trial in range(ck.n(12, 60)):
            N = rng.choice([1, 2, 3, 6])
            M = rng.choice([0, 1, 2, 3, 4])          # 0 = one-dimensional data
            axis = TimeAxis(float(rng.randint(-5, 5)), N, rng.choice([0.5, 1.0, 2.0]))
            d = numpy.array([float(rng.randint(-40, 40)) / 8.0 for _ in range(N * max(M, 1))]).reshape((N,) if M == 0 else (N, M))
            b = Box(d.copy())
            packed = b._data_with_axis(axis)
            F = lambda a: " ".join(frac(x) for x in numpy.asarray(a, dtype=float).ravel())
            if M == 0:
                lines.append("pack1 %d | %s | %s" % (N, F(axis.data), F(d)))
            else:
                lines.append("pack2 %d %d | %s | %s" % (N, M, F(axis.data), F(d)))
            expect.append(("pack", (N, M), "%d | %s" % (packed.shape[1], F(packed))))
            for C in sorted({packed.shape[1], rng.choice([1, 2, 3, 4])}):
                f = numpy.array([float(rng.randint(-40, 40)) / 8.0 for _ in range(N * C)]).reshape((N, C)) if C != packed.shape[1] else packed
                ax2 = TimeAxis(0.0, N, 1.0)
                lines.append("extract %d %d | %s" % (N, C, F(f)))
                try:
                    with quiet():
                        got = b._extract_data_with_axis(f, ax2)
                    if got.ndim == 1:
                        expect.append(("extract", (N, C), "r1 | %s | %s" % (F(ax2.data), F(got))))
                    else:
                        expect.append(("extract", (N, C), "r2 %d | %s | %s" % (got.shape[1], F(ax2.data), F(got))))
                except Exception:
                    expect.append(("extract", (N, C), "refused"))
            ck.case(("pack", trial), nontrivial=True, kind="pack")

        # ---------------- (b) parcels ---------------------------------------------------------------------------------------
        ta = TimeAxis(0.0, 60, 1.0)
        Hm = numpy.array([[0.0, 0.0, 0.0], [0.0, 1.0, 0.25], [0.0, 0.25, 1.3]])

        def build_pool():
            pool = {}
            H = Hamiltonian(data=Hm.copy())
            pool["Hamiltonian"] = (H, lambda o: {"data": numpy.array(o.data)})
            pool["Operator"] = (Operator(data=numpy.array([[0.0, 1.0, 0.3], [0.5, 0.2, 0.0], [0.1, 0.0, -1.0]])), lambda o: {"data": numpy.array(o.data)})
            pool["ReducedDensityMatrix"] = (ReducedDensityMatrix(data=numpy.array([[0.1, 0.0, 0.0], [0.0, 0.6, 0.2], [0.0, 0.2, 0.3]], dtype=complex)),
                                            lambda o: {"data": numpy.array(o.data)})
            pool["TimeAxis"] = (TimeAxis(5.0, 20, 2.5), lambda o: {"data": numpy.array(o.data), "p": numpy.array([o.start, o.step, o.length])})
            with energy_units("1/cm"):
                fax = FrequencyAxis(-500.0, 40, 25.0)
            pool["FrequencyAxis"] = (fax, lambda o: {"data": numpy.array(o.data)})
            pool["DFunction"] = (DFunction(TimeAxis(0.0, 30, 1.0), numpy.exp(-numpy.arange(30) / 7.0) * (1 + 0.5j)),
                                 lambda o: {"data": numpy.array(o.data), "axis": numpy.array(o.axis.data)})
            with energy_units("1/cm"):
                cf = CorrelationFunction(ta, dict(ftype="OverdampedBrownian", reorg=30.0, cortime=80.0, T=300, matsubara=20))
                cf2 = cf + CorrelationFunction(ta, dict(ftype="OverdampedBrownian-HighTemperature", reorg=12.0, cortime=40.0, T=300))
                sd = SpectralDensity(ta, dict(ftype="OverdampedBrownian", reorg=30.0, cortime=80.0, T=300))
                m1, m2 = Molecule([0.0, 12000.0]), Molecule([0.0, 12300.0])
                m1.set_dipole(0, 1, [1.0, 0.2, 0.0]); m2.set_dipole(0, 1, [0.3, 1.0, 0.0])
                m1.set_transition_environment((0, 1), cf); m2.set_transition_environment((0, 1), cf)
                agg = Aggregate([m1, m2])
                agg.set_resonance_coupling(0, 1, 120.0)
            agg.build()
            fobs = lambda o: {"data": numpy.array(o.data), "axis": numpy.array(o.axis.data), "lamb": numpy.array([o.lamb])}
            pool["CorrelationFunction"] = (cf2, lambda o: dict(fobs(o), T=numpy.array([o.temperature, o.cutoff_time]), n=numpy.array([len(o.params)])))
            pool["SpectralDensity"] = (sd, fobs)
            mobs = lambda o: {"E": numpy.array([o.get_energy(0), o.get_energy(1)]), "d": numpy.array(o.get_dipole(0, 1))}
            with energy_units("1/cm"):
                m3 = Molecule([0.0, 11900.0]); m3.set_dipole(0, 1, [0.0, 0.7, 0.7])
            pool["Molecule"] = (m3, mobs)
            pool["Aggregate"] = (agg, lambda o: {"H": numpy.array(o.get_Hamiltonian().data), "D": numpy.array(o.get_TransitionDipoleMoment().data),
                                                 "lam": numpy.array([o.get_SystemBathInteraction().get_reorganization_energy(0)])})
            pool["SystemBathInteraction"] = (agg.get_SystemBathInteraction(), lambda o: {"KK": numpy.array(o.KK), "c0": numpy.array(o.CC.get_coft(0, 0))})
            with quiet():
                RT, hR = agg.get_RelaxationTensor(ta, relaxation_theory="standard_Redfield")
            pool["RelaxationTensor"] = (RT, lambda o: {"data": numpy.array(o.data)})
            from quantarhei.qm import ReducedDensityMatrixPropagator
            r0 = ReducedDensityMatrix(dim=3); r0.data[2, 2] = 1.0
            with quiet():
                ev = ReducedDensityMatrixPropagator(ta, hR, RT).propagate(r0)
            pool["DensityMatrixEvolution"] = (ev, lambda o: {"data": numpy.array(o.data)})
            with energy_units("1/cm"):
                fa = FrequencyAxis(11000.0, 50, 40.0)
                ab = AbsSpectrum(axis=fa, data=numpy.exp(-((fa.data - 12000.0) / 200.0) ** 2))
                cont = AbsSpectrumContainer(fa)
                cont.set_spectrum(ab, tag="first")
            pool["AbsSpectrum"] = (ab, lambda o: {"data": numpy.array(o.data), "axis": numpy.array(o.axis.data)})
            pool["AbsSpectrumContainer"] = (cont, lambda o: {"data": numpy.array(o.get_spectrum("first").data), "axis": numpy.array(o.axis.data)})
            tr = twod2.TwoDResponse()
            tr.set_axis_1(TimeAxis(0.0, 4, 5.0)); tr.set_axis_3(TimeAxis(0.0, 4, 5.0))
            tr.set_resolution("types")
            tr._add_data(numpy.arange(16.0).reshape(4, 4) * (1 + 0.25j), dtype="R2g")
            tr._add_data(numpy.ones((4, 4)) * (2 - 1j), dtype="R1g")
            def tobs(o):
                out = {}
                for flag in ("total_2D_signal", "R2g", "R1g"):
                    o.set_data_flag(flag)
                    out[flag] = numpy.array(o.d__data)
                o.set_data_flag("total_2D_signal")
                return out
            pool["TwoDResponse"] = (tr, tobs)
            tc = TwoDResponseContainer(t2axis=TimeAxis(0.0, 2, 10.0))
            tr.set_t2(0.0)
            tc.set_spectrum(tr)
            pool["TwoDResponseContainer"] = (tc, lambda o: tobs(o.get_spectrum(0.0)))
            return pool, H

        def observe(fn, obj):
            with energy_units("int"):
                with quiet():
                    return fn(obj)

        CTX = ["none", "units", "basis", "basis-read"]
        pool0, H0 = build_pool()
        names = sorted(pool0)
        combos = [(a, b) for a in CTX for b in ("none", "units", "basis")]
        nround = ck.n(1, 3)
        # basis contexts of a COMPLEX Hermitian operator (inverse of the eigenvector matrix is its conjugate transpose, not its
        # transpose) for the two-index objects
        Hc_data = numpy.array([[0.0, 0.2 + 0.3j, 0.1j], [0.2 - 0.3j, 1.0, 0.25 - 0.4j], [-0.1j, 0.25 + 0.4j, 1.3]])
        ccombos = [("cbasis-read", "none"), ("cbasis-read", "cbasis"), ("none", "cbasis"), ("cbasis", "none"), ("basis-nested", "none"), ("basis-nested", "basis")]
        for rnd in range(nround):
            for name in names:
                for (cs, cl) in combos + (ccombos if name in ("Hamiltonian", "Operator", "ReducedDensityMatrix") else []):
                    if ck.quick and rng.random() < 0.45 and (cs, cl) != ("none", "none") and not cs.startswith("cbasis") and cs != "basis-nested":
                        continue
                    pool, H = build_pool()
                    if cs.startswith("cbasis") or cl.startswith("cbasis"):
                        H = Hamiltonian(data=Hc_data.copy())
                        cs, cl = cs.replace("cbasis", "basis"), cl.replace("cbasis", "basis")
                        complex_ctx = True
                    else:
                        complex_ctx = False
                    obj, fn = pool[name]
                    via = rng.choice(["file", "file", "scopy"]) if hasattr(obj, "scopy") else "file"
                    inp = {"class": name, "context_at_save": cs, "context_at_load": cl, "via": via, "complex_basis_operator": complex_ctx}
                    try:
                        ref = observe(fn, obj)
                    except Exception as e:
                        ck.fail("raises:observe:%s" % name, "reading the observables of the original raised %r" % (e,), inp)
                        continue
                    fnm = os.path.join(tmp, "p.qrp")
                    ck.case(("parcel", name, cs, cl, complex_ctx, rnd), nontrivial=(cs != "none" or cl != "none"), kind="parcel", cls=name, save_ctx=cs, load_ctx=cl,
                            sample=inp if (name == "Hamiltonian" and cs == "units" and cl == "basis") else None)

                    def do_save():
                        with quiet():
                            if via == "scopy":
                                return obj.scopy()
                            obj.save(fnm)
                            return None
                    try:
                        if cs == "none":
                            cp = do_save()
                        elif cs == "units":
                            with energy_units("1/cm"):
                                cp = do_save()
                        elif cs == "basis-nested":
                            # used (read) in an outer context, left alone in an inner one, saved while the inner one is open
                            H_in = Hamiltonian(data=numpy.array([[0.0, 0.0, 0.0], [0.0, 0.7, -0.4], [0.0, -0.4, 2.1]]))
                            with eigenbasis_of(H):
                                observe(fn, obj)
                                with eigenbasis_of(H_in):
                                    cp = do_save()
                        else:
                            with eigenbasis_of(H):
                                if cs == "basis-read":
                                    observe(fn, obj)            # lazy transformation of basis-managed content happens here
                                cp = do_save()
                    except Exception as e:
                        ck.fail("raises:save:%s" % name, "saving raised %r" % (e,), inp)
                        continue
                    key = "%s:%s" % (name, cs)
                    try:
                        def do_load():
                            with quiet():
                                return cp if via == "scopy" else load_parcel(fnm)
                        if cl == "none":
                            o2 = do_load(); got_in = None
                        elif cl == "units":
                            with energy_units("1/cm"):
                                o2 = do_load(); got_in = None
                        else:
                            with eigenbasis_of(H):
                                o2 = do_load()
                                got_in = observe(fn, o2)
                        got = observe(fn, o2)
                    except Exception as e:
                        k = "basis:saved-inside-context" if (cs == "basis-read" and "not on stack" in str(e)) else "raises:load:%s" % key
                        ck.fail(k, "loading / reading the loaded object raised %r" % (e,), inp)
                        continue
                    exact = cs in ("none", "units") and cl in ("none", "units")
                    for k in ref:
                        a, b = numpy.asarray(ref[k]), numpy.asarray(got.get(k))
                        sc = float(numpy.abs(a).max()) or 1.0
                        if a.shape != b.shape:
                            ck.fail("shape:parcel:%s" % key, "observable %s of the loaded object has another shape" % k, inp, list(b.shape), list(a.shape))
                            continue
                        dev = float(numpy.abs(a - b).max()) / sc if a.size else 0.0
                        ck.resid("parcel round trip (relative)", dev)
                        if (exact and dev != 0.0) or dev > 1e-13:
                            kk = "basis:saved-inside-context" if cs in ("basis-read", "basis-nested") else "values:parcel:%s:%s" % (key, cl)
                            ck.fail(kk, "observable `%s` of the loaded object differs from the saved one" % k, inp, dev, 0.0 if exact else 1e-13)
        # ---- whole-number data (integer arrays) exported together with an axis whose values are not whole numbers --------------------------
        for ext in FORMATS:
            for shape in ((4,), (4, 2)):
                di = numpy.arange(1, 1 + int(numpy.prod(shape)), dtype=int).reshape(shape)
                axi = TimeAxis(0.5, 4, 0.25)
                inp = {"format": ext, "shape": list(shape), "data": "integer array", "axis": [0.5, 4, 0.25]}
                ck.case(("fmt-int-axis", ext, shape), nontrivial=True, kind="format", format=ext, with_axis=True)
                try:
                    fn4 = os.path.join(tmp, "xi%s" % ext)
                    bi = Box(di.copy())
                    with quiet():
                        bi.save_data(fn4, with_axis=axi)
                        bi2 = Box(None); axi2 = TimeAxis(0.0, 4, 1.0)
                        bi2.load_data(fn4, with_axis=axi2)
                    okd = bi2.data is not None and numpy.asarray(bi2.data).size == di.size and numpy.array_equal(numpy.real(numpy.asarray(bi2.data)).ravel(), di.ravel())
                    oka = numpy.array_equal(numpy.real(numpy.asarray(axi2.data)), numpy.asarray(axi.data))
                    if not (okd and oka):
                        ck.fail("values:integer-data-with-axis:%s" % ext, "integer data exported with an axis and imported: %s differ from the exported ones" %
                                ("the axis values" if okd else "the values"), inp, numpy.real(numpy.asarray(axi2.data)).tolist(), numpy.asarray(axi.data).tolist())
                except Exception as e:
                    ck.fail("raises:integer-data-with-axis:%s" % ext, "raised %r" % (e,), inp)
        # ---- spectra export their frequency axis with the data: export and import under the same units context --------------------
        from quantarhei.spectroscopy.absbase import AbsSpectrumBase
        from quantarhei import FrequencyAxis
        for un in (None, "1/cm", "eV", "THz"):
            for ext in (".dat", ".npy"):
                inp = {"scenario": "AbsSpectrumBase.save_data / load_data", "units context": un, "format": ext}
                ck.case(("spect-export", un, ext), nontrivial=un is not None, kind="format", format=ext, with_axis=True)
                try:
                    with energy_units("1/cm"):
                        wa = FrequencyAxis(10000.0, 60, 5.0)
                        yy = numpy.exp(-(wa.data - 10150.0) ** 2 / (40.0 ** 2))
                    sp = AbsSpectrumBase(axis=wa, data=yy.copy())
                    fn3 = os.path.join(tmp, "spect" + ext)
                    with (energy_units(un) if un else contextlib.nullcontext()):
                        ax_before = numpy.array(sp.axis.data)
                        with quiet():
                            sp.save_data(fn3)
                        sp2 = AbsSpectrumBase(axis=FrequencyAxis(0.0, 60, 1.0))
                        with quiet():
                            sp2.load_data(fn3)
                        ax_after = numpy.array(sp2.axis.data)
                    dev = float(numpy.abs(ax_after - ax_before).max() / numpy.abs(ax_before).max()) if ax_after.shape == ax_before.shape else 1e300
                    devd = float(numpy.abs(numpy.asarray(sp2.data) - yy).max())
                    ck.resid("spectrum export/import: axis (relative)", dev)
                    if dev > 1e-13 or devd > 1e-13:
                        ck.fail("values:spectrum-export", "frequencies or values of an exported and re-imported spectrum differ from the original ones",
                                inp, [dev, devd], 0.0)
                except Exception as e:
                    ck.fail("raises:spectrum-export", "raised %r" % (e,), inp)
        # ---- axis values replaced by an import, then saved ----------------------------------------------------------------
        for via in ("file", "scopy"):
            src = DFunction(TimeAxis(100.0, 50, 2.5), numpy.sin(numpy.arange(50) / 5.0))
            fn2 = os.path.join(tmp, "f.npy")
            src.save_data(fn2, with_axis=src.axis)
            f = DFunction(TimeAxis(0.0, 50, 1.0), numpy.zeros(50))
            with quiet():
                f.load_data(fn2, with_axis=f.axis)
            inp = {"scenario": "function imported on another axis, then saved", "via": via}
            ck.case(("axis-import", via), nontrivial=True, kind="parcel", cls="DFunction")
            try:
                with quiet():
                    if via == "file":
                        f.save(os.path.join(tmp, "g.qrp")); g = load_parcel(os.path.join(tmp, "g.qrp"))
                    else:
                        g = f.scopy()
                if not numpy.array_equal(numpy.asarray(g.axis.data), numpy.asarray(src.axis.data)) or not numpy.array_equal(g.data, src.data):
                    ck.fail("values:parcel:axis-after-import", "axis values of a loaded function differ from those it was saved with", inp,
                            [float(g.axis.data[0]), float(g.axis.data[-1])], [100.0, 222.5])
            except Exception as e:
                ck.fail("raises:parcel:axis-after-import", "raised %r" % (e,), inp)
        # ---- several objects written one after another into ONE open file and read back in the same order ---------------------
        for rnd2 in range(ck.n(3, 12)):
            pool, H = build_pool()
            names = sorted(pool)
            rng.shuffle(names)
            names = names[:rng.randint(2, 5)]
            if rnd2 == 0:
                names = names + names[:1]              # the same object twice in one stream
            fnm = os.path.join(tmp, "many.qrp")
            inp = {"scenario": "objects saved one after another into one open file, loaded back in order", "classes": names}
            ck.case(("parcel-stream", tuple(names), rnd2), nontrivial=True, kind="parcel", cls="stream", save_ctx="none", load_ctx="none")
            try:
                refs = [observe(pool[nm][1], pool[nm][0]) for nm in names]
                with quiet():
                    with open(fnm, "wb") as fh:
                        for nm in names:
                            pool[nm][0].save(fh)
                    with open(fnm, "rb") as fh:
                        back = [load_parcel(fh) for nm in names]
            except Exception as e:
                ck.fail("raises:parcel:stream", "saving to / loading from an open file raised %r" % (e,), inp)
                continue
            for nm, ref, o2 in zip(names, refs, back):
                try:
                    if type(o2) is not type(pool[nm][0]):
                        ck.fail("values:parcel:stream", "object number %d read from the stream is a %s, saved was a %s" %
                                (names.index(nm), type(o2).__name__, type(pool[nm][0]).__name__), inp)
                        continue
                    got = observe(pool[nm][1], o2)
                    for k in ref:
                        a, b = numpy.asarray(ref[k]), numpy.asarray(got.get(k))
                        if a.shape != b.shape or (a.size and float(numpy.abs(a - b).max()) != 0.0):
                            ck.fail("values:parcel:stream", "observable `%s` of the %s read from the stream differs from the saved one" % (k, nm), inp)
                            break
                except Exception as e:
                    ck.fail("raises:parcel:stream", "reading the %s loaded from the stream raised %r" % (nm, e), inp)
        # ---- the directory container (savedir / loaddir): several objects saving into one directory in turns, and a resumed series ------
        for rnd3 in range(ck.n(2, 8)):
            dname = os.path.join(tmp, "dir%d" % rnd3)
            tax = TimeAxis(0.0, 6, 1.0)
            mkf = lambda v: DFunction(tax, numpy.arange(6) * 1.0 + 100.0 * v)
            nobj = rng.randint(2, 3)
            objs = [mkf(k + 1) for k in range(nobj)]
            turns = [rng.randrange(nobj) for _ in range(rng.randint(3, 6))]
            if rnd3 == 0:
                turns = [0, 1, 0]
            saved = []                                  # values saved, in order
            inp = {"scenario": "objects saving into one directory in turns (savedir with automatic tags), then loaddir", "turns": turns}
            ck.case(("savedir", tuple(turns), rnd3), nontrivial=True, kind="parcel", cls="savedir", save_ctx="none", load_ctx="none")
            try:
                with quiet():
                    for step_, who in enumerate(turns):
                        objs[who].data = numpy.array(objs[who].data) + 0.25      # the object moved on since it was saved last
                        if step_ == 1 and rnd3 % 3 == 1:
                            objs[who].savedir(dname, tag=7)           # one snapshot under an explicit (larger) tag; automatic tags go on after it
                            inp["explicit_tag_at_step_1"] = 7
                        else:
                            objs[who].savedir(dname)
                        saved.append(numpy.array(objs[who].data).copy())
                    if rnd3 % 2 == 1:
                        # a resumed series: the latest snapshot is taken from the directory, changed and saved back
                        got0 = objs[0].loaddir(dname)
                        last = got0[max(got0)]
                        last.data = numpy.array(last.data) + 7.0
                        last.savedir(dname)
                        saved.append(numpy.array(last.data).copy())
                        inp["resumed_from_loaded_snapshot"] = True
                    got = objs[0].loaddir(dname)
            except Exception as e:
                ck.fail("raises:parcel:savedir", "savedir / loaddir raised %r" % (e,), inp)
                continue
            vals = [numpy.array(got[k].data) for k in sorted(got)]
            if len(vals) != len(saved):
                ck.fail("values:parcel:savedir", "loaddir returns %d objects, %d were saved" % (len(vals), len(saved)), inp, len(vals), len(saved))
            elif any(numpy.abs(a - b).max() != 0.0 for a, b in zip(vals, saved)):
                ck.fail("values:parcel:savedir", "an object returned by loaddir carries other data than the one saved under that tag", inp)
    finally:
        shutil.rmtree(tmp, ignore_errors=True)

    # ---- model -----------------------------------------------------------------------------------------------------------
    lines2 = [l.replace("dispatch NONE", "dispatch ") if False else l for l in lines]
    out = ck.drive(DRIVER, lines2)
    if out is not None:
        for l, (kind, what, want), o in zip(lines2, expect, out):
            if kind == "dispatch" and what == "":
                continue
            if o.strip() != want.strip():
                ck.disagree("%s %s" % (kind, what), l[:200], want[:300], o[:300])
    return ck.finish()
