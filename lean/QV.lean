import QV.Core.Num
