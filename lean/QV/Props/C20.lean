import QV.Model.C20
import Mathlib.Tactic.Ring
import Mathlib.Tactic.Linarith
import Mathlib.Tactic.SplitIfs
import Mathlib.Algebra.BigOperators.Intervals
import Mathlib.Order.Interval.Finset.Basic
import Mathlib.Algebra.Order.Group.Int
import Mathlib.Data.Int.Interval

/-!
# C20 — distributed work ranges partition the index range exactly

All theorems are about `QV.Gen.C20.rangeLo/rangeHi`, which the extractor
regenerates from `quantarhei/core/parallel.py::_calculate_ranges` on every run.
They hold for every number of processes `size ≥ 1` and all integers
`start`, `stop` (no bound).
-/
namespace QV.C20
open QV.Gen.C20

/-- Python's `//` and `%` for a positive divisor. -/
theorem pydivmod (w s : Int) (hs : 0 < s) :
    w = s * Int.fdiv w s + Int.fmod w s ∧ 0 ≤ Int.fmod w s ∧ Int.fmod w s < s := by
  rw [Int.fdiv_eq_ediv_of_nonneg _ (le_of_lt hs), Int.fmod_eq_emod_of_nonneg _ (le_of_lt hs)]
  exact ⟨(Int.mul_ediv_add_emod w s).symm, Int.emod_nonneg _ (ne_of_gt hs), Int.emod_lt_of_pos _ hs⟩

/-- consecutive blocks touch: the end of block `r` is the start of block `r+1` -/
theorem blocks_contiguous (size r start stop : Int) (hs : 0 < size) (hr : 0 ≤ r) :
    rangeHi size r start stop = rangeLo size (r + 1) start stop := by
  obtain ⟨_, h1, _⟩ := pydivmod (stop - start) size hs
  unfold rangeHi rangeLo
  generalize Int.fdiv (stop - start) size = p at *
  generalize Int.fmod (stop - start) size = m at *
  have e : (r + 1) * p = r * p + p := by ring
  split_ifs <;> omega

/-- the first block starts at `start` -/
theorem first_block_starts (size start stop : Int) (hs : 0 < size) :
    rangeLo size 0 start stop = start := by
  obtain ⟨_, h1, _⟩ := pydivmod (stop - start) size hs
  unfold rangeLo
  generalize Int.fdiv (stop - start) size = p at *
  generalize Int.fmod (stop - start) size = m at *
  split_ifs <;> omega

/-- the last block ends at `stop` (also for `stop < start`) -/
theorem last_block_ends (size start stop : Int) (hs : 0 < size) :
    rangeHi size (size - 1) start stop = stop := by
  obtain ⟨h0, h1, h2⟩ := pydivmod (stop - start) size hs
  unfold rangeHi
  generalize Int.fdiv (stop - start) size = p at *
  generalize Int.fmod (stop - start) size = m at *
  have e : (size - 1) * p = size * p - p := by ring
  split_ifs <;> omega

/-- each block has `per_worker` or `per_worker + 1` elements; the longer ones are ranks `1..remainder` -/
theorem block_size (size r start stop : Int) :
    rangeHi size r start stop - rangeLo size r start stop =
      Int.fdiv (stop - start) size +
        (if r ≠ 0 ∧ r ≤ Int.fmod (stop - start) size then 1 else 0) := by
  unfold rangeHi rangeLo
  generalize Int.fdiv (stop - start) size = p at *
  generalize Int.fmod (stop - start) size = m at *
  split_ifs <;> omega

/-- block sizes differ by at most one -/
theorem sizes_differ_by_one (size r r' start stop : Int) :
    (rangeHi size r start stop - rangeLo size r start stop) -
      (rangeHi size r' start stop - rangeLo size r' start stop) ≤ 1 := by
  rw [block_size, block_size]
  split_ifs <;> omega

/-- for a non-empty or empty forward range no block has negative length -/
theorem blocks_forward (size r start stop : Int) (hs : 0 < size) (h : start ≤ stop) :
    rangeLo size r start stop ≤ rangeHi size r start stop := by
  have hb := block_size size r start stop
  obtain ⟨h0, h1, h2⟩ := pydivmod (stop - start) size hs
  have hp : 0 ≤ Int.fdiv (stop - start) size := by
    by_contra hc
    have : size * Int.fdiv (stop - start) size ≤ size * (-1) :=
      mul_le_mul_of_nonneg_left (by omega) (le_of_lt hs)
    omega
  split_ifs at hb <;> omega

/-- a backward range (`stop < start`) gives every rank an empty Python `range` -/
theorem all_empty (size r start stop : Int) (hs : 0 < size) (h : stop < start) :
    rangeHi size r start stop ≤ rangeLo size r start stop := by
  have hb := block_size size r start stop
  obtain ⟨h0, h1, h2⟩ := pydivmod (stop - start) size hs
  have hp : Int.fdiv (stop - start) size ≤ -1 := by
    by_contra hc
    have : size * 0 ≤ size * Int.fdiv (stop - start) size :=
      mul_le_mul_of_nonneg_left (by omega) (le_of_lt hs)
    omega
  split_ifs at hb <;> omega

/-- block boundaries as a chain indexed by natural numbers -/
def bd (size start stop : Int) (k : Nat) : Int := rangeLo size k start stop

theorem bd_succ (size start stop : Int) (hs : 0 < size) (k : Nat) :
    bd size start stop (k + 1) = rangeHi size k start stop := by
  unfold bd
  rw [blocks_contiguous size k start stop hs (by omega)]
  push_cast; rfl

theorem bd_zero (size start stop : Int) (hs : 0 < size) : bd size start stop 0 = start := by
  unfold bd; exact_mod_cast first_block_starts size start stop hs

theorem bd_last (n : Nat) (start stop : Int) (hn : 0 < n) : bd n start stop n = stop := by
  have hs : (0 : Int) < n := by exact_mod_cast hn
  obtain ⟨k, rfl⟩ : ∃ k, n = k + 1 := ⟨n - 1, by omega⟩
  rw [bd_succ _ _ _ hs]
  have := last_block_ends ((k + 1 : Nat) : Int) start stop hs
  push_cast at this ⊢
  simpa using this

theorem bd_mono (size start stop : Int) (hs : 0 < size) (h : start ≤ stop) (k : Nat) :
    bd size start stop k ≤ bd size start stop (k + 1) := by
  rw [bd_succ _ _ _ hs]; exact blocks_forward size k start stop hs h

/-- generic: a monotone chain of boundaries partitions `[f 0, f n)` -/
theorem chain_cover (f : Nat → Int) (n : Nat) (hm : ∀ k, f k ≤ f (k + 1)) (i : Int)
    (h0 : f 0 ≤ i) (h1 : i < f n) : ∃! k, k < n ∧ f k ≤ i ∧ i < f (k + 1) := by
  have mono : ∀ a b, a ≤ b → f a ≤ f b := by
    intro a b hab
    induction b, hab using Nat.le_induction with
    | base => exact le_refl _
    | succ b _ ih => exact le_trans ih (hm b)
  have ex : ∃ k, k < n ∧ f k ≤ i ∧ i < f (k + 1) := by
    induction n with
    | zero => omega
    | succ n ih =>
      by_cases hc : i < f n
      · obtain ⟨k, hk, hk'⟩ := ih hc
        exact ⟨k, by omega, hk'⟩
      · exact ⟨n, by omega, by omega, h1⟩
  obtain ⟨k, hk, hlo, hhi⟩ := ex
  refine ⟨k, ⟨hk, hlo, hhi⟩, ?_⟩
  rintro k' ⟨_, hlo', hhi'⟩
  by_contra hne
  rcases Nat.lt_or_gt_of_ne hne with hlt | hgt
  · have := mono (k' + 1) k (by omega); omega
  · have := mono (k + 1) k' (by omega); omega

/-- **disjoint exact cover**: every index of the requested range belongs to the
block of exactly one rank, for every process count and every integer range -/
theorem disjoint_cover (n : Nat) (start stop : Int) (hn : 0 < n) (i : Int)
    (h0 : start ≤ i) (h1 : i < stop) :
    ∃! r : Nat, r < n ∧ rangeLo n r start stop ≤ i ∧ i < rangeHi n r start stop := by
  have hs : (0 : Int) < n := by exact_mod_cast hn
  have h := chain_cover (bd n start stop) n (bd_mono n start stop hs (by omega)) i
    (by rw [bd_zero _ _ _ hs]; exact h0) (by rw [bd_last n start stop hn]; exact h1)
  simp only [bd_succ _ _ _ hs] at h
  simpa only [bd] using h

/-- nothing outside the requested range is handed out -/
theorem blocks_inside (n : Nat) (start stop : Int) (hn : 0 < n) (hss : start ≤ stop) (r : Nat) (hr : r < n)
    (i : Int) (hlo : rangeLo n r start stop ≤ i) (hhi : i < rangeHi n r start stop) :
    start ≤ i ∧ i < stop := by
  have hs : (0 : Int) < n := by exact_mod_cast hn
  have mono : ∀ a b, a ≤ b → bd n start stop a ≤ bd n start stop b := by
    intro a b hab
    induction b, hab using Nat.le_induction with
    | base => exact le_refl _
    | succ b _ ih => exact le_trans ih (bd_mono n start stop hs hss b)
  have h1 := mono 0 r (by omega)
  have h2 := mono (r + 1) n (by omega)
  rw [bd_zero _ _ _ hs] at h1
  rw [bd_last n start stop hn, bd_succ _ _ _ hs] at h2
  unfold bd at h1
  omega

/-- generic: summing block by block along a monotone chain is the serial sum -/
theorem chain_sum {M : Type*} [AddCommMonoid M] (f : Nat → Int) (g : Int → M) (n : Nat)
    (hm : ∀ k, f k ≤ f (k + 1)) :
    ∑ k ∈ Finset.range n, ∑ i ∈ Finset.Ico (f k) (f (k + 1)), g i = ∑ i ∈ Finset.Ico (f 0) (f n), g i := by
  have mono : ∀ b, f 0 ≤ f b := by
    intro b
    induction b with
    | zero => exact le_refl _
    | succ b ih => exact le_trans ih (hm b)
  induction n with
  | zero => simp
  | succ n ih =>
    rw [Finset.sum_range_succ, ih, ← Finset.sum_union (Finset.Ico_disjoint_Ico_consecutive _ _ _),
      Finset.Ico_union_Ico_eq_Ico (mono n) (hm n)]

/-- **sum-reduced results equal the serial result** -/
theorem reduce_eq_serial {M : Type*} [AddCommMonoid M] (n : Nat) (start stop : Int) (hn : 0 < n)
    (h : start ≤ stop) (g : Int → M) :
    ∑ r ∈ Finset.range n, ∑ i ∈ Finset.Ico (rangeLo n r start stop) (rangeHi n r start stop), g i
      = ∑ i ∈ Finset.Ico start stop, g i := by
  have hs : (0 : Int) < n := by exact_mod_cast hn
  have := chain_sum (bd n start stop) g n (bd_mono n start stop hs h)
  rw [bd_zero _ _ _ hs, bd_last n start stop hn] at this
  simp only [bd_succ _ _ _ hs] at this
  simpa only [bd] using this

/-- membership in the list a rank receives (model of `block_distributed_range`) -/
theorem mem_pyRange (a b i : Int) : i ∈ pyRange a b ↔ a ≤ i ∧ i < b := by
  unfold pyRange
  simp only [List.mem_map, List.mem_range]
  constructor
  · rintro ⟨k, hk, rfl⟩; omega
  · rintro ⟨h1, h2⟩; exact ⟨(i - a).toNat, by omega, by omega⟩

theorem mem_blockRange (size r start stop i : Int) :
    i ∈ blockRange size r start stop ↔ rangeLo size r start stop ≤ i ∧ i < rangeHi size r start stop :=
  mem_pyRange _ _ _

/-- non-vacuity: 3 processes, range(5, 15): blocks [5,8) [8,12) [12,15) -/
example : (rangeLo 3 0 5 15, rangeHi 3 0 5 15, rangeLo 3 1 5 15, rangeHi 3 1 5 15,
    rangeLo 3 2 5 15, rangeHi 3 2 5 15) = (5, 8, 8, 12, 12, 15) := by decide

/-- non-vacuity: a range shorter than the process count -/
example : blockRange 4 0 0 2 = [] ∧ blockRange 4 1 0 2 = [0] ∧ blockRange 4 2 0 2 = [1] ∧ blockRange 4 3 0 2 = [] := by
  decide

end QV.C20
