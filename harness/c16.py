"""C16 - hierarchical equations: complete index set, consistent links, valid states."""
import math
from qvh.core import *

DRIVER = "C16"
PROPS = "QV.Props.C16"


class HamStub:
    """what KTHierarchyPropagator reads from the Hamiltonian of the hierarchy"""
    def __init__(self, data, rwa_energies):
        import numpy
        self.data = data
        self.dim = data.shape[0]
        self.has_rwa = True
        self.rwa_indices = numpy.array([0, 1])
        self.rwa_energies = rwa_energies


def bare_hierarchy(heom, numpy, nbath, depth, gamma=None):
    """a KTHierarchy whose bookkeeping is computed by the real methods, without building an aggregate"""
    hy = object.__new__(heom.KTHierarchy)
    hy.nbath, hy.depth = nbath, depth
    indxs = hy.generate_indices(nbath, level=depth)
    hy.hsize = sum(len(l) for l in indxs)
    hy.levels = numpy.zeros(depth + 1, dtype=int)
    hy.levlengths = numpy.zeros(depth + 1, dtype=int)
    hy.hinds = hy._convert_2_matrix(indxs)
    hy.nm1 = numpy.zeros((hy.hsize, nbath), dtype=int)
    hy.np1 = numpy.zeros((hy.hsize, nbath), dtype=int)
    hy._make_nmp1()
    hy.gamma = numpy.array(gamma if gamma is not None else [1.0] * nbath, dtype=float)
    hy.Gamma = numpy.zeros(hy.hsize, dtype=float)
    hy._make_Gamma()
    return hy, indxs


def run(ck):
    import numpy
    qr = import_quantarhei()
    from quantarhei.qm.liouvillespace import heom
    rng = ck.rng
    ck.rule = ("(a) index tables hinds/levels/levlengths/nm1/np1/Gamma produced by the real KTHierarchy methods for baths 1..5 x depth 0..7 "
               "(bounded by hierarchy size) compared exactly with the model; (b) propagate() of hand-parameterised hierarchies "
               "(dyadic H, projector couplings, lam, gamma, kBT) vs the rational model; (c) API-built hierarchies: trace, Hermiticity, "
               "lambda->0 limit, convergence to exp(-iwt-g(t)) for uncoupled sites; non-trivial = nbath>=2 and depth>=2")
    ck.trusted += ["harness/c16.py; KTHierarchy objects for (a),(b) are created with object.__new__ and filled by the class's own methods",
                   "hand model QV/Model/C16.lean validated on generated inputs only",
                   "convergence with depth and the analytic g(t) comparison are measured, not proved"]
    ck.prove(PROPS, extra_modules=["QV.Drive.C16"], also=["QV.Props.C16Dyn", "QV.Props.C16Herm"])
    lines, impl, tol = [], [], []
    # ---- (a) tables ------------------------------------------------------------------------
    combos = [(n, d) for n in range(1, 6) for d in range(0, 8) if math.comb(n + d, d) <= ck.n(130, 800)]
    if ck.quick:
        combos = [c for c in combos if (c[0] + c[1]) % 2 == ck.seed % 2 or c in ((2, 4), (3, 6), (4, 3), (5, 3), (3, 3))]
    # deep hierarchies (indices with two decimal digits) whatever the seed
    combos += [(1, 12), (2, 10), (2, 11)] + ([] if ck.quick else [(3, 10), (2, 20), (3, 12), (4, 10)])
    for (n, d) in combos:
        gam = [rng.randint(1, 9) / 8.0 for _ in range(n)]
        try:
            hy, indxs = bare_hierarchy(heom, numpy, n, d, gam)
        except Exception as e:
            ck.fail("raises:tables", "building the index tables raised %r" % (e,), {"nbath": n, "depth": d})
            continue
        H = [tuple(int(x) for x in row) for row in hy.hinds]
        ck.case(("tab", n, d), nontrivial=(n >= 2 and d >= 2), nbath=n, depth=d,
                sample={"nbath": n, "depth": d, "hsize": hy.hsize, "first": H[:6]} if (n, d) == (2, 4) else None)
        # direct oracle: completeness, uniqueness, level order, links
        want = math.comb(n + d, d)
        if len(H) != want or len(set(H)) != len(H):
            ck.fail("index:count", "hierarchy does not contain every multi-index exactly once", {"nbath": n, "depth": d}, len(H), want)
        if [sum(v) for v in H] != sorted(sum(v) for v in H) or set(H) != set(v for v in H if sum(v) <= d):
            ck.fail("index:order", "indices not ordered level by level", {"nbath": n, "depth": d})
        if len(set(H)) == len(H) and len(H) == want:
            allv = set(H)
            import itertools
            full = set(v for v in itertools.product(range(d + 1), repeat=n) if sum(v) <= d)
            if allv != full:
                ck.fail("index:complete", "index set differs from {n : |n| <= depth}", {"nbath": n, "depth": d})
        pos = {v: i for i, v in enumerate(H)}
        badl = None
        for i, v in enumerate(H):
            for k in range(n):
                m, p = int(hy.nm1[i, k]), int(hy.np1[i, k])
                lo = tuple(x - (1 if j == k else 0) for j, x in enumerate(v))
                hi = tuple(x + (1 if j == k else 0) for j, x in enumerate(v))
                if (m == -1) != (v[k] == 0) or (m >= 0 and H[m] != lo):
                    badl = ("nm1", i, k, m)
                if (p == -1) != (sum(v) == d) or (p >= 0 and H[p] != hi):
                    badl = ("np1", i, k, p)
                if m >= 0 and int(hy.np1[m, k]) != i:
                    badl = ("np1(nm1)", i, k, m)
                if p >= 0 and int(hy.nm1[p, k]) != i:
                    badl = ("nm1(np1)", i, k, p)
        if badl:
            ck.fail("links", "raising/lowering links are not mutually inverse / boundaries wrong", {"nbath": n, "depth": d}, badl)
        lines.append("hinds %d %d" % (n, d)); impl.append(" | ".join(" ".join(str(x) for x in v) for v in H)); tol.append(None)
        lines.append("levels %d %d" % (n, d)); impl.append(" ".join(str(int(x)) for x in hy.levels) + " ; " + " ".join(str(int(x)) for x in hy.levlengths)); tol.append(None)
        lines.append("nm1 %d %d" % (n, d)); impl.append(" | ".join(" ".join(str(int(x)) for x in r) for r in hy.nm1)); tol.append(None)
        lines.append("np1 %d %d" % (n, d)); impl.append(" | ".join(" ".join(str(int(x)) for x in r) for r in hy.np1)); tol.append(None)
        lines.append("gamma %d %d %s" % (n, d, " ".join(frac(g) for g in gam))); impl.append(" ".join(frac(x) for x in hy.Gamma)); tol.append(None)
    # ---- (b) dynamics of hand-parameterised hierarchies -------------------------------------------
    for h in range(ck.n(10, 80)):
        dim = rng.randint(2, 3) if h % 3 != 1 else 3
        nb = rng.randint(1, 2)
        depth = rng.randint(0, 3)
        if h % 5 == 2:
            nb, depth, dim = 2, max(depth, 1), 3
        hy, _ = bare_hierarchy(heom, numpy, nb, depth, [rng.randint(1, 8) / 64.0 for _ in range(nb)])
        Hm = numpy.zeros((dim, dim))
        for i in range(dim):
            for j in range(i, dim):
                Hm[i, j] = Hm[j, i] = rng.randint(-8, 8) / 16.0
        Hm[0, :] = 0; Hm[:, 0] = 0
        if h % 3 == 1 and dim >= 3:
            # a complex Hermitian Hamiltonian (couplings with a phase)
            Hm = Hm.astype(complex)
            for i in range(1, dim):
                for j in range(i + 1, dim):
                    ph = rng.randint(1, 4) / 8.0
                    Hm[i, j] = Hm[i, j] + 1j * ph; Hm[j, i] = numpy.conj(Hm[i, j])
        omega = numpy.array([0.0] + [rng.randint(0, 4) / 4.0] * (dim - 1))
        if h % 4 == 3:
            # the rotating-frame reference of the ground state need not be zero (ground-state energy offset, vibrational ground-state block)
            omega[0] = rng.choice([0.25, 0.5, -0.25])
            Hm[0, 0] = rng.choice([0.25, 0.5])
        hy.ham = HamStub(Hm.copy(), omega)
        hy.dim = dim
        Vs = numpy.zeros((nb, dim, dim))
        for k in range(nb):
            Vs[k, 1 + (k % (dim - 1)), 1 + (k % (dim - 1))] = 1.0
        hy.Vs = Vs
        hy.lam = numpy.array([rng.randint(0, 8) / 128.0 for _ in range(nb)])
        if h % 8 == 3:
            hy.lam = numpy.zeros(nb)          # no coupling to the baths at all: closed-system dynamics in the frame of the given reference energies
        if h % 5 == 2 and nb == 2:
            hy.lam = numpy.array([0.0, rng.randint(1, 8) / 128.0])       # a bath of zero strength listed before one that acts
        hy.kBT = rng.randint(1, 8) / 16.0
        hy.reset_ados()
        dt = rng.choice([0.25, 0.5, 1.0])
        nt = rng.randint(2, 5)
        ta = qr.TimeAxis(0.0, nt, dt)
        prop = heom.KTHierarchyPropagator(ta, hy)
        r0 = numpy.zeros((dim, dim), dtype=complex)
        a = [rng.randint(-4, 4) / 8.0 for _ in range(dim)]
        b = [rng.randint(-4, 4) / 8.0 for _ in range(dim)]
        psi = numpy.array(a) + 1j * numpy.array(b)
        psi[0] = 0 if h % 4 != 3 else 0.5        # with a ground-state reference in play the state has optical coherences
        if abs(psi).sum() == 0:
            psi[1] = 1.0
        r0 = numpy.outer(psi, psi.conj())
        rhoi = qr.ReducedDensityMatrix(data=r0.copy())
        Lord = (4, 2, 6, 3)[h % 4]            # every expansion order, not only the default
        rhot = prop.propagate(rhoi, L=Lord) if Lord != 4 or h % 8 == 0 else prop.propagate(rhoi)
        Heff = Hm - numpy.diag(omega)
        vals = list(Heff.flatten()) + list(Vs.flatten()) + list(hy.lam) + list(hy.gamma) + [hy.kBT] + list(r0.flatten())
        lines.append("heom %d %d %d %s %d %d %s" % (dim, nb, depth, cfrac(dt), Lord, nt, " ".join(cfrac(x) for x in vals)))
        impl.append(" | ".join(" ".join(cfrac(x) for x in rhot.data[i].flatten()) for i in range(nt)))
        tol.append(1e-9 * max(1.0, float(abs(rhot.data).max())))
        ck.case(("dyn", dim, nb, depth, Lord, Hm.tobytes(), r0.tobytes()), nontrivial=(nb >= 1 and depth >= 1), kind="dyn", depth=depth, order=Lord,
                sample={"dim": dim, "nbath": nb, "depth": depth, "H": Hm.tolist(), "lam": hy.lam.tolist()} if h == 0 else None)
        if h % 5 == 2 and nb == 2 and hy.lam[0] == 0.0:
            # a bath that does not act can be left out: same reduced dynamics as the hierarchy of the second bath alone
            hy1, _ = bare_hierarchy(heom, numpy, 1, depth, [hy.gamma[1]])
            hy1.ham = HamStub(Hm.copy(), omega); hy1.dim = dim
            hy1.Vs = Vs[1:2].copy(); hy1.lam = numpy.array([hy.lam[1]]); hy1.kBT = hy.kBT
            hy1.reset_ados()
            rhot1 = heom.KTHierarchyPropagator(ta, hy1).propagate(qr.ReducedDensityMatrix(data=r0.copy()), L=Lord)
            d1 = float(numpy.abs(rhot1.data - rhot.data).max())
            ck.resid("bath of zero strength listed first vs left out", d1)
            if d1 > 1e-10:
                ck.fail("dyn:zero-strength-bath", "a bath with zero coupling strength listed before another one changes the reduced dynamics "
                        "(compared with the hierarchy of the second bath alone)", {"H": Hm.tolist(), "depth": depth, "lam": hy.lam.tolist(),
                                                                                  "gamma": list(map(float, hy.gamma)), "kBT": hy.kBT}, d1, 0)
        tr = numpy.abs(numpy.trace(rhot.data, axis1=1, axis2=2) - numpy.trace(r0)).max()
        he = numpy.abs(rhot.data - numpy.conj(numpy.transpose(rhot.data, (0, 2, 1)))).max()
        sc = max(1.0, float(abs(rhot.data).max()))
        if tr > 1e-10 * sc * nt:
            ck.fail("dyn:trace", "trace of the reduced density matrix not conserved", {"H": Hm.tolist(), "depth": depth, "nbath": nb}, float(tr), 0)
        if he > 1e-10 * sc * nt:
            ck.fail("dyn:herm", "reduced density matrix not Hermitian", {"H": Hm.tolist(), "depth": depth, "nbath": nb}, float(he), 0)
        if numpy.all(hy.lam == 0):
            # zero coupling strength: closed-system dynamics by the same expansion
            ref = r0.copy()
            worst = 0.0
            for i in range(1, nt):
                r1, r2 = ref, ref
                for ll in range(1, Lord + 1):
                    r1 = -(dt / ll) * 1j * (Heff @ r1 - r1 @ Heff)
                    r2 = r2 + r1
                ref = r2
                worst = max(worst, float(abs(ref - rhot.data[i]).max()))
            if worst > 1e-12:
                ck.fail("dyn:lambda0", "with zero coupling the hierarchy does not reduce to closed-system dynamics", {"H": Hm.tolist()}, worst, 0)
    # ---- (c) API-built: uncoupled dimer vs analytic pure dephasing, convergence with depth -------------
    try:
        errs = analytic_case(qr, heom, numpy, ck)
        ck.extra["pure_dephasing_error_by_depth"] = errs
    except Exception as e:
        import traceback
        ck.extra["analytic_case_error"] = traceback.format_exc()[-800:]
        ck.fail("raises:analytic", "API-built hierarchy case raised %r" % (e,), {})
    model = ck.drive(DRIVER, lines)
    if model is not None:
        for l, a, b, t in zip(lines, impl, model, tol):
            ck.traces += 1
            if t is None:
                if a.strip() != b.strip():
                    ck.disagree("table differs", l[:100], a[:300], b[:300])
            else:
                try:
                    fa = [cfrac_to_complex(x) for x in a.replace("|", " ").split()]
                    fb = [cfrac_to_complex(x) for x in b.replace("|", " ").split()]
                    d = max(abs(x - y) for x, y in zip(fa, fb)) if len(fa) == len(fb) and fa else float("inf")
                except Exception:
                    d = float("inf")
                ck.resid("max |impl-model| (heom)", d if d != float("inf") else 1e300)
                if d > t:
                    ck.disagree("numeric diff %.3g > %.3g" % (d, t), l[:160], a[:200], b[:200])
    return ck.finish()


def analytic_case(qr, heom, numpy, ck):
    """two uncoupled sites with different baths: rho_01(t) -> exp(-i w t - g(t)), high-temperature g"""
    from quantarhei import Molecule, Aggregate, TimeAxis, CorrelationFunction, energy_units
    ta = TimeAxis(0.0, 300, 1.0)
    T = 300.0
    cts = [40.0, 90.0]
    with energy_units("1/cm"):
        ms = [Molecule([0.0, 10000.0]), Molecule([0.0, 10200.0])]
        for m, ct in zip(ms, cts):
            cf = CorrelationFunction(ta, dict(ftype="OverdampedBrownian", reorg=20.0, cortime=ct, T=T, matsubara=20))
            m.set_transition_environment((0, 1), cf)
        agg = Aggregate(ms)
    agg.build()
    out = {}
    out3 = {}
    for depth in (ck.n((2, 5), (2, 4, 6, 8))):
        import io, contextlib
        with contextlib.redirect_stdout(io.StringIO()):
            prop = agg.get_KTHierarchyPropagator(depth=depth)
        hy = prop.hy
        dim = hy.dim
        r0 = numpy.zeros((dim, dim), dtype=complex)
        r0[0, 0] = r0[1, 1] = r0[0, 1] = r0[1, 0] = 0.5
        with contextlib.redirect_stdout(io.StringIO()):
            rt = prop.propagate(qr.ReducedDensityMatrix(data=r0.copy()))
        lam, gam, kBT = hy.lam[0], hy.gamma[0], hy.kBT
        t = ta.data
        g = (2.0 * lam * kBT / gam ** 2 - 1j * lam / gam) * (numpy.exp(-gam * t) + gam * t - 1.0)
        HH = hy.ham.data
        w = (HH[1, 1] - prop.HOmega[1, 1]) - (HH[0, 0] - prop.HOmega[0, 0])
        ref = 0.5 * numpy.exp(-1j * w * t - g)
        err = float(numpy.abs(rt.data[:, 1, 0] - ref).max())
        out[str(depth)] = err
        # all three coherences of the uncoupled pair, the inter-site one included (it involves both baths at once):
        # rho_12(t) = rho_12(0) exp(-i (w1 - w2) t - g1(t) - conj(g2(t)))
        r3 = numpy.full((dim, dim), 1.0 / 3.0, dtype=complex) if dim == 3 else None
        if r3 is not None:
            with contextlib.redirect_stdout(io.StringIO()):
                rt3 = prop.propagate(qr.ReducedDensityMatrix(data=r3.copy()))
            gk = [(2.0 * hy.lam[k] * hy.kBT / hy.gamma[k] ** 2 - 1j * hy.lam[k] / hy.gamma[k]) * (numpy.exp(-hy.gamma[k] * t) + hy.gamma[k] * t - 1.0)
                  for k in range(2)]
            wk = [(HH[k + 1, k + 1] - prop.HOmega[k + 1, k + 1]) - (HH[0, 0] - prop.HOmega[0, 0]) for k in range(2)]
            refs = {(1, 0): numpy.exp(-1j * wk[0] * t - gk[0]) / 3.0, (2, 0): numpy.exp(-1j * wk[1] * t - gk[1]) / 3.0,
                    (1, 2): numpy.exp(-1j * (wk[0] - wk[1]) * t - gk[0] - numpy.conj(gk[1])) / 3.0}
            for (a_, b_), rf in refs.items():
                out3.setdefault("%d%d" % (a_, b_), {})[str(depth)] = float(numpy.abs(rt3.data[:, a_, b_] - rf).max())
            pops = float(numpy.abs(numpy.real(numpy.array([numpy.diag(x) for x in rt3.data])) - 1.0 / 3.0).max())
            if pops > 1e-9:
                ck.fail("dyn:populations", "uncoupled sites: populations move under pure dephasing", {"depth": depth}, pops, 0)
        tr = float(numpy.abs(numpy.trace(rt.data, axis1=1, axis2=2) - 1.0).max())
        if tr > 1e-9:
            ck.fail("dyn:trace", "API-built hierarchy: trace not conserved", {"depth": depth}, tr, 0)
    # a propagator object created while a units or basis context was open and used after it was closed: the same dynamics
    try:
        import io, contextlib
        from quantarhei import eigenbasis_of
        hy_ = prop.hy
        hy_.reset_ados()
        with contextlib.redirect_stdout(io.StringIO()):
            base_ = numpy.array(heom.KTHierarchyPropagator(ta, hy_).propagate(qr.ReducedDensityMatrix(data=r0.copy())).data).copy()
        for where_ in ("energy_units('1/cm')", "eigenbasis_of(H)"):
            hy_.reset_ados()
            with contextlib.redirect_stdout(io.StringIO()):
                if where_.startswith("energy"):
                    with energy_units("1/cm"):
                        p2_ = heom.KTHierarchyPropagator(ta, hy_)
                else:
                    with eigenbasis_of(hy_.ham):
                        p2_ = heom.KTHierarchyPropagator(ta, hy_)
                r2_ = numpy.array(p2_.propagate(qr.ReducedDensityMatrix(data=r0.copy())).data)
            d2_ = float(numpy.abs(r2_ - base_).max()) if numpy.all(numpy.isfinite(r2_)) else float("inf")
            ck.case(("analytic-propagator-created-in-context", where_), nontrivial=True, kind="analytic")
            if not d2_ <= 1e-9:
                ck.fail("dyn:propagator-created-in-context", "a hierarchy propagator created inside %s and used after the context was closed gives other dynamics than one "
                        "created outside" % where_, {"depth": depth, "created_inside": where_}, d2_)
    except Exception as e:
        ck.fail("raises:propagator-created-in-context", "raised %r" % (e,), {})
    # a history on one propagator: the optional mode that integrates the auxiliary operators only, then an ordinary run again
    try:
        import io, contextlib
        with contextlib.redirect_stdout(io.StringIO()):
            first = numpy.array(prop.propagate(qr.ReducedDensityMatrix(data=r0.copy())).data).copy()
            prop.propagate(qr.ReducedDensityMatrix(data=r0.copy()), free_hierarchy=True)
            again = numpy.array(prop.propagate(qr.ReducedDensityMatrix(data=r0.copy())).data).copy()
        ck.case(("analytic-history",), nontrivial=True, kind="analytic")
        if numpy.abs(again - first).max() > 1e-10:
            ck.fail("dyn:after-free-hierarchy", "an ordinary propagation after propagate(..., free_hierarchy=True) on the same propagator differs from the "
                    "one before it", {"depth": depth}, float(numpy.abs(again - first).max()))
        err_again = float(numpy.abs(again[:, 1, 0] - ref).max())
        if err_again > max(5e-3, 2.0 * out[str(depth)]):
            ck.fail("dyn:analytic:after-free-hierarchy", "after a free-hierarchy run the result no longer follows exp(-i w t - g(t))", {"depth": depth}, err_again)
    except Exception as e:
        ck.fail("raises:free-hierarchy", "propagate(free_hierarchy=True) / the run after it raised %r" % (e,), {})
    # a single molecule with several excited levels of which only the higher transitions have a bath: every level dephases with its own
    # line-shape function, the bath-free coherence keeps its magnitude
    try:
        with energy_units("1/cm"):
            mol = Molecule([0.0, 9800.0, 10000.0, 10300.0])
            cfs = {2: CorrelationFunction(ta, dict(ftype="OverdampedBrownian", reorg=20.0, cortime=40.0, T=T, matsubara=20)),
                   3: CorrelationFunction(ta, dict(ftype="OverdampedBrownian", reorg=35.0, cortime=90.0, T=T, matsubara=20))}
            for k_, cf_ in cfs.items():
                mol.set_transition_environment((0, k_), cf_)
        errs_m = {}
        for depth_m in ck.n((2, 5), (2, 4, 6)):
            with contextlib.redirect_stdout(io.StringIO()):
                pm = mol.get_KTHierarchyPropagator(depth=depth_m)
                hm = pm.hy
                rm0 = numpy.full((hm.dim, hm.dim), 1.0 / hm.dim, dtype=complex)
                rtm = pm.propagate(qr.ReducedDensityMatrix(data=rm0.copy()))
            HHm = hm.ham.data
            t = ta.data
            # which bath acts on which level is read from the system-bath operators the hierarchy was given
            for lev in range(1, hm.dim):
                wl = (HHm[lev, lev] - pm.HOmega[lev, lev]) - (HHm[0, 0] - pm.HOmega[0, 0])
                gl = numpy.zeros(len(t), dtype=complex)
                if lev in cfs:
                    kb = sorted(cfs).index(lev)
                    gl = (2.0 * hm.lam[kb] * hm.kBT / hm.gamma[kb] ** 2 - 1j * hm.lam[kb] / hm.gamma[kb]) * (numpy.exp(-hm.gamma[kb] * t) + hm.gamma[kb] * t - 1.0)
                refl = numpy.exp(-1j * wl * t - gl) / hm.dim
                errs_m.setdefault(lev, {})[str(depth_m)] = float(numpy.abs(rtm.data[:, lev, 0] - refl).max())
        ck.case(("analytic-molecule",), nontrivial=True, kind="analytic")
        ck.extra["molecule_level_errors_by_depth"] = errs_m
        dm = sorted(errs_m[1], key=int)
        for lev, byd in errs_m.items():
            if byd[dm[-1]] > 5e-3:
                ck.fail("dyn:analytic:molecule:level-%d" % lev, "multi-level molecule with baths on the transitions 0->2 and 0->3 only: coherence rho_%d0 does not "
                        "follow exp(-i w t - g(t)) of its own transition (no bath: g = 0)" % lev, {"errors_by_depth": byd})
    except Exception as e:
        ck.fail("raises:analytic:molecule", "hierarchy of a multi-level molecule raised %r" % (e,), {})
    ds = sorted(out, key=int)
    if out[ds[-1]] > 1e-3 or out[ds[-1]] > out[ds[0]] + 1e-12:
        ck.fail("dyn:analytic", "uncoupled sites: result does not converge with depth to exp(-i w t - g(t))", {"errors_by_depth": out})
    for el, byd in out3.items():
        ck.extra.setdefault("analytic_coherence_errors_by_depth", {})[el] = byd
        if byd[ds[-1]] > 5e-3 or byd[ds[-1]] > 0.2 * byd[ds[0]] + 1e-12:
            ck.fail("dyn:analytic:rho_%s" % el, "uncoupled sites: coherence rho_%s does not converge with depth to its pure-dephasing solution" % el,
                    {"errors_by_depth": byd})
    ck.case(("analytic",), nontrivial=True, kind="analytic")
    return out
