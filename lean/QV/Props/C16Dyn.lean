import QV.Props.C16
import QV.Model.Prop
import QV.Lemmas.Bridge
import QV.Lemmas.TaylorRel
import Mathlib.Tactic.Ring

/-!
# C16 — the hierarchy's propagation keeps the trace, and without coupling strength it is the closed-system dynamics
Theorems about the model of `_ado_self_rhs`, `_ado_cros_rhs` and `KTHierarchyPropagator.propagate` (the same executable
definitions the correspondence check runs against the package), over any commutative ring, for every number of baths,
depth, Hamiltonian, coupling operators, bath parameters, step, expansion order and number of steps.
-/
namespace QV.C16
open QV QV.Prop Finset

theorem getElemB_ofFn {β : Type} [Inhabited β] {m : Nat} (f : Fin m → β) (i : Nat) (h : i < m) :
    (Array.ofFn f)[i]! = f ⟨i, h⟩ := by
  simp [h]

theorem foldl_inv {β γ : Type} (P : β → Prop) (f : β → γ → β) (l : List γ) (b : β) (h0 : P b)
    (hstep : ∀ b x, x ∈ l → P b → P (f b x)) : P (l.foldl f b) := by
  induction l generalizing b with
  | nil => exact h0
  | cons x xs ih =>
    simp only [List.foldl]
    exact ih _ (hstep b x (by simp) h0) (fun b' y hy hb => hstep b' y (by simp [hy]) hb)

theorem forall₂_imp {X Y : Type} {R S : X → Y → Prop} (hi : ∀ x y, R x y → S x y) {xs : List X} {ys : List Y}
    (h : List.Forall₂ R xs ys) : List.Forall₂ S xs ys := by
  induction h with
  | nil => exact List.Forall₂.nil
  | cons hab _ ih => exact List.Forall₂.cons (hi _ _ hab) ih

theorem map_eq_of_forall₂ {X Y : Type} (f : X → Y) {xs : List X} {ys : List Y}
    (h : List.Forall₂ (fun x y => f x = y) xs ys) : xs.map f = ys := by
  induction h with
  | nil => rfl
  | cons hab _ ih => simp only [List.map_cons, ih, hab]

section
variable {α : Type} [CommRing α] [Inhabited α] {n : Nat}

/-! ## shapes and elements of the right-hand sides -/

theorem size_selfRhs (hy : Hier α n) (ado : Ado α n) (c : α) (s : Nat) : (selfRhs hy ado c s).size = ado.size := by
  simp [selfRhs]
theorem size_crosRhs (hy : Hier α n) (ado : Ado α n) (c : α) (s : Nat) : (crosRhs hy ado c s).size = ado.size := by
  simp [crosRhs]
theorem size_adoAdd (a b : Ado α n) : (adoAdd a b).size = a.size := by simp [adoAdd]
theorem size_heomGen (hy : Hier α n) (ado : Ado α n) (c : α) (s : Nat) : (heomGen hy s c ado).size = ado.size := by
  simp [heomGen, size_adoAdd, size_crosRhs]

theorem adoAdd_get (a b : Ado α n) (i : Nat) (h : i < a.size) :
    (adoAdd a b)[i]! = MatD.tab (matAdd (a[i]!).fn ((b[i]!).fn)) := by
  unfold adoAdd
  rw [getElemB_ofFn _ i h]
  simp [h]

theorem selfRhs_get (hy : Hier α n) (ado : Ado α n) (c : α) (i : Nat) (h : i < ado.size) :
    (selfRhs hy ado c 0)[i]! = MatD.tab (matScale (-c) (matAdd (matScale hy.ii
      (matSub (matMul hy.HH (ado[i]!).fn) (matMul (ado[i]!).fn hy.HH)))
      (matScale (bigGamma hy.gamma.toList (hy.h[i]?.getD [])) (ado[i]!).fn))) := by
  unfold selfRhs
  rw [getElemB_ofFn _ i h]
  simp [h]

/-- the loop body of `_ado_cros_rhs` for element `nn` (bath `kk`) -/
def crosBody (hy : Hier α n) (ado : Ado α n) (c : α) (nn : Nat) (acc : MatD α n n) (kk : Nat) : MatD α n n :=
  let v := hy.h[nn]?.getD []
  let nk : Nat := v[kk]?.getD 0
  let jj := nm1 hy.h nn kk
  let V := hy.Vs[kk]!
  let acc1 : MatD α n n :=
    if (nk : Int) * jj ≥ 0 then
      let A := pyGet ado jj
      let rr := matMul V A
      let rl := matMul A V
      let th := matScale (c * (nk : α) * hy.lam[kk]! * hy.gamma[kk]!) (matAdd rr rl)
      let ps := matScale ((hy.ii * c) * hy.two * (nk : α) * hy.lam[kk]! * hy.kBT) (matSub rr rl)
      MatD.tab (matAdd (matAdd acc.fn th) ps)
    else acc
  let jp := np1 hy.h nn kk
  if jp > 0 then
    let A := pyGet ado jp
    MatD.tab (matAdd acc1.fn (matScale (hy.ii * c) (matSub (matMul V A) (matMul A V))))
  else acc1

theorem crosRhs_get (hy : Hier α n) (ado : Ado α n) (c : α) (i : Nat) (h : i < ado.size) :
    (crosRhs hy ado c 0)[i]! = (List.range hy.nbath).foldl (crosBody hy ado c i) (MatD.tab (fun _ _ => 0)) := by
  unfold crosRhs
  rw [getElemB_ofFn _ i h]
  simp only [Nat.not_lt_zero, if_false]
  rfl

theorem heomGen_get (hy : Hier α n) (ado : Ado α n) (c : α) (i : Nat) (h : i < ado.size) :
    (heomGen hy 0 c ado)[i]! = MatD.tab (matAdd
      ((List.range hy.nbath).foldl (crosBody hy ado c i) (MatD.tab (fun _ _ => 0))).fn
      (matScale (-c) (matAdd (matScale hy.ii
        (matSub (matMul hy.HH (ado[i]!).fn) (matMul (ado[i]!).fn hy.HH)))
        (matScale (bigGamma hy.gamma.toList (hy.h[i]?.getD [])) (ado[i]!).fn)))) := by
  unfold heomGen
  rw [adoAdd_get _ _ i (by rw [size_crosRhs]; exact h), crosRhs_get hy ado c i h, selfRhs_get hy ado c i h]
  simp

/-! ## traces -/

theorem trace_mul_comm (A B : Fin n → Fin n → α) : trace (matMul A B) = trace (matMul B A) := by
  simp only [trace_eq, matMul_eq_mul]
  rw [Finset.sum_comm]
  exact Finset.sum_congr rfl (fun a _ => Finset.sum_congr rfl (fun b _ => mul_comm _ _))

theorem trace_matAdd (A B : Fin n → Fin n → α) : trace (matAdd A B) = trace A + trace B := by
  simp [trace_eq, matAdd, Finset.sum_add_distrib]
theorem trace_matSub (A B : Fin n → Fin n → α) : trace (matSub A B) = trace A - trace B := by
  simp [trace_eq, matSub, Finset.sum_sub_distrib]
theorem trace_matScale (c : α) (A : Fin n → Fin n → α) : trace (matScale c A) = c * trace A := by
  simp [trace_eq, matScale, Finset.mul_sum]
theorem trace_zero : trace (fun (_ _ : Fin n) => (0 : α)) = 0 := by simp [trace_eq]

theorem bigGamma_zero (g : List α) (v : List Nat) (hv : ∀ x ∈ v, x = 0) : bigGamma g v = 0 := by
  unfold bigGamma
  apply List.sum_eq_zero
  intro x hx
  rw [List.mem_map] at hx
  obtain ⟨p, hp, rfl⟩ := hx
  have := hv p.1 (List.of_mem_zip hp).1
  simp [this]

theorem getD_zero (v : List Nat) (hv : ∀ x ∈ v, x = 0) (k : Nat) : v[k]?.getD 0 = 0 := by
  cases h : v[k]? with
  | none => rfl
  | some x => exact hv x (List.mem_of_getElem? h)

/-- every pass of the loop for the top element adds a traceless term -/
theorem crosBody_trace0 (hy : Hier α n) (hz : ∀ x ∈ hy.h[0]?.getD [], x = 0) (c : α) (ado : Ado α n)
    (acc : MatD α n n) (kk : Nat) (hacc : trace acc.fn = 0) : trace (crosBody hy ado c 0 acc kk).fn = 0 := by
  unfold crosBody
  simp only [getD_zero _ hz kk, Nat.cast_zero, zero_mul, ge_iff_le, le_refl, if_true, mul_zero]
  split_ifs
  · simp only [MatD.fn_tab, trace_matAdd, trace_matScale, trace_matSub, trace_mul_comm (hy.Vs[kk]!), hacc]
    ring
  · simp only [MatD.fn_tab, trace_matAdd, trace_matScale, hacc]
    ring

/-- **the top element of the hierarchy has a traceless right-hand side**, whatever the auxiliary operators are -/
theorem heomGen_trace0 (hy : Hier α n) (hz : ∀ x ∈ hy.h[0]?.getD [], x = 0) (c : α) (ado : Ado α n) (h0 : 0 < ado.size) :
    trace ((heomGen hy 0 c ado)[0]!).fn = 0 := by
  rw [heomGen_get hy ado c 0 h0]
  have hc : trace ((List.range hy.nbath).foldl (crosBody hy ado c 0) (MatD.tab (fun _ _ => 0))).fn = 0 :=
    foldl_inv (fun acc => trace acc.fn = 0) _ _ _ (by simp [trace_zero])
      (fun b x _ hb => crosBody_trace0 hy hz c ado b x hb)
  simp only [MatD.fn_tab, trace_matAdd, trace_matScale, trace_matSub, trace_mul_comm hy.HH, hc,
    bigGamma_zero _ _ hz]
  ring

/-- the first multi-index of the generated hierarchy is the zero vector -/
theorem hinds_zero (N depth : Nat) : (hinds N depth)[0]? = some (List.replicate N 0) := by
  unfold hinds genLevels
  rw [List.range_succ_eq_map]
  simp [level]

end

section
variable {α : Type} [Field α] [Inhabited α] {n : Nat}

/-- **unit trace is kept**: at every stored time the reduced density matrix returned by the propagation has the trace
of the initial state - every number of baths, depth, Hamiltonian, coupling, bath parameters, step, order, length -/
theorem heom_trace_conserved (hy : Hier α n) (hz : ∀ x ∈ hy.h[0]?.getD [], x = 0) (hpos : 0 < hy.h.length)
    (dt : α) (L nt : Nat) (rho0 : Fin n → Fin n → α) :
    ∀ ρ ∈ heomPropagate hy dt L nt rho0, trace ρ.fn = trace rho0 := by
  intro ρ hρ
  unfold heomPropagate at hρ
  simp only [List.mem_map] at hρ
  obtain ⟨a, ha, rfl⟩ := hρ
  set ado0 : Ado α n := Array.ofFn (n := hy.h.length) fun i =>
    if i.val = 0 then MatD.tab rho0 else MatD.tab (fun _ _ => 0) with hado0
  let Rel : Ado α n → α → Prop := fun x t => x.size = hy.h.length ∧ trace (x[0]!).fn = t
  have h00 : Rel ado0 (trace rho0) := by
    refine ⟨by simp [hado0], ?_⟩
    rw [hado0, getElemB_ofFn _ 0 hpos]
    simp
  have hrel := taylorTrajectory_rel (heomGen hy 0) adoAdd (fun (_ : α) (_ : α) => (0 : α)) (· + ·) dt Rel
    (fun l x y hxy => ⟨by rw [size_heomGen]; exact hxy.1, heomGen_trace0 hy hz _ x (by rw [hxy.1]; exact hpos)⟩)
    (fun a a' b b' hab hab' => ⟨by rw [size_adoAdd]; exact hab.1, by
      rw [adoAdd_get a a' 0 (by rw [hab.1]; exact hpos)]
      simp only [MatD.fn_tab, trace_matAdd, hab.2, hab'.2]⟩)
    L 1 nt ado0 (trace rho0) h00
  obtain ⟨t, ht, hr⟩ := forall₂_left hrel a ha
  rw [hr.2, taylorTrajectory_zero dt L 1 nt (trace rho0) t ht]

/-! ## no coupling strength: the closed system -/

theorem matMul_zero_right (A : Fin n → Fin n → α) : matMul A (fun (_ _ : Fin n) => (0 : α)) = fun _ _ => 0 := by
  funext a b; simp [matMul_eq_mul]
theorem matMul_zero_left (A : Fin n → Fin n → α) : matMul (fun (_ _ : Fin n) => (0 : α)) A = fun _ _ => 0 := by
  funext a b; simp [matMul_eq_mul]

theorem np1_lt (h : List (List Nat)) (nn kk : Nat) : np1 h nn kk < (h.length : Int) := by
  unfold np1
  cases h[nn]? with
  | none => simp only; omega
  | some v =>
    simp only
    rcases findLast_spec h h.length (inc v kk) with ⟨e, _⟩ | ⟨m, e, hm, _⟩
    · rw [e]; omega
    · rw [e]; exact_mod_cast hm

theorem MatD.ext_fn {a b : MatD α n n} (h : a.fn = b.fn) : a = b :=
  Vector.ext (fun i hi => Vector.ext (fun j hj => congrFun (congrFun h ⟨i, hi⟩) ⟨j, hj⟩))

/-- all auxiliary operators vanish -/
def AuxZero (N : Nat) (ado : Ado α n) : Prop := ∀ i, 0 < i → i < N → (ado[i]!).fn = fun _ _ => 0

/-- with zero reorganisation energies and vanishing auxiliary operators the coupling loop contributes nothing, to any
element -/
theorem crosBody_zero (hy : Hier α n) (hl : ∀ kk, kk < hy.nbath → hy.lam[kk]! = 0) (c : α) (ado : Ado α n)
    (hA : AuxZero hy.h.length ado) (nn : Nat) (acc : MatD α n n) (kk : Nat)
    (hk : kk < hy.nbath) (hacc : acc.fn = fun _ _ => 0) : (crosBody hy ado c nn acc kk).fn = fun _ _ => 0 := by
  unfold crosBody
  simp only [hl kk hk, mul_zero, zero_mul]
  have hth : ∀ X : Fin n → Fin n → α, matScale (0 : α) X = fun _ _ => 0 := by
    intro X; funext a b; simp [matScale]
  have hup : ∀ jp : Int, jp > 0 → jp < (hy.h.length : Int) → pyGet ado jp = fun _ _ => 0 := by
    intro jp h1 h2
    unfold pyGet
    have : ¬ jp < 0 := by omega
    simp only [this, if_false]
    exact hA jp.toNat (by omega) (by omega)
  have hfin : ∀ (acc1 : MatD α n n), acc1.fn = (fun _ _ => 0) →
      (if np1 hy.h nn kk > 0 then
        MatD.tab (matAdd acc1.fn (matScale (hy.ii * c) (matSub (matMul hy.Vs[kk]! (pyGet ado (np1 hy.h nn kk)))
          (matMul (pyGet ado (np1 hy.h nn kk)) hy.Vs[kk]!))))
      else acc1).fn = fun _ _ => 0 := by
    intro acc1 h1
    split_ifs with hp
    · rw [hup _ hp (np1_lt hy.h nn kk), matMul_zero_right, matMul_zero_left, h1]
      funext a b
      simp [matAdd, matScale, matSub]
    · exact h1
  refine hfin _ ?_
  split_ifs
  · funext a b
    simp [hth, hacc, matAdd]
  · exact hacc

theorem cros_zero (hy : Hier α n) (hl : ∀ kk, kk < hy.nbath → hy.lam[kk]! = 0) (c : α) (ado : Ado α n)
    (hA : AuxZero hy.h.length ado) (nn : Nat) :
    ((List.range hy.nbath).foldl (crosBody hy ado c nn) (MatD.tab (fun _ _ => 0))).fn = fun _ _ => 0 :=
  foldl_inv (fun acc => acc.fn = fun _ _ => 0) _ _ _ (by simp)
    (fun b x hx hb => crosBody_zero hy hl c ado hA nn b x (List.mem_range.mp hx) hb)
/-- one application of the right-hand side, on a state whose auxiliary operators vanish, when all reorganisation
energies are zero: the auxiliary operators still vanish and the density matrix gets the commutator with the Hamiltonian -/
theorem heomGen_closed (hy : Hier α n) (hz : ∀ x ∈ hy.h[0]?.getD [], x = 0) (hpos : 0 < hy.h.length)
    (hl : ∀ kk, kk < hy.nbath → hy.lam[kk]! = 0) (c : α) (ado : Ado α n) (hs : ado.size = hy.h.length)
    (hA : AuxZero hy.h.length ado) :
    AuxZero hy.h.length (heomGen hy 0 c ado) ∧
    (heomGen hy 0 c ado)[0]! = genH hy.ii hy.HH c (ado[0]!) := by
  constructor
  · intro i hi0 hiN
    rw [heomGen_get hy ado c i (by rw [hs]; exact hiN), MatD.fn_tab, cros_zero hy hl c ado hA i, hA i hi0 hiN,
      matMul_zero_right, matMul_zero_left]
    funext a b
    simp [matAdd, matScale, matSub]
  · rw [heomGen_get hy ado c 0 (by rw [hs]; exact hpos), cros_zero hy hl c ado hA 0, bigGamma_zero _ _ hz]
    apply MatD.ext_fn
    funext a b
    simp only [MatD.fn_tab, genH, QV.Prop.comm, matAdd, matScale, matSub]
    ring

/-- **zero system-bath coupling strength gives the closed-system dynamics**: with all reorganisation energies zero the
propagation of the hierarchy returns, at every stored time, exactly what the closed-system stepping with the same
Hamiltonian, step and expansion order returns - for every number of baths, depth, coupling operators, temperatures,
correlation times, initial state and length -/
theorem heom_zero_coupling_is_closed (hy : Hier α n) (hz : ∀ x ∈ hy.h[0]?.getD [], x = 0) (hpos : 0 < hy.h.length)
    (hl : ∀ kk, kk < hy.nbath → hy.lam[kk]! = 0) (dt : α) (L nt : Nat) (rho0 : Fin n → Fin n → α) :
    heomPropagate hy dt L nt rho0 = taylorTrajectory (genH hy.ii hy.HH) madd dt L 1 nt (MatD.tab rho0) := by
  unfold heomPropagate
  set ado0 : Ado α n := Array.ofFn (n := hy.h.length) fun i =>
    if i.val = 0 then MatD.tab rho0 else MatD.tab (fun _ _ => 0) with hado0
  let Rel : Ado α n → MatD α n n → Prop := fun x ρ => x.size = hy.h.length ∧ AuxZero hy.h.length x ∧ x[0]! = ρ
  have h00 : Rel ado0 (MatD.tab rho0) := by
    refine ⟨by simp [hado0], ?_, ?_⟩
    · intro i hi0 hiN
      rw [hado0, getElemB_ofFn _ i hiN]
      have : i ≠ 0 := by omega
      simp [this]
    · rw [hado0, getElemB_ofFn _ 0 hpos]
      simp
  have hrel := taylorTrajectory_rel (heomGen hy 0) adoAdd (genH hy.ii hy.HH) madd dt Rel
    (fun l x y hxy => by
      obtain ⟨h1, h2⟩ := heomGen_closed hy hz hpos hl (dt / (l : α)) x hxy.1 hxy.2.1
      exact ⟨by rw [size_heomGen]; exact hxy.1, h1, by rw [h2, hxy.2.2]⟩)
    (fun a a' b b' hab hab' => by
      refine ⟨by rw [size_adoAdd]; exact hab.1, ?_, ?_⟩
      · intro i hi0 hiN
        rw [adoAdd_get a a' i (by rw [hab.1]; exact hiN), MatD.fn_tab, hab.2.1 i hi0 hiN, hab'.2.1 i hi0 hiN]
        funext p q
        simp [matAdd]
      · rw [adoAdd_get a a' 0 (by rw [hab.1]; exact hpos), hab.2.2, hab'.2.2]
        apply MatD.ext_fn
        funext p q
        simp [madd, matAdd])
    L 1 nt ado0 (MatD.tab rho0) h00
  exact map_eq_of_forall₂ (fun a : Ado α n => a[0]!) (forall₂_imp (fun _ _ h => h.2.2) hrel)

theorem hinds_pos (N depth : Nat) : 0 < (hinds N depth).length := by
  have := hinds_zero N depth
  by_contra hlen
  have h0 : (hinds N depth).length = 0 := by omega
  rw [List.length_eq_zero_iff] at h0
  simp [h0] at this

/-- the hypotheses hold for the hierarchy the package generates -/
theorem hinds_first_zero (N depth : Nat) : ∀ x ∈ (hinds N depth)[0]?.getD [], x = 0 := by
  rw [hinds_zero]; simp
end

end QV.C16
