import QV.Model.Taylor
import Mathlib.Algebra.Group.Basic

/-! Loop-invariant lemmas about the short-exponential stepping, for every expansion
order, every number of steps and every refinement. -/
namespace QV

section
variable {X K M : Type} [Div K] [NatCast K] [AddMonoid M]
variable (gen : K → X → X) (add : X → X → X) (dt : K)

/-- a functional that is additive and kills the generator is conserved by the inner loop -/
theorem taylorLoop_conserved (φ : X → M) (hadd : ∀ a b, φ (add a b) = φ a + φ b)
    (hgen : ∀ c x, φ (gen c x) = 0) :
    ∀ cnt l r1 r2, φ (taylorLoop gen add dt l cnt r1 r2) = φ r2 := by
  intro cnt
  induction cnt with
  | zero => intro l r1 r2; rfl
  | succ n ih =>
    intro l r1 r2
    simp only [taylorLoop]
    rw [ih, hadd, hgen, add_zero]

theorem taylorStep_conserved (φ : X → M) (hadd : ∀ a b, φ (add a b) = φ a + φ b)
    (hgen : ∀ c x, φ (gen c x) = 0) (L : Nat) (x : X) :
    φ (taylorStep gen add dt L x) = φ x :=
  taylorLoop_conserved gen add dt φ hadd hgen L 1 x x

theorem taylorSteps_conserved (φ : X → M) (hadd : ∀ a b, φ (add a b) = φ a + φ b)
    (hgen : ∀ c x, φ (gen c x) = 0) (L : Nat) : ∀ n x, φ (taylorSteps gen add dt L n x) = φ x := by
  intro n
  induction n with
  | zero => intro x; rfl
  | succ n ih => intro x; simp only [taylorSteps]; rw [ih, taylorStep_conserved gen add dt φ hadd hgen]

/-- every stored point of the trajectory carries the initial value of a conserved functional -/
theorem taylorTrajectory_conserved (φ : X → M) (hadd : ∀ a b, φ (add a b) = φ a + φ b)
    (hgen : ∀ c x, φ (gen c x) = 0) (L Nref : Nat) :
    ∀ nt x, ∀ y ∈ taylorTrajectory gen add dt L Nref nt x, φ y = φ x := by
  intro nt
  induction nt with
  | zero => intro x y hy; simp [taylorTrajectory] at hy
  | succ n ih =>
    intro x y hy
    simp only [taylorTrajectory, List.mem_cons] at hy
    rcases hy with rfl | hy
    · rfl
    · rw [ih _ y hy, taylorSteps_conserved gen add dt φ hadd hgen]
end

section
variable {X K : Type} [Div K] [NatCast K]
variable (gen : K → X → X) (add : X → X → X) (dt : K)

/-- a map `J` (e.g. Hermitian conjugation) that commutes with `+` and with the generator
commutes with the whole stepping -/
theorem taylorLoop_commute (J : X → X) (hadd : ∀ a b, J (add a b) = add (J a) (J b))
    (hgen : ∀ c x, J (gen c x) = gen c (J x)) :
    ∀ cnt l r1 r2, J (taylorLoop gen add dt l cnt r1 r2) = taylorLoop gen add dt l cnt (J r1) (J r2) := by
  intro cnt
  induction cnt with
  | zero => intro l r1 r2; rfl
  | succ n ih =>
    intro l r1 r2
    simp only [taylorLoop]
    rw [ih, hadd, hgen]

theorem taylorStep_commute (J : X → X) (hadd : ∀ a b, J (add a b) = add (J a) (J b))
    (hgen : ∀ c x, J (gen c x) = gen c (J x)) (L : Nat) (x : X) :
    J (taylorStep gen add dt L x) = taylorStep gen add dt L (J x) :=
  taylorLoop_commute gen add dt J hadd hgen L 1 x x

theorem taylorSteps_commute (J : X → X) (hadd : ∀ a b, J (add a b) = add (J a) (J b))
    (hgen : ∀ c x, J (gen c x) = gen c (J x)) (L : Nat) :
    ∀ n x, J (taylorSteps gen add dt L n x) = taylorSteps gen add dt L n (J x) := by
  intro n
  induction n with
  | zero => intro x; rfl
  | succ n ih => intro x; simp only [taylorSteps]; rw [ih, taylorStep_commute gen add dt J hadd hgen]

/-- a fixed point of `J` stays a fixed point at every stored time -/
theorem taylorTrajectory_fixed (J : X → X) (hadd : ∀ a b, J (add a b) = add (J a) (J b))
    (hgen : ∀ c x, J (gen c x) = gen c (J x)) (L Nref : Nat) :
    ∀ nt x, J x = x → ∀ y ∈ taylorTrajectory gen add dt L Nref nt x, J y = y := by
  intro nt
  induction nt with
  | zero => intro x _ y hy; simp [taylorTrajectory] at hy
  | succ n ih =>
    intro x hx y hy
    simp only [taylorTrajectory, List.mem_cons] at hy
    rcases hy with rfl | hy
    · exact hx
    · exact ih _ (by rw [taylorSteps_commute gen add dt J hadd hgen, hx]) y hy

/-- variant for maps that commute with the generator only for the time factors `dt/l` actually used
(e.g. Hermitian conjugation and a *real* time step) -/
theorem taylorLoop_commute_dt (J : X → X) (hadd : ∀ a b, J (add a b) = add (J a) (J b))
    (hgen : ∀ (l : Nat) x, J (gen (dt / (l : K)) x) = gen (dt / (l : K)) (J x)) :
    ∀ cnt l r1 r2, J (taylorLoop gen add dt l cnt r1 r2) = taylorLoop gen add dt l cnt (J r1) (J r2) := by
  intro cnt
  induction cnt with
  | zero => intro l r1 r2; rfl
  | succ n ih =>
    intro l r1 r2
    simp only [taylorLoop]
    rw [ih, hadd, hgen]

theorem taylorSteps_commute_dt (J : X → X) (hadd : ∀ a b, J (add a b) = add (J a) (J b))
    (hgen : ∀ (l : Nat) x, J (gen (dt / (l : K)) x) = gen (dt / (l : K)) (J x)) (L : Nat) :
    ∀ n x, J (taylorSteps gen add dt L n x) = taylorSteps gen add dt L n (J x) := by
  intro n
  induction n with
  | zero => intro x; rfl
  | succ n ih =>
    intro x
    simp only [taylorSteps]
    rw [ih]
    congr 1
    exact taylorLoop_commute_dt gen add dt J hadd hgen L 1 x x

theorem taylorTrajectory_fixed_dt (J : X → X) (hadd : ∀ a b, J (add a b) = add (J a) (J b))
    (hgen : ∀ (l : Nat) x, J (gen (dt / (l : K)) x) = gen (dt / (l : K)) (J x)) (L Nref : Nat) :
    ∀ nt x, J x = x → ∀ y ∈ taylorTrajectory gen add dt L Nref nt x, J y = y := by
  intro nt
  induction nt with
  | zero => intro x _ y hy; simp [taylorTrajectory] at hy
  | succ n ih =>
    intro x hx y hy
    simp only [taylorTrajectory, List.mem_cons] at hy
    rcases hy with rfl | hy
    · exact hx
    · exact ih _ (by rw [taylorSteps_commute_dt gen add dt J hadd hgen, hx]) y hy

/-- semigroup law of the stepping: `m + n` steps are `n` steps after `m` steps -/
theorem taylorSteps_add (L : Nat) : ∀ m n x,
    taylorSteps gen add dt L (m + n) x = taylorSteps gen add dt L n (taylorSteps gen add dt L m x) := by
  intro m
  induction m with
  | zero => intro n x; simp [taylorSteps]
  | succ m ih =>
    intro n x
    have : m + 1 + n = (m + n) + 1 := by omega
    rw [this]
    simp only [taylorSteps]
    exact ih n _
end
end QV
