import QV.Core.Num
import QV.Model.C11
open QV QV.C11 QV.Gen.C11

def stepD (_ : Unit) (ts : List String) : Unit × String :=
  match ts with
  | ["kidx", nt] =>
    match nt.toInt? with
    | some nt =>
      let n := (nSamples nt).toNat
      ((), s!"{n} {hfftLen nt} ; " ++ " ".intercalate ((List.range n).map fun (j : Nat) =>
        s!"{sampleK nt j}:{axisIndex nt j}"))
    | none => ((), "bad-op")
  | _ => ((), "bad-op")

def main : IO Unit := runDriver stepD ()
