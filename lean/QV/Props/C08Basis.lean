import QV.Props.C08Apply
import QV.Props.C07Covariant

/-!
# C08 — the evolution superoperator in another basis
The evolution superoperator assembled (elementary step on matrix units, dense steps composed with `tensordot`) from the
transformed Hamiltonian and the transformed tensor acts on the transformed state as the transformed result of the
superoperator assembled in the original basis: every expansion order, number of dense steps, dimension; orthogonal
`S1 = SSᵀ`.
-/
namespace QV.Prop
open QV QV.C01 Finset

variable {α : Type} [Field α] {n : Nat}

/-- the refined steps are covariant (no storage in between) -/
theorem steps_covariant (ii : α) (S1 SS H : Mat α n) (R : Tens α n) (dtd : α) (L k : Nat) (ρ ρ' : MatD α n n)
    (h1 : ∀ x y, ∑ c, S1 c x * S1 c y = if x = y then 1 else 0)
    (h2 : ∀ x y, ∑ d, SS x d * SS y d = if x = y then 1 else 0)
    (h3 : ∀ x y, ∑ a, SS x a * S1 a y = if x = y then 1 else 0)
    (h0 : ρ'.fn = sandwich S1 SS ρ.fn) :
    (taylorSteps (genTensor ii (sandwich S1 SS H) (transformTwoPass S1 SS R)) madd dtd L k ρ').fn
      = sandwich S1 SS (taylorSteps (genTensor ii H R) madd dtd L k ρ).fn := by
  refine taylorSteps_rel (genTensor ii H R) madd (genTensor ii (sandwich S1 SS H) (transformTwoPass S1 SS R)) madd
    dtd (fun x y => y.fn = sandwich S1 SS x.fn) ?_ ?_ L k ρ ρ' h0
  · intro l x y hxy
    exact genTensor_covariant ii S1 SS H R _ x y h1 h2 h3 hxy
  · intro a a' b b' hab hab'
    simp only [madd, MatD.fn_tab, hab, hab']
    rw [sandwich_add]

/-- **the evolution superoperator of the new basis acts on the transformed state as the transformed result** -/
theorem evolution_covariant (ii : α) (S1 SS H : Mat α n) (R : Tens α n) (dtd : α) (L k : Nat) (ρ ρ' : MatD α n n)
    (h1 : ∀ x y, ∑ c, S1 c x * S1 c y = if x = y then 1 else 0)
    (h2 : ∀ x y, ∑ d, SS x d * SS y d = if x = y then 1 else 0)
    (h3 : ∀ x y, ∑ a, SS x a * S1 a y = if x = y then 1 else 0)
    (h0 : ρ'.fn = sandwich S1 SS ρ.fn) :
    tensApply (denseT (elemStep (genTensor ii (sandwich S1 SS H) (transformTwoPass S1 SS R)) dtd L) k).fn ρ'.fn
      = sandwich S1 SS (tensApply (denseT (elemStep (genTensor ii H R) dtd L) k).fn ρ.fn) := by
  rw [apply_eq_propagate, apply_eq_propagate]
  exact steps_covariant ii S1 SS H R dtd L (k + 1) ρ ρ' h1 h2 h3 h0

end QV.Prop
