import QV.Gen.C17
import QV.Model.Taylor
/-!
Model of `RateMatrix.set_rate` (diagonal compensation extracted from source),
of `PopulationPropagator._propagate_short_exp` (shared Taylor loop) and of the
grid logic of `PopulationPropagator.get_PropagationMatrix`.
-/
namespace QV.C17
open QV QV.Gen.C17

section
variable {α : Type} [Add α] [Sub α] [Mul α] [Zero α]

/-- `set_rate((n, m), v)`; `none` = refused (diagonal) -/
def setRate {N : Nat} (K : Fin N → Fin N → α) (n m : Fin N) (v : α) : Option (Fin N → Fin N → α) :=
  if n = m then none
  else some (fun i j =>
    if i = n ∧ j = m then setRateNM (K n m) (K m m) v
    else if i = m ∧ j = m then setRateMM (K n m) (K m m) v
    else K i j)

/-- a history of assignments applied to a matrix (refused ones are skipped) -/
def setRates {N : Nat} (K : Fin N → Fin N → α) : List (Fin N × Fin N × α) → Fin N → Fin N → α
  | [] => K
  | (n, m, v) :: rest => setRates (match setRate K n m v with | some K' => K' | none => K) rest

def colSum {N : Nat} (K : Fin N → Fin N → α) (j : Fin N) : α := sumFin N (fun i => K i j)
end

section
variable {α : Type} [Add α] [Mul α] [Zero α] [Div α] [NatCast α]

/-- `pref*numpy.dot(KK, rho1)` materialised -/
def popGen {N : Nat} (K : Fin N → Fin N → α) (c : α) (x : VecD α N) : VecD α N :=
  VecD.tab (fun i => c * matVec K x.fn i)

def popAdd {N : Nat} (a b : VecD α N) : VecD α N := VecD.tab (fun i => a.fn i + b.fn i)

/-- `PopulationPropagator.propagate`: the stored populations -/
def popPropagate {N : Nat} (K : Fin N → Fin N → α) (dt : α) (L Nref nt : Nat) (p0 : VecD α N) :
    List (VecD α N) :=
  taylorTrajectory (popGen K) popAdd dt L Nref nt p0
end

/-- grid part of `get_PropagationMatrix`: given `E = exp(K·step)` and `Edt = exp(K·Δ)`, the
number `Ns` of sub-axis steps between the starts and whether `Δ = Ns·step`, the returned
matrices are `E^i · U0` -/
def propMatrices {M : Type} [Mul M] (one E Edt : M) (sameStart onGrid : Bool) (Ns : Nat) (len : Nat) : List M :=
  let rec pw : Nat → M → M
    | 0, u => u
    | k + 1, u => pw k (E * u)
  let U0 := if sameStart then one else if onGrid then pw Ns one else Edt * one
  let rec go : Nat → M → List M
    | 0, _ => []
    | k + 1, u => u :: go k (E * u)
  go len U0

end QV.C17
