"""C11 - linear spectra match the Fourier integral and symmetry relations."""
import ast, math
from qvh.core import *
from qvh import extract as X

DRIVER = "C11"
PROPS = "QV.Props.C11"


def extract(ck):
    try:
        src = X.read_source(REPO, "quantarhei/spectroscopy/abscalculator.py")
        fn = X.find_def(ast.parse(src), "one_transition_spectrum", cls="AbsSpectrumCalculator")
        ops, has_len, ret = [], False, None
        for s in fn.body:
            if isinstance(s, ast.Assign) and isinstance(s.targets[0], ast.Name) and s.targets[0].id == "ft":
                calls = [c for c in ast.walk(s.value) if isinstance(c, ast.Call)]
                names = [ast.unparse(c.func).split(".")[-1] for c in calls]
                arr = [n for n in names if n in ("hfft", "fft", "ifft", "rfft", "irfft", "ihfft", "fftshift", "ifftshift", "flipud", "roll")]
                if len(arr) != 1:
                    raise X.ExtractError("statement %r applies %d array operations" % (ast.unparse(s)[:60], len(arr)))
                ops.append(arr[0])
                if arr[0] == "hfft":
                    c = [c for c in calls if ast.unparse(c.func).endswith("hfft")][0]
                    has_len = len(c.args) > 1 or bool(c.keywords)
            if isinstance(s, ast.Return):
                ret = s.value
        if not (isinstance(ret, ast.Subscript) and isinstance(ret.slice, ast.Slice) and ast.unparse(ret.value) == "ft" and ret.slice.step is None):
            raise X.ExtractError("return value is not a plain slice of ft")
        nt_assign = [ast.unparse(s).replace(" ", "") for s in fn.body if isinstance(s, ast.Assign) and ast.unparse(s.targets[0]) == "Nt"]
        if nt_assign != ["Nt=ta.length"]:
            raise X.ExtractError("Nt is not ta.length: %s" % nt_assign)
        se = X.SymExec(["Nt"])
        lo, hi = X.lean_expr(se.ev(ret.slice.lower, se.env)), X.lean_expr(se.ev(ret.slice.upper, se.env))
        S, L = X.lean_str, X.lean_list
        ck.gen("C11", "namespace QV.Gen.C11\n"
               "/-- array operations applied to the half-sided signal in `one_transition_spectrum`, in order -/\n"
               "def pipeline : List String := %s\n"
               "/-- does the `hfft` call pass an explicit output length? -/\n"
               "def hfftHasLengthArg : Bool := %s\n"
               "def sliceLo (Nt : Int) : Int := %s\n"
               "def sliceHi (Nt : Int) : Int := %s\n"
               "end QV.Gen.C11\n" % (L(ops, S), "true" if has_len else "false", lo, hi))
        ck.gen_facts("C11", True)
        return True
    except (X.ExtractError, Exception) as e:
        return bool(ck.tie_fallback("C11", "extraction of one_transition_spectrum failed: %r" % (e,), default=False))


def run(ck):
    import numpy
    qr = import_quantarhei()
    from quantarhei import (Molecule, Aggregate, TimeAxis, CorrelationFunction, energy_units, AbsSpectrumCalculator, eigenbasis_of)
    from quantarhei.spectroscopy import abscalculator as absmod
    rng = ck.rng
    ck.rule = ("monomers and aggregates of 2-4 sites (random energies within the window, couplings incl. zero, random dipole geometries): "
               "calculate(raw=True) compared sample by sample with the Fourier sum selected by the Lean index map (extracted pipeline) "
               "evaluated with the package's own line-shape functions; direct Fourier integral on the returned axis (known displacement); "
               "line positions; dipole scaling, common rotation of dipoles and positions, relabelling, dipole sum rule, unchanged Hamiltonian/"
               "dipole operator/tensor after the call and repeated calls, with and without supplied relaxation tensor / effective "
               "Hamiltonian; non-trivial = coupled aggregate")
    ck.trusted += ["harness/c11.py + extractor of the array pipeline of one_transition_spectrum",
                   "the line-shape function g(t) is the package's _c2g applied to the exciton-weighted correlation function (external, same call)",
                   "numpy.linalg.eigh in Hamiltonian.diagonalize (contract S orthogonal); numpy.fft.hfft contract: DFT of the Hermitian-completed signal"]
    ok = extract(ck)
    ck.prove(PROPS, extra_modules=["QV.Drive.C11"], also=["QV.Props.C11Spectrum"])
    Nt = ck.n(300, 600)
    dt = 1.0
    ta = TimeAxis(0.0, Nt, dt)
    kline = ck.drive(DRIVER, ["kidx %d" % Nt]) if ok else None
    ks = None
    if kline:
        head, body = kline[0].split(" ; ")
        nsamp, M = [int(x) for x in head.split()]
        ks = [int(p.split(":")[0]) for p in body.split()]
        ax = [int(p.split(":")[1]) for p in body.split()]

    def rot():
        a, b, c = [rng.random() * 2 * math.pi for _ in range(3)]
        Rz = numpy.array([[math.cos(a), -math.sin(a), 0], [math.sin(a), math.cos(a), 0], [0, 0, 1]])
        Ry = numpy.array([[math.cos(b), 0, math.sin(b)], [0, 1, 0], [-math.sin(b), 0, math.cos(b)]])
        Rx = numpy.array([[1, 0, 0], [0, math.cos(c), -math.sin(c)], [0, math.sin(c), math.cos(c)]])
        return Rz @ Ry @ Rx

    def make(nmol, energies, dips, poss, couplings, reorgs, cortimes, scale=1.0, perm=None, Q=None, dd_coupling=False, ground=0.0, int_positions=False):
        idx = list(range(nmol)) if perm is None else perm
        with energy_units("1/cm"):
            mols = []
            for k in idx:
                m = Molecule([ground, ground + energies[k]])
                d = numpy.array(dips[k]) * scale
                p = numpy.array(poss[k])
                if Q is not None:
                    d, p = Q @ d, Q @ p
                m.set_dipole(0, 1, list(d))
                m.position = numpy.array(numpy.round(p), dtype=int) if int_positions else p
                cf = CorrelationFunction(ta, dict(ftype="OverdampedBrownian", reorg=reorgs[k], cortime=cortimes[k], T=300, matsubara=20))
                m.set_transition_environment((0, 1), cf)
                mols.append(m)
            if nmol == 1:
                return mols[0]
            agg = Aggregate(mols)
            if dd_coupling:
                agg.set_coupling_by_dipole_dipole()
            else:
                for i in range(nmol):
                    for j in range(i + 1, nmol):
                        agg.set_resonance_coupling(i, j, couplings[idx[i]][idx[j]])
        agg.build()
        return agg

    def spectrum(system, **kw):
        calc = AbsSpectrumCalculator(ta, system=system, **kw)
        with energy_units("1/cm"):
            calc.bootstrap(rwa=12000.0)
        return calc, calc.calculate(raw=True)

    # ---- the line-shape function the reference below is built from (the package's _c2g) against an independent double time integral of the
    # correlation function, on axes of different step ----------------------------------------------------------------------------
    try:
        from scipy.integrate import cumulative_trapezoid
        for dtx in (1.0, 2.0, 0.5):
            tax = TimeAxis(0.0, int(600 / dtx), dtx)
            with energy_units("1/cm"):
                cfx = CorrelationFunction(tax, dict(ftype="OverdampedBrownian", reorg=30.0, cortime=80.0, T=300, matsubara=20))
            gp = numpy.array(absmod._c2g(tax, cfx.data))
            cx = numpy.array(cfx.data)
            gr = cumulative_trapezoid(cumulative_trapezoid(cx, dx=dtx, initial=0.0), dx=dtx, initial=0.0)
            devg = float(numpy.abs(gp - gr).max() / numpy.abs(gr).max())
            ck.resid("line-shape function g(t) vs double time integral of C(t) (step %g fs)" % dtx, devg)
            ck.case(("lineshape-function", dtx), nontrivial=True, kind="lineshape-function", molecules=0, coupled=False)
            if not devg <= 2e-3:
                ck.fail("lineshape-function:step-%g" % dtx, "the line-shape function g(t) used for the spectrum is not the double time integral of the bath correlation "
                        "function on a time axis with step %g fs (the lines then do not have the shape exp(-g(t)))" % dtx, {"step_fs": dtx, "reorg_cm": 30.0, "cortime_fs": 80.0}, devg, 2e-3)
    except Exception as e:
        ck.fail("raises:lineshape-function", "raised %r" % (e,), {})
    for h in range(ck.n(6, 40)):
        nmol = rng.choice([1, 2, 2, 3, 4]) if h else 2
        if h in (1, 2):
            nmol = 2 + h          # every run has a coupled trimer and tetramer: excitons delocalised over unequal sites
        if h == 3:
            nmol = 1              # ... and a single molecule (the monomer route of the calculator)
        energies = [12000.0 + rng.randint(-250, 250) for _ in range(nmol)]
        dips = [[rng.randint(-8, 8) / 4.0 for _ in range(3)] for _ in range(nmol)]
        for d in dips:
            if sum(abs(x) for x in d) == 0:
                d[0] = 1.0
        poss = [[10.0 * k + rng.randint(0, 4), rng.randint(-4, 4) * 1.0, rng.randint(-4, 4) * 1.0] for k in range(nmol)]
        couplings = [[0.0] * nmol for _ in range(nmol)]
        zero_c = rng.random() < 0.25 and h not in (1, 2)
        for i in range(nmol):
            for j in range(i + 1, nmol):
                couplings[i][j] = couplings[j][i] = 0.0 if zero_c else rng.choice([40.0, 100.0, -150.0, 250.0])
        reorgs = [rng.choice([20.0, 30.0, 50.0]) for _ in range(nmol)]
        cortimes = [rng.choice([60.0, 100.0]) for _ in range(nmol)]
        if h in (1, 2):
            reorgs = [[20.0, 50.0, 30.0, 80.0][k] for k in range(nmol)]      # unequal baths
        inp = {"sites": nmol, "energies": energies, "dipoles": dips, "couplings": couplings, "reorg": reorgs, "cortime": cortimes}
        try:
            sysm = make(nmol, energies, dips, poss, couplings, reorgs, cortimes)
            calc, sp = spectrum(sysm)
        except Exception as e:
            ck.fail("raises:calculate", "AbsSpectrumCalculator raised %r" % (e,), inp)
            continue
        with energy_units("int"):
            data = numpy.array(sp.data)
            axis = numpy.array(sp.axis.data)
        ck.case(("abs", nmol, tuple(energies), str(dips), str(couplings)), nontrivial=(nmol >= 2 and not zero_c), kind="spectrum", sites=nmol,
                zero_coupling=zero_c, sample=inp if h < 1 else None)
        rwa = calc.rwa
        # --- independent description of the transitions: energies, dipoles, line-shape functions ------------
        if nmol == 1:
            with energy_units("int"):
                oms = [sysm.elenergies[1] - sysm.elenergies[0]]
            dds = [float(numpy.dot(numpy.array(dips[0]), numpy.array(dips[0])))]
            gts = [absmod._c2g(ta, sysm.get_egcf((0, 1)).data if hasattr(sysm.get_egcf((0, 1)), "data") else sysm.get_egcf((0, 1)))]
            lifetime = 0.0
        else:
            Hs = numpy.array(sysm.get_Hamiltonian().data)
            ee, SS = numpy.linalg.eigh(Hs)
            ck.resid("eigh |S^T S - 1|", numpy.abs(SS.T @ SS - numpy.eye(len(ee))).max())
            D = numpy.array(dips)
            oms, dds, gts = [], [], []
            for a in range(1, len(ee)):
                Da = sum(SS[k + 1, a] * D[k] for k in range(nmol))
                dds.append(float(numpy.dot(Da, Da)))
                oms.append(ee[a] - ee[0])
                ct_code = numpy.array(calc._excitonic_coft(SS, sysm, a - 1))
                # the model's excCoft for independent baths (excCoft_diagonal): sum_k S[k,a]^4 c_k(t), from the site functions
                ct_model = sum((SS[k + 1, a] ** 4) * numpy.array(sysm.monomers[k].get_egcf((0, 1))) for k in range(nmol))
                ck.traces += 1
                dvc = float(numpy.abs(ct_code - ct_model).max()) / max(1e-300, float(numpy.abs(ct_model).max()))
                ck.resid("exciton correlation function vs participation-weighted sum of the site functions (relative)", dvc)
                if dvc > 1e-12:
                    ck.disagree("exciton correlation function is not sum_k S[k,a]^4 c_k(t)", dict(inp, exciton=a), dvc, 1e-12)
                gts.append(absmod._c2g(ta, ct_model))
        t = numpy.array(ta.data)
        # --- correspondence: the Lean index map says which DFT each sample is ---------------------------------
        if ks is not None:
            if len(data) != nsamp:
                ck.disagree("number of samples", {"Nt": Nt}, len(data), nsamp)
            else:
                n_ext = numpy.arange(M)
                ref = numpy.zeros(len(data))
                for om, dd, gt in zip(oms, dds, gts):
                    at = numpy.exp(-gt - 1j * (om - rwa) * t)
                    if nmol == 1:
                        at = at * numpy.exp(-t / sysm.get_electronic_natural_lifetime(1)) if numpy.isfinite(1.0 / sysm.get_electronic_natural_lifetime(1)) else at
                    a_ext = numpy.zeros(M, dtype=complex)
                    a_ext[:Nt] = at
                    a_ext[0] = at[0].real; a_ext[Nt - 1] = at[Nt - 1].real
                    a_ext[Nt:] = numpy.conj(at[1:Nt - 1][::-1])
                    for j, k in enumerate(ks):
                        ref[j] += dd * dt * numpy.real(numpy.sum(a_ext * numpy.exp(-2j * numpy.pi * k * n_ext / M)))
                sc = max(1e-300, float(numpy.abs(ref).max()))
                dev = float(numpy.abs(ref - data).max())
                ck.traces += 1
                ck.resid("max |spectrum - Fourier sum selected by the index map| / max", dev / sc)
                if dev > 1e-9 * sc:
                    ck.disagree("spectrum samples are not the Fourier sums selected by the model's index map", inp, dev, 1e-9 * sc)
                # the returned axis
                dw = math.pi / (Nt * dt)
                exp_axis = rwa + numpy.array(ax) * dw
                if numpy.abs(exp_axis - axis).max() > 1e-9 * max(1.0, abs(rwa)):
                    ck.fail("axis:grid", "returned frequency axis is not rwa + (j + Nt//2 - Nt) pi/(Nt dt)", inp,
                            float(numpy.abs(exp_axis - axis).max()))
        # --- property oracle: direct Fourier integral at the points of the returned axis ------------------------
        direct = numpy.zeros(len(axis))
        for om, dd, gt in zip(oms, dds, gts):
            at = numpy.exp(-gt - 1j * om * t)
            for j, w in enumerate(axis):
                f = at * numpy.exp(1j * w * t)
                direct[j] += dd * dt * (2.0 * numpy.real(numpy.sum(f)) - numpy.real(f[0]) - numpy.real(f[-1]))
        sc = float(numpy.abs(direct).max())
        dev = float(numpy.abs(direct - data).max()) / sc
        ck.extra.setdefault("relative_deviation_from_integral_on_returned_axis", []).append(round(dev, 4))
        if dev > 2e-3:
            ck.fail("integral-on-returned-axis", "spectrum differs from the direct Fourier integral evaluated at the returned axis points "
                    "(relative to the maximum)", {"sites": nmol}, dev, 2e-3)
        # line positions: isolated strongest line within 3 grid points of its transition energy minus reorganisation shift window
        jmax = int(numpy.argmax(data))
        strongest = int(numpy.argmax(dds))
        if nmol == 1:
            w0 = oms[0]
            if abs(axis[jmax] - w0) > 40 * (math.pi / (Nt * dt)) + qr.convert(reorgs[0], "1/cm", "int"):
                ck.fail("line-position", "absorption line far from its transition energy", inp, float(axis[jmax]), float(w0))
        # --- symmetry relations ------------------------------------------------------------------------------
        try:
            c = rng.choice([2.0, 0.5, 3.0])
            _, sp2 = spectrum(make(nmol, energies, dips, poss, couplings, reorgs, cortimes, scale=c))
            d2 = numpy.array(sp2.data)
            # a monomer line carries in addition its natural-lifetime broadening exp(-t/tau), tau ~ 1/|d|^2 (a part of its
            # line shape): exact c^2 scaling holds for aggregates, to 2e-3 of the maximum for monomers
            stol = 2e-3 if nmol == 1 else 1e-9
            if numpy.abs(d2 - c * c * data).max() > stol * c * c * numpy.abs(data).max():
                ck.fail("dipole-scaling", "spectrum does not scale with the square of a common dipole factor", inp,
                        float(numpy.abs(d2 - c * c * data).max()))
            # "a common dipole factor" has no preferred size: a very small and a very large one as well
            if nmol >= 2:
                for c in (1.0e-5, 1.0e3):
                    _, spx = spectrum(make(nmol, energies, dips, poss, couplings, reorgs, cortimes, scale=c))
                    dx = numpy.array(spx.data)
                    if numpy.abs(dx - c * c * data).max() > 1e-9 * c * c * numpy.abs(data).max():
                        ck.fail("dipole-scaling:factor-%g" % c, "spectrum does not scale with the square of a common dipole factor (%g)" % c,
                                dict(inp, factor=c), float(numpy.abs(dx - c * c * data).max() / (c * c * numpy.abs(data).max())))
            # prior use of the system: the aggregate diagonalised itself (as the 2D and mock calculators make it do) before the
            # absorption spectrum is calculated from it; and two spectra in a row from one aggregate
            if nmol >= 2:
                s7 = make(nmol, energies, dips, poss, couplings, reorgs, cortimes)
                d_op0 = numpy.array(s7.get_TransitionDipoleMoment().data).copy()
                s7.diagonalize()
                _, sp7 = spectrum(s7)
                _, sp7b = spectrum(s7)
                for nm7, sp_ in (("after Aggregate.diagonalize()", sp7), ("second calculation on the same aggregate", sp7b)):
                    if numpy.abs(numpy.array(sp_.data) - data).max() > 1e-9 * numpy.abs(data).max():
                        ck.fail("prior-use:spectrum", "spectrum of the same system differs %s" % nm7, dict(inp, history=nm7),
                                float(numpy.abs(numpy.array(sp_.data) - data).max() / numpy.abs(data).max()))
                if numpy.abs(numpy.array(s7.get_TransitionDipoleMoment().data) - d_op0).max() > 1e-12:
                    ck.fail("unchanged:dipole-operator:after-diagonalize", "the system's dipole operator changed (diagonalize + two spectrum calculations)", inp,
                            float(numpy.abs(numpy.array(s7.get_TransitionDipoleMoment().data) - d_op0).max()))
            if nmol >= 2:
                # prior use: the dipole strengths of the site transitions were asked for before the spectrum is calculated
                s8 = make(nmol, energies, dips, poss, couplings, reorgs, cortimes)
                D8 = s8.get_TransitionDipoleMoment()
                site_strengths = [float(D8.dipole_strength(0, k_ + 1)) for k_ in range(nmol)]
                _, sp8 = spectrum(s8)
                if numpy.abs(numpy.array(sp8.data) - data).max() > 1e-9 * numpy.abs(data).max():
                    ck.fail("prior-use:spectrum", "spectrum of the same system differs after the dipole strengths of the site transitions were read",
                            dict(inp, history="get_TransitionDipoleMoment().dipole_strength(0,k) for all k; calculate"),
                            float(numpy.abs(numpy.array(sp8.data) - data).max() / numpy.abs(data).max()))
                again = [float(s8.get_TransitionDipoleMoment().dipole_strength(0, k_ + 1)) for k_ in range(nmol)]
                want8 = [float(numpy.dot(dips[k_], dips[k_])) for k_ in range(nmol)]
                if max(abs(a_ - b_) for a_, b_ in zip(again, want8)) > 1e-9 * max(want8) or max(abs(a_ - b_) for a_, b_ in zip(site_strengths, want8)) > 1e-9 * max(want8):
                    ck.fail("unchanged:dipole-strengths", "dipole strengths of the site transitions read before / after the calculation are not |d_k|^2", inp,
                            [site_strengths, again], want8)
            # the calculation requested while a units context is open: the same spectrum (read in internal units)
            if h % 2 == 1 or h < 3:
                try:
                    calc_u = AbsSpectrumCalculator(ta, system=make(nmol, energies, dips, poss, couplings, reorgs, cortimes))
                    with energy_units("1/cm"):
                        calc_u.bootstrap(rwa=12000.0)
                        sp_u = calc_u.calculate(raw=True)
                    with energy_units("int"):
                        ax_u = numpy.array(sp_u.axis.data)
                    du = float(numpy.abs(numpy.array(sp_u.data) - data).max() / numpy.abs(data).max())
                    dau = float(numpy.abs(ax_u - axis).max() / numpy.abs(axis).max()) if ax_u.shape == axis.shape else float("inf")
                    ck.resid("spectrum calculated inside a units context vs outside", max(du, dau))
                    if du > 1e-9 or dau > 1e-12:
                        ck.fail("line-position:units-context", "the spectrum calculated while energy_units('1/cm') is open differs from the one calculated outside the "
                                "context (lines no longer at the transition energies)", dict(inp, inside="energy_units('1/cm')"), [du, dau])
                except Exception as e:
                    ck.fail("raises:spectrum:units-context", "calculate() inside a units context raised %r" % (e,), inp)
            # the energy origin of the molecules moved (ground states at 300 1/cm, the same transition energies): the same spectrum
            if h % 2 == 0:
                _, sp9 = spectrum(make(nmol, energies, dips, poss, couplings, reorgs, cortimes, ground=300.0))
                d9 = float(numpy.abs(numpy.array(sp9.data) - data).max() / numpy.abs(data).max())
                ck.resid("spectrum with ground-state energies at 300 1/cm vs at zero", d9)
                if d9 > 1e-9:
                    ck.fail("line-position:ground-state-offset", "with the ground states of the molecules at 300 1/cm (same transition energies) the spectrum differs: "
                            "the lines no longer sit at the transition energies", dict(inp, ground_state_energy_cm=300.0), d9)
            Q = rot()
            _, sp3 = spectrum(make(nmol, energies, dips, poss, couplings, reorgs, cortimes, Q=Q))
            if numpy.abs(numpy.array(sp3.data) - data).max() > 1e-9 * numpy.abs(data).max():
                ck.fail("rotation", "spectrum changes under a common rotation of dipoles and positions", inp,
                        float(numpy.abs(numpy.array(sp3.data) - data).max()))
            if nmol >= 2:
                perm = list(range(nmol)); rng.shuffle(perm)
                _, sp4 = spectrum(make(nmol, energies, dips, poss, couplings, reorgs, cortimes, perm=perm))
                if numpy.abs(numpy.array(sp4.data) - data).max() > 1e-9 * numpy.abs(data).max():
                    ck.fail("relabelling", "spectrum changes under relabelling of the molecules", dict(inp, perm=perm),
                            float(numpy.abs(numpy.array(sp4.data) - data).max()))
                # geometry-generated couplings: rotation invariance of the whole chain
                s5 = make(nmol, energies, dips, poss, couplings, reorgs, cortimes, dd_coupling=True)
                s6 = make(nmol, energies, dips, poss, couplings, reorgs, cortimes, dd_coupling=True, Q=Q)
                _, a5 = spectrum(s5); _, a6 = spectrum(s6)
                # the same geometry with the positions written as whole numbers (integer arrays)
                _, a5i = spectrum(make(nmol, energies, dips, poss, couplings, reorgs, cortimes, dd_coupling=True, int_positions=True))
                if numpy.abs(numpy.array(a5.data) - numpy.array(a5i.data)).max() > 1e-9 * numpy.abs(numpy.array(a5.data)).max():
                    ck.fail("rotation:dipole-dipole:integer-positions", "spectrum with point-dipole couplings differs when the (whole-number) positions are given as "
                            "integer arrays - after any rotation they are floats", inp,
                            float(numpy.abs(numpy.array(a5.data) - numpy.array(a5i.data)).max() / numpy.abs(numpy.array(a5.data)).max()))
                if numpy.abs(numpy.array(a5.data) - numpy.array(a6.data)).max() > 1e-9 * numpy.abs(numpy.array(a5.data)).max():
                    ck.fail("rotation:dipole-dipole", "spectrum with point-dipole couplings changes under a common rotation", inp)
                # sum rule: integral of the raw spectrum proportional to the sum of squared site dipoles whatever the couplings
                dw = axis[1] - axis[0]
                I1 = float(numpy.sum(data) * dw)
                tot = float(sum(numpy.dot(numpy.array(d), numpy.array(d)) for d in dips))
                z = [[0.0] * nmol for _ in range(nmol)]
                _, sp0 = spectrum(make(nmol, energies, dips, poss, z, reorgs, cortimes))
                I0 = float(numpy.sum(numpy.array(sp0.data)) * dw)
                if abs(I1 / I0 - 1.0) > 5e-3:
                    ck.fail("sum-rule", "integrated raw spectrum depends on the couplings", inp, I1 / I0, 1.0)
                if abs(I1 / (2 * math.pi * tot) - 1.0) > 2e-2:
                    ck.fail("sum-rule:value", "integrated raw spectrum is not 2 pi sum|d_k|^2", inp, I1 / (2 * math.pi * tot), 1.0)
        except Exception as e:
            ck.fail("raises:symmetry", "symmetry-relation run raised %r" % (e,), inp)
        # --- purity: inputs unchanged, repeated calls, supplied tensor / effective Hamiltonian ---------------------
        if nmol >= 2:
            for variant in ("plain", "tensor", "tensor+ham", "td-tensor+ham", "combined-tensor+ham", "cutoff-ham"):
                try:
                    agg = make(nmol, energies, dips, poss, couplings, reorgs, cortimes)
                    kw = {}
                    RT = None
                    Heff = None
                    if variant == "combined-tensor+ham":
                        # effective Hamiltonian that carries the couplings below the cut-off as a remainder
                        cabs = sorted(abs(float(numpy.array(agg.get_Hamiltonian().data)[i, j])) for i in range(1, nmol + 1) for j in range(i + 1, nmol + 1))
                        cut = 0.5 * (cabs[0] + cabs[-1]) if cabs[0] != cabs[-1] else (2.0 * cabs[0] if h % 2 == 0 else 0.5 * cabs[0])
                        RT, ham = agg.get_RelaxationTensor(ta, relaxation_theory="combined_RedfieldFoerster", coupling_cutoff=cut)
                        kw["relaxation_tensor"] = RT
                        kw["effective_hamiltonian"] = ham
                        Heff = ham
                    elif variant == "cutoff-ham":
                        cabs = sorted(abs(float(numpy.array(agg.get_Hamiltonian().data)[i, j])) for i in range(1, nmol + 1) for j in range(i + 1, nmol + 1))
                        cut = 0.5 * (cabs[0] + cabs[-1]) if cabs[0] != cabs[-1] else (2.0 * cabs[0] if h % 2 == 0 else 0.5 * cabs[0])
                        agg.get_Hamiltonian().remove_cutoff_coupling(cut)
                        Heff = agg.get_Hamiltonian()
                    elif variant != "plain":
                        RT, ham = agg.get_RelaxationTensor(ta, relaxation_theory="standard_Redfield", time_dependent=variant.startswith("td"))
                        kw["relaxation_tensor"] = RT
                        if "ham" in variant:
                            kw["effective_hamiltonian"] = ham
                            Heff = ham
                    He0 = numpy.array(Heff.data).copy() if Heff is not None else None
                    H0 = numpy.array(agg.get_Hamiltonian().data).copy()
                    D0 = numpy.array(agg.get_TransitionDipoleMoment().data).copy()
                    R0 = numpy.array(RT.data).copy() if RT is not None else None
                    calc2 = AbsSpectrumCalculator(ta, system=agg, **kw)
                    with energy_units("1/cm"):
                        calc2.bootstrap(rwa=12000.0)
                    s_a = numpy.array(calc2.calculate(raw=True).data).copy()
                    bad = []
                    if numpy.abs(numpy.array(agg.get_Hamiltonian().data) - H0).max() > 1e-9 * numpy.abs(H0).max():
                        bad.append("Hamiltonian")
                    if numpy.abs(numpy.array(agg.get_TransitionDipoleMoment().data) - D0).max() > 1e-9 * numpy.abs(D0).max():
                        bad.append("dipole operator")
                    if Heff is not None and numpy.abs(numpy.array(Heff.data) - He0).max() > 1e-9 * numpy.abs(He0).max():
                        bad.append("effective Hamiltonian")
                    if RT is not None and numpy.abs(numpy.array(RT.data) - R0).max() > 1e-9 * numpy.abs(R0).max():
                        bad.append("relaxation tensor")
                    s_b = numpy.array(calc2.calculate(raw=True).data)
                    if numpy.abs(s_a - s_b).max() > 1e-9 * numpy.abs(s_a).max():
                        bad.append("repeated calculate()")
                    # bootstrapping again must not move the axis
                    with energy_units("1/cm"):
                        calc2.bootstrap(rwa=12000.0)
                    s_c = calc2.calculate(raw=True)
                    with energy_units("int"):
                        if numpy.abs(numpy.array(s_c.axis.data) - axis).max() > 1e-9 * abs(rwa):
                            bad.append("axis after second bootstrap")
                    for b in bad:
                        ck.fail("purity:%s:%s" % (variant, b), "calculating a spectrum (%s) changed: %s" % (variant, b), inp)
                    ck.case(("purity", h, variant), nontrivial=True, kind="purity:" + variant)
                except Exception as e:
                    ck.fail("raises:purity:%s" % variant, "spectrum calculation (%s) raised %r" % (variant, e), inp)
    # ---- the spectrum calculated from the dynamics of the optical coherences (calculate(from_dynamics=True)) ------------------
    from quantarhei.qm import ReducedDensityMatrixPropagator
    for h in range(ck.n(2, 10)):
        nmol = 2 + h % 2
        energies = [12000.0 + rng.randint(-200, 200) for _ in range(nmol)]
        dips = [[rng.randint(-8, 8) / 4.0 for _ in range(3)] for _ in range(nmol)]
        for d in dips:
            if sum(abs(x) for x in d) == 0:
                d[1] = 1.0
        poss = [[10.0 * k, 0.0, 0.0] for k in range(nmol)]
        couplings = [[0.0] * nmol for _ in range(nmol)]
        for i in range(nmol):
            for j in range(i + 1, nmol):
                couplings[i][j] = couplings[j][i] = rng.choice([40.0, 100.0, -150.0])
        reorgs = [rng.choice([20.0, 30.0, 50.0]) for _ in range(nmol)]
        cortimes = [rng.choice([60.0, 100.0]) for _ in range(nmol)]
        inp = {"route": "from_dynamics", "sites": nmol, "energies": energies, "dipoles": dips, "couplings": couplings, "reorg": reorgs}

        def dyn(scale=1.0, Q=None, alt=False):
            agg = make(nmol, energies, dips, poss, couplings, reorgs, cortimes, scale=scale, Q=Q)
            RT, ham = agg.get_RelaxationTensor(ta, relaxation_theory="standard_Redfield")
            prop = ReducedDensityMatrixPropagator(ta, ham, RT)
            c_ = AbsSpectrumCalculator(ta, system=agg)
            with energy_units("1/cm"):
                c_.bootstrap(rwa=12000.0, prop=prop)
            sp_ = c_.calculate(raw=True, from_dynamics=True, alt=alt)
            return agg, ham, RT, prop, c_, numpy.array(sp_.data).copy()
        try:
            agg, ham, RT, prop, c_, d1 = dyn()
            H0 = numpy.array(agg.get_Hamiltonian().data).copy(); D0 = numpy.array(agg.get_TransitionDipoleMoment().data).copy()
            R0 = numpy.array(RT.data).copy()
            d1b = numpy.array(c_.calculate(raw=True, from_dynamics=True).data)
            _, _, _, _, _, d_alt = dyn(alt=True)
            _, _, _, _, _, d_sc = dyn(scale=2.0)
            _, _, _, _, _, d_rot = dyn(Q=rot())
        except Exception as e:
            ck.fail("raises:from_dynamics", "calculate(from_dynamics=True) raised %r" % (e,), inp)
            continue
        sc = float(numpy.abs(d1).max()) or 1.0
        ck.case(("dyn", h, str(energies)), nontrivial=True, kind="from-dynamics", sites=nmol)
        for nm_, arr, tol_ in (("repeated call", d1b, 1e-12), ("the two implementations (alt)", d_alt, 1e-9), ("dipole scaling", d_sc / 4.0, 1e-9),
                               ("common rotation", d_rot, 1e-9)):
            dev = float(numpy.abs(arr - d1).max()) / sc
            ck.resid("from dynamics: " + nm_, dev)
            if dev > tol_:
                ck.fail("from-dynamics:" + nm_.split()[0], "spectrum from dynamics: %s changes the spectrum" % nm_, inp, dev, tol_)
        if numpy.abs(numpy.array(agg.get_Hamiltonian().data) - H0).max() > 1e-9 * numpy.abs(H0).max() or \
                numpy.abs(numpy.array(agg.get_TransitionDipoleMoment().data) - D0).max() > 1e-12 or numpy.abs(numpy.array(RT.data) - R0).max() > 1e-9 * numpy.abs(R0).max():
            ck.fail("purity:from-dynamics", "calculating the spectrum from dynamics changed the Hamiltonian, the dipole operator or the tensor", inp)
        # the samples are the Fourier sums (selected by the same index map) of the signal field the route propagates
        if ks is not None:
            try:
                with energy_units("int"):
                    rhoeq = agg.get_thermal_ReducedDensityMatrix()
                    at = absmod._spect_from_dyn_single(ta, agg.get_Hamiltonian(), agg.get_TransitionDipoleMoment(), prop, rhoeq, False)
                n_ext = numpy.arange(M)
                a_ext = numpy.zeros(M, dtype=complex)
                a_ext[:Nt] = at
                a_ext[0] = at[0].real; a_ext[Nt - 1] = at[Nt - 1].real
                a_ext[Nt:] = numpy.conj(at[1:Nt - 1][::-1])
                ref = numpy.array([dt * numpy.real(numpy.sum(a_ext * numpy.exp(-2j * numpy.pi * k * n_ext / M))) for k in ks])
                dev = float(numpy.abs(ref - d1).max()) / (float(numpy.abs(ref).max()) or 1.0)
                ck.resid("from dynamics: |spectrum - Fourier sum selected by the index map| / max", dev)
                if dev > 1e-9:
                    ck.disagree("from-dynamics samples are not the Fourier sums selected by the model's index map", inp, dev, 1e-9)
            except Exception as e:
                ck.fail("raises:from_dynamics:signal", "recomputing the signal field raised %r" % (e,), inp)
    return ck.finish()
