"""C15 - propagation results are functions of their inputs only."""
import ast
import io
import contextlib
from qvh.core import *
from qvh import extract as X

DRIVER = "C15"
PROPS = "QV.Props.C15"
BRACKETS = {"subtract_cutoff_coupling": "subtract", "recover_cutoff_coupling": "recover",
            "protect_basis": "protect", "unprotect_basis": "unprotect"}
# attributes a propagator object is known to (re)write in propagate(); anything else that appears or changes is hidden state
DECLARED_PROP_STATE = {"Nref", "dt"}


# ---------------------------------------------------------------------------------------------------
class Stub15:
    def __init__(self, **kw):
        self.__dict__.update(kw)


def _paths(stmts):
    """all execution paths through `stmts` as (sequence of bracket events, terminated?)"""
    paths = [([], False)]
    for st in stmts:
        new = []
        for seq, done in paths:
            if done:
                new.append((seq, True))
                continue
            if isinstance(st, ast.Return):
                new.append((seq, True))
            elif isinstance(st, ast.If):
                for sub, d in _paths(st.body):
                    new.append((seq + sub, d))
                for sub, d in _paths(st.orelse):
                    new.append((seq + sub, d))
            elif isinstance(st, ast.With):
                ctx = any(isinstance(i.context_expr, ast.Call) and isinstance(i.context_expr.func, ast.Name)
                          and i.context_expr.func.id == "eigenbasis_of" for i in st.items)
                for sub, d in _paths(st.body):
                    new.append((seq + (["enter"] if ctx else []) + sub + (["exit"] if ctx else []), d))
            elif isinstance(st, ast.Try):
                for h in st.handlers:
                    if any(isinstance(n, ast.Call) and isinstance(n.func, ast.Attribute) and n.func.attr in BRACKETS for n in ast.walk(h)):
                        raise X.ExtractError("bracket call inside an exception handler")
                for sub, d in _paths(st.body + st.orelse):
                    for fin, d2 in _paths(st.finalbody):
                        new.append((seq + sub + fin, d or d2))
            elif isinstance(st, (ast.For, ast.While)):
                ev = [n for n in ast.walk(st) if isinstance(n, ast.Call) and isinstance(n.func, ast.Attribute) and n.func.attr in BRACKETS]
                if ev:
                    raise X.ExtractError("bracket call inside a loop or try block")
                new.append((seq, False))
            else:
                ev = []
                for n in ast.walk(st):
                    if isinstance(n, ast.Call) and isinstance(n.func, ast.Attribute) and n.func.attr in BRACKETS:
                        ev.append((n.lineno, n.col_offset, BRACKETS[n.func.attr]))
                new.append((seq + [e[2] for e in sorted(ev)], False))
        # merge identical
        seen, paths = set(), []
        for seq, d in new:
            k = (tuple(seq), d)
            if k not in seen:
                seen.add(k)
                paths.append((seq, d))
    return paths


def extract(ck):
    try:
        S, L = X.lean_str, X.lean_list
        tree = ast.parse(X.read_source(REPO, "quantarhei/builders/opensystem.py"))
        f = X.find_def(tree, "get_RelaxationTensor", cls="OpenSystem")
        chain = None
        for st in f.body:
            if isinstance(st, ast.If) and isinstance(st.test, ast.Compare) and isinstance(st.test.left, ast.Name) \
                    and st.test.left.id == "relaxation_theory" and isinstance(st.test.ops[0], ast.In):
                chain = st
        if chain is None:
            raise X.ExtractError("theory dispatch chain not found")
        branches = []
        node = chain
        while isinstance(node, ast.If):
            comp = node.test.comparators[0]
            name = comp.slice.value if isinstance(comp, ast.Subscript) and isinstance(comp.slice, ast.Constant) else "?"
            body = node.body
            split = None
            if body and isinstance(body[0], ast.If) and isinstance(body[0].test, ast.Name) and body[0].test.id == "time_dependent":
                split = body[0]
            if split is not None:
                for tag, part in (("td", split.body), ("ti", split.orelse)):
                    for k, (seq, _) in enumerate(_paths(part + body[1:])):
                        branches.append(("%s/%s%s" % (name, tag, "" if k == 0 else "#%d" % k), seq))
            else:
                for k, (seq, _) in enumerate(_paths(body)):
                    branches.append(("%s/any%s" % (name, "" if k == 0 else "#%d" % k), seq))
            node = node.orelse[0] if len(node.orelse) == 1 and isinstance(node.orelse[0], ast.If) else None
        # propagate(): sticky refinement
        rt = ast.parse(X.read_source(REPO, "quantarhei/qm/propagators/rdmpropagator.py"))
        p = X.find_def(rt, "propagate", cls="ReducedDensityMatrixPropagator")
        sets = [n for n in ast.walk(p) if isinstance(n, ast.Call) and isinstance(n.func, ast.Attribute) and n.func.attr == "setDtRefinement"]
        restores = [n for n in ast.walk(p) if isinstance(n, ast.Try)] + \
                   [n for n in ast.walk(p) if isinstance(n, ast.Assign) and any(isinstance(t, ast.Attribute) and t.attr in ("Nref", "dt") for t in n.targets)]
        sticky = len(sets) == 1 and not restores
        if len(sets) == 0:
            sticky = False
        # HEOM: reset before the first use of the auxiliary operators
        ht = ast.parse(X.read_source(REPO, "quantarhei/qm/liouvillespace/heom.py"))
        hp = X.find_def(ht, "propagate", cls="KTHierarchyPropagator")
        hcls = next(n for n in ast.walk(ht) if isinstance(n, ast.ClassDef) and n.name == "KTHierarchyPropagator")
        hmeth = {n.name: n for n in hcls.body if isinstance(n, ast.FunctionDef)}

        def events(fn, depth=0):
            """`reset` / `use` events of the auxiliary operators in source order, following calls to methods of the class"""
            ev = []
            for n in sorted((x for x in ast.walk(fn) if hasattr(x, "lineno")), key=lambda x: (x.lineno, x.col_offset)):
                if isinstance(n, ast.Call) and isinstance(n.func, ast.Attribute) and n.func.attr == "reset_ados":
                    ev.append("reset")
                elif isinstance(n, ast.Call) and isinstance(n.func, ast.Attribute) and isinstance(n.func.value, ast.Name) \
                        and n.func.value.id == "self" and n.func.attr in hmeth and n.func.attr != fn.name and depth < 2:
                    ev += events(hmeth[n.func.attr], depth + 1)
                elif isinstance(n, ast.Attribute) and n.attr == "ado":
                    ev.append("use")
            return ev
        evs = events(hp)
        heom_first = "reset" in evs and evs[0] == "reset"
        # recover_cutoff_coupling adds to the raw array
        hm = ast.parse(X.read_source(REPO, "quantarhei/qm/hilbertspace/hamiltonian.py"))
        rc = X.find_def(hm, "recover_cutoff_coupling", cls="Hamiltonian")
        augs = [n for n in ast.walk(rc) if isinstance(n, ast.AugAssign)]
        raw = len(augs) == 1 and isinstance(augs[0].target, ast.Attribute) and augs[0].target.attr == "_data" \
            and isinstance(augs[0].value, ast.Attribute) and augs[0].value.attr == "JR"
        B = lambda b: "true" if b else "false"
        body = ("namespace QV.Gen.C15\n"
                "/-- per branch of get_RelaxationTensor: the bracket calls on the system Hamiltonian in source order -/\n"
                "def branches : List (String × List String) := %s\n"
                "def stickyNref : Bool := %s\ndef heomResetsFirst : Bool := %s\ndef recoverUsesRaw : Bool := %s\n"
                "end QV.Gen.C15\n") % (L(branches, lambda b: "(%s, %s)" % (S(b[0]), L(b[1], S))), B(sticky), B(heom_first), B(raw))
    except (X.ExtractError, Exception) as e:
        return ck.tie_fallback("C15", "extraction of the bracket sequences / refinement / reset facts failed: %r" % e)
    facts = dict(branches=branches, sticky=sticky, heom_first=heom_first, raw=raw)
    ck.gen("C15", body, facts=facts)
    return facts


# ---------------------------------------------------------------------------------------------------
def run(ck):
    import numpy
    qr = import_quantarhei()
    from quantarhei import (Hamiltonian, Molecule, Aggregate, TimeAxis, CorrelationFunction, energy_units, eigenbasis_of, ReducedDensityMatrix,
                            StateVector, convert, Manager)
    from quantarhei.qm import (ReducedDensityMatrixPropagator, StateVectorPropagator, RedfieldRateMatrix, EvolutionSuperOperator,
                               PureDephasing)
    from quantarhei.qm.propagators.poppropagator import PopulationPropagator
    rng = ck.rng
    ck.rule = ("random histories (10-16 calls) on ONE set of shared objects (aggregate of 2-3 sites, its Hamiltonian, system-bath "
               "interaction, time axis, initial state, one density-matrix propagator per tensor, a hierarchy propagator, state-vector and "
               "population propagators): get_RelaxationTensor for standard Redfield (tensor / operators / time dependent), Foerster "
               "(both), combined Redfield-Foerster with a coupling cut-off given in 1/cm inside energy_units or in internal units "
               "outside (both), propagate with and without Nref inside and outside eigenbasis_of, setDtRefinement, hierarchy propagate, "
               "state-vector and population propagate, EvolutionSuperOperator.calculate; after every call every array and flag reachable "
               "from the inputs is compared with its value before the history (exactly; 4 ulp for the Hamiltonian after the cut-off "
               "bracket) and the result with the first result of the same call (1e-10), the hidden fields (Nref, auxiliary operators "
               "dirty, remainder coupling, protection, context depth) with the Lean model, and the attributes that the call created or "
               "changed on the propagator with the declared set; non-trivial = history with a repeated call separated by a call of "
               "another kind")
    ck.trusted += ["harness/c15.py + AST extractor of the bracket-call sequences of get_RelaxationTensor, of the Nref handling of propagate, "
                   "of the position of reset_ados and of the attribute recover_cutoff_coupling adds to",
                   "hand model QV/Model/C15.lean: results are abstract (a call's result is a function of its explicit inputs and of the "
                   "hidden fields the model says it reads); that no OTHER hidden field exists is checked dynamically (attribute diff of the "
                   "propagator objects, repeated calls), not proved"]
    facts = extract(ck)
    ck.prove(PROPS, extra_modules=["QV.Drive.C15"])
    names = [b[0] for b in facts["branches"]] if facts else []
    ta = TimeAxis(0.0, ck.n(60, 150), 1.0)
    quiet = lambda: contextlib.redirect_stdout(io.StringIO())

    def make(n, mult=1):
        with energy_units("1/cm"):
            mols = []
            for k in range(n):
                m = Molecule([0.0, 12000.0 + rng.randint(-250, 250)])
                cf = CorrelationFunction(ta, dict(ftype="OverdampedBrownian", reorg=rng.choice([20.0, 40.0]), cortime=rng.choice([50.0, 100.0]),
                                                  T=300, matsubara=20))
                m.set_transition_environment((0, 1), cf)
                mols.append(m)
            agg = Aggregate(mols)
            cs = {}
            for i in range(n):
                for j in range(i + 1, n):
                    cs[(i, j)] = rng.choice([25.0, -60.0, 120.0, 200.0])
                    agg.set_resonance_coupling(i, j, cs[(i, j)])
        agg.build(mult=mult)
        return agg, cs

    def arrays_of(obj, prefix, out, depth=0, seen=None):
        """every numpy array / scalar flag directly held by `obj` (one level into lists of arrays)"""
        seen = seen if seen is not None else set()
        if id(obj) in seen or depth > 1:
            return
        seen.add(id(obj))
        for k, v in sorted(getattr(obj, "__dict__", {}).items()):
            if isinstance(v, numpy.ndarray):
                out["%s.%s" % (prefix, k)] = v.copy()
            elif isinstance(v, (bool, int, float, str, type(None), tuple)):
                out["%s.%s" % (prefix, k)] = v
            elif isinstance(v, list) and v and all(isinstance(x, (int, float, bool)) for x in v):
                out["%s.%s" % (prefix, k)] = tuple(v)

    def snapshot(objs):
        out = {}
        for name, o in objs.items():
            arrays_of(o, name, out)
        return out

    def diff(a, b, tol=None):
        """names whose value differs between two snapshots"""
        bad = []
        for k in sorted(set(a) | set(b)):
            if k not in a or k not in b:
                v = b.get(k, a.get(k))
                empty = (isinstance(v, numpy.ndarray) and not numpy.any(v)) or (not isinstance(v, numpy.ndarray) and not v)
                if not empty:
                    bad.append((k, "appeared" if k in b else "disappeared"))
                continue
            x, y = a[k], b[k]
            if isinstance(x, numpy.ndarray) or isinstance(y, numpy.ndarray):
                if not (isinstance(x, numpy.ndarray) and isinstance(y, numpy.ndarray)) or x.shape != y.shape:
                    bad.append((k, "shape/type"))
                else:
                    d = float(numpy.abs(x - y).max()) if x.size else 0.0
                    t = (tol or {}).get(k, 0.0) * (float(numpy.abs(x).max()) if x.size else 0.0)
                    if d > t or (numpy.isnan(d)):
                        bad.append((k, d))
            elif x != y and not (isinstance(x, float) and isinstance(y, float) and numpy.isnan(x) and numpy.isnan(y)):
                bad.append((k, [repr(x)[:40], repr(y)[:40]]))
        return bad

    nsys = ck.n(10, 40)
    lines, recs = [], []
    for s in range(nsys):
        n = rng.choice([2, 3])
        mult = 2 if (n == 2 and rng.random() < 0.5) else 1       # with two-exciton states: rwa_indices [0, 1, N]
        try:
            agg, cs = make(n, mult)
            ham = agg.get_Hamiltonian()
            sbi = agg.get_SystemBathInteraction()
        except Exception as e:
            ck.fail("raises:build", "building the system raised %r" % (e,), {"sites": n})
            continue
        dim = ham.dim
        r0 = numpy.zeros((dim, dim), dtype=complex)
        r0[dim - 1, dim - 1] = 0.6; r0[1, 1] = 0.4; r0[1, dim - 1] = r0[dim - 1, 1] = 0.2
        rho0 = ReducedDensityMatrix(data=r0.copy())
        psi0 = StateVector(data=numpy.array([0.0] + [1.0 / numpy.sqrt(dim - 1)] * (dim - 1), dtype=(complex if s % 2 == 0 else float)))
        cut_cm = rng.choice([30.0, 70.0, 150.0])
        cut_int = float(convert(cut_cm, "1/cm", "int"))
        inputs = {"ham": ham, "sbi": sbi, "time": ta, "rho0": rho0, "psi0": psi0, "agg": agg}
        for k in range(sbi.N):
            inputs["cf%d" % k] = sbi.CC.get_correlation_function(k, k)
        base = snapshot(inputs)
        mgr = Manager()
        sysinp = {"sites": n, "mult": mult, "couplings_cm": {("%d-%d" % k): v for k, v in cs.items()}, "cutoff_cm": cut_cm}
        tensors, props, first, hist = {}, {}, {}, []
        held = []               # evolutions handed out by earlier propagate() calls, with a copy of their values at that time
        hprop = None
        lines.append("reset"); recs.append(None)
        ncalls = rng.randint(10, 16)
        kinds_seen = []
        main_key = None
        configured = 1          # refinement the user configured with setDtRefinement

        TKEYS = [("standard_Redfield", (), "standard_Redfield/ti"), ("standard_Redfield", (("time_dependent", True),), "standard_Redfield/td"),
                 ("standard_Redfield", (("as_operators", True),), "standard_Redfield/ti"),
                 ("standard_Foerster", (), "standard_Foerster/ti"), ("standard_Foerster", (("time_dependent", True),), "standard_Foerster/td"),
                 ("combined_RedfieldFoerster", (("coupling_cutoff", "CUT"),), "combined_RedfieldFoerster/ti"),
                 ("combined_RedfieldFoerster", (("coupling_cutoff", "CUT"), ("time_dependent", True)), "combined_RedfieldFoerster/td"),
                 ("noneq_Foerster", (("time_dependent", True),), "noneq_Foerster/td")]
        # (the Foerster-type tensors refuse aggregates with two-exciton states: that outcome is covered by the tensor calls)
        TDKEYS = [k for k in TKEYS if dict(k[1]).get("time_dependent") and not (mult == 2 and k[0] != "standard_Redfield")]
        r1 = numpy.zeros((dim, dim), dtype=complex)
        r1[1, 1] = 1.0
        rho1 = ReducedDensityMatrix(data=r1.copy())
        inputs["rho1"] = rho1
        # pure-dephasing objects shared by several propagators and evolution superoperators
        gam = numpy.zeros((dim, dim))
        for i_ in range(dim):
            for j_ in range(i_ + 1, dim):
                gam[i_, j_] = gam[j_, i_] = rng.randint(1, 6) / 1024.0
        pdephs = {"Gaussian": PureDephasing(drates=gam.copy(), dtype="Gaussian"), "Lorentzian": PureDephasing(drates=gam.copy(), dtype="Lorentzian")}
        inputs["pd_gauss"] = pdephs["Gaussian"]; inputs["pd_lorentz"] = pdephs["Lorentzian"]
        # a Hamiltonian written down by hand, without rotating-wave blocks
        inputs["ham_plain"] = Hamiltonian(data=numpy.array(ham._data).copy())
        base = snapshot(inputs)

        def call_tensor(tk, in_units, recalc=True):
            theory, opts, bname = tk
            o = dict(opts)
            if not recalc:
                o["recalculate"] = False          # the request may reuse what the aggregate has; the answer must be the same
            if "coupling_cutoff" in o:
                o["coupling_cutoff"] = cut_cm if in_units else cut_int
            with quiet():
                if in_units:
                    with energy_units("1/cm"):
                        RT, hR = agg.get_RelaxationTensor(ta, relaxation_theory=theory, **o)
                else:
                    RT, hR = agg.get_RelaxationTensor(ta, relaxation_theory=theory, **o)
            if getattr(RT, "as_operators", False):
                res = numpy.concatenate([numpy.array(RT.Km).ravel(), numpy.array(RT.Lm).ravel()])
            else:
                res = numpy.array(RT.data).ravel()
            res = numpy.concatenate([res, numpy.array(hR._data, dtype=complex).ravel()])
            return RT, hR, res

        # every history contains one tensor key requested inside AND outside a units context and, for every second system, a
        # hierarchy run; the rest is random
        focus = TKEYS[s % len(TKEYS)]
        plan = [("tensor", focus, True), ("tensor", focus, False), ("prop",), ("prop",), ("proptd", 0), ("proptd", 1), ("proptd", 0)]
        dk = "Gaussian" if s % 3 != 2 else "Lorentzian"
        plan += [("propdeph", dk, 0), ("propdeph", dk, 1), ("esodeph", dk)]
        plan.append(("refused", s % 2 == 0))
        plan += [("sv",), ("sv",)]                # the same state vector propagated twice (its array is complex for every second system)
        if s % 3 == 0:
            # requests of one theory with different options, some of them allowed to reuse the aggregate's stored tensor
            plan += [("tensor", TKEYS[0], False, True), ("tensor", TKEYS[1], False, False), ("tensor", TKEYS[2], False, False),
                     ("tensor", TKEYS[0], False, False), ("tensor", TKEYS[1], False, True), ("tensor", TKEYS[2], False, True)]
        if s % 2 == 1:
            plan += [("pop",), ("popmat", s % 3), ("pop",), ("popmat", -1), ("popmat", (s + 1) % 3), ("pop",)]
        if s % 2 == 0:
            plan.append(("heom",))
        while len(plan) < ncalls:
            o = rng.choice(["tensor", "tensor", "prop", "prop", "prop", "setref", "heom", "sv", "pop", "popmat", "eso", "proptd", "propdeph", "esodeph"])
            if o == "tensor":
                plan.append((o, rng.choice(TKEYS), rng.random() < 0.5))
            elif o == "proptd":
                plan.append((o, rng.randrange(2)))
            elif o == "propdeph":
                plan.append((o, dk, rng.randrange(2)))
            elif o == "esodeph":
                plan.append((o, dk))
            elif o == "popmat":
                plan.append((o, rng.choice([-1, 0, 1, 2])))
            else:
                plan.append((o,))
        rest = plan[1:]
        rng.shuffle(rest)
        plan = [plan[0]] + rest
        if s % 2 == 0:
            # a plain Hamiltonian: propagation, an attempt to build a hierarchy propagator on it (refused: no rotating-wave blocks), propagation
            plan += [("propplain",), ("heomplain",), ("propplain",)]
        if s % 4 == 0:
            plan += [("heom",), ("heomfree",), ("heom",), ("heomfree",)]     # the optional mode of the hierarchy run in between ordinary runs
        for ic in range(len(plan)):
            op = plan[ic][0]
            rec = dict(sys=s, call=ic, op=op, sysinp=sysinp)
            key, res, line = None, None, None
            before_flags = dict(depth=len(mgr.basis_stack))
            pstate_before = None
            try:
                if op == "tensor":
                    tk, in_units = plan[ic][1], plan[ic][2]
                    recalc_ = plan[ic][3] if len(plan[ic]) > 3 else True
                    key = ("tensor", tk[0], tk[1])
                    rec.update(theory=tk[0], opts=dict(tk[1]), inside_energy_units=in_units, recalculate=recalc_)
                    RT, hR, res = call_tensor(tk, in_units, recalc_)
                    if (tk[0], tk[1]) not in tensors and tk[0] != "combined_RedfieldFoerster" or (tk[0], tk[1]) not in tensors:
                        tensors[(tk[0], tk[1])] = (RT, hR)
                    line = "tensor %d" % names.index(tk[2]) if tk[2] in names else None
                    if line is None and facts is not None:
                        ck.tie_fail("branch %s of get_RelaxationTensor not found in the extracted table" % tk[2])
                elif op == "refused":
                    # a request the library refuses (cut-off time beyond the bath axis); the caller catches the refusal and goes on
                    rec.update(time_dependent=bool(plan[ic][1]), request="standard_Redfield with relaxation_cutoff_time beyond the time axis")
                    try:
                        with quiet():
                            agg.get_RelaxationTensor(ta, relaxation_theory="standard_Redfield", relaxation_cutoff_time=10.0 * float(ta.max),
                                                     time_dependent=bool(plan[ic][1]))
                        rec["status"] = "not-refused"
                    except Exception as e_:
                        rec["status"] = "refused: %r" % (e_,)
                    line = "pure 7"          # the model: a refused request leaves every hidden field (protection flag, context depth) as it was
                elif op in ("prop", "setref"):
                    if main_key is None:
                        ti = [k for k in sorted(tensors, key=repr) if not dict(k[1]).get("time_dependent")]
                        if not ti:
                            RTa, hRa, _ = call_tensor(TKEYS[0], False)
                            tensors[(TKEYS[0][0], TKEYS[0][1])] = (RTa, hRa)
                            lines.append("tensor %d" % names.index(TKEYS[0][2]) if TKEYS[0][2] in names else "pure 9")
                            recs.append(dict(rec, op="tensor(aux)", aux=True))
                            ti = [(TKEYS[0][0], TKEYS[0][1])]
                        main_key = rng.choice(ti)
                    RT, hR = tensors[main_key]
                    if main_key not in props:
                        props[main_key] = ReducedDensityMatrixPropagator(ta, hR, RT)
                    pr = props[main_key]
                    if op == "setref":
                        k = rng.choice([1, 2, 3])
                        rec.update(nref=k)
                        pr.setDtRefinement(k)
                        configured = k
                        line = "setref %d" % k
                    else:
                        k = rng.choice([1, 1, 1, 2, 4])
                        nprop = sum(1 for k_ in kinds_seen if k_ == "prop")
                        if s % 2 == 1 and nprop < 4:
                            k = (2, 2, 4, 4)[nprop]          # the same refinement asked for twice in a row on one propagator
                        inside = rng.random() < 0.4
                        rec.update(nref_arg=k, inside_eigenbasis_of=inside, tensor=[main_key[0], dict(main_key[1])])
                        pstate_before = {}
                        arrays_of(pr, "prop", pstate_before)
                        with quiet():
                            if inside:
                                with eigenbasis_of(hR):
                                    rt = pr.propagate(rho0, Nref=k) if k > 1 else pr.propagate(rho0)
                            else:
                                rt = pr.propagate(rho0, Nref=k) if k > 1 else pr.propagate(rho0)
                        res = numpy.array(rt.data).ravel()
                        for (h_rt, h_val, h_ic) in held:
                            if h_rt is rt or not numpy.array_equal(numpy.array(h_rt.data).ravel(), h_val):
                                ck.fail("repeat:prop:earlier-result-changed", "the evolution returned by an earlier propagate() (call %d) was changed by a later "
                                        "propagate() on the same propagator: that result is no longer the result of its inputs" % h_ic,
                                        dict(sysinp, history=hist + [{k_: v_ for k_, v_ in rec.items() if k_ not in ("sysinp", "undeclared")}]))
                                break
                        held.append((rt, res.copy(), ic))
                        eff = pr.Nref
                        with quiet():
                            pf = ReducedDensityMatrixPropagator(ta, hR, RT)
                            if eff > 1:
                                pf.setDtRefinement(eff)
                            fres = numpy.array(pf.propagate(rho0).data).ravel()
                        dfresh = float(numpy.abs(res - fres).max()) / (float(numpy.abs(fres).max()) or 1.0)
                        ck.resid("reused vs fresh propagator", dfresh)
                        if dfresh > 1e-10:
                            rec["fresh_diff"] = dfresh
                        key = ("prop", main_key, eff)
                        rec["effective_nref"] = eff
                        line = "propagate %d" % k
                        pstate_after = {}
                        arrays_of(pr, "prop", pstate_after)
                        extra = [d for d in diff(pstate_before, pstate_after) if d[0].split(".", 1)[1] not in DECLARED_PROP_STATE]
                        if extra:
                            rec["undeclared"] = extra
                elif op == "proptd":
                    # one propagator per time-dependent tensor, used with two different initial states
                    tdk = TDKEYS[s % len(TDKEYS)]
                    kk = (tdk[0], tdk[1])
                    if kk not in tensors:
                        RTa, hRa, _ = call_tensor(tdk, False)
                        tensors[kk] = (RTa, hRa)
                        lines.append("tensor %d" % names.index(tdk[2]) if tdk[2] in names else "pure 9")
                        recs.append(dict(rec, op="tensor(aux)", aux=True))
                    RT, hR = tensors[kk]
                    if ("td", kk) not in props:
                        props[("td", kk)] = ReducedDensityMatrixPropagator(ta, hR, RT)
                    st = plan[ic][1]
                    rin = rho0 if st == 0 else rho1
                    rec.update(tensor=[kk[0], dict(kk[1])], initial_state=st)
                    with quiet():
                        rt = props[("td", kk)].propagate(rin)
                        rf = ReducedDensityMatrixPropagator(ta, hR, RT).propagate(rin)
                    res = numpy.array(rt.data).ravel()
                    fres = numpy.array(rf.data).ravel()
                    sc = float(numpy.abs(fres).max()) or 1.0
                    dfresh = float(numpy.abs(res - fres).max()) / sc
                    ck.resid("reused vs fresh propagator (time-dependent tensor)", dfresh)
                    if dfresh > 1e-10:
                        rec["fresh_diff"] = dfresh
                    key = ("proptd", kk, st)
                    line = "pure 3"
                elif op in ("propdeph", "esodeph"):
                    # pure dephasing on a refined step (dt = 1/2 fs): the dephasing object is shared between a long-lived
                    # propagator (used with two refinements), fresh propagators and evolution superoperators
                    tk0 = ("standard_Redfield", ())
                    if tk0 not in tensors:
                        RT, hR, _ = call_tensor(TKEYS[0], False)
                        tensors[tk0] = (RT, hR)
                        lines.append("tensor %d" % names.index("standard_Redfield/ti") if "standard_Redfield/ti" in names else "pure 9")
                        recs.append(dict(rec, op="tensor(aux)", aux=True))
                    RT, hR = tensors[tk0]
                    pd = pdephs[plan[ic][1]]
                    rec.update(dephasing=plan[ic][1])
                    if op == "propdeph":
                        nr = 2 + plan[ic][2]
                        rec.update(nref=nr)
                        if ("deph", plan[ic][1], nr) not in props:
                            pq = ReducedDensityMatrixPropagator(ta, hR, RTensor=RT, PDeph=pd)
                            pq.setDtRefinement(nr)
                            props[("deph", plan[ic][1], nr)] = pq
                        with quiet():
                            rt = props[("deph", plan[ic][1], nr)].propagate(rho0)
                            pf = ReducedDensityMatrixPropagator(ta, hR, RTensor=RT, PDeph=PureDephasing(drates=gam.copy(), dtype=plan[ic][1]))
                            pf.setDtRefinement(nr)
                            fres = numpy.array(pf.propagate(rho0).data).ravel()
                        res = numpy.array(rt.data).ravel()
                        dfresh = float(numpy.abs(res - fres).max()) / (float(numpy.abs(fres).max()) or 1.0)
                        ck.resid("reused vs fresh propagator and dephasing object", dfresh)
                        if dfresh > 1e-10:
                            rec["fresh_diff"] = dfresh
                        key = ("propdeph", plan[ic][1], nr)
                        line = "pure 4"
                    else:
                        t2 = TimeAxis(0.0, 3, 10.0)
                        with quiet():
                            U = EvolutionSuperOperator(t2, hR, RT, pdeph=pd)
                            U.set_dense_dt(4)
                            U.calculate()
                            Uf = EvolutionSuperOperator(t2, hR, RT, pdeph=PureDephasing(drates=gam.copy(), dtype=plan[ic][1]))
                            Uf.set_dense_dt(4)
                            Uf.calculate()
                        res = numpy.array(U.data).ravel()
                        dfresh = float(numpy.abs(res - numpy.array(Uf.data).ravel()).max())
                        # the same object given no / the other / the first pure dephasing in turn and calculated again: each time the result
                        # of a new object with these settings
                        okind = "Lorentzian" if plan[ic][1] == "Gaussian" else "Gaussian"
                        rec["then_on_the_same_object"] = "set_PureDephasing(None | %s | %s), calculate() after each" % (okind, plan[ic][1])
                        for setting in (None, okind, None, plan[ic][1]):
                            with quiet():
                                U.set_PureDephasing(None if setting is None else pdephs[setting])
                                U.calculate()
                                Ug = EvolutionSuperOperator(t2, hR, RT, pdeph=None if setting is None else PureDephasing(drates=gam.copy(), dtype=setting))
                                Ug.set_dense_dt(4)
                                Ug.calculate()
                            dfresh = max(dfresh, float(numpy.abs(numpy.array(U.data) - numpy.array(Ug.data)).max()))
                        if dfresh > 1e-10:
                            rec["fresh_diff"] = dfresh
                        key = ("esodeph", plan[ic][1])
                        line = "pure 5"
                elif op == "propplain":
                    with quiet():
                        rt = ReducedDensityMatrixPropagator(ta, inputs["ham_plain"]).propagate(rho0)
                    res = numpy.array(rt.data).ravel()
                    key = ("propplain",)
                elif op == "heomplain":
                    from quantarhei.qm.liouvillespace.heom import KTHierarchy, KTHierarchyPropagator
                    try:
                        with quiet():
                            KTHierarchyPropagator(ta, KTHierarchy(inputs["ham_plain"], sbi, 2))
                        rec["hierarchy_propagator"] = "built"
                    except Exception as e_:
                        rec["hierarchy_propagator"] = "refused: %r" % (e_,)
                elif op in ("heom", "heomfree"):
                    if hprop is None:
                        with quiet():
                            hprop = agg.get_KTHierarchyPropagator(depth=2)
                    with quiet():
                        rt = hprop.propagate(rho0, free_hierarchy=True) if op == "heomfree" else hprop.propagate(rho0)
                    res = numpy.array(rt.data).ravel()
                    key = (op,)
                    line = "heom" if op == "heom" else None
                elif op == "sv":
                    if "sv" not in props:
                        props["sv"] = StateVectorPropagator(ta, ham)
                    res = numpy.array(props["sv"].propagate(psi0).data).ravel()
                    key = ("sv",)
                    line = "pure 0"
                elif op in ("pop", "popmat"):
                    if "pop" not in props:
                        # the rate matrix is an input of the population propagator: one as an object, one as a plain float64 array
                        from quantarhei.qm.liouvillespace.rates.ratematrix import RateMatrix
                        rmo = RateMatrix(data=numpy.array(RedfieldRateMatrix(ham, sbi).data, dtype=numpy.float64).copy())
                        inputs["ratematrix"] = rmo
                        inputs["ratearray"] = Stub15(data=numpy.array(rmo.data, dtype=numpy.float64).copy())
                        base.update(snapshot({"ratematrix": rmo, "ratearray": inputs["ratearray"]}))
                        props["pop"] = PopulationPropagator(ta, rmo)
                        props["pop-array"] = PopulationPropagator(ta, inputs["ratearray"].data)
                        # a propagator whose own time axis does not start at zero, and the sub-axis (an input like any other) it is asked for
                        inputs["time100"] = TimeAxis(100.0, ta.length, ta.step)
                        inputs["subaxis100"] = TimeAxis(100.0, 4, 5.0)
                        base.update(snapshot({"time100": inputs["time100"], "subaxis100": inputs["subaxis100"]}))
                        props["pop-shifted"] = PopulationPropagator(inputs["time100"], rmo)
                    which = "pop" if (ic % 2 == 0) else "pop-array"
                    rec["rate_matrix_given_as"] = "RateMatrix object" if which == "pop" else "float64 array"
                    if op == "pop":
                        pini = numpy.real(numpy.diag(r0)).copy()
                        res = numpy.array(props[which].propagate(pini)).ravel()
                        key = ("pop", which)
                    else:
                        corr = plan[ic][1]
                        rec["corrections"] = corr
                        tsub = TimeAxis(0.0, 4, 5.0)
                        if ic % 3 == 2:
                            which, tsub = "pop-shifted", inputs["subaxis100"]
                            rec["rate_matrix_given_as"] = "RateMatrix object; propagator and sub-axis start at 100 fs"
                        out_ = props[which].get_PropagationMatrix(tsub, corrections=corr) if corr >= 0 else props[which].get_PropagationMatrix(tsub)
                        res = numpy.concatenate([numpy.array(x_).ravel() for x_ in out_]) if corr >= 0 else numpy.array(out_).ravel()
                        key = ("popmat", which, corr)
                    line = "pure 1"
                elif op == "eso":
                    tk0 = ("standard_Redfield", ())
                    if tk0 not in tensors:
                        RT, hR, _ = call_tensor(TKEYS[0], False)
                        tensors[tk0] = (RT, hR)
                        lines.append("tensor %d" % names.index("standard_Redfield/ti") if "standard_Redfield/ti" in names else "pure 9")
                        recs.append(dict(rec, op="tensor(aux)", aux=True))
                    RT, hR = tensors[tk0]
                    t2 = TimeAxis(0.0, 4, 10.0)
                    with quiet():
                        U = EvolutionSuperOperator(t2, hR, RT)
                        U.set_dense_dt(5)
                        U.calculate()
                    res = numpy.array(U.data).ravel()
                    key = ("eso",)
                    line = "pure 2"
                rec["status"] = "ok"
            except Exception as e:
                # a call may refuse its inputs (e.g. the combined tensor for an aggregate with two-exciton states); what counts is that
                # it refuses them every time and leaves them alone
                rec["status"] = "raised %s: %s" % (type(e).__name__, str(e)[:120])
                if op == "tensor":
                    key = ("tensor", tk[0], tk[1])
                    line = "tensor %d" % names.index(tk[2]) if tk[2] in names else None
                if key is not None:
                    res = numpy.array([float("inf")])
                    rec["raised"] = True
                else:
                    ck.fail("raises:%s" % op, "call raised %r" % (e,), {k: v for k, v in rec.items() if k != "sysinp"} | sysinp)
            kinds_seen.append(op)
            # ---- frame: inputs unchanged --------------------------------------------------------------------------
            now = snapshot(inputs)
            # the cut-off bracket gives couplings back as (|x|-c)+c (ulps); states read inside a basis context go through
            # S^T (S x S^T) S (rounding of the representation change, C04)
            tol = {"ham._data": 1e-15, "agg.HH": 1e-15, "rho0._data": 1e-14, "psi0._data": 1e-14}
            # the aggregate memoises the last tensor / theory on itself: not input data
            ch = [c for c in diff(base, now, tol) if not c[0].startswith("agg._") and c[0] not in (
                "agg.RelaxationTensor", "agg.RelaxationHamiltonian", "agg.has_Iterm")]
            desc = {k: v for k, v in rec.items() if k not in ("sysinp", "undeclared")}
            if ch:
                ck.fail("frame:%s%s" % (op, ":" + rec.get("theory", "") if op == "tensor" else ""),
                        "a call changed the objects passed in: %s" % ", ".join("%s (%s)" % (c[0], c[1]) for c in ch[:4]),
                        dict(sysinp, history=hist + [desc]), [c[0] for c in ch])
                base = now                                   # report each change once
            if len(mgr.basis_stack) != before_flags["depth"]:
                ck.fail("frame:context-depth", "a call left a basis context open", dict(sysinp, history=hist + [desc]))
            # ---- determinism: same call, same result -----------------------------------------------------------------
            if res is not None and key is not None:
                if key in first:
                    ref = first[key][0]
                    if ref.shape != res.shape or (numpy.isinf(ref[0].real) != numpy.isinf(res[0].real)):
                        ck.fail("repeat:%s:outcome" % op, "the same call once returned and once raised, or returned another shape",
                                dict(sysinp, history=hist + [desc]))
                    elif numpy.isinf(res[0].real):
                        pass
                    else:
                        sc = float(numpy.abs(ref).max()) or 1.0
                        d = float(numpy.abs(ref - res).max()) / sc
                        ck.resid("repeated %s call: relative difference" % op, d)
                        if d > 1e-10 or numpy.isnan(d):
                            ck.fail("repeat:%s%s" % (op, ":" + rec.get("theory", "") if op == "tensor" else ""),
                                    "repeating a call with the same inputs returned a different result (first made at call %d)" % first[key][1],
                                    dict(sysinp, history=hist + [desc]), d, "<= 1e-10")
                else:
                    first[key] = (res, ic)
            # a propagation that does not name a refinement must use the configured one, whatever was passed to earlier calls
            if op == "prop" and rec.get("status") == "ok" and rec["nref_arg"] == 1 and rec["effective_nref"] != configured:
                ref = first.get(("prop", main_key, configured))
                d = None
                if ref is not None:
                    sc = float(numpy.abs(ref[0]).max()) or 1.0
                    d = float(numpy.abs(ref[0] - res).max()) / sc
                ck.fail("repeat:prop:default-after-Nref",
                        "propagate(rho) used refinement %d although %d is configured: the Nref argument of an earlier propagate(rho, Nref=k) "
                        "stays on the propagator" % (rec["effective_nref"], configured), dict(sysinp, history=hist + [desc]), d)
            if rec.get("fresh_diff"):
                ck.fail("fresh:%s" % op, "a propagator that was used before returns another result than a new propagator built from the same "
                        "Hamiltonian, tensor and time axis for the same initial state", dict(sysinp, history=hist + [desc]), rec["fresh_diff"], "<= 1e-10")
            if rec.get("undeclared"):
                ck.disagree("propagate() created or changed propagator attributes outside the declared hidden state",
                            dict(sysinp, history=hist + [desc]), [str(u) for u in rec["undeclared"][:4]], sorted(DECLARED_PROP_STATE))
            # ---- hidden fields for the model ---------------------------------------------------------------------------
            if line is not None:
                hid = dict(rem=bool(getattr(ham, "_has_remainder_coupling", False)), prot=bool(getattr(ham, "is_basis_protected", False)),
                           depth=len(mgr.basis_stack) - 1)
                if main_key in props:
                    hid["nref"] = int(props[main_key].Nref)
                if hprop is not None:
                    hid["ado"] = bool(numpy.abs(hprop.hy.ado[1:]).max() > 0) if hprop.hy.ado.shape[0] > 1 else False
                lines.append(line)
                recs.append(dict(rec, hidden=hid, desc=desc, history=list(hist)))
            hist.append(desc)
        rep = any(kinds_seen[i] == kinds_seen[j] and any(k != kinds_seen[i] for k in kinds_seen[i + 1:j])
                  for i in range(len(kinds_seen)) for j in range(i + 2, len(kinds_seen)))
        ck.case(("history", s, tuple(kinds_seen)), nontrivial=rep, sites=n, calls=ncalls,
                sample={"system": sysinp, "calls": kinds_seen} if s == 0 else None)
        for k in kinds_seen:
            ck.dist["call=%s" % k] += 1
        ck.traces += 1

    lindblad_stream(ck, numpy, snapshot, diff)
    field_stream(ck, numpy)
    # ---- model ---------------------------------------------------------------------------------------------------------
    out = ck.drive(DRIVER, lines)
    if out is not None:
        nref_seen = None
        for line, rec, o in zip(lines, recs, out):
            if rec is None:
                nref_seen = None
                continue
            if rec.get("aux"):
                continue
            if o == "bad-op":
                ck.disagree("model rejected the call", rec["desc"], "ok", line)
                continue
            m = dict(t.split("=") for t in o.split())
            h = rec["hidden"]
            inp = dict(rec["sysinp"], history=rec["history"] + [rec["desc"]], model_line=line)
            if int(m["rem"]) != int(h["rem"]) or int(m["prot"]) != int(h["prot"]) or int(m["depth"]) != h["depth"]:
                ck.disagree("Hamiltonian flags / context depth after the call", inp, h, o)
            if "nref" in h and rec["op"] in ("prop", "setref") and int(m["nref"]) != h["nref"]:
                ck.disagree("refinement stored on the propagator", inp, h["nref"], m["nref"])
            if "ado" in h and rec["op"] == "heom" and int(m["ado"]) != int(h["ado"]):
                ck.disagree("auxiliary operators after a hierarchy run", inp, h["ado"], m["ado"])
    return ck.finish()


def lindblad_stream(ck, numpy, snapshot, diff):
    """system-bath interactions given by operators and rates (Lindblad theories of the builder, LindbladForm used directly): the
    operators handed in stay what they were and a repeated build / propagation gives the same result, whatever was done in between
    (secular option, conversion to a tensor, use inside a basis context)"""
    from quantarhei import Molecule, Aggregate, TimeAxis, energy_units, eigenbasis_of, ReducedDensityMatrix, Hamiltonian
    from quantarhei.qm import SystemBathInteraction, ProjectionOperator, Operator, LindbladForm, ReducedDensityMatrixPropagator
    rng = ck.rng
    ta = TimeAxis(0.0, 40, 1.0)
    quiet = lambda: contextlib.redirect_stdout(io.StringIO())
    for s in range(ck.n(3, 12)):
        nmol = 3 if s % 2 == 0 else rng.choice([2, 3, 4])
        with energy_units("1/cm"):
            agg = Aggregate([Molecule([0.0, 12000.0 + 90.0 * k + rng.randint(-30, 30)]) for k in range(nmol)])
            for i in range(nmol):
                for j in range(i + 1, nmol):
                    agg.set_resonance_coupling(i, j, rng.choice([60.0, -120.0, 200.0]))
        agg.build()
        dim = agg.get_Hamiltonian().dim
        ops, rates = [], []
        for i in range(1, dim):
            for j in range(1, dim):
                if i != j and (rng.random() < 0.6 or not ops):
                    ops.append(ProjectionOperator(i, j, dim=dim)); rates.append(rng.randint(2, 16) / 1600.0)
        sbi = SystemBathInteraction(ops, rates=rates)
        agg.set_SystemBathInteraction(sbi)
        ham = agg.get_Hamiltonian()
        r0 = numpy.zeros((dim, dim), dtype=complex); r0[dim - 1, dim - 1] = 0.7; r0[1, 1] = 0.3; r0[1, dim - 1] = r0[dim - 1, 1] = 0.2
        rho0 = ReducedDensityMatrix(data=r0.copy())
        inputs = {"ham": ham, "sbi": sbi, "time": ta, "rho0": rho0}
        base = snapshot(inputs)
        sysinp = {"sites": nmol, "rates": rates, "system_bath_interaction": "projection operators with rates"}

        def build(theory, sec):
            with quiet():
                RT, hR = agg.get_RelaxationTensor(ta, relaxation_theory=theory, secular_relaxation=sec)
                pr = ReducedDensityMatrixPropagator(ta, hR, RT)
                ev = numpy.array(pr.propagate(rho0).data).ravel()
            if getattr(RT, "as_operators", False):
                res = numpy.concatenate([numpy.array(RT.Km).ravel(), numpy.array(RT.Lm).ravel()])
            else:
                res = numpy.array(RT.data).ravel()
            return numpy.concatenate([res, ev])

        def direct(what):
            """LindbladForm built from the same objects and used inside the basis context of the Hamiltonian"""
            with quiet():
                LF = LindbladForm(ham, sbi)
                with eigenbasis_of(ham):
                    if what == "secularize":
                        LF.secularize()
                    elif what == "convert_2_tensor":
                        LF.convert_2_tensor()
                    else:
                        LF.apply(ReducedDensityMatrix(data=r0.copy()))
                if getattr(LF, "as_operators", False):
                    LF.convert_2_tensor()
                return numpy.array(LF.data).ravel()

        calls = [("build", "Lindblad_form", False), ("build", "Lindblad_form", True), ("build", "electronic_Lindblad", False),
                 ("build", "electronic_Lindblad", True), ("direct", "secularize"), ("direct", "convert_2_tensor"), ("direct", "apply")]
        plan = [calls[0], calls[1], calls[0]] + [rng.choice(calls) for _ in range(4)] + [calls[4 + s % 3], calls[0], calls[1], calls[4 + (s + 1) % 3]]
        first, hist = {}, []
        for c in plan:
            desc = "%s(%s)" % (c[0], ", ".join(str(x) for x in c[1:]))
            inp = dict(sysinp, history=hist + [desc])
            try:
                res = build(c[1], c[2]) if c[0] == "build" else direct(c[1])
            except Exception as e:
                ck.fail("raises:lindblad:%s" % c[0], "%s raised %r" % (desc, e), inp)
                hist.append(desc)
                continue
            bad = diff(base, snapshot(inputs), tol={"ham._data": 1e-14} if c[0] == "direct" else {"ham._data": 9e-16})
            # (direct: the harness itself enters a basis context; builds: 4 ulp as in the main histories)
            if bad:
                ck.fail("frame:lindblad:%s" % ":".join(str(x) for x in c), "inputs changed by the call: %s" % (bad[:3],), inp)
                base = snapshot(inputs)          # report every call that changes them, not every later call
            elif c[0] == "direct":
                base = snapshot(inputs)          # rounding left by the harness's own context is not charged to later calls
            if c in first:
                dv = float(numpy.abs(res - first[c]).max()) if res.shape == first[c].shape else float("inf")
                if dv > 1e-10:
                    ck.fail("repeat:lindblad:%s" % ":".join(str(x) for x in c), "repeating the call with the same inputs gives another result", inp, dv)
            else:
                first[c] = res
            hist.append(desc)
        ck.case(("lindblad-history", s, tuple(hist)), nontrivial=True, sites=nmol, calls=len(plan))
        ck.traces += 1


def field_stream(ck, numpy):
    """propagation driven by laser fields (Efield = LabField(s) of a LabSetup, Trdip = the dipole operator, Hamiltonian with RWA): the
    field objects, the lab set-up, Hamiltonian, tensor, dipole operator and initial state stay what they were, a repeated propagate()
    gives the same evolution, and so does a fresh set of objects"""
    from quantarhei import Molecule, Aggregate, TimeAxis, LabSetup, energy_units, eigenbasis_of, ReducedDensityMatrixPropagator
    from quantarhei.qm import ProjectionOperator, SystemBathInteraction, LindbladForm
    rng = ck.rng
    quiet = lambda: contextlib.redirect_stdout(io.StringIO())
    for s in range(ck.n(2, 8)):
        e2 = 12100.0 + rng.randint(-60, 60); J = rng.choice([50.0, -80.0]); amp = rng.choice([0.05, 0.1]); nfield = 1 if s % 2 == 0 else 2
        as_ops = (s % 4 >= 2)

        def build():
            with energy_units("1/cm"):
                m1 = Molecule([0.0, 12000.0]); m1.set_dipole((0, 1), [1.0, 0.0, 0.0])
                m2 = Molecule([0.0, e2]); m2.set_dipole((0, 1), [0.8, 0.6, 0.0])
                agg = Aggregate(molecules=[m1, m2]); agg.set_resonance_coupling(0, 1, J)
            agg.build()
            HH = agg.get_Hamiltonian(); DD = agg.get_TransitionDipoleMoment()
            sbi = SystemBathInteraction(sys_operators=[ProjectionOperator(1, 2, dim=HH.dim), ProjectionOperator(2, 1, dim=HH.dim)], rates=[1.0 / 100.0, 1.0 / 600.0])
            LL = LindbladForm(HH, sbi, as_operators=as_ops)
            time = TimeAxis(0.0, 120, 1.0, atype="complete")
            lab = LabSetup(nopulses=3)
            ppar = dict(ptype="Gaussian", FWHM=20, amplitude=amp)
            lab.set_pulse_arrival_times([40.0, 60.0, 60.0])
            lab.set_pulse_shapes(time, (ppar, ppar, ppar))
            with eigenbasis_of(HH):
                om = HH.data[1, 1] - HH.data[0, 0]
            lab.set_pulse_frequencies([om, om * 1.001, om])
            lab.set_pulse_polarizations([[1.0, 0.0, 0.0]] * 3)
            fields = [lab.get_labfield(k) for k in range(nfield)]
            rhoi = agg.get_thermal_ReducedDensityMatrix()
            return HH, DD, LL, time, lab, fields, rhoi

        def snap(HH, DD, LL, time, lab, fields, rhoi):
            out = {"Hamiltonian": numpy.array(HH._data).copy(), "dipole operator": numpy.array(DD._data).copy(), "initial state": numpy.array(rhoi._data).copy(),
                   "time axis": numpy.array(time.data).copy(), "pulse frequencies of the lab set-up": numpy.array(lab.omega, dtype=float).copy()}
            if LL.as_operators:
                out["tensor operators"] = numpy.concatenate([numpy.array(LL._Km).ravel(), numpy.array(LL._Lm).ravel()])
            else:
                out["tensor"] = numpy.array(LL._data).copy()
            for k, f in enumerate(fields):
                out["field %d" % k] = numpy.array(f.field).copy()
                out["field %d frequency" % k] = numpy.array(f.get_center_frequency() if hasattr(f, "get_center_frequency") else f.om, dtype=float).copy() if (hasattr(f, "om") or hasattr(f, "get_center_frequency")) else numpy.zeros(1)
            return out

        inp = {"second_site_cm": e2, "coupling_cm": J, "amplitude": amp, "fields": nfield, "tensor_as_operators": as_ops}
        ck.case(("field-driven", s, nfield, as_ops), nontrivial=True, sites=2, calls=2)
        try:
            with quiet():
                objs = build()
                HH, DD, LL, time, lab, fields, rhoi = objs
                prop = ReducedDensityMatrixPropagator(timeaxis=time, Ham=HH, RTensor=LL, Efield=(fields[0] if nfield == 1 else fields), Trdip=DD)
                s0 = snap(*objs)
                e1 = prop.propagate(rhoi)
                if e1 is None:
                    # field-driven propagation with a tensor in operator form is not implemented in the package (the method is a stub that
                    # returns nothing): nothing to compare beyond "the same outcome again, inputs untouched"
                    ck.dist["field-driven with an operator-form tensor: no result returned"] += 1
                    s1 = snap(*objs)
                    if prop.propagate(rhoi) is not None:
                        ck.fail("repeat:field-driven", "the same field-driven propagate() once returned nothing and once an evolution", inp)
                    for k in s0:
                        if s0[k].shape != s1[k].shape or float(numpy.abs(s0[k] - s1[k]).max()) > 1e-13 * max(1.0, float(numpy.abs(s0[k]).max())):
                            ck.fail("frame:field-driven", "a field-driven propagate() changed an object it was given: %s" % k, dict(inp, changed=k))
                    continue
                r1 = numpy.array(e1.data).copy()
                s1 = snap(*objs)
                r2 = numpy.array(prop.propagate(rhoi).data).copy()
                fo = build()
                pf = ReducedDensityMatrixPropagator(timeaxis=fo[3], Ham=fo[0], RTensor=fo[2], Efield=(fo[5][0] if nfield == 1 else fo[5]), Trdip=fo[1])
                rf = numpy.array(pf.propagate(fo[6]).data).copy()
        except Exception as e:
            ck.fail("raises:field-driven", "field-driven propagation raised %r" % (e,), inp)
            continue
        for k in s0:
            dv = float(numpy.abs(s0[k] - s1[k]).max()) if s0[k].shape == s1[k].shape else float("inf")
            if dv > 1e-13 * max(1.0, float(numpy.abs(s0[k]).max())):
                ck.fail("frame:field-driven", "a field-driven propagate() changed an object it was given: %s" % k, dict(inp, changed=k), dv)
        if numpy.abs(r2 - r1).max() > 1e-10:
            ck.fail("repeat:field-driven", "the same field-driven propagate() repeated on the same objects gives another evolution", inp, float(numpy.abs(r2 - r1).max()))
        if numpy.abs(rf - r1).max() > 1e-10:
            ck.fail("fresh:field-driven", "a fresh set of identical objects gives another evolution than the first run", inp, float(numpy.abs(rf - r1).max()))
        if float(numpy.abs(r1[-1] - r1[0]).max()) < 1e-6:
            ck.extra.setdefault("field_driven_no_effect", []).append(s)
        ck.traces += 1
