import QV.Gen.C05
/-!
Model of the energy-units management (quantarhei/core/managers.py):
`convert_energy_2_internal_u` / `convert_energy_2_current_u` with the reciprocal
(wavelength) branch, and the `energy_units` context manager bookkeeping
(`current_units`, per-object `units_backup`, `_in_eu_count`,
`_in_energy_units_context`) together with the raw `set/unset_current_units` slot.
`fac` is the (symbolic) table of conversion factors.
-/
namespace QV.C05
open QV.Gen.C05

section
variable {K : Type} [Mul K] [Div K] [OfNat K 1]

/-- `Manager.convert_energy_2_internal_u(val)` for a scalar under current units `u` -/
def toInternal (fac : String → K) (u : String) (x : K) : K :=
  if u ∈ reciprocalUnits then (1 / x) / fac u else x * fac u

/-- `Manager.convert_energy_2_current_u(val)` -/
def toCurrent (fac : String → K) (u : String) (e : K) : K :=
  if u ∈ reciprocalUnits then (1 / e) / fac u else e / fac u
end

/-- bookkeeping state of the Manager; `backups` are the `units_backup` fields of the context
objects that are currently entered (innermost first) -/
structure UState where
  current : String
  backups : List String
  count : Nat
  flag : Bool
  saved : Option String      -- the single raw slot `_saved_units["energy"]`
  deriving DecidableEq, Repr

inductive UOp where
  | enter (u : String)       -- `with energy_units(u):` entered
  | exit                     -- the innermost context left (normally or by an exception)
  | rawSet (u : String)      -- Manager().set_current_units("energy", u)
  | rawUnset                 -- Manager().unset_current_units("energy")
  deriving Repr

/-- `Manager.set_current_units("energy", u)`; refused for unknown units (state unchanged apart from the slot) -/
def rawSet (s : UState) (u : String) : UState × Bool :=
  let s1 := { s with saved := some s.current }
  if u ∈ energyUnits then ({ s1 with current := u }, true) else (s1, false)

def ustep (s : UState) : UOp → UState × Bool
  | .enter u =>
    -- energy_units.__init__ refuses unknown units before anything is changed
    if u ∈ energyUnits then
      let (s1, _) := rawSet s u
      ({ s1 with backups := s.current :: s.backups, count := s.count + 1, flag := true }, true)
    else (s, false)
  | .exit =>
    match s.backups with
    | [] => (s, false)
    | b :: rest =>
      let (s1, _) := rawSet s b
      let c := s.count - 1
      ({ s1 with backups := rest, count := c, flag := if c = 0 then false else s.flag }, true)
  | .rawSet u => rawSet s u
  | .rawUnset =>
    match s.saved with
    | none => (s, false)
    | some u => if u ∈ energyUnits then ({ s with current := u }, true) else (s, false)

def urun (s : UState) (ops : List UOp) : UState := ops.foldl (fun s op => (ustep s op).1) s

/-- programs made only of properly nested `with energy_units(...)` blocks (every block may be left
through an exception: the `exit` is the same) -/
inductive Bracketed : List UOp → Prop where
  | nil : Bracketed []
  | block (u : String) (body rest : List UOp) : u ∈ energyUnits → Bracketed body → Bracketed rest →
      Bracketed (UOp.enter u :: body ++ UOp.exit :: rest)

end QV.C05
