import QV.Core.Tab
import QV.Gen.C01
/-!
Transcriptions of the relaxation-tensor assembly of quantarhei/qm/liouvillespace:
`_loopit` (time-independent Redfield and Lindblad forms), the element formula of
`TDRedfieldRelaxationTensor._convert_operators_2_tensor`, `secularize`,
`RelaxationTensor.updateStructure`, Foerster `add_dephasing`, the Foerster part
of the combined Redfield–Foerster tensor and `RelaxationTensor.transform`.
Tensors are functions `Fin n → Fin n → Fin n → Fin n → α`.
-/
namespace QV.C01
open QV QV.Gen.C01

abbrev Mat (α : Type) (n : Nat) := Fin n → Fin n → α
abbrev Tens (α : Type) (n : Nat) := Fin n → Fin n → Fin n → Fin n → α

section
variable {α : Type} [Add α] [Sub α] [Mul α] [Zero α] {n : Nat}

/-- contribution of one bath component in `_loopit(Km, Kd, Lm, Ld, Na, RR, m)` -/
def loopTerm (K Kd L Ld : Mat α n) : Tens α n := fun a b c d =>
  ((K a c * Ld d b + L a c * Kd d b)
    - (if b = d then matMul Kd L a c else 0))
    - (if a = c then matMul Ld K d b else 0)

/-- `RedfieldRelaxationTensor._convert_operators_2_tensor`: `Kd = Kᵀ`, summed over bath components -/
def redfieldTensor (comps : List (Mat α n × Mat α n × Mat α n)) : Tens α n :=
  comps.foldl (fun R (c : Mat α n × Mat α n × Mat α n) => fun a b cc d =>
    R a b cc d + loopTerm c.1 (fun i j => c.1 j i) c.2.1 c.2.2 a b cc d) (fun _ _ _ _ => 0)

/-- element formula of `TDRedfieldRelaxationTensor._convert_operators_2_tensor` (one time, one component) -/
def tdTerm (K L Ld : Mat α n) : Tens α n := fun a b c d =>
  ((K a c * Ld d b + L a c * K d b)
    - (if b = d then matMul K L a c else 0))
    - (if a = c then matMul Ld K d b else 0)

def tdTensor (comps : List (Mat α n × Mat α n × Mat α n)) : Tens α n :=
  comps.foldl (fun R (c : Mat α n × Mat α n × Mat α n) => fun a b cc d =>
    R a b cc d + tdTerm c.1 c.2.1 c.2.2 a b cc d) (fun _ _ _ _ => 0)

/-- secularisation with the extracted keep/zero predicate -/
def secularLegacy (R : Tens α n) : Tens α n := fun a b c d =>
  if zeroedLegacy a.val b.val c.val d.val then 0 else R a b c d
def secularTD (R : Tens α n) : Tens α n := fun a b c d =>
  if zeroedTD a.val b.val c.val d.val then 0 else R a b c d

/-- action of a tensor on an operator -/
def apply (R : Tens α n) (ρ : Mat α n) : Mat α n := tensApply R ρ

/-- `RedfieldRelaxationTensor.apply` in operator form for one component -/
def applyOps (K Kd L Ld : Mat α n) (ρ : Mat α n) : Mat α n := fun a b =>
  ((matMul K (matMul ρ Ld) a b + matMul L (matMul ρ Kd) a b)
    - matMul (matMul Kd L) ρ a b) - matMul ρ (matMul Ld K) a b

/-- `RelaxationTensor.transform(SS, inv=S1)`: the two passes as written -/
def transformTwoPass (S1 SS : Mat α n) (R : Tens α n) : Tens α n :=
  let R1 : Tens α n := fun a b c d => sumFin n fun a' => sumFin n fun b' => S1 a a' * R a' b' c d * SS b' b
  fun a b c d => sumFin n fun c' => sumFin n fun d' => S1 c c' * R1 a b c' d' * SS d' d
end

section
variable {α : Type} [Add α] [Sub α] [Mul α] [Zero α] [Div α] [OfNat α 2] {n : Nat}

/-- Foerster tensor from a rate matrix: populations transfer only -/
def foersterBare (KF : Mat α n) : Tens α n := fun a b c d =>
  if a = b ∧ c = d ∧ a ≠ c then KF a c else 0

/-- `RelaxationTensor.updateStructure` (4-index branch), both loops as written -/
def updateStructure (R : Tens α n) : Tens α n :=
  -- first loop: depopulation rates; element (nn,nn,nn,nn) depends only on column nn
  let depop : Fin n → α := fun nn => R nn nn nn nn - (sumFin n (fun a => R a a nn nn) - R nn nn nn nn)
  let R1 : Tens α n := fun a b c d => if a = b ∧ b = c ∧ c = d then depop a else R a b c d
  -- second loop: dephasing rates
  fun a b c d =>
    if a = c ∧ b = d ∧ a ≠ b then (R1 a a a a + R1 b b b b) / 2 else R1 a b c d

/-- Foerster `add_dephasing`: `R[a,b,a,b] -= h_a + conj(h_b)` for `a ≠ b` -/
def addDephasing (conj : α → α) (h : Fin n → α) (R : Tens α n) : Tens α n := fun a b c d =>
  if a = c ∧ b = d ∧ a ≠ b then R a b c d - (h a + conj (h b)) else R a b c d

/-- Foerster part of `RedfieldFoersterRelaxationTensor._reference_implementation` -/
def addFoersterRates (KF : Mat α n) (R : Tens α n) : Tens α n := fun a b c d =>
  let R1 := if a = b ∧ c = d then R a b c d + KF a c else R a b c d
  if a = b ∧ b = c ∧ c = d then R1 - sumFin n (fun x => KF x a) else R1
end

end QV.C01
