import QV.Props.C12Pref

/-!
# C12 — the orientational prefactor is multilinear in the four polarisation vectors

`pref_is_orientational_average` holds for *any* four polarisation vectors, not only unit vectors: the code computes
the average of `(e₃·R d₃)(e₂·R d₂)(e₁·R d₁)(e₀·R d₀)` for the four-tuple it was given.  Consequently the prefactor is
linear in every single polarisation vector (the 45° polarisation written as `X+Y`, amplitudes folded into the
vectors): scaling one vector by `c` scales the prefactor by `c`, and the prefactor of a sum is the sum of the
prefactors.  A set-up that normalised the vectors it is given would violate both statements (seeded change C12-11).
-/
namespace QV.C12
open QV.Gen.C12 Finset

/-- the `k`-th vector replaced by `w` -/
def setVec (e : Nat → Fin 3 → ℝ) (k : Nat) (w : Fin 3 → ℝ) : Nat → Fin 3 → ℝ := fun n => if n = k then w else e n

theorem pref_explicit (e d : Nat → Fin 3 → ℝ) (sign rho0 ev : ℝ) :
    pref m4Real sign rho0 ev e d
      = sign * (((dot3 (e 3) (e 2) * dot3 (e 1) (e 0) * (4/30) + dot3 (e 3) (e 1) * dot3 (e 2) (e 0) * (-1/30)
              + dot3 (e 3) (e 0) * dot3 (e 2) (e 1) * (-1/30)) * (dot3 (d 3) (d 2) * dot3 (d 1) (d 0))
          + (dot3 (e 3) (e 2) * dot3 (e 1) (e 0) * (-1/30) + dot3 (e 3) (e 1) * dot3 (e 2) (e 0) * (4/30)
              + dot3 (e 3) (e 0) * dot3 (e 2) (e 1) * (-1/30)) * (dot3 (d 3) (d 1) * dot3 (d 2) (d 0))
          + (dot3 (e 3) (e 2) * dot3 (e 1) (e 0) * (-1/30) + dot3 (e 3) (e 1) * dot3 (e 2) (e 0) * (-1/30)
              + dot3 (e 3) (e 0) * dot3 (e 2) (e 1) * (4/30)) * (dot3 (d 3) (d 0) * dot3 (d 2) (d 1))) * rho0) * ev := by
  rw [m4Real_eq]
  unfold pref
  have hf : ∀ v : Nat → Fin 3 → ℝ, f4 f4ePairs v = [dot3 (v 3) (v 2) * dot3 (v 1) (v 0), dot3 (v 3) (v 1) * dot3 (v 2) (v 0),
      dot3 (v 3) (v 0) * dot3 (v 2) (v 1)] := by intro v; rfl
  have hn : ∀ v : Nat → Fin 3 → ℝ, f4 f4nPairs v = f4 f4ePairs v := by intro v; rfl
  rw [hn, hf, hf, model_bilinear]

/-- **homogeneity**: one polarisation vector (any of the four) scaled by `c` scales the prefactor by `c` -/
theorem pref_scale_one_field (e d : Nat → Fin 3 → ℝ) (sign rho0 ev c : ℝ) (k : Nat) (hk : k < 4) :
    pref m4Real sign rho0 ev (setVec e k (fun i => c * e k i)) d = c * pref m4Real sign rho0 ev e d := by
  rw [pref_explicit, pref_explicit]
  have hk' : k = 0 ∨ k = 1 ∨ k = 2 ∨ k = 3 := by omega
  rcases hk' with rfl | rfl | rfl | rfl <;> simp [setVec, dot3] <;> ring

/-- **additivity**: the prefactor for `e_k = u + w` is the sum of the prefactors for `u` and for `w` -/
theorem pref_add_one_field (e d : Nat → Fin 3 → ℝ) (sign rho0 ev : ℝ) (k : Nat) (hk : k < 4) (u w : Fin 3 → ℝ) :
    pref m4Real sign rho0 ev (setVec e k (fun i => u i + w i)) d
      = pref m4Real sign rho0 ev (setVec e k u) d + pref m4Real sign rho0 ev (setVec e k w) d := by
  rw [pref_explicit, pref_explicit, pref_explicit]
  have hk' : k = 0 ∨ k = 1 ∨ k = 2 ∨ k = 3 := by omega
  rcases hk' with rfl | rfl | rfl | rfl <;> simp [setVec, dot3] <;> ring

/-- all four vectors scaled: the product of the four factors (what a normalising set-up would lose) -/
theorem pref_scale_all_fields (e d : Nat → Fin 3 → ℝ) (sign rho0 ev : ℝ) (c : Nat → ℝ) :
    pref m4Real sign rho0 ev (fun n i => c n * e n i) d = c 0 * c 1 * c 2 * c 3 * pref m4Real sign rho0 ev e d := by
  rw [pref_explicit, pref_explicit]
  simp only [dot3]
  ring

/-- non-vacuity: the four-tuple `(X, X+Y, Y/2, 2X)` against unit dipoles along `X` -/
example : pref m4Real 1 1 1 (fun n i => if n = 1 ∧ i = 1 then (0 : ℝ) else if i = 0 then 2 else 0) (fun _ i => if i = 0 then 1 else 0)
    = 2 * 2 * 2 * 2 * pref m4Real 1 1 1 (fun n i => if n = 1 ∧ i = 1 then (0 : ℝ) else if i = 0 then 1 else 0) (fun _ i => if i = 0 then 1 else 0) := by
  have := pref_scale_all_fields (fun n i => if n = 1 ∧ i = 1 then (0 : ℝ) else if i = 0 then 1 else 0) (fun _ i => if i = 0 then (1 : ℝ) else 0) 1 1 1 (fun _ => 2)
  convert this using 2
  funext n i
  by_cases h : n = 1 ∧ i = 1 <;> by_cases h0 : i = 0 <;> simp [h, h0]

end QV.C12
