import QV.Props.C17
import QV.Lemmas.TruncBound
import Mathlib.Algebra.Order.BigOperators.Group.Finset
import Mathlib.Data.Real.Basic
import Mathlib.Tactic.Positivity

/-!
# C17 — accuracy and positivity of the population propagation
-/
namespace QV.C17
open QV NormedSpace Finset

section bound
variable {𝔸 : Type} [NormedRing 𝔸] [NormOneClass 𝔸] [NormedAlgebra ℚ 𝔸] [CompleteSpace 𝔸]

/-- **populations agree with the matrix exponential within the truncation bound**: in any complete normed algebra
holding the rate matrix `K` and the populations `p` (a column, padded to a matrix), `m` elementary steps of the order-`L`
loop with step `dt` are within `m·e^{(m−1)x}·(e^x − Σ_{k≤L} x^k/k!)·‖p‖`, `x = ‖dt·K‖`, of `exp(m·dt·K) p` -/
theorem populations_within_truncation_bound (K : 𝔸) (dt : ℚ) (L m : ℕ) (p : 𝔸) :
    ‖taylorSteps (algGen K) (· + ·) dt L m p - exp ((m : ℕ) • (dt • K)) * p‖ ≤
      (m * Real.exp ‖dt • K‖ ^ (m - 1) *
        (Real.exp ‖dt • K‖ - ∑ k ∈ range (L + 1), ‖dt • K‖ ^ k / k.factorial)) * ‖p‖ :=
  steps_within_truncation_bound K dt L m p

end bound

section positivity
variable {N : Nat}

/-- **first-order steps keep populations non-negative** when the off-diagonal rates are non-negative and
`dt·|K_jj| ≤ 1` (the admissible step size of the explicit scheme): `p' = p + dt·K p = (1 + dt·K) p` has a non-negative
matrix -/
theorem euler_step_nonneg (K : Fin N → Fin N → ℝ) (dt : ℝ) (hdt : 0 ≤ dt) (hoff : ∀ i j, i ≠ j → 0 ≤ K i j)
    (hstep : ∀ j, 0 ≤ 1 + dt * K j j) (p : VecD ℝ N) (hp : ∀ j, 0 ≤ p.fn j) (i : Fin N) :
    0 ≤ (taylorStep (popGen K) popAdd dt 1 p).fn i := by
  simp only [taylorStep, taylorLoop, popAdd, popGen, VecD.fn_tab, matVec, sumFin_eq_sum, Nat.cast_one, div_one]
  have : p.fn i + dt * ∑ j, K i j * p.fn j = ∑ j, (if j = i then 1 + dt * K i i else dt * K i j) * p.fn j := by
    rw [Finset.mul_sum]
    have h1 : p.fn i = ∑ j, (if j = i then p.fn j else 0) := by simp
    rw [h1, ← Finset.sum_add_distrib]
    refine Finset.sum_congr rfl (fun j _ => ?_)
    by_cases hj : j = i
    · subst hj; simp; ring
    · simp [hj]; ring
  rw [this]
  refine Finset.sum_nonneg (fun j _ => mul_nonneg ?_ (hp j))
  by_cases hj : j = i
  · subst hj; simpa using hstep j
  · simp only [if_neg hj]
    exact mul_nonneg hdt (hoff i j (Ne.symm hj))

end positivity
end QV.C17
