import QV.Core.Num
import QV.Model.Prop
open QV QV.C01 QV.Prop

instance : OfNat GRat 2 := ⟨⟨2, 0⟩⟩

def showMD {n : Nat} (m : MatD GRat n n) : String := " ".intercalate ((listOfMat m.fn).map GRat.show_)
def showTD {n : Nat} (t : TensD GRat n) : String := " ".intercalate ((listOfTens t.fn).map GRat.show_)

def matAt (n : Nat) (a : Array GRat) (off : Nat) : Mat GRat n :=
  (MatD.tab (matOfArray n n (a.extract off (off + n * n)))).fn
def tensAt (n : Nat) (a : Array GRat) (off : Nat) : Tens GRat n :=
  (TensD.tab (tensOfArray n (a.extract off (off + n * n * n * n)))).fn

def comps (n nb : Nat) (a : Array GRat) (off : Nat) : List (Mat GRat n × Mat GRat n × Mat GRat n) :=
  (List.range nb).map fun i =>
    (matAt n a (off + i * n * n), matAt n a (off + (nb + i) * n * n), matAt n a (off + (2 * nb + i) * n * n))

/-- header tokens: op n L Nref nt dt nb ; then the numbers -/
def stepD (_ : Unit) (ts : List String) : Unit × String :=
  match ts with
  | op :: n :: L :: nref :: nt :: dt :: nb :: rest =>
    match n.toNat?, L.toNat?, nref.toNat?, nt.toNat?, GRat.parse? dt, nb.toNat?, parseGRats? rest with
    | some n, some L, some nref, some nt, some dt, some nb, some vals =>
      let a := vals.toArray
      let n2 := n * n
      let n4 := n2 * n2
      let H := matAt n a 0
      if op == "proph" ∧ a.size = 2 * n2 then
        let tr := rdmPropagate (genH GRat.I H) dt L nref nt (MatD.tab (matAt n a n2))
        ((), " | ".intercalate (tr.map showMD))
      else if op == "propsv" ∧ a.size = n2 + n then
        let tr := svPropagate GRat.I H dt L nref nt (VecD.tab (vecOfArray n (a.extract n2 (n2 + n))))
        ((), " | ".intercalate (tr.map fun v => " ".intercalate (v.toList.map GRat.show_)))
      else if op == "propt" ∧ a.size = 2 * n2 + n4 then
        let tr := rdmPropagate (genTensor GRat.I H (tensAt n a n2)) dt L nref nt (MatD.tab (matAt n a (n2 + n4)))
        ((), " | ".intercalate (tr.map showMD))
      else if op == "proptd" ∧ a.size = 3 * n2 + n4 then
        let tr := rdmPropagateDeph (genTensor GRat.I H (tensAt n a n2)) (matAt n a (2 * n2 + n4)) dt L nref nt
          (MatD.tab (matAt n a (n2 + n4)))
        ((), " | ".intercalate (tr.map showMD))
      else if op == "proptg" ∧ a.size = 4 * n2 + n4 then
        let tr := rdmPropagateDephG (genTensor GRat.I H (tensAt n a n2)) (matAt n a (2 * n2 + n4)) (matAt n a (3 * n2 + n4)) dt L nref
          nt 0 (MatD.tab (matAt n a (n2 + n4)))
        ((), " | ".intercalate (tr.map showMD))
      else if op == "propo" ∧ a.size = 2 * n2 + 3 * nb * n2 then
        let tr := rdmPropagate (genOps GRat.I H (comps n nb a n2)) dt L nref nt (MatD.tab (matAt n a (n2 + 3 * nb * n2)))
        ((), " | ".intercalate (tr.map showMD))
      else if (op == "evolt" ∨ op == "jitt") ∧ a.size = n2 + n4 then
        -- nref = Ndense, nt = number of stored times (evolt) / number of calculate_next calls (jitt)
        let gen := genTensor GRat.I H (tensAt n a n2)
        let U1 := elemStep gen (dt / (nref : GRat)) L
        let inst : Mul (TensD GRat n) := tensMul
        let Udt := @denseStep _ inst U1 (nref - 1)
        if op == "evolt" then ((), " | ".intercalate ((@evolAll _ inst tident Udt nt).map showTD))
        else ((), showTD (@evolJit _ inst Udt (nt - 1)))
      else ((), "bad-op")
    | _, _, _, _, _, _, _ => ((), "bad-op")
  | _ => ((), "bad-op")

def main : IO Unit := runDriver stepD ()
