import QV.Gen.C18
import QV.Model.C04

/-! # C18 - exported data and saved objects load back to the same values

`DataSaveable._data_with_axis` / `_extract_data_with_axis` on arrays of shape `(N,)` and `(N,M)`, the
format dispatch of `save_data` / `load_data` (tables re-extracted from the source), and re-materialising a
pickled basis-managed object under another manager state.  Import-free. -/
namespace QV.C18
open QV.Gen.C18

/-- a data array of shape `(N,)` or `(N,M)` -/
inductive Arr (K : Type) (N : Nat)
  | r1 (d : Fin N → K)
  | r2 (M : Nat) (d : Fin N → Fin M → K)

/-- `_data_with_axis` on `(N,)` data: two columns, axis first -/
def pack1 {K : Type} {N : Nat} (axis d : Fin N → K) : Fin N → Fin 2 → K :=
  fun i j => if j.val = 0 then axis i else d i
/-- `_data_with_axis` on `(N,M)` data: the axis is put in front as column 0 -/
def pack2 {K : Type} {N : Nat} (M : Nat) (axis : Fin N → K) (d : Fin N → Fin M → K) : Fin N → Fin (M + 1) → K :=
  fun i j => if h : j.val = 0 then axis i else d i ⟨j.val - 1, by have := j.isLt; omega⟩

/-- `_extract_data_with_axis` on a file matrix with `C` columns: two columns give back an axis and a
1-D array, more an axis and a matrix, fewer are refused -/
def extract {K : Type} {N : Nat} (C : Nat) (f : Fin N → Fin C → K) : Option ((Fin N → K) × Arr K N) :=
  if h2 : C = 2 then
    some (fun i => f i ⟨0, by omega⟩, .r1 (fun i => f i ⟨1, by omega⟩))
  else if h3 : C > 2 then
    some (fun i => f i ⟨0, by omega⟩, .r2 (C - 1) (fun i j => f i ⟨j.val + 1, by have := j.isLt; omega⟩))
  else none

/-- the values of an array in reading order, whatever its rank -/
def Arr.flat {K : Type} {N : Nat} : Arr K N → List K
  | .r1 d => (List.finRange N).map d
  | .r2 M d => (List.finRange N).flatMap (fun i => (List.finRange M).map (d i))

/-! ## format dispatch -/

/-- the inverse pairs of writers and readers (names of the methods of `DataSaveable`) -/
def inversePairs : List (String × String) :=
  [("_exportDataToText", "_importDataFromText"), ("_saveBinaryData", "_loadBinaryData"),
   ("_saveBinaryData_compressed", "_loadBinaryData_compressed"), ("_saveMatlab", "_loadMatlab")]

/-- every accepted extension is written by a writer whose inverse is what `load_data` calls for it -/
def dispatchConsistent : Bool :=
  accepted == acceptedLoad &&
  accepted.all (fun e => match saveTable.lookup e, loadTable.lookup e with
    | some w, some r => inversePairs.lookup w == some r
    | _, _ => false) &&
  writersPack.all (·.2) && readersUnpack.all (·.2) &&
  (saveTable.map (·.2)).all (fun w => (writersPack.lookup w).isSome) &&
  (loadTable.map (·.2)).all (fun r => (readersUnpack.lookup r).isSome)

/-! ## a pickled basis-managed object under another manager state -/

/-- what `transform_to_current_basis` does first with a loaded object whose stored basis id is `basis`
when `depth` contexts are open: `false` stands for "Basis of the object is not on stack" -/
def readable (basis depth : Nat) : Bool := basis ≤ depth

open QV.C04 in
/-- `BasisManaged.__getstate__`: the pickled state of an object that sits in the basis of an open context
is a twin on which the transformations of the contexts between its basis and the outermost one were
undone, innermost first, labelled with the outermost basis (`levels` innermost first as in C04) -/
def saveObj {T R : Type} (A : Alg T R) (levels : List T) (o : Obj R) : Obj R :=
  if portablePickle && o.basis != 0 && !o.prot && decide (o.basis ≤ levels.length) then
    { rep := (levels.drop (levels.length - o.basis)).foldl (fun r S => A.act (A.inv S) r) o.rep,
      basis := 0, prot := false, regs := [] }
  else { o with regs := [] }

end QV.C18
