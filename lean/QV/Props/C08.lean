import QV.Model.Prop
import QV.Lemmas.Bridge
import QV.Lemmas.TruncBound
import Mathlib.Algebra.Group.Basic
import Mathlib.Algebra.BigOperators.Ring.Finset
import Mathlib.Tactic.Ring

/-!
# C08 — evolution superoperator is an identity-started semigroup matching propagation
The grid structure is proved in an arbitrary monoid (the model's `denseStep`,
`evolAll`, `evolJit` are generic in the composition); `tcomp_assoc`/`tcomp_ident`
show that superoperators under `numpy.tensordot` with the δδ identity form one.
-/
namespace QV.Prop
open QV QV.C01 Finset

section monoid
variable {M : Type} [Monoid M]

/-- `Ndense` dense steps compose to the `Ndense`-th power of the elementary step -/
theorem denseStep_eq_pow (U1 : M) (k : Nat) : denseStep U1 k = U1 ^ (k + 1) := by
  induction k with
  | zero => simp [denseStep]
  | succ k ih => rw [denseStep, ih, ← pow_succ']

theorem evolAll_go (Udt : M) : ∀ (k : Nat) (u : M) (i : Nat), i < k →
    (evolAll.go Udt k u)[i]? = some (Udt ^ i * u) := by
  intro k
  induction k with
  | zero => intro u i h; omega
  | succ k ih =>
    intro u i h
    cases i with
    | zero => simp [evolAll.go]
    | succ i =>
      simp only [evolAll.go, List.getElem?_cons_succ]
      rw [ih (Udt * u) i (by omega), pow_succ, mul_assoc]

/-- **`calculate()`: `U(t_0) = 1` and `U(t_i) = U_dt^i`** -/
theorem evolAll_get (Udt : M) (nt i : Nat) (h : i < nt) : (evolAll 1 Udt nt)[i]? = some (Udt ^ i) := by
  cases nt with
  | zero => omega
  | succ nt =>
    cases i with
    | zero => simp [evolAll]
    | succ i =>
      simp only [evolAll, List.getElem?_cons_succ]
      rw [evolAll_go Udt nt Udt i (by omega), ← pow_succ]

/-- **semigroup on the time grid**: `U(t_i + t_j) = U(t_i) U(t_j)` -/
theorem semigroup (Udt : M) (nt i j : Nat) (h : i + j < nt) :
    ∃ a b c, (evolAll 1 Udt nt)[i]? = some a ∧ (evolAll 1 Udt nt)[j]? = some b ∧
      (evolAll 1 Udt nt)[i + j]? = some c ∧ c = a * b :=
  ⟨Udt ^ i, Udt ^ j, Udt ^ (i + j), evolAll_get Udt nt i (by omega), evolAll_get Udt nt j (by omega),
    evolAll_get Udt nt (i + j) h, pow_add Udt i j⟩

/-- the identity at time zero -/
theorem U_zero (Udt : M) (nt : Nat) (h : 0 < nt) : (evolAll 1 Udt nt)[0]? = some 1 := by
  simpa using evolAll_get Udt nt 0 h

/-- `k+1` calls of `calculate_next()` leave `U_dt^{k+1}` in the store … -/
theorem evolJit_eq_pow (Udt : M) (k : Nat) : evolJit Udt k = Udt ^ (k + 1) := by
  induction k with
  | zero => simp [evolJit]
  | succ k ih => rw [evolJit, ih, ← pow_succ']

/-- **… which is exactly the value `calculate()` stores at that time index** (any number of steps) -/
theorem jit_eq_all (Udt : M) (nt k : Nat) (h : k + 1 < nt) :
    (evolAll 1 Udt nt)[k + 1]? = some (evolJit Udt k) := by
  rw [evolJit_eq_pow]; exact evolAll_get Udt nt (k + 1) h

/-- with `Ndense` internal steps, `U(t_i) = U_1^{Ndense·i}` -/
theorem U_grid (U1 : M) (Nd nt i : Nat) (h : i < nt) :
    (evolAll 1 (denseStep U1 Nd) nt)[i]? = some (U1 ^ ((Nd + 1) * i)) := by
  rw [evolAll_get _ nt i h, denseStep_eq_pow, pow_mul]
end monoid

/-! ## superoperators under `tensordot` form a monoid -/
section tens
variable {α : Type} [CommRing α] {n : Nat}

theorem tcomp_fn (A B : TensD α n) :
    (tcomp A B).fn = fun a b e f => ∑ c, ∑ d, A.fn a b c d * B.fn c d e f := by
  funext a b e f; simp [tcomp, sumFin_eq_sum]

theorem sum4_comm {β : Type} [AddCommMonoid β] (F : Fin n → Fin n → Fin n → Fin n → β) :
    ∑ c, ∑ d, ∑ x, ∑ y, F c d x y = ∑ x, ∑ y, ∑ c, ∑ d, F c d x y := by
  calc ∑ c, ∑ d, ∑ x, ∑ y, F c d x y
      = ∑ c, ∑ x, ∑ d, ∑ y, F c d x y := Finset.sum_congr rfl fun c _ => Finset.sum_comm
    _ = ∑ x, ∑ c, ∑ d, ∑ y, F c d x y := Finset.sum_comm
    _ = ∑ x, ∑ c, ∑ y, ∑ d, F c d x y :=
        Finset.sum_congr rfl fun x _ => Finset.sum_congr rfl fun c _ => Finset.sum_comm
    _ = ∑ x, ∑ y, ∑ c, ∑ d, F c d x y := Finset.sum_congr rfl fun x _ => Finset.sum_comm

/-- composition of superoperators is associative -/
theorem tcomp_assoc (A B C : TensD α n) : (tcomp (tcomp A B) C).fn = (tcomp A (tcomp B C)).fn := by
  funext a b e f
  simp only [tcomp_fn, Finset.sum_mul, Finset.mul_sum]
  rw [sum4_comm]
  apply Finset.sum_congr rfl; intro x _
  apply Finset.sum_congr rfl; intro y _
  apply Finset.sum_congr rfl; intro c _
  apply Finset.sum_congr rfl; intro d _
  ring

/-- the δδ tensor stored at time zero is the unit of the composition -/
theorem tcomp_ident (A : TensD α n) : (tcomp tident A).fn = A.fn ∧ (tcomp A tident).fn = A.fn := by
  constructor
  · funext a b e f
    simp only [tcomp_fn, tident, TensD.fn_tab, ite_mul, one_mul, zero_mul]
    have : ∀ c, (∑ d, if a = c ∧ b = d then A.fn c d e f else 0) = if a = c then A.fn c b e f else 0 := by
      intro c
      by_cases h : a = c
      · simp [h]
      · simp [h]
    simp [this]
  · funext a b e f
    simp only [tcomp_fn, tident, TensD.fn_tab, mul_ite, mul_one, mul_zero]
    have : ∀ c, (∑ d, if c = e ∧ d = f then A.fn a b c d else 0) = if c = e then A.fn a b c f else 0 := by
      intro c
      by_cases h : c = e
      · simp [h]
      · simp [h]
    simp [this]

/-- applying a composition is applying one after the other: `apply(U V, ρ) = apply(U, apply(V, ρ))` -/
theorem tensApply_tcomp (A B : TensD α n) (ρ : Mat α n) :
    tensApply (tcomp A B).fn ρ = tensApply A.fn (tensApply B.fn ρ) := by
  funext a b
  simp only [tensApply, tcomp_fn, sumFin_eq_sum, Finset.sum_mul, Finset.mul_sum]
  rw [sum4_comm]
  apply Finset.sum_congr rfl; intro x _
  apply Finset.sum_congr rfl; intro y _
  apply Finset.sum_congr rfl; intro c _
  apply Finset.sum_congr rfl; intro d _
  ring
end tens


/-! ## refinement of the internal step -/
section bound
open NormedSpace
variable {𝔸 : Type} [NormedRing 𝔸] [NormOneClass 𝔸] [NormedAlgebra ℚ 𝔸] [CompleteSpace 𝔸]

/-- in the algebra of superoperators the elementary step is the Taylor polynomial of `dt_d·𝓛`, so by
`U_grid` the stored superoperator is `taylorPoly (L+1) (dt_d•𝓛) ^ (Ndense·i)` -/
theorem U_is_power_of_taylor_polynomial (𝓛 : 𝔸) (dtd : ℚ) (L m : ℕ) :
    taylorSteps (algGen 𝓛) (· + ·) dtd L m 1 = taylorPoly (L + 1) (dtd • 𝓛) ^ m := by
  rw [taylorSteps_alg, mul_one]

/-- **refining the internal step changes `U(t)` only within the truncation bounds** of the two expansions,
and each is within its bound of the exact exponential -/
theorem refine_bound (𝓛 : 𝔸) (dt : ℚ) (L m N : ℕ) (hN : 0 < N) :
    ‖taylorSteps (algGen 𝓛) (· + ·) dt L m 1 - taylorSteps (algGen 𝓛) (· + ·) (dt / N) L (m * N) 1‖ ≤
      ((m * Real.exp ‖dt • 𝓛‖ ^ (m - 1) *
          (Real.exp ‖dt • 𝓛‖ - ∑ k ∈ range (L + 1), ‖dt • 𝓛‖ ^ k / k.factorial))
        + ((m * N : ℕ) * Real.exp ‖(dt / N) • 𝓛‖ ^ (m * N - 1) *
          (Real.exp ‖(dt / N) • 𝓛‖ - ∑ k ∈ range (L + 1), ‖(dt / N) • 𝓛‖ ^ k / k.factorial))) := by
  have := refinement_within_bounds 𝓛 dt L m N hN (1 : 𝔸)
  simpa using this
end bound

end QV.Prop
