import QV.Core.Num
import QV.Model.C16
open QV QV.C16

def showNats (l : List Nat) : String := " ".intercalate (l.map toString)
def showInts (l : List Int) : String := " ".intercalate (l.map toString)

def stepD (_ : Unit) (ts : List String) : Unit × String :=
  match ts with
  | ["hinds", n, d] =>
    match n.toNat?, d.toNat? with
    | some n, some d => ((), " | ".intercalate ((hinds n d).map showNats))
    | _, _ => ((), "bad-op")
  | ["levels", n, d] =>
    match n.toNat?, d.toNat? with
    | some n, some d => ((), showNats (levStarts n d) ++ " ; " ++ showNats (levLengths n d))
    | _, _ => ((), "bad-op")
  | ["nm1", n, d] =>
    match n.toNat?, d.toNat? with
    | some n, some d =>
      let h := hinds n d
      ((), " | ".intercalate ((List.range h.length).map fun nn => showInts ((List.range n).map fun kk => nm1 h nn kk)))
    | _, _ => ((), "bad-op")
  | ["np1", n, d] =>
    match n.toNat?, d.toNat? with
    | some n, some d =>
      let h := hinds n d
      ((), " | ".intercalate ((List.range h.length).map fun nn => showInts ((List.range n).map fun kk => np1 h nn kk)))
    | _, _ => ((), "bad-op")
  | "gamma" :: n :: d :: g =>
    match n.toNat?, d.toNat?, parseRats? g with
    | some n, some d, some g => ((), " ".intercalate ((hinds n d).map fun v => showRat (bigGamma g v)))
    | _, _, _ => ((), "bad-op")
  | "heom" :: n :: nb :: d :: dt :: L :: nt :: rest =>
    match n.toNat?, nb.toNat?, d.toNat?, GRat.parse? dt, L.toNat?, nt.toNat?, parseGRats? rest with
    | some n, some nb, some d, some dt, some L, some nt, some vals =>
      if vals.length = n * n + nb * n * n + nb + nb + 1 + n * n then
        let a := vals.toArray
        let HH : Fin n → Fin n → GRat := matOfArray n n (a.extract 0 (n * n))
        let Vs : Array (Fin n → Fin n → GRat) := Array.ofFn (n := nb) fun k =>
          (MatD.tab (matOfArray n n (a.extract (n * n + k.val * n * n) (n * n + (k.val + 1) * n * n)))).fn
        let o := n * n + nb * n * n
        let hy : Hier GRat n := ⟨nb, hinds nb d, (MatD.tab HH).fn, Vs,
          a.extract o (o + nb), a.extract (o + nb) (o + 2 * nb), a[o + 2 * nb]!, GRat.I, ⟨2, 0⟩⟩
        let rho0 : Fin n → Fin n → GRat := matOfArray n n (a.extract (o + 2 * nb + 1) (o + 2 * nb + 1 + n * n))
        let traj := heomPropagate hy dt L nt rho0
        ((), " | ".intercalate (traj.map fun m => " ".intercalate ((listOfMat m.fn).map GRat.show_)))
      else ((), "bad-op")
    | _, _, _, _, _, _, _ => ((), "bad-op")
  | _ => ((), "bad-op")

def main : IO Unit := runDriver stepD ()
