import QV.Props.C07

/-!
# C07 — the limits of the time-dependent Redfield tensor
The time-dependent tensor is assembled at every time from `K` and `Λ(t) = ĉ(t)·K`, where `ĉ(t)` is the running
integral of the correlation function.  At the first time the integral is empty (`Λ = 0`), at the last time it is the
integral the time-independent tensor uses; the statements below are about the assembly, the two facts about the
integral are contracts of the spline antiderivative checked by the harness.
-/
namespace QV.Prop
open QV QV.C01 Finset

variable {α : Type} [CommRing α] {n : Nat}

/-- **the time-dependent tensor vanishes where `Λ` vanishes** (time zero), for every `K` -/
theorem tdTerm_zero (K : Mat α n) : tdTerm K (fun _ _ => 0) (fun _ _ => 0) = fun _ _ _ _ => (0 : α) := by
  funext a b c d
  simp [tdTerm, matMul, sumFin_eq_sum]

theorem tdTensor_zero (Ks : List (Mat α n)) :
    tdTensor (Ks.map (fun K => (K, (fun _ _ => (0 : α)), (fun _ _ => (0 : α))))) = fun _ _ _ _ => (0 : α) := by
  unfold tdTensor
  induction Ks using List.reverseRecOn with
  | nil => rfl
  | append_singleton Ks K ih =>
    rw [List.map_append, List.foldl_append, ih]
    funext a b c d
    simp [tdTerm_zero]

/-- **with the same `Λ` the time-dependent element formula is the time-independent one** (symmetric `K`, as all
system-bath operators of the package are): at the last time index, where `Λ(t)` is the full integral, the two
tensors coincide component by component -/
theorem tdTerm_eq_loopTerm (K L Ld : Mat α n) (hK : ∀ i j, K i j = K j i) :
    tdTerm K L Ld = loopTerm K (fun i j => K j i) L Ld := by
  funext a b c d
  simp only [tdTerm, loopTerm, matMul, sumFin_eq_sum]
  have e1 : K d b = K b d := hK d b
  have e2 : (∑ x, K a x * L x c) = ∑ x, K x a * L x c := Finset.sum_congr rfl (fun x _ => by rw [hK a x])
  rw [e1, e2]

theorem tdTensor_eq_redfieldTensor (comps : List (Mat α n × Mat α n × Mat α n)) (hK : ∀ c ∈ comps, ∀ i j, c.1 i j = c.1 j i) :
    tdTensor comps = redfieldTensor comps := by
  unfold tdTensor redfieldTensor
  induction comps using List.reverseRecOn with
  | nil => rfl
  | append_singleton cs c ih =>
    rw [List.foldl_append, List.foldl_append, ih (fun x hx => hK x (by simp [hx]))]
    simp only [List.foldl_cons, List.foldl_nil]
    rw [tdTerm_eq_loopTerm c.1 c.2.1 c.2.2 (hK c (by simp))]

end QV.Prop
