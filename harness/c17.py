"""C17 - population (master-equation) dynamics conserve and match the exponential."""
import ast, math
from qvh.core import *
from qvh import extract as X

DRIVER = "C17"
PROPS = "QV.Props.C17"


def extract(ck):
    try:
        src = X.read_source(REPO, "quantarhei/qm/liouvillespace/rates/ratematrix.py")
        fn = X.find_def(ast.parse(src), "set_rate", cls="RateMatrix")
        if [a.arg for a in fn.args.args] != ["self", "pos", "value"]:
            raise X.ExtractError("signature of set_rate changed")
        se = X.SymExec(["value"], cell_map={"self.data[N, M]": "dNM", "self.data[M, M]": "dMM"})
        se.env["N"] = ("var", "N")
        se.env["M"] = ("var", "M")
        skip = lambda s: ast.unparse(s).replace(" ", "") in ("N=pos[0]", "M=pos[1]")
        se.run(fn.body, skip=skip)
        if sorted(se.ignored) != ["M = pos[1]", "N = pos[0]"]:
            raise X.ExtractError("index unpacking changed: %s" % se.ignored)
        if se.guards != [("cmp", "==", ("var", "N"), ("var", "M"))]:
            raise X.ExtractError("the refusal guard is not `if N == M: raise`: %s" % (se.guards,))
        nm, mm = X.lean_expr(se.env["dNM"], False), X.lean_expr(se.env["dMM"], False)
    except X.ExtractError as e:
        return bool(ck.tie_fallback("C17", "extraction of RateMatrix.set_rate failed: %s" % e, default=False))
    ck.gen("C17", "namespace QV.Gen.C17\n"
           "set_option linter.unusedVariables false\n"
           "/-- new value of `data[N,M]` after `set_rate((N,M), value)` (N ≠ M) -/\n"
           "def setRateNM {α : Type} [Add α] [Sub α] (dNM dMM value : α) : α := %s\n"
           "/-- new value of `data[M,M]` -/\n"
           "def setRateMM {α : Type} [Add α] [Sub α] (dNM dMM value : α) : α := %s\n"
           "end QV.Gen.C17\n" % (nm, mm))
    return True


def run(ck):
    import numpy, scipy.linalg
    qr = import_quantarhei()
    from quantarhei.qm.liouvillespace.rates.ratematrix import RateMatrix
    from quantarhei.qm.propagators.poppropagator import PopulationPropagator
    from quantarhei import TimeAxis
    rng = ck.rng
    ck.rule = ("(a) random set_rate histories (<=30 assignments incl. diagonal ones, sizes 2-6, integer values, started from "
               "zero or from integer zero-column-sum matrices): whole matrix compared bit-exactly with the model after every call; "
               "(b) propagate() on dyadic rate matrices: every stored population vs the rational model (1e-9*scale); "
               "(c) get_PropagationMatrix on sub-axes (same start, shifted on grid, shifted off grid, non-subsets) vs model "
               "fed with scipy expm and vs expm directly; non-trivial = history with an overwritten rate / propagation with "
               ">=3 states / sub-axis with shifted start")
    ck.trusted += ["harness/c17.py + extractor of the set_rate arithmetic",
                   "hand model of the matrix frame of set_rate (which cells are written) and of the propagation loop, validated on generated inputs",
                   "scipy.linalg.expm as the reference exponential (oracle and input of the propagation-matrix model)",
                   "numpy.linalg.eig/inv inside get_PropagationMatrix (contract K = S diag(d) S^-1, re-validated through the expm comparison)"]
    ok = extract(ck)
    ck.prove(PROPS, extra_modules=["QV.Drive.C17"], also=["QV.Props.C17Bound", "QV.Props.C17Positive", "QV.Props.C17Linear"])
    lines, impl, tol = [], [], []

    def emit(line, out, t=None):
        lines.append(line); impl.append(out); tol.append(t)

    # ---- (a) set_rate histories ---------------------------------------------------------
    for h in range(ck.n(60, 1500)):
        N = rng.randint(2, 6)
        if rng.random() < 0.5:
            rm = RateMatrix(dim=N)
            emit("new %d" % N, "ok")
        else:
            K0 = numpy.zeros((N, N))
            for j in range(N):
                for i in range(N):
                    if i != j:
                        K0[i, j] = rng.randint(0, 9)
                K0[j, j] = -K0[:, j].sum()
            rm = RateMatrix(data=K0.copy())
            emit("new %d %s" % (N, " ".join(frac(x) for x in K0.flatten())), "ok")
        last = {}
        overwrites = 0
        hist = []
        for i in range(rng.randint(1, 30)):
            if h % 4 == 2 and i in (2, 7):
                # the matrix handed over anew between assignments (set_data / attribute / hand edit that keeps the column sums):
                # later assignments work on the matrix as it is now
                how = (h // 4 + i) % 3
                K1 = numpy.zeros((N, N))
                for jj in range(N):
                    for ii in range(N):
                        if ii != jj:
                            K1[ii, jj] = rng.randint(0, 9)
                    K1[jj, jj] = -K1[:, jj].sum()
                if how == 0:
                    rm.set_data(K1.copy())
                elif how == 1:
                    rm.data = K1.copy()
                else:
                    for jj in range(N):
                        for ii in range(N):
                            rm.data[ii, jj] = K1[ii, jj]
                emit("new %d %s" % (N, " ".join(frac(x) for x in K1.flatten())), "ok")
                hist.append(("data replaced", ("set_data", "data =", "data[i,j] =")[how], K1.tolist()))
                last = {}
            a, b = rng.randrange(N), rng.randrange(N)
            if rng.random() < 0.4 and last:
                a, b = rng.choice(list(last))
            v = rng.randint(0, 12)
            hist.append((a, b, v))
            before = rm.data.copy()
            try:
                # columns / rows may be addressed from the end (negative indices), as with any array
                ia, ib = (a - N if (h % 4 == 1 and i % 3 == 0 and a != b) else a), (b - N if (h % 4 == 1 and i % 2 == 0 and a != b) else b)
                rm.set_rate((ia, ib), float(v))
                out = "ok " + " ".join(frac(x) for x in rm.data.flatten())
                if (a, b) in last:
                    overwrites += 1
                last[(a, b)] = v
            except Exception:
                out = "refused"
                if not numpy.array_equal(before, rm.data):
                    ck.fail("set_rate:refused-changed", "refused set_rate changed the matrix", {"N": N, "history": hist})
            emit("set %d %d %d" % (a, b, v), out)
            # oracle
            cs = numpy.abs(rm.data.sum(axis=0)).max()
            if cs != 0:
                ck.fail("set_rate:colsum", "column sums not zero after a history of set_rate calls",
                        {"N": N, "history": hist}, rm.data.sum(axis=0).tolist(), 0)
                break
            bad = [(k, rm.data[k]) for k in last if rm.data[k] != last[k]]
            if bad:
                ck.fail("set_rate:value", "assigned off-diagonal value not kept", {"N": N, "history": hist}, bad)
                break
        ck.case(("sr", N, repr(hist)), nontrivial=overwrites > 0, kind="set_rate", size=N,
                sample={"set_rate_history": hist[:8], "N": N} if h < 2 else None)
    # ---- (a'') rates of any magnitude: very slow rates, and re-assignments that differ from the stored value in the sixth digit ---------------
    for N in (2, 4):
        seq = [((0, 1), 5.0e-9), ((1, 0), 2.0 ** -40), ((0, 1), 0.01), ((0, 1), 0.01 * (1.0 + 2.0e-6)), ((N - 1, 0), 1.0e-12), ((1, 0), 2.0 ** -40 * (1.0 + 2.0 ** -20))]
        inp = {"N": N, "assignments": [[list(p_), v_] for p_, v_ in seq]}
        ck.case(("sr-magnitudes", N), nontrivial=True, kind="set_rate", size=N)
        try:
            rmm = RateMatrix(dim=N)
            lastv = {}
            for p_, v_ in seq:
                rmm.set_rate(p_, v_); lastv[p_] = v_
                badv = [(k_, float(rmm.data[k_]), lastv[k_]) for k_ in lastv if float(rmm.data[k_]) != lastv[k_]]
                csum = float(numpy.abs(numpy.array(rmm.data, dtype=float).sum(axis=0)).max())
                if badv or csum > 1e-17:
                    ck.fail("set_rate:value:magnitudes", "an assigned rate (very small, or differing from the stored one in the sixth digit) is not kept / columns do not "
                            "sum to zero", inp, [badv, csum])
                    break
        except Exception as e:
            ck.fail("raises:set_rate:magnitudes", "raised %r" % (e,), inp)
    # ---- (a') a rate matrix handed over as an array of whole numbers (integer dtype): assigned rates are kept as assigned ------------------
    for N in (2, 3):
        for start_ in ("zeros", "whole-number rates"):
            K0i = numpy.zeros((N, N), dtype=int)
            if start_ != "zeros":
                for j in range(N):
                    for i in range(N):
                        if i != j:
                            K0i[i, j] = i + j + 1
                    K0i[j, j] = -K0i[:, j].sum()
            inp = {"N": N, "data": "integer array (%s)" % start_, "assignments": [[0, 1, 0.5], [1, 0, 0.125]]}
            ck.case(("sr-int", N, start_), nontrivial=True, kind="set_rate", size=N)
            try:
                rmi = RateMatrix(data=K0i.copy())
                rmi.set_rate((0, 1), 0.5); rmi.set_rate((1, 0), 0.125)
                di = numpy.array(rmi.data, dtype=float)
                if di[0, 1] != 0.5 or di[1, 0] != 0.125 or numpy.abs(di.sum(axis=0)).max() != 0.0:
                    ck.fail("set_rate:integer-matrix", "a rate matrix given as an integer array does not keep the assigned off-diagonal values / zero column sums",
                            inp, di.tolist())
            except Exception as e:
                ck.fail("raises:set_rate:integer-matrix", "raised %r" % (e,), inp)
    # ---- (b) propagation -------------------------------------------------------------------
    for h in range(ck.n(25, 400)):
        N = rng.randint(2, 5)
        K = numpy.zeros((N, N))
        for j in range(N):
            for i in range(N):
                if i != j and rng.random() < 0.8:
                    K[i, j] = rng.randint(0, 16) / 64.0
            K[j, j] = -K[:, j].sum()
        p0 = numpy.array([rng.randint(0, 8) / 8.0 for _ in range(N)])
        if p0.sum() == 0:
            p0[0] = 1.0
        dt = rng.choice([0.25, 0.5, 1.0, 2.0])
        nt = rng.randint(2, 12)
        if h % 5 == 4:
            # boundary: a coarse (inadmissible but stable) step on a downhill chain, where the order-4 polynomial produces
            # genuinely negative components - sum conservation and the series must hold there as well
            N = rng.randint(3, 4)
            K = numpy.zeros((N, N))
            for j in range(N - 1):
                K[j + 1, j] = rng.choice([0.5, 0.4375, 0.5625])
                K[j, j] = -K[j + 1, j]
            dt = rng.choice([3.5, 4.25, 4.75, 5.0])
            p0 = numpy.zeros(N); p0[0] = 1.0
            nt = rng.randint(3, 6)
        ta = TimeAxis(0.0, nt, dt)
        rmK = RateMatrix(data=K.copy()) if rng.random() < 0.5 else K.copy()
        prop = PopulationPropagator(ta, rmK)
        arg = p0.copy() if rng.random() < 0.5 else list(p0)
        form = "float array" if isinstance(arg, numpy.ndarray) else "list of floats"
        if h % 4 == 1:
            # whole-number populations handed over as Python ints / an integer array
            ints = [rng.randint(0, 3) for _ in range(N)]
            if sum(ints) == 0:
                ints[0] = 2
            p0 = numpy.array(ints, dtype=float)
            arg, form = (list(ints), "list of ints") if h % 8 == 1 else (numpy.array(ints, dtype=int), "integer array")
        # populations need not be normalised: the overall magnitude is part of the input (powers of two keep the model values exact)
        pscale = (1.0, 1.0, 2.0 ** -20, 2.0 ** -36, 2.0 ** 20)[h % 5] if form in ("float array", "list of floats") else 1.0
        if pscale != 1.0:
            p0 = p0 * pscale
            arg = p0.copy() if isinstance(arg, numpy.ndarray) else list(p0)
        pops = numpy.asarray(prop.propagate(arg), dtype=float)
        if isinstance(arg, numpy.ndarray) and arg.dtype == numpy.float64:
            # the caller's array is an input: it is still the initial condition afterwards and can be used again
            if not numpy.array_equal(arg, p0):
                ck.fail("propagate:caller-array", "propagate() changed the array of initial populations it was given",
                        {"K": K.tolist(), "p0": p0.tolist(), "dt": dt, "nt": nt}, arg.tolist(), p0.tolist())
            else:
                kept = pops.copy()
                other = numpy.asarray(prop.propagate(2.0 * arg), dtype=float)      # another call in between; its result is a different one
                if not numpy.array_equal(pops, kept) or numpy.shares_memory(other, pops):
                    ck.fail("propagate:earlier-result-changed", "the populations returned by an earlier propagate() were changed by the next call on the same "
                            "propagator", {"K": K.tolist(), "p0": p0.tolist(), "dt": dt, "nt": nt}, float(numpy.abs(pops - kept).max()), 0)
                    pops = kept
                again = numpy.asarray(prop.propagate(arg), dtype=float)
                if not numpy.array_equal(again, pops):
                    ck.fail("propagate:caller-array", "a second propagate() with the same array gives other populations",
                            {"K": K.tolist(), "p0": p0.tolist(), "dt": dt, "nt": nt}, float(numpy.abs(again - pops).max()), 0)
        emit("new %d %s" % (N, " ".join(frac(x) for x in K.flatten())), "ok")
        emit("prop %s 4 1 %d %s" % (frac(dt), nt, " ".join(frac(x) for x in p0)),
             " | ".join(" ".join(frac(x) for x in row) for row in pops), 1e-9 * float(numpy.abs(p0).sum()))
        ck.case(("prop", N, K.tobytes(), p0.tobytes(), dt, nt), nontrivial=N >= 3, kind="propagate", size=N,
                coarse_step=bool(dt * numpy.abs(numpy.diag(K)).max() > 1.0), negative_component=bool(pops.min() < -1e-9 * float(numpy.abs(p0).sum())), initial=form,
                sample={"K": K.tolist(), "p0": p0.tolist(), "dt": dt, "nt": nt} if h < 1 else None)
        # oracle: conservation, sign, distance to exp within the truncation bound
        s0 = p0.sum()
        if numpy.abs(pops.sum(axis=1) - s0).max() > 1e-12 * s0 * nt:
            ck.fail("propagate:sum", "population sum not conserved", {"K": K.tolist(), "p0": p0.tolist(), "dt": dt, "nt": nt},
                    pops.sum(axis=1).tolist(), s0)
        x = dt * numpy.abs(K).sum(axis=0).max()       # induced 1-norm of dt*K
        if dt * numpy.abs(numpy.diag(K)).max() <= 1.0 and pops.min() < -1e-12 * s0:
            ck.fail("propagate:negative", "negative population for an admissible step", {"K": K.tolist(), "p0": p0.tolist(), "dt": dt},
                    float(pops.min()), ">=0")
        eps1 = math.exp(x) - sum(x ** m / math.factorial(m) for m in range(5))
        for i in range(nt):
            ref = scipy.linalg.expm(K * dt * i) @ p0
            bound = (i * math.exp(max(0, i - 1) * x) * eps1 + 1e-9) * numpy.abs(p0).sum()
            err = numpy.abs(pops[i] - ref).sum()
            if err > bound:
                ck.fail("propagate:exp", "distance to the matrix exponential exceeds the truncation bound",
                        {"K": K.tolist(), "p0": p0.tolist(), "dt": dt, "i": i}, float(err), float(bound))
                break
    # ---- (c) propagation matrix on sub-axes --------------------------------------------------
    for h in range(ck.n(30, 400)):
        N = rng.randint(2, 4)
        K = numpy.zeros((N, N))
        for j in range(N):
            for i in range(N):
                if i != j:
                    K[i, j] = rng.randint(1, 16) / 256.0
            K[j, j] = -K[:, j].sum()
        dt = rng.choice([0.5, 1.0, 2.0]) if h % 3 else (0.7, 0.1, 1.3, 0.3)[(h // 3) % 4]     # also steps that are not binary fractions
        ta = TimeAxis(0.0, 200, dt)
        mult = rng.choice([1, 2, 3, 5])
        kind = rng.choice(["same", "grid", "offgrid", "notsubset", "grid"])
        step = mult * dt
        ln = rng.randint(2, 8)
        if kind == "same":
            start = 0.0
        elif kind == "grid":
            start = step * rng.randint(1, 4)
        elif kind == "offgrid":
            start = step * rng.randint(0, 3) + dt * rng.randint(1, max(1, mult - 1)) if mult > 1 else dt * rng.randint(1, 3)
        else:
            start = dt * 0.5 if rng.random() < 0.5 else 0.0
            if start == 0.0:
                step = dt * 1.5
        if h % 3 == 0 and kind != "notsubset":
            # a step that is not a binary fraction: the sub-axis starts at a grid point taken from the axis itself, preferably one where
            # the floating-point quotient t_k/dt is not k (floor or round of it picks a neighbour)
            tad = numpy.array(ta.data)
            cand = [k for k in range(1, 80) if math.floor(tad[k] / dt) != k or tad[k] != k * dt]
            k0 = cand[(h // 3) % len(cand)] if cand else rng.randint(1, 40)
            start = float(tad[k0]); step = mult * dt
            kind = "grid-point-of-the-axis"
        ts = TimeAxis(start, ln, step)
        prop = PopulationPropagator(ta, K.copy())
        inp = {"K": K.tolist(), "axis": [0.0, 200, dt], "sub": [start, ln, step]}
        try:
            # the perturbative corrections are an optional extra: the propagation matrix handed out with them is the same one
            corr = (-1, 0, 1, 2)[h % 4]
            inp["corrections"] = corr
            if corr < 0:
                U = prop.get_PropagationMatrix(ts)
            else:
                U = prop.get_PropagationMatrix(ts, corrections=corr, exact=(h % 8 >= 4))[0]
            refused = False
        except Exception as e:
            refused = True
            inp["raised"] = repr(e)[:200]
        subset = ts.is_subset_of(ta)
        ck.case(("pm", K.tobytes(), start, ln, step), nontrivial=(start != 0.0 and not refused), kind="propmatrix:" + kind,
                sample=inp if h < 1 else None)
        if refused:
            if subset:
                ck.fail("propmatrix:raises", "get_PropagationMatrix raised for a compatible sub-axis", inp)
            continue
        worst = 0.0
        for i in range(ln):
            ref = scipy.linalg.expm(K * (start + i * step))
            worst = max(worst, float(numpy.abs(U[:, :, i] - ref).max()))
        if worst > 1e-9:
            ck.fail("propmatrix:exp", "propagation matrix on the sub-axis differs from exp(K t)", inp, worst, "<=1e-9")
        E, Edt = scipy.linalg.expm(K * step), scipy.linalg.expm(K * start)
        Ns = round(start / step)
        ongrid = (start == Ns * step)
        emit("pm %d %d %d %d %d %s %s" % (N, 1 if start == 0.0 else 0, 1 if ongrid else 0, Ns, ln,
                                           " ".join(frac(x) for x in E.flatten()), " ".join(frac(x) for x in Edt.flatten())),
             " | ".join(" ".join(frac(x) for x in U[:, :, i].flatten()) for i in range(ln)), 1e-9)
    # ---- (c') relaxation ladders with nearly equal rates: the eigenvectors of the rate matrix are nearly parallel ------------------
    for (N, tau, spc) in ((4, 50.0, 1e-5), (5, 80.0, 1e-3), (7, 40.0, 1e-2), (3, 25.0, 1e-7), (6, 60.0, 1e-4))[:ck.n(5, 5)]:
        K = numpy.zeros((N, N))
        for j in range(N - 1):
            K[j + 1, j] = 1.0 / (tau * (1.0 + j * spc))
            K[j, j] = -K[j + 1, j]
        ta = TimeAxis(0.0, 400, 1.0)
        ts = TimeAxis(0.0, 8, 25.0)
        inp = {"K": K.tolist(), "axis": [0.0, 400, 1.0], "sub": [0.0, 8, 25.0], "kind": "ladder with nearly equal rates"}
        ck.case(("ladder", N, tau, spc), nontrivial=True, kind="propmatrix:nearly-defective-ladder")
        try:
            U = PopulationPropagator(ta, K.copy()).get_PropagationMatrix(ts)
        except Exception as e:
            ck.fail("propmatrix:raises", "get_PropagationMatrix raised %r" % (e,), inp)
            continue
        worst = max(float(numpy.abs(U[:, :, i] - scipy.linalg.expm(K * (25.0 * i))).max()) for i in range(8))
        ck.resid("nearly defective ladder: propagation matrix vs expm", worst)
        if not worst <= 1e-9:
            ck.fail("propmatrix:exp", "propagation matrix on the sub-axis differs from exp(K t) (ladder with nearly equal rates)", inp, worst, "<=1e-9")
    # ---- (d) one propagator, rates edited between calls: both methods must follow the rate matrix as it is now ------------------
    for h in range(ck.n(6, 60)):
        N = rng.randint(2, 4)
        rm = RateMatrix(dim=N)
        for _ in range(N + 2):
            i, j = rng.randrange(N), rng.randrange(N)
            if i != j:
                rm.set_rate((i, j), rng.randint(1, 8) / 64.0)
        dt = 1.0
        ta2 = TimeAxis(0.0, 60, dt)
        ts2 = TimeAxis(0.0, 6, 4.0 * dt)
        prop = PopulationPropagator(ta2, rm)
        p0 = numpy.zeros(N); p0[0] = 1.0
        ck.case(("edit", h), nontrivial=True, kind="edited-rates")
        for phase in range(3):
            if phase > 0:
                for _ in range(2):
                    i, j = rng.randrange(N), rng.randrange(N)
                    if i != j:
                        rm.set_rate((i, j), rng.randint(1, 8) / 64.0)
            Know = numpy.array(rm.data, dtype=float)
            inp = {"K": Know.tolist(), "phase": phase, "history": "get_PropagationMatrix / propagate, set_rate, again on the same propagator"}
            try:
                # a request with the optional perturbative corrections in between (same objects)
                prop.get_PropagationMatrix(ts2, corrections=phase, exact=(h % 2 == 0))
                cs_ = float(numpy.abs(numpy.array(rm.data, dtype=float).sum(axis=0)).max())
                if cs_ > 1e-12:
                    ck.fail("set_rate:colsum:after-corrections", "column sums of the rate matrix are not zero after get_PropagationMatrix(corrections=%d)" % phase,
                            inp, cs_)
                U = prop.get_PropagationMatrix(ts2)
                pt = numpy.array(prop.propagate(p0.copy()))
            except Exception as e:
                ck.fail("raises:edited-rates", "raised %r" % (e,), inp)
                break
            worst = max(float(numpy.abs(U[:, :, i] - scipy.linalg.expm(Know * (4.0 * dt * i))).max()) for i in range(6))
            worst2 = max(float(numpy.abs(pt[4 * i] - scipy.linalg.expm(Know * (4.0 * dt * i)) @ p0).max()) for i in range(6))
            ck.resid("edited rates: propagation matrix vs expm of the current matrix", worst)
            if worst > 1e-9:
                ck.fail("propmatrix:after-set_rate", "propagation matrix does not belong to the rate matrix as it is now", inp, worst)
            if worst2 > 1e-4:      # fourth-order expansion with dt|K| ~ 0.2: truncation error ~1e-5; a stale matrix is off by ~1e-1
                ck.fail("propagate:after-set_rate", "propagated populations do not belong to the rate matrix as it is now", inp, worst2)
    # ---- model -----------------------------------------------------------------------------
    if ok:
        model = ck.drive(DRIVER, lines)
        if model is not None:
            for l, a, b, t in zip(lines, impl, model, tol):
                ck.traces += 1
                if t is None:
                    if a != b:
                        ck.disagree("exact", l[:200], a[:300], b[:300])
                else:
                    try:
                        fa = [float(Fraction(x)) for x in a.replace("|", " ").split()]
                        fb = [float(Fraction(x)) for x in b.replace("|", " ").split()]
                        d = max(abs(x - y) for x, y in zip(fa, fb)) if len(fa) == len(fb) and fa else float("inf")
                    except Exception:
                        d = float("inf")
                    ck.resid("max |impl-model| (%s)" % l.split()[0], d if d != float("inf") else 1e300)
                    if d > t:
                        ck.disagree("numeric diff %.3g > %.3g" % (d, t), l[:200], a[:200], b[:200])
    return ck.finish()
