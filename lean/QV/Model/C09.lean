import QV.Core.Tab
import QV.Model.C13

/-! # C09 - bath correlation functions / spectral densities: component bookkeeping and addition

Model of `CorrelationFunction` / `SpectralDensity` objects as (component list, data, reorganisation
energy, temperature, cutoff) over an abstract additive type `V` of data vectors, of the constructor
(rebuild from a component list, per-component dispatch), `__add__`, `add_to_data`, `__iadd__` /
`add_to_data2`, `copy`, written as the Python code is written, with the switches that the source
extractor reads off the current source (`Cfg`).  Import-free. -/
namespace QV.C09

/-- one component: generator id, kind (index of the ftype in the dispatch), number of times its
energy parameters were converted to internal units beyond the first, temperature, contribution
to the cutoff time, Value-defined flag -/
structure Comp where
  id : Nat
  kind : Nat
  conv : Nat
  temp : Rat
  cut : Rat
  valued : Bool
deriving DecidableEq, Repr

inductive Err | temp | valued
deriving DecidableEq, Repr

/-- what the extractor reads off the source of one class -/
structure Cfg where
  /-- the dispatch hands the maker of kind `k` the component's own converted parameters -/
  own : Nat → Bool
  /-- the maker of kind `k` adds to the data (`_add_me`) / to `lamb` (`+=`) -/
  accData : Nat → Bool
  accLamb : Nat → Bool
  /-- the class checks temperatures (CorrelationFunction) -/
  checkTemp : Bool
  /-- `add_to_data` / `add_to_data2` check the temperature before they modify `self` -/
  checkFirst : Bool
  /-- `__add__` / self-`+=` / `copy` rebuild under `energy_units("int")` -/
  rebuildInt : Bool

structure Fn (V : Type) where
  params : List Comp
  data : V
  lamb : V
  temp : Option Rat
  cut : Rat

section
variable {V : Type} [Add V] [Zero V]

def empty : Fn V := { params := [], data := 0, lamb := 0, temp := none, cut := 0 }

def rmax (a b : Rat) : Rat := if b > a then b else a

/-- one `_make_*` call on the object under construction. `src` is the dictionary the maker is
handed (the component's own, or - stale loop variable - the last one of the list) -/
def makeComp (cfg : Cfg) (gD gL : Comp → V) (last : Comp) (f : Fn V) (c : Comp) : Except Err (Fn V) :=
  if c.valued then .error .valued else
  let src := if cfg.own c.kind then c else last
  let data := if cfg.accData c.kind then f.data + gD src else gD src
  let lamb := if cfg.accLamb c.kind then f.lamb + gL src else gL src
  let cut := rmax f.cut src.cut
  if cfg.checkTemp then
    match f.temp with
    | none => .ok { f with data := data, lamb := lamb, temp := some src.temp, cut := cut }
    | some t => if t ≠ src.temp then .error .temp
                else .ok { f with data := data, lamb := lamb, cut := cut }
  else .ok { f with data := data, lamb := lamb, temp := some src.temp, cut := cut }

def makeAll (cfg : Cfg) (gD gL : Comp → V) (last : Comp) : Fn V → List Comp → Except Err (Fn V)
  | f, [] => .ok f
  | f, c :: cs => match makeComp cfg gD gL last f c with
    | .error e => .error e
    | .ok f' => makeAll cfg gD gL last f' cs

/-- the units conversion of the constructor: inside a non-internal units context the energy
parameters of every component are converted (again) -/
def convert (inCtx : Bool) (c : Comp) : Comp := if inCtx then { c with conv := c.conv + 1 } else c

/-- the constructor called with a component list while `inCtx` says whether a non-internal
units context is active -/
def build (cfg : Cfg) (gD gL : Comp → V) (inCtx : Bool) (ps : List Comp) : Except Err (Fn V) :=
  let qs := ps.map (convert inCtx)
  match qs.getLast? with
  | none => .ok empty
  | some l => match makeAll cfg gD gL l empty qs with
    | .error e => .error e
    | .ok f => .ok { f with params := qs }

/-- `add_to_data` (and the body of `add_to_data2`): returns the new `self` and, on refusal, the state
`self` is left in -/
def addToData (cfg : Cfg) (f g : Fn V) : Fn V × Option Err :=
  let sum : Fn V := { params := f.params ++ g.params, data := f.data + g.data, lamb := f.lamb + g.lamb,
                      temp := f.temp, cut := rmax f.cut g.cut }
  if cfg.checkTemp && decide (f.temp ≠ g.temp) then
    if cfg.checkFirst then (f, some .temp)
    else ({ sum with params := f.params }, some .temp)
  else (sum, none)

/-- statements of a user program over a store of objects -/
inductive Stmt
  /-- `x := Class(axis, params)` in a units context in which the parameters were written (conv 0) -/
  | new (ps : List Comp)
  /-- `x := Class(axis, params, values=...)` value-defined -/
  | newValued (c : Comp)
  /-- `x := x_i + x_j`, `inCtx`: executed inside a non-internal units context -/
  | add (i j : Nat) (inCtx : Bool)
  /-- `x_i += x_j` -/
  | iadd (i j : Nat) (inCtx : Bool)
  /-- `x := x_i.copy()` -/
  | copy (i : Nat) (inCtx : Bool)

abbrev Store (V : Type) := List (Fn V)

def rebuildCtx (cfg : Cfg) (inCtx : Bool) : Bool := inCtx && !cfg.rebuildInt

/-- one statement: new store and the error raised, if any. The constructor converts the raw
parameters exactly once (`new` components have `conv = 0` afterwards) -/
def step (cfg : Cfg) (gD gL : Comp → V) (s : Store V) : Stmt → Store V × Option Err
  | .new ps => match build cfg gD gL false ps with
    | .ok f => (s ++ [f], none)
    | .error e => (s, some e)
  | .newValued c =>
    (s ++ [{ params := [c], data := gD c, lamb := gL c, temp := some c.temp, cut := c.cut }], none)
  | .add i j ctx => match s[i]?, s[j]? with
    | some a, some b => match build cfg gD gL (rebuildCtx cfg ctx) a.params with
      | .error e => (s, some e)
      | .ok f => match addToData cfg f b with
        | (_, some e) => (s, some e)
        | (r, none) => (s ++ [r], none)
    | _, _ => (s, none)
  | .iadd i j ctx => match s[i]?, s[j]? with
    | some a, some b =>
      let ocor := if i = j then build cfg gD gL (rebuildCtx cfg ctx) b.params else .ok b
      match ocor with
      | .error e => (s, some e)
      | .ok o => let (r, e) := addToData cfg a o
                 (s.set i r, e)
    | _, _ => (s, none)
  | .copy i ctx => match s[i]? with
    | some a => match build cfg gD gL (rebuildCtx cfg ctx) a.params with
      | .error e => (s, some e)
      | .ok f => (s ++ [f], none)
    | none => (s, none)

def run (cfg : Cfg) (gD gL : Comp → V) : Store V → List Stmt → Store V
  | s, [] => s
  | s, st :: rest => run cfg gD gL (step cfg gD gL s st).1 rest

/-- sum of the generators over a component list -/
def total (g : Comp → V) : List Comp → V
  | [] => 0
  | c :: cs => g c + total g cs

def cutOf : List Comp → Rat
  | [] => 0
  | c :: cs => rmax c.cut (cutOf cs)

end

/-! ## upper-half Fourier transform of `DFunction.get_Fourier_transform` (used by the even / odd parts) -/
section
variable {α : Type} [Add α] [Mul α] [Zero α] [One α]

/-- `yy[0:N] = y; yy[2N-k-1] = conj(y[k+1])`, `yy[N] = 0` -/
def completeUpper {N : Nat} (star : α → α) (y : Fin N → α) : Fin (2 * N) → α := fun n =>
  if h : n.val < N then y ⟨n.val, h⟩
  else if h2 : n.val = N then 0
  else star (y ⟨2 * N - n.val, by have := n.isLt; omega⟩)

/-- `2N · fftshift(ifft(yy)) · dt` with the `1/(2N)` of `ifft` cancelled; `ζi` stands for `e^{+2πi/2N}` -/
def ftUpper {N : Nat} (star : α → α) (ζi dt : α) (y : Fin N → α) : Fin (2 * N) → α :=
  fun j => QV.C13.fftshift (QV.C13.dft ζi (completeUpper star y)) j * dt

end
end QV.C09
