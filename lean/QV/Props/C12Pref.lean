import QV.Props.C12Average

/-!
# C12 — the prefactor computed by the code is the exact orientational average
-/
namespace QV.C12
open QV.Gen.C12 Finset

/-- `LabSetup.M4` over the reals, from the extracted numerators and denominator -/
noncomputable def m4Real : List (List ℝ) := m4num.map (fun (r : List Int) => r.map (fun (n : Int) => ((n : ℝ) / (m4den : ℝ))))

theorem m4Real_eq : m4Real = [[4/30, -1/30, -1/30], [-1/30, 4/30, -1/30], [-1/30, -1/30, 4/30]] := by
  simp [m4Real, m4num, m4den]

theorem model_bilinear (x0 x1 x2 y0 y1 y2 : ℝ) :
    dotList (vecMat [x0, x1, x2] [[4/30, -1/30, -1/30], [-1/30, 4/30, -1/30], [-1/30, -1/30, 4/30]]) [y0, y1, y2]
      = (x0 * (4/30) + x1 * (-1/30) + x2 * (-1/30)) * y0 + (x0 * (-1/30) + x1 * (4/30) + x2 * (-1/30)) * y1
        + (x0 * (-1/30) + x1 * (-1/30) + x2 * (4/30)) * y2 := by
  simp [vecMat, dotList, List.range, List.range.loop]
  ring

section
variable {avg : (M3 → ℝ) → ℝ} (ha : RotationAverage avg)
include ha

/-- **the orientational prefactor of a Liouville pathway** - `sign · (F4eM4 · F4n) · ρ₀ · evolfac` with the
extracted `M4` and pairings - **is the sign, population and evolution factor times the exact average over all
orientations of the product of the four field-dipole projections** `(e₃·R d₃)(e₂·R d₂)(e₁·R d₁)(e₀·R d₀)` -/
theorem pref_is_orientational_average (e d : Nat → Fin 3 → ℝ) (sign rho0 ev : ℝ) :
    pref m4Real sign rho0 ev e d
      = sign * (avg (fun R => proj (e 3) (d 3) R * proj (e 2) (d 2) R * proj (e 1) (d 1) R * proj (e 0) (d 0) R) * rho0) * ev := by
  rw [orientational_average ha, m4Real_eq]
  unfold pref
  have hf : ∀ v : Nat → Fin 3 → ℝ, f4 f4ePairs v = [dot3 (v 3) (v 2) * dot3 (v 1) (v 0), dot3 (v 3) (v 1) * dot3 (v 2) (v 0),
      dot3 (v 3) (v 0) * dot3 (v 2) (v 1)] := by intro v; rfl
  have hn : ∀ v : Nat → Fin 3 → ℝ, f4 f4nPairs v = f4 f4ePairs v := by intro v; rfl
  rw [hn, hf, hf, model_bilinear]
  simp only [Fin.sum_univ_three, F4R, m4R, dotR, dot3, Fin.reduceEq, if_true, if_false]
  ring

end
end QV.C12
