import QV.Core.Num
import QV.Core.Tab
import QV.Lemmas.Bridge
import QV.Lemmas.Taylor
import QV.Props.C16
import QV.Props.C17
import QV.Props.C19
import QV.Props.C20
