"""C20 - distributed work ranges partition the index range exactly."""
import ast
import sys
from qvh.core import *
from qvh import extract as X

DRIVER = "C20"
PROPS = "QV.Props.C20"


def extract(ck):
    """per-rank body of _calculate_ranges -> QV/Gen/C20.lean"""
    try:
        src = X.read_source(REPO, "quantarhei/core/parallel.py")
        fn = X.find_def(ast.parse(src), "_calculate_ranges")
        args = [a.arg for a in fn.args.args]
        if args != ["config", "start", "stop"]:
            raise X.ExtractError("signature changed: %s" % args)
        se = X.SymExec(["start", "stop", "size", "rank"], {"config.size": "size", "config.rank": "rank"})
        loop = None
        pre, post = [], []
        for s in fn.body:
            if isinstance(s, ast.For):
                if loop is not None:
                    raise X.ExtractError("more than one loop")
                loop = s
            elif loop is None:
                pre.append(s)
            else:
                post.append(s)
        if loop is None or ast.unparse(loop.iter) != "range(config.size)" or ast.unparse(loop.target) != "rank" or loop.orelse:
            raise X.ExtractError("loop over ranks not recognised")
        is_alloc = lambda s: ast.unparse(s).replace(" ", "") == "ranges=[None]*config.size"
        se.run(pre, skip=is_alloc)
        res = []
        def is_store(s):
            if ast.unparse(s).replace(" ", "") == "ranges[rank]=rng":
                res.append(True)
                return True
            return False
        se.run(loop.body, skip=is_store)
        if len(res) != 1 or not isinstance(loop.body[-1], ast.Assign) or not is_store(loop.body[-1]):
            raise X.ExtractError("per-rank result is not stored by `ranges[rank] = rng` at the end of the loop")
        tail = [ast.unparse(s).replace(" ", "") for s in post]
        if tail != ["config.ranges=ranges", "returnranges[config.rank]"]:
            raise X.ExtractError("function tail changed: %s" % tail)
        rng = se.env.get("rng")
        if not isinstance(rng, list) or len(rng) != 2:
            raise X.ExtractError("rng is not a two-element list")
        lo, hi = X.lean_expr(rng[0]), X.lean_expr(rng[1])
    except X.ExtractError as e:
        return bool(ck.tie_fallback("C20", "extraction of _calculate_ranges failed: %s" % e, default=False))
    ck.gen("C20", "namespace QV.Gen.C20\n\n"
           "/-- first index of the block of `rank` (transcribed from `_calculate_ranges`) -/\n"
           "def rangeLo (size rank start stop : Int) : Int :=\n  %s\n\n"
           "/-- one past the last index of the block of `rank` -/\n"
           "def rangeHi (size rank start stop : Int) : Int :=\n  %s\n\nend QV.Gen.C20\n" % (lo, hi))
    return True


class FakeConfig:
    def __init__(self, size, rank):
        self.size, self.rank = size, rank


_CFGS = {}


def impl_ranges(par, size, start, stop):
    # one configuration object per process count, reused across calls (as the Manager's is)
    cfg = _CFGS.setdefault(size, FakeConfig(size, 0))
    par._calculate_ranges(cfg, start, stop)
    return [tuple(r) for r in cfg.ranges]


def oracle_ranges(ck, size, start, stop, blocks, where):
    """the property statement on one set of blocks"""
    inp = {"size": size, "start": start, "stop": stop, "blocks": blocks, "via": where}
    want = list(range(start, stop))
    got = []
    for (a, b) in blocks:
        got.extend(range(a, b))
    if got != want:
        key = "cover:%s" % where
        ck.fail(key, "blocks do not cover exactly range(%d,%d)" % (start, stop), inp, got[:12], want[:12])
        return
    sizes = [max(0, b - a) for a, b in blocks]
    if max(sizes) - min(sizes) > 1:
        ck.fail("balance:%s" % where, "block sizes differ by more than one", inp, sizes, "max-min<=1")
    for (a, b), (c, d) in zip(blocks, blocks[1:]):
        if start <= stop and b != c:
            ck.fail("contiguous:%s" % where, "blocks not contiguous", inp, (b, c), "equal")


def run(ck):
    import numpy
    qr = import_quantarhei()
    from quantarhei.core import parallel as par
    from quantarhei import Manager
    ck.rule = ("(size, start, stop) triples for _calculate_ranges, all ranks; quick: random sample + boundary set, "
               "thorough: every size 1..40 x start,stop in [-20,60]; non-trivial = stop-start not a multiple of size "
               "or start != 0; API cases = block_distributed_range/list/array under a simulated parallel region")
    ck.trusted += ["harness/c20.py correspondence + extractor harness/qvh/extract.py (Python, ours)",
                   "hand model of block_distributed_range/list/array dispatch (QV/Model/C20.lean), validated on generated inputs only",
                   "real MPI reduction (comm.Allreduce) is not executed; only the index partition is checked"]
    ck.assumptions += ["mpi4py absent: a parallel region is simulated by setting size/rank/parallel_level on the Manager's DistributedConfiguration"]
    ok = extract(ck)
    ck.prove(PROPS, extra_modules=["QV.Drive.C20"], also=["QV.Props.C20Regions"])

    # ---- cases ------------------------------------------------------------
    triples = []
    if ck.quick:
        for size in (1, 2, 3, 4, 7, 16):
            for (a, b) in ((0, 0), (0, 1), (0, size - 1), (0, size), (0, size + 1), (5, 15), (-7, 9), (3, 3), (9, 4), (-3, -1)):
                triples.append((size, a, b))
        for _ in range(400):
            triples.append((ck.rng.randint(1, 40), ck.rng.randint(-20, 60), ck.rng.randint(-20, 60)))
    else:
        for size in range(1, 41):
            for a in range(-20, 61):
                for b in range(-20, 61):
                    triples.append((size, a, b))
        ck.exhaustive = True
    lines, impl_out = [], []
    for (size, a, b) in triples:
        try:
            blocks = impl_ranges(par, size, a, b)
        except Exception as e:
            ck.fail("raises:_calculate_ranges", "raised %r" % e, {"size": size, "start": a, "stop": b})
            continue
        ck.case((size, a, b), nontrivial=((b - a) % size != 0 or a != 0),
                sample={"size": size, "start": a, "stop": b, "blocks": blocks} if len(ck.samples) < 3 else None,
                size_bucket=min(size, 8) if size < 8 else "8+", kind="empty" if b <= a else ("short" if b - a < size else "long"))
        oracle_ranges(ck, size, a, b, blocks, "_calculate_ranges")
        lines.append("ranges %d %d %d" % (size, a, b))
        impl_out.append(" ".join("%d:%d" % r for r in blocks))
    # ---- API level: the three helpers under a simulated parallel region -----
    cfg = Manager().get_DistributedConfiguration()
    saved = (cfg.size, cfg.rank, cfg.parallel_level, cfg.parallel_region)
    api_cases = []
    nn = ck.n(60, 600)
    for _ in range(nn):
        size = ck.rng.randint(1, 9)
        kind = ck.rng.choice(["range", "list", "list_idx", "array", "array_idx", "serial_list_idx", "serial_range"])
        ln = ck.rng.randint(0, 25)
        a = ck.rng.randint(-5, 10)
        api_cases.append((kind, size, a, a + ln if kind in ("range", "serial_range") else ln))
    try:
        for (kind, size, a, b) in api_cases:
          try:
            per_rank = []
            cfg.size = size
            cfg.parallel_region = 1
            cfg.parallel_level = 0 if kind.startswith("serial") else 1
            data = list(range(100, 100 + b))
            if kind in ("list_idx", "serial_list_idx") and (size + b) % 2 == 0:
                data = [100 + i // 3 for i in range(b)]       # a list may hold equal items: positions, not values, are handed out
            # arrays with 1-3 axes: rows are distributed, the first column identifies the row
            extra = rng_shape = ()
            if kind in ("array", "array_idx"):
                extra = ck.rng.choice([(), (), (3,), (2, 2), (1,)])
            adata = numpy.array(data, dtype=int).reshape((b,) + (1,) * len(extra)) * numpy.ones((b,) + extra, dtype=int) if b > 0 \
                else numpy.zeros((0,) + extra, dtype=int)
            first = lambda row: int(numpy.asarray(row).flat[0])
            for rank in range(size):
                cfg.rank = rank
                if kind in ("range", "serial_range"):
                    r = list(par.block_distributed_range(a, b))
                elif kind == "list":
                    r = [x - 100 for x in par.block_distributed_list(data)]
                elif kind in ("list_idx", "serial_list_idx"):
                    got = par.block_distributed_list(data, return_index=True)
                    if any(data[i] != v for i, v in got):
                        ck.fail("list_idx:pairs", "return_index pairs inconsistent", {"size": size, "len": b})
                    r = [i for i, v in got]
                elif kind == "array":
                    r = [first(x) - 100 for x in par.block_distributed_array(adata)]
                elif kind == "array_idx":
                    got = par.block_distributed_array(adata, return_index=True)
                    if any(data[i] != first(v) for i, v in got):
                        ck.fail("array_idx:pairs", "return_index pairs inconsistent", {"size": size, "len": b})
                    r = [i for i, v in got]
                per_rank.append(r)
                if len(per_rank) == 1 and extra:
                    ck.dist["array_axes=%d" % (1 + len(extra))] += 1
            lo = a if kind in ("range", "serial_range") else 0
            hi = b
            ck.case((kind, size, a, b), nontrivial=size > 1, kind="api:" + kind,
                    sample={"api": kind, "size": size, "lo": lo, "hi": hi, "per_rank": per_rank} if kind == "array_idx" and len(ck.samples) < 5 else None)
            if not kind.startswith("serial"):
                # oracle: concatenation of what the ranks got == the whole, reduce == serial
                flat = [x for r in per_rank for x in r]
                if flat != list(range(lo, hi)):
                    ck.fail("cover:block_distributed_%s" % kind, "union of the per-rank pieces is not the requested range/list",
                            {"api": kind, "size": size, "lo": lo, "hi": hi}, flat[:15], list(range(lo, hi))[:15])
                szs = [len(r) for r in per_rank]
                if max(szs) - min(szs) > 1:
                    ck.fail("balance:block_distributed_%s" % kind, "per-rank block sizes differ by more than one",
                            {"api": kind, "size": size, "lo": lo, "hi": hi, "array_extra_axes": list(extra)}, szs, "max-min<=1")
                if sum(x * x + 1 for x in flat) != sum(x * x + 1 for x in range(lo, hi)):
                    ck.fail("reduce:block_distributed_%s" % kind, "sum-reduced result differs from serial",
                            {"api": kind, "size": size, "lo": lo, "hi": hi})
            lines.append("api %s %d %d %d" % ("serial" if kind.startswith("serial") else "par", size, lo, hi))
            impl_out.append(" | ".join(" ".join(str(x) for x in r) for r in per_rank))
          except Exception as e:
            ck.fail("raises:block_distributed_%s" % kind, "helper raised %r" % (e,), {"api": kind, "size": size, "start_or_0": a, "stop_or_len": b})
    finally:
        cfg.size, cfg.rank, cfg.parallel_level, cfg.parallel_region = saved
    # ---- DistributedConfiguration.allreduce / reduce themselves (their body, not a replacement) with a stand-in communicator: the
    # accumulator of every simulated process holds the serial sum afterwards, whatever the memory layout of the caller's array ----
    try:
        import types as _types
        from quantarhei.core import parallel as par_
        had_mpi = sys.modules.get("mpi4py")
        fake = _types.ModuleType("mpi4py"); fake.MPI = _types.SimpleNamespace(SUM="sum")
        sys.modules["mpi4py"] = fake
        saved_d2 = dict(cfg.__dict__)
        try:
            layouts = (("C-ordered", lambda sh: numpy.zeros(sh)), ("Fortran-ordered", lambda sh: numpy.zeros(sh, order="F")),
                       ("transposed view", lambda sh: numpy.zeros(sh[::-1]).T), ("last-axis slice of a bigger array", lambda sh: numpy.zeros(sh + (3,))[..., 1]),
                       ("first-axis slice", lambda sh: numpy.zeros((2,) + sh)[1]))
            for P in (2, 3, 5):
                for lname, mk in layouts:
                    for sh in ((3, 4), (2, 3, 2, 3), (5,), (4, 3, 2)):
                        lo_, hi_ = ck.rng.randint(-3, 3), ck.rng.randint(4, 11)
                        term = lambda i_: numpy.arange(int(numpy.prod(sh)), dtype=float).reshape(sh) * (i_ * i_ + 1.0) + i_
                        serial = sum(term(i_) for i_ in range(lo_, hi_))
                        inpL = {"processes": P, "layout": lname, "shape": list(sh), "range": [lo_, hi_]}
                        ck.case(("allreduce", P, lname, sh), nontrivial=True, kind="allreduce-layout", api="allreduce", size=P)
                        total = None
                        ok_ = True
                        for pas in (0, 1):
                            seen = []
                            for rank in range(P):
                                class Comm:
                                    def Allreduce(self_, A, B, op=None):
                                        seen.append(numpy.array(A, dtype=float).copy())
                                        B[...] = total if total is not None else A
                                    def Reduce(self_, A, B, op=None, root=0):
                                        seen.append(numpy.array(A, dtype=float).copy())
                                        B[...] = total if total is not None else A
                                cfg.have_mpi = True; cfg.size = P; cfg.rank = rank; cfg.parallel_level = 1; cfg.parallel_region = 1
                                cfg.comm = Comm()
                                acc = mk(sh)
                                for i_ in par_.block_distributed_range(lo_, hi_):
                                    acc += term(i_)
                                try:
                                    cfg.allreduce(acc)
                                    red = cfg.reduce(mk(sh) + sum([term(i_) for i_ in par_.block_distributed_range(lo_, hi_)], numpy.zeros(sh)))
                                except Exception as e:
                                    ck.fail("raises:allreduce", "allreduce/reduce raised %r" % (e,), inpL); ok_ = False
                                    break
                                if pas == 1:
                                    dv = float(numpy.abs(acc - serial).max())
                                    dv2 = float(numpy.abs(numpy.asarray(red) - serial).max())
                                    if dv > 1e-9 * float(numpy.abs(serial).max()):
                                        ck.fail("reduce:allreduce:layout", "after allreduce the accumulator of process %d is not the serial sum" % rank,
                                                dict(inpL, rank=rank), dv)
                                    if dv2 > 1e-9 * float(numpy.abs(serial).max()):
                                        ck.fail("reduce:reduce:layout", "the array returned by reduce on process %d is not the serial sum" % rank,
                                                dict(inpL, rank=rank), dv2)
                            if not ok_:
                                break
                            # two calls per process (allreduce, reduce): totals of the first kind
                            total = sum(seen[0::2])
        finally:
            cfg.__dict__.clear(); cfg.__dict__.update(saved_d2)
            if had_mpi is None:
                sys.modules.pop("mpi4py", None)
            else:
                sys.modules["mpi4py"] = had_mpi
    except Exception as e:
        ck.fail("raises:allreduce-setup", "setting up the stand-in communicator raised %r" % (e,), {})
    # ---- nested parallel regions (library routines open their own region inside the user's): after the inner one is closed the outer region
    # distributes as before, and the level is back to zero at the end ------------------------------------------------------------------
    saved_d = dict(cfg.__dict__)
    try:
        class _Comm:
            def Barrier(self_):
                pass
        for size in (2, 3, 5):
            for depth_in in (1, 2):
                blocks = []
                levels = []
                for rank in range(size):
                    cfg.__dict__.clear(); cfg.__dict__.update(saved_d)
                    cfg.have_mpi = True; cfg.size = size; cfg.rank = rank; cfg.comm = _Comm(); cfg.parallel_level = 0; cfg.parallel_region = 0
                    par.start_parallel_region()
                    first = list(par.block_distributed_range(0, 11))
                    for _ in range(depth_in):
                        par.start_parallel_region()
                    inner = list(par.block_distributed_range(0, 4))            # nested: not distributed again
                    for _ in range(depth_in):
                        par.close_parallel_region()
                    levels.append(int(cfg.parallel_level))
                    blocks.append(list(par.block_distributed_range(0, 11)))
                    par.close_parallel_region()
                    levels.append(int(cfg.parallel_level))
                    if inner != list(range(4)) or first != blocks[-1]:
                        ck.fail("nested-regions:blocks", "a nested region is distributed again / the outer region hands out another block after a nested region was closed",
                                {"size": size, "rank": rank, "nested_depth": depth_in}, [first, inner, blocks[-1]])
                ck.case(("nested-regions", size, depth_in), nontrivial=True, kind="api:nested-regions", size=size)
                flat = [x for b in blocks for x in b]
                if flat != list(range(11)) or set(levels) != {0, 1} or levels[0::2] != [1] * size:
                    ck.fail("nested-regions:level", "after a nested parallel region was closed the outer region no longer distributes its range over the processes "
                            "(or the nesting level is not back where it was)", {"size": size, "nested_depth": depth_in}, [blocks, levels], [list(range(11)), "levels 1 then 0"])
        # random properly nested programs of regions, with and without a communicator: level, region count and whether the range helper
        # shares the work after every start / finish, compared with the Lean model (QV/Model/C20Regions.lean)
        def nested_prog(depth):
            out = []
            for _ in range(ck.rng.randint(1, 2)):
                out.append("s")
                if depth < 3 and ck.rng.random() < 0.6:
                    out += nested_prog(depth + 1)
                out.append("f")
            return out
        for hreg in range(ck.n(12, 120)):
            active = hreg % 3 != 2
            prog = nested_prog(0)
            lvl0 = 0 if active else ck.rng.choice([0, 1, 2])
            cfg.__dict__.clear(); cfg.__dict__.update(saved_d)
            cfg.have_mpi = active; cfg.size = 3; cfg.rank = 0; cfg.comm = _Comm(); cfg.parallel_level = lvl0; cfg.parallel_region = 0
            seen = []
            for o_ in prog:
                par.start_parallel_region() if o_ == "s" else par.close_parallel_region()
                # (outside every region the helpers are not to be called: the flag is then the level rule itself)
                shares = (len(list(par.block_distributed_range(0, 5))) < 5) if cfg.parallel_region > 0 else (int(cfg.parallel_level) == 1)
                seen.append("%d:%d:%d" % (int(cfg.parallel_level), int(cfg.parallel_region), 1 if shares else 0))
            ck.case(("regions", active, lvl0, tuple(prog)), nontrivial=("s s" in " ".join(prog)), kind="api:nested-regions", size=3)
            lines.append("regions %d %d 0 %s" % (1 if active else 0, lvl0, " ".join(prog)))
            impl_out.append(" ".join(seen))
            if (int(cfg.parallel_level), int(cfg.parallel_region)) != (lvl0, 0):
                ck.fail("nested-regions:level", "a properly nested program of parallel regions does not bring the nesting level / region count back",
                        {"program": prog, "communicator": active, "level_at_start": lvl0}, [int(cfg.parallel_level), int(cfg.parallel_region)], [lvl0, 0])
    except Exception as e:
        ck.fail("raises:nested-regions", "nested parallel regions raised %r" % (e,), {})
    finally:
        cfg.__dict__.clear(); cfg.__dict__.update(saved_d)
    # ---- the library's own distributed loops: every simulated process reproduces the serial result -----------------------
    # (mpi4py is absent: the processes are run one after the other; the buffers of the k-th reduction are collected in pass k
    # and handed to all processes in pass k+1, until no reduction is left open)
    try:
        from quantarhei import Molecule, Aggregate, TimeAxis, CorrelationFunction, energy_units
        from quantarhei.qm import RedfieldRelaxationTensor, RedfieldRateMatrix
        rng = ck.rng

        def emulate(calc, P):
            totals = []
            while True:
                captured, results, tables = [], [], []
                for rank in range(P):
                    calls, mine = [0], []

                    def allreduce(A, operation="sum", calls=calls, mine=mine):
                        i = calls[0]; calls[0] += 1
                        tables.append([tuple(b) for b in cfg.ranges])
                        if i < len(totals):
                            A[...] = totals[i]
                        elif i == len(totals):
                            mine.append(A.copy())
                    saved_d = dict(cfg.__dict__)
                    cfg.have_mpi = False; cfg.size = P; cfg.rank = rank; cfg.parallel_level = 1
                    cfg.allreduce = allreduce
                    reg0 = int(cfg.parallel_region)
                    try:
                        results.append(calc())
                        if int(cfg.parallel_region) != reg0 or int(cfg.parallel_level) != 1:
                            ck.fail("regions:left-open", "a library routine returned with its parallel region still open (region count %d -> %d): every later loop "
                                    "of the run is then entered one level too deep and no longer shares its range" % (reg0, int(cfg.parallel_region)),
                                    {"processes": P, "rank": rank}, [int(cfg.parallel_region), int(cfg.parallel_level)], [reg0, 1])
                    finally:
                        cfg.__dict__.clear(); cfg.__dict__.update(saved_d)
                    captured.append(mine)
                if all(len(m_) == 0 for m_ in captured):
                    return results, tables
                totals.append(sum(m_[0] for m_ in captured))

        # the rate kernel itself on bath components whose contributions have either sign (a numerically transformed spectral density
        # can be slightly negative at single frequencies): partial sums of one process may be negative where the total is not
        from quantarhei.implementations.python.redfieldrates import ssRedfieldRateMatrix
        for h in range(ck.n(3, 12)):
            Na, Nk = rng.choice([3, 4]), rng.choice([4, 5, 7])
            if h == 0:
                Na = 1                     # a single level: nothing to transfer, but the routine is still a parallel region
            rs_ = numpy.random.RandomState(rng.randint(0, 10 ** 6))
            KI = 0.2 + rs_.rand(Nk, Na, Na); KI = 0.5 * (KI + numpy.transpose(KI, (0, 2, 1)))
            cc = 1.0e-3 * (0.5 + rs_.rand(Nk, Na, Na))
            for k_ in range(1 + h % 3):
                if Na > 1:
                    cc[k_, 0, 1] = -4.0e-7 / (KI[k_, 0, 1] * KI[k_, 1, 0])

            def calc(Na=Na, Nk=Nk, KI=KI, cc=cc):
                RR = numpy.zeros((Na, Na), dtype=numpy.float64)
                we = numpy.zeros(2, dtype=numpy.int8)
                ssRedfieldRateMatrix(Na, Nk, KI, cc, 1.0e-6, we, RR)
                return numpy.concatenate([RR.ravel(), numpy.array(we, dtype=float)])
            serial = calc()
            for P in (2, 3, Nk):
                inp = {"distributed": "ssRedfieldRateMatrix (rate kernel)", "states": Na, "bath components": Nk, "processes": P,
                       "components with a slightly negative contribution": 1 + h % 3}
                ck.case(("dist-kernel", Na, Nk, P, h), nontrivial=True, kind="distributed-use", api="ssRedfieldRateMatrix", size=min(P, 8))
                try:
                    results, tables = emulate(calc, P)
                except Exception as e:
                    ck.fail("raises:distributed:ssRedfieldRateMatrix", "simulated distributed run raised %r" % (e,), inp)
                    continue
                worst = max(float(numpy.abs(r_ - serial).max()) for r_ in results)
                if worst > 1e-12 * max(1.0, float(numpy.abs(serial).max())):
                    ck.fail("reduce:distributed:ssRedfieldRateMatrix", "sum-reduced rates (or warning flags) of the distributed loop differ from the serial result",
                            inp, worst)
        for h in range(ck.n(3, 9)):
            nsite = rng.choice([2, 3, 4]) if h else 1        # one site: a single bath component, fewer components than processes
            tat = TimeAxis(0.0, 200, 2.0)
            with energy_units("1/cm"):
                ms = []
                for k_ in range(nsite):
                    m_ = Molecule([0.0, 12000.0 + rng.randint(-200, 200)])
                    m_.set_transition_environment((0, 1), CorrelationFunction(tat, dict(ftype="OverdampedBrownian", reorg=rng.choice([20.0, 35.0]),
                                                                                       cortime=rng.choice([60.0, 100.0]), T=300, matsubara=20)))
                    ms.append(m_)
                ag = Aggregate(ms)
                for i_ in range(nsite):
                    for j_ in range(i_ + 1, nsite):
                        ag.set_resonance_coupling(i_, j_, rng.choice([50.0, -80.0, 120.0]))
            ag.build()
            hm, sb = ag.get_Hamiltonian(), ag.get_SystemBathInteraction()
            for what, calc in (("RedfieldRelaxationTensor", lambda: numpy.array(RedfieldRelaxationTensor(hm, sb).data).copy()),
                               ("RedfieldRelaxationTensor(as_operators -> tensor)", lambda: (lambda R: (R.convert_2_tensor(), numpy.array(R.data).copy())[1])(RedfieldRelaxationTensor(hm, sb, as_operators=True))),
                               ("RedfieldRelaxationTensor(as_operators: K, Lambda, Lambda^+)", lambda: (lambda R: numpy.concatenate(
                                   [numpy.array(R.Km, dtype=complex).ravel(), numpy.array(R.Lm, dtype=complex).ravel(),
                                    numpy.array(R.Ld, dtype=complex).ravel()]))(RedfieldRelaxationTensor(hm, sb, as_operators=True))),
                               ("RedfieldRateMatrix", lambda: numpy.array(RedfieldRateMatrix(hm, sb).data).copy())):
                serial = calc()
                for P in (2, 3, nsite + 2):
                    inp = {"distributed": what, "sites": nsite, "processes": P}
                    ck.case(("dist", what, nsite, P, h), nontrivial=True, kind="distributed-use", api=what.split("(")[0], size=min(P, 8))
                    try:
                        results, tables = emulate(calc, P)
                    except Exception as e:
                        ck.fail("raises:distributed:%s" % what.split("(")[0], "simulated distributed run raised %r" % (e,), inp)
                        continue
                    worst = max(float(numpy.abs(r_ - serial).max()) for r_ in results)
                    if worst > 1e-12 * max(1.0, float(numpy.abs(serial).max())):
                        ck.fail("reduce:distributed:%s" % what.split("(")[0], "sum-reduced result of the distributed loop differs from the serial result",
                                inp, worst)
                    for tb in tables:
                        nb_ = tb[-1][1] - tb[0][0] if tb else 0
                        oracle_ranges(ck, P, tb[0][0], tb[-1][1], tb, "distributed:" + what.split("(")[0])
    except Exception as e:
        ck.fail("raises:distributed-setup", "setting up the distributed-use cases raised %r" % (e,), {})
    # ---- model ------------------------------------------------------------
    if ok:
        model_out = ck.drive(DRIVER, lines)
        if model_out is not None:
            for l, i, m in zip(lines, impl_out, model_out):
                ck.traces += 1
                if i.strip() != m.strip():
                    ck.disagree("ranges differ", l, i, m)
    return ck.finish()
