"""Import / re-test seeded breaking changes.

  seedtest.py import <Cxx> <src_dir>   copy patchK.diff/demoK.py/metaK.json from a sub-agent's output
                                       directory to seeded/<Cxx>-<k>/ after confirming: applies cleanly,
                                       demo fails with it and passes without it.
  seedtest.py run [<seed-id> ...]      apply each seeded patch to /repo, run the property's quick check,
                                       record whether it reports the violation, undo the patch.
The repository is always restored with `git checkout -- .` (tracked files only).
"""
import os, sys, json, subprocess, shutil, glob, tempfile, time
ROOT = os.path.dirname(os.path.dirname(os.path.abspath(__file__)))
REPO = os.environ.get("VERIF_REPO", "/repo")   # a scratch worktree can stand in while /repo is busy


def sh(cmd, cwd=None, env=None, timeout=3000):
    p = subprocess.run(cmd, cwd=cwd, env=env, capture_output=True, text=True, timeout=timeout, shell=isinstance(cmd, str))
    return p.returncode, p.stdout + p.stderr


def clean():
    rc, out = sh(["git", "-C", REPO, "status", "--porcelain", "--untracked-files=no"])
    return out.strip() == ""


def demo(path):
    home = tempfile.mkdtemp(prefix="seed-home-")
    env = dict(os.environ, HOME=home, PYTHONPATH=REPO)
    rc, out = sh(["/venv/bin/python", "-W", "ignore", path], cwd=REPO, env=env, timeout=1800)
    shutil.rmtree(home, True)
    return rc, out[-600:]


def do_import(pid, src):
    for k in range(1, 18):
        pf = os.path.join(src, "patch%d.diff" % k)
        if not os.path.exists(pf):
            continue
        sid = "%s-%d" % (pid, k)
        dst = os.path.join(ROOT, "seeded", sid)
        if os.path.exists(os.path.join(dst, "patch.diff")) and "--force" not in sys.argv:
            continue
        assert clean(), "/repo has uncommitted changes"
        rc, out = sh(["git", "-C", REPO, "apply", "--check", pf])
        if rc != 0:
            print(sid, "does not apply:", out[-300:]); continue
        d0 = demo(os.path.join(src, "demo%d.py" % k))
        sh(["git", "-C", REPO, "apply", pf])
        try:
            d1 = demo(os.path.join(src, "demo%d.py" % k))
        finally:
            sh(["git", "-C", REPO, "checkout", "--", "."])
        if d0[0] != 0 or d1[0] == 0:
            print(sid, "REJECTED: demo without patch rc=%d, with patch rc=%d" % (d0[0], d1[0]), d0[1][-200:], d1[1][-200:])
            continue
        os.makedirs(dst, exist_ok=True)
        shutil.copy(pf, os.path.join(dst, "patch.diff"))
        shutil.copy(os.path.join(src, "demo%d.py" % k), os.path.join(dst, "demo.py"))
        meta = {}
        try:
            meta = json.load(open(os.path.join(src, "meta%d.json" % k)))
        except Exception:
            pass
        head = sh(["git", "-C", REPO, "rev-parse", "--short", "HEAD"])[1].strip()
        meta.update({"property": pid, "seed_id": sid, "repo_head_when_confirmed": head,
                     "confirmed": {"demo_without_patch_rc": d0[0], "demo_with_patch_rc": d1[0], "demo_with_patch_tail": d1[1][-300:],
                                   "suite": "sub-agent ran the pinned suite with the patch (148 passed, same 10 known failures); see tests_run"}})
        json.dump(meta, open(os.path.join(dst, "meta.json"), "w"), indent=1)
        print(sid, "imported")


def do_run(ids):
    dirs = sorted(glob.glob(os.path.join(ROOT, "seeded", "*-*")))
    res = {}
    for d in dirs:
        sid = os.path.basename(d)
        if ids and sid not in ids and sid.split("-")[0] not in ids:
            continue
        meta = json.load(open(os.path.join(d, "meta.json")))
        pid = meta["property"]
        assert clean(), "/repo has uncommitted changes"
        rc, out = sh(["git", "-C", REPO, "apply", os.path.join(d, "patch.diff")])
        if rc != 0:
            print(sid, "patch no longer applies"); res[sid] = "does-not-apply"; continue
        t0 = time.time()
        try:
            rc, out = sh(["./check", pid, "--tier", "quick"], cwd=ROOT)
        finally:
            sh(["git", "-C", REPO, "checkout", "--", "."])
        viol = [l for l in out.split("\n") if l.startswith("VIOLATION")]
        det = (rc == 1 and bool(viol))
        meta["check_result"] = {"cmd": "./check %s --tier quick" % pid, "exit": rc, "detected": det,
                                "line": viol[0] if viol else out.strip().split("\n")[-1][-200:], "wall_s": round(time.time() - t0, 1)}
        # what noticed it: broken obligations / ties, correspondence differences, oracle keys (from the replay file)
        by = {}
        try:
            rp = viol[0].split("replay=")[1].split()[0]
            r = json.load(open(os.path.join(ROOT, rp)))
            keys = {}
            for f in r.get("failures", []):
                keys[f["key"]] = keys.get(f["key"], 0) + 1
            by = {"oracle_keys": keys, "broken_obligations": (r.get("broken_obligations") or r.get("theorems_or_ties") or [])[:6],
                  "tie_broken": (r.get("tie_broken") or [])[:3],
                  "correspondence_differences": sorted({d.get("what", "?") for d in (r.get("disagreements") or r.get("correspondence_differences") or [])})[:6]}
        except Exception as e:
            by = {"error": repr(e)}
        meta["detected_by"] = by
        json.dump(meta, open(os.path.join(d, "meta.json"), "w"), indent=1)
        res[sid] = "DETECTED" if det else "MISSED (exit %d)" % rc
        print(sid, res[sid], "|", meta["check_result"]["line"][:150])
    return res


if __name__ == "__main__":
    if sys.argv[1] == "import":
        do_import(sys.argv[2], sys.argv[3])
    else:
        do_run(sys.argv[2:])
