"""C08 - evolution superoperator is an identity-started semigroup matching propagation."""
from qvh.core import *
from qvh import systems as SY

DRIVER = "Prop"
PROPS = "QV.Props.C08"


def run(ck):
    import numpy, scipy.linalg
    qr = import_quantarhei()
    from quantarhei import Hamiltonian, TimeAxis, ReducedDensityMatrix
    from quantarhei.qm import (ReducedDensityMatrixPropagator, LindbladForm, SystemBathInteraction, Operator, EvolutionSuperOperator)
    rng = ck.rng
    ck.rule = ("random Hermitian Hamiltonians (dims 2-3) with Lindblad-form tensors, grids of 3-8 points with steps 0.5..10, dense-step settings "
               "1,2,3,5,7,29, both calculation modes (all / jit with save and without, every number of incremental steps up to the grid): the whole "
               "superoperator compared with the rational model (1e-9); oracle: identity at t=0, U(t_i+t_j)=U(t_i)U(t_j), trace and Hermiticity "
               "preservation on random operators, apply() vs direct propagation with the same internal step, step-by-step vs all at once, "
               "refinement vs truncation bound; non-trivial = coupled Hamiltonian and a non-zero relaxation rate")
    ck.trusted += ["harness/c08.py; model QV/Model/Prop.lean (elemStep, denseStep, evolAll, evolJit) validated on generated inputs",
                   "scipy.linalg.expm / spectral norm of the dense generator for the refinement-bound oracle"]
    ck.prove(PROPS, extra_modules=["QV.Drive.Prop"], also=["QV.Props.C08Apply", "QV.Props.C08Dephasing", "QV.Props.C08Basis"])
    lines, impl, tol = [], [], []
    cv = lambda a: SY.cvals(numpy, a)

    def emit(l, arr, t=1e-9):
        lines.append(l); impl.append(" | ".join(cv(x) for x in arr)); tol.append(t)

    # boundary set: (step, Ndense) pairs for which step/(step/Ndense) is not exactly Ndense in floating point
    boundary = [(10.0, 29), (50.0, 11), (10.0, 53), (1.0, 93)] if not ck.quick else [(10.0, 29), (50.0, 11)]
    for h in range(ck.n(14, 200)):
        n = rng.choice([2, 2, 3])
        if h < len(boundary):
            n = 2
        H = SY.rand_herm(numpy, rng, n, scale=16.0)
        Ks, rates = SY.lindblad_ops(numpy, rng, n)
        sbi = SystemBathInteraction([Operator(data=K) for K in Ks], rates=tuple(r / 4.0 for r in rates))
        rates = [r / 4.0 for r in rates]
        ham = Hamiltonian(data=H.copy())
        LF = LindbladForm(ham, sbi, as_operators=False)
        Nt = rng.randint(3, 8)
        step = rng.choice([0.5, 1.0, 2.0, 10.0])
        Nd = rng.choice([1, 2, 3, 5, 7, 29]) if n == 2 else rng.choice([1, 2, 3, 5])
        if h < len(boundary):
            step, Nd = boundary[h]
            Nt = 3
            H = H / 8.0 if step > 5 else H
            ham = Hamiltonian(data=H.copy())
            LF = LindbladForm(ham, sbi, as_operators=False)
        t0_ = 0.0 if h % 3 else (step * 3, -step * 2, 7.5)[(h // 3) % 3]        # grids that do not start at zero as well
        time = TimeAxis(t0_, Nt, step)
        inp = {"n": n, "H": H.tolist(), "K": [k.tolist() for k in Ks], "rates": rates, "Nt": Nt, "step": step, "Ndense": Nd, "axis_start": t0_}
        try:
            U = EvolutionSuperOperator(time, ham, LF)
            U.set_dense_dt(Nd)
            U.calculate()
            data = numpy.array(U.data)
        except Exception as e:
            ck.fail("raises:calculate", "EvolutionSuperOperator.calculate raised %r" % (e,), inp)
            continue
        R = numpy.array(LF.data)
        head = "%d 4 %d %d %s 0" % (n, Nd, Nt, cfrac(step))
        emit("evolt %s %s %s" % (head, cv(H), cv(R)), data)
        coupled = numpy.abs(H - numpy.diag(numpy.diag(H))).max() > 0
        ck.case(("all", n, Nt, step, Nd, H.tobytes(), tuple(rates)), nontrivial=bool(coupled), kind="all", Ndense=Nd, Nt=Nt, dim=n,
                sample=inp if h < 1 else None)
        nn = n * n
        Um = data.reshape(Nt, nn, nn)
        sc = max(1.0, float(numpy.abs(Um).max()))
        # identity, semigroup
        if numpy.abs(Um[0] - numpy.eye(nn)).max() > 1e-12:
            ck.fail("identity", "U(0) is not the identity", inp, float(numpy.abs(Um[0] - numpy.eye(nn)).max()))
        worst = 0.0
        for i in range(Nt):
            for j in range(Nt - i):
                worst = max(worst, float(numpy.abs(Um[i] @ Um[j] - Um[i + j]).max()))
        if worst > 1e-9 * sc * sc:
            ck.fail("semigroup", "U(t_i+t_j) != U(t_i)U(t_j) on the grid", inp, worst)
        # trace / Hermiticity preservation on a random operator, apply vs direct propagation
        A = numpy.array([[rng.randint(-4, 4) / 4.0 + 1j * rng.randint(-4, 4) / 4.0 for _ in range(n)] for _ in range(n)])
        for i in range(Nt):
            B = numpy.tensordot(data[i], A)
            if abs(numpy.trace(B) - numpy.trace(A)) > 1e-9 * sc:
                ck.fail("trace", "U(t) does not preserve the trace", dict(inp, i=i), complex(numpy.trace(B)), complex(numpy.trace(A)))
                break
            Bd = numpy.tensordot(data[i], A.conj().T)
            if numpy.abs(Bd - B.conj().T).max() > 1e-9 * sc:
                ck.fail("herm", "U(t) does not commute with Hermitian conjugation", dict(inp, i=i), float(numpy.abs(Bd - B.conj().T).max()))
                break
        rho0, _ = SY.rand_state(numpy, rng, n)
        prop = ReducedDensityMatrixPropagator(time, Hamiltonian(data=H.copy()), RTensor=LindbladForm(Hamiltonian(data=H.copy()), sbi, as_operators=False))
        direct = numpy.array(prop.propagate(ReducedDensityMatrix(data=rho0.copy()), Nref=Nd).data)
        via = numpy.array([numpy.array(U.apply(time.data[i], ReducedDensityMatrix(data=rho0.copy())).data) for i in range(Nt)])
        if numpy.abs(direct - via).max() > 1e-9 * sc:
            ck.fail("apply-vs-propagate", "U applied to a state differs from direct propagation with the same internal step", inp,
                    float(numpy.abs(direct - via).max()))
        for i_ in range(Nt):
            try:
                ati = numpy.array(U.at(float(time.data[i_])).data).reshape(nn, nn)
                if numpy.abs(ati - Um[i_]).max() > 1e-12 * sc:
                    ck.fail("at:grid-point", "U.at(t_i) is not the stored U(t_i)", dict(inp, i=i_), float(numpy.abs(ati - Um[i_]).max()))
                    break
            except Exception as e:
                ck.fail("raises:at", "U.at(t_i) at a grid point raised %r" % (e,), dict(inp, i=i_))
                break
        # the entry points of apply() that take several times at once: a list / tuple / array / TimeAxis of grid times (also spaced by a
        # multiple of the step, also not starting at zero), the superoperator's own axis, "all"
        forms = [("own axis", time, list(range(Nt))), ("'all'", "all", list(range(Nt)))]
        if Nt >= 3:
            i0 = rng.randint(0, 1)
            sel2 = list(range(i0, Nt, 2))
            if len(sel2) >= 2:
                forms.append(("list spaced by two steps", [float(time.data[i]) for i in sel2], sel2))
            sel1 = list(range(1, Nt))
            forms.append(("tuple", tuple(float(time.data[i]) for i in sel1), sel1))
            forms.append(("array", numpy.array([float(time.data[i]) for i in sel1]), sel1))
            forms.append(("TimeAxis", TimeAxis(float(time.data[i0]), len(sel2), 2 * step), sel2) if len(sel2) >= 2 else ("TimeAxis", TimeAxis(float(time.data[1]), Nt - 1, step), sel1))
        for fname, targ, sel in forms:
            try:
                many = numpy.array(U.apply(targ, ReducedDensityMatrix(data=rho0.copy())).data)
            except Exception as e:
                ck.fail("raises:apply:many-times", "apply(%s, rho) raised %r" % (fname, e), dict(inp, times=fname))
                continue
            if many.shape[0] != len(sel) or numpy.abs(many - direct[sel]).max() > 1e-9 * sc:
                ck.fail("apply-vs-propagate:many-times", "U applied at several times at once (%s) differs from direct propagation at those times" % fname,
                        dict(inp, times=fname, indices=sel), float(numpy.abs(many - direct[sel]).max()) if many.shape[0] == len(sel) else list(many.shape))
        # the same clauses with U presented in another basis (all-times storage is transformed slice by slice)
        try:
            from quantarhei import eigenbasis_of
            rho_obj = ReducedDensityMatrix(data=rho0.copy())
            ham_p = Hamiltonian(data=H.copy())
            prop_b = ReducedDensityMatrixPropagator(time, ham_p, RTensor=LindbladForm(ham_p, sbi, as_operators=False))
            evol = prop_b.propagate(rho_obj, Nref=Nd)
            with eigenbasis_of(ham):
                Ue = numpy.array(U.data).copy().reshape(Nt, nn, nn)
                via_e = numpy.array([numpy.array(U.apply(time.data[i], rho_obj).data) for i in range(Nt)])
            with eigenbasis_of(ham_p):
                dir_e = numpy.array(evol.data).copy()
            back = numpy.array(U.data).reshape(Nt, nn, nn)
            bad = []
            # U.at(t) handed out inside a context and kept until the context is left: it is the slice, and U is restored
            kt = rng.randint(1, Nt - 1)
            with eigenbasis_of(ham):
                held = U.at(time.data[kt])
                he_in = numpy.array(held.data).copy().reshape(nn, nn)
                par_in = numpy.array(U.data).copy().reshape(Nt, nn, nn)[kt]
            if numpy.abs(he_in - Ue[kt]).max() > 1e-9 * sc or numpy.abs(par_in - Ue[kt]).max() > 1e-9 * sc:
                bad.append(("at(t) inside", float(max(numpy.abs(he_in - Ue[kt]).max(), numpy.abs(par_in - Ue[kt]).max()))))
            back2 = numpy.array(U.data).reshape(Nt, nn, nn)
            if numpy.abs(back2 - Um).max() > 1e-9 * sc:
                bad.append(("restore after at(t)", float(numpy.abs(back2 - Um).max())))
            if numpy.abs(numpy.array(held.data).reshape(nn, nn) - Um[kt]).max() > 1e-9 * sc:
                bad.append(("at(t) after the context", float(numpy.abs(numpy.array(held.data).reshape(nn, nn) - Um[kt]).max())))
            # ... and handed out before the context, read inside together with U
            held0 = U.at(time.data[kt])
            with eigenbasis_of(ham):
                h_in = numpy.array(held0.data).copy().reshape(nn, nn)
                p_in = numpy.array(U.data).copy().reshape(Nt, nn, nn)[kt]
            if numpy.abs(h_in - Ue[kt]).max() > 1e-9 * sc or numpy.abs(p_in - Ue[kt]).max() > 1e-9 * sc:
                bad.append(("at(t) outside, both read inside", float(max(numpy.abs(h_in - Ue[kt]).max(), numpy.abs(p_in - Ue[kt]).max()))))
            if numpy.abs(numpy.array(U.data).reshape(Nt, nn, nn) - Um).max() > 1e-9 * sc:
                bad.append(("restore after reading an outside at(t)", float(numpy.abs(numpy.array(U.data).reshape(Nt, nn, nn) - Um).max())))
            if numpy.abs(Ue[0] - numpy.eye(nn)).max() > 1e-9:
                bad.append(("identity", float(numpy.abs(Ue[0] - numpy.eye(nn)).max())))
            w2 = max(float(numpy.abs(Ue[i] @ Ue[j] - Ue[i + j]).max()) for i in range(Nt) for j in range(Nt - i))
            if w2 > 1e-9 * sc * sc:
                bad.append(("semigroup", w2))
            if numpy.abs(via_e - dir_e).max() > 1e-9 * sc:
                bad.append(("apply-vs-propagate", float(numpy.abs(via_e - dir_e).max())))
            if numpy.abs(back - Um).max() > 1e-9 * sc:
                bad.append(("restore", float(numpy.abs(back - Um).max())))
            for k_, v_ in bad:
                ck.fail("other-basis:" + k_, "with U read inside eigenbasis_of(H): %s clause fails" % k_, inp, v_)
            ck.case(("other-basis", n, Nt, step, Nd, H.tobytes()), nontrivial=bool(coupled) and n >= 3, kind="other-basis", dim=n)
        except Exception as e:
            ck.fail("raises:other-basis", "reading / applying U inside a basis context raised %r" % (e,), inp)
        # step by step (jit), with and without saving
        k = rng.randint(1, Nt - 1)
        # second pass: a time axis with as many points as the system has states (array shapes coincide), all its steps
        kfull = Nt - 1
        cstep = rng.randrange(kfull)
        for save, jtime, k, inctx in ((False, time, k, None), (True, time, k, None), (False, TimeAxis(0.0, n, step), n - 1, None),
                                      (True, TimeAxis(0.0, n, step), n - 1, None),
                                      # one of the incremental steps is taken inside a basis context
                                      (False, time, kfull, cstep), (True, time, kfull, cstep)):
            try:
                J = EvolutionSuperOperator(jtime, ham, LF, mode="jit")
                J.set_dense_dt(Nd)
                for q_ in range(k):
                    if q_ == 1 and save and inctx is None:
                        # a call the object refuses (calculate() belongs to the other mode), caught by the caller, between two steps
                        try:
                            J.calculate()
                        except Exception:
                            pass
                    if inctx is not None and q_ == inctx:
                        from quantarhei import eigenbasis_of
                        with eigenbasis_of(ham):
                            J.calculate_next(save=save)
                    else:
                        J.calculate_next(save=save)
                jd = numpy.array(J.data[k]) if save else numpy.array(J.data)
            except Exception as e:
                ck.fail("raises:calculate_next", "calculate_next raised %r" % (e,), dict(inp, k=k, save=save))
                continue
            emit("jitt %d 4 %d %d %s 0 %s %s" % (n, Nd, k, cfrac(step), cv(H), cv(R)), [jd])
            ck.case(("jit", n, jtime.length, step, Nd, k, save, inctx, H.tobytes()), nontrivial=k >= 2, kind="jit", steps=k, save=save,
                    axis_len_eq_dim=(jtime.length == n), step_in_context=(inctx is not None))
            if numpy.abs(jd - data[k]).max() > 1e-9 * sc:
                ck.fail("jit-vs-all" + (":step-in-context" if inctx is not None else ""), "step-by-step calculation differs from calculating all at once", dict(inp, k=k, save=save, jit_axis_length=jtime.length, step_inside_context=inctx),
                        float(numpy.abs(jd - data[k]).max()))
        # refinement: Nd vs 2Nd within the sum of the truncation bounds
        Lv = SY.gksl_superop(numpy, H, Ks, rates)
        U2 = EvolutionSuperOperator(time, ham, LF)
        U2.set_dense_dt(2 * Nd)
        U2.calculate()
        d2 = numpy.array(U2.data).reshape(Nt, nn, nn)
        # a history on ONE object: the internal step is changed after a calculation and everything is calculated again
        try:
            U.set_dense_dt(2 * Nd)
            U.calculate()
            d2s = numpy.array(U.data).reshape(Nt, nn, nn)
            ck.case(("recalc", n, Nt, step, Nd, H.tobytes()), nontrivial=bool(coupled), kind="recalculate-after-set_dense_dt", Ndense=2 * Nd)
            if numpy.abs(d2s - d2).max() > 1e-9 * sc:
                ck.fail("recalculate:set_dense_dt", "calculate() after set_dense_dt() on an object that was calculated before differs from a fresh "
                        "object with the same internal step", dict(inp, Ndense_then=2 * Nd), float(numpy.abs(d2s - d2).max()))
            if 2 * Nd <= 6 and h % 3 == 0:
                emit("evolt %d 4 %d %d %s 0 %s %s" % (n, 2 * Nd, Nt, cfrac(step), cv(H), cv(R)), numpy.array(U.data))
        except Exception as e:
            ck.fail("raises:recalculate", "set_dense_dt + calculate on a calculated object raised %r" % (e,), inp)
        x1 = float(numpy.linalg.norm(Lv * step / Nd, 2)); x2 = float(numpy.linalg.norm(Lv * step / (2 * Nd), 2))
        for i in range(Nt):
            b = SY.trunc_bound(x1, 4, i * Nd) + SY.trunc_bound(x2, 4, 2 * i * Nd) + 1e-9
            dev = float(numpy.linalg.norm(Um[i] - d2[i], 2))
            if dev > b:
                ck.fail("refine", "refining the internal step changes U beyond the truncation bound", dict(inp, i=i), dev, b)
                break
            ex = scipy.linalg.expm(Lv * step * i)
            if float(numpy.linalg.norm(Um[i] - ex, 2)) > SY.trunc_bound(x1, 4, i * Nd) + 1e-9:
                ck.fail("exp", "U(t_i) further from exp(t_i*generator) than the truncation bound", dict(inp, i=i),
                        float(numpy.linalg.norm(Um[i] - ex, 2)))
                break
    # ---- with an additional Lorentzian pure-dephasing object (tensor and operator form of the generator): identity, semigroup, trace and
    # Hermiticity, U applied vs direct propagation with the same objects, step-by-step vs all at once ---------------------------------
    from quantarhei.qm import PureDephasing
    for h in range(ck.n(3, 20)):
        n = rng.choice([2, 3])
        H = SY.rand_herm(numpy, rng, n, scale=16.0)
        Ks, rates = SY.lindblad_ops(numpy, rng, n)
        rates = [r / 4.0 for r in rates]
        sbi = SystemBathInteraction([Operator(data=K) for K in Ks], rates=tuple(rates))
        ham = Hamiltonian(data=H.copy())
        as_ops = (h % 2 == 1)
        LF = LindbladForm(ham, sbi, as_operators=as_ops)
        gpd = numpy.zeros((n, n))
        for i_ in range(n):
            for j_ in range(i_ + 1, n):
                gpd[i_, j_] = gpd[j_, i_] = rng.randint(1, 8) / 64.0
        Nt, step, Nd = rng.randint(3, 5), rng.choice([0.5, 1.0, 2.0]), rng.choice([1, 2, 3])
        time = TimeAxis(0.0, Nt, step)
        inp = {"n": n, "H": H.tolist(), "K": [k.tolist() for k in Ks], "rates": rates, "pure_dephasing_rates": gpd.tolist(), "Nt": Nt, "step": step,
               "Ndense": Nd, "generator_as_operators": as_ops}
        ck.case(("pdeph", h, n, as_ops), nontrivial=True, kind="all", Ndense=Nd, Nt=Nt, dim=n)
        try:
            pd_ = PureDephasing(drates=gpd.copy(), dtype="Lorentzian")
            U = EvolutionSuperOperator(time, ham, LF, pdeph=pd_)
            U.set_dense_dt(Nd); U.calculate()
            data = numpy.array(U.data); nn = n * n; Um = data.reshape(Nt, nn, nn); sc = max(1.0, float(numpy.abs(Um).max()))
            rho0, _ = SY.rand_state(numpy, rng, n)
            prop = ReducedDensityMatrixPropagator(time, ham, RTensor=LF, PDeph=pd_)
            direct = numpy.array(prop.propagate(ReducedDensityMatrix(data=rho0.copy()), Nref=Nd).data)
            via = numpy.array([numpy.array(U.apply(float(time.data[i]), ReducedDensityMatrix(data=rho0.copy())).data) for i in range(Nt)])
            J = EvolutionSuperOperator(time, ham, LF, pdeph=pd_, mode="jit"); J.set_dense_dt(Nd)
            for q_ in range(Nt - 1):
                J.calculate_next(save=True)
            jd = numpy.array(J.data).reshape(Nt, nn, nn)
        except Exception as e:
            ck.fail("raises:pure-dephasing", "evolution superoperator with a pure-dephasing object raised %r" % (e,), inp)
            continue
        bad = []
        if numpy.abs(Um[0] - numpy.eye(nn)).max() > 1e-12:
            bad.append(("identity", float(numpy.abs(Um[0] - numpy.eye(nn)).max())))
        w_ = max(float(numpy.abs(Um[i] @ Um[j] - Um[i + j]).max()) for i in range(Nt) for j in range(Nt - i))
        if w_ > 1e-9 * sc * sc:
            bad.append(("semigroup", w_))
        A = numpy.array([[rng.randint(-4, 4) / 4.0 + 1j * rng.randint(-4, 4) / 4.0 for _ in range(n)] for _ in range(n)])
        for i in range(Nt):
            B = numpy.tensordot(data[i], A)
            if abs(numpy.trace(B) - numpy.trace(A)) > 1e-9 * sc:
                bad.append(("trace", float(abs(numpy.trace(B) - numpy.trace(A))))); break
            if numpy.abs(numpy.tensordot(data[i], A.conj().T) - B.conj().T).max() > 1e-9 * sc:
                bad.append(("herm", float(numpy.abs(numpy.tensordot(data[i], A.conj().T) - B.conj().T).max()))); break
        if numpy.abs(direct - via).max() > 1e-9 * sc:
            bad.append(("apply-vs-propagate", float(numpy.abs(direct - via).max())))
        if numpy.abs(jd - Um).max() > 1e-9 * sc:
            bad.append(("jit-vs-all", float(numpy.abs(jd - Um).max())))
        # the internal steps are D(h) T_4(G h) (D: the dephasing factors of one step, T_4: fourth-order expansion): over one interval of the
        # axis they differ from the untruncated steps D(h) exp(G h) only within the truncation bound of the expansion, at every refinement
        try:
            Lv = SY.gksl_superop(numpy, H, Ks, rates)
            for Ndr in (Nd, 2 * Nd):
                if Ndr != Nd:
                    Ur = EvolutionSuperOperator(time, ham, LF, pdeph=pd_); Ur.set_dense_dt(Ndr); Ur.calculate()
                    U1 = numpy.array(Ur.data).reshape(Nt, nn, nn)[1]
                else:
                    U1 = Um[1]
                hh_ = step / Ndr
                DE = numpy.diag(numpy.exp(-gpd * hh_).reshape(nn)) @ scipy.linalg.expm(Lv * hh_)
                ref_ = numpy.linalg.matrix_power(DE, Ndr)
                x_ = float(numpy.linalg.norm(Lv * hh_, 2))
                b_ = SY.trunc_bound(x_, 4, Ndr) + 1e-10
                dev_ = float(numpy.linalg.norm(U1 - ref_, 2))
                ck.resid("pure dephasing: U(step) vs untruncated internal steps / bound", dev_ / b_)
                if dev_ > b_:
                    ck.fail("pure-dephasing:refine", "with an additional pure-dephasing object: U over one interval differs from the untruncated internal steps "
                            "[D(h) exp(G h)]^N by more than the truncation bound of the fourth-order expansion", dict(inp, Ndense_used=Ndr), dev_, b_)
                    break
        except Exception as e:
            ck.fail("raises:pure-dephasing:refine", "refinement check with a pure-dephasing object raised %r" % (e,), inp)
        for k_, v_ in bad:
            ck.fail("pure-dephasing:" + k_, "with an additional pure-dephasing object: %s clause fails" % k_, inp, v_)
    # ---- Hamiltonians with rotating-wave blocks: U and the directly propagated state, both in the rotating frame and after both were
    # converted to the laboratory frame (a conversion requested again, or requested for an object that never was in the frame, does nothing)
    for h in range(ck.n(2, 10)):
        n = 3
        Hd = numpy.array([[0.0, 0.0, 0.0], [0.0, 2.0 + rng.randint(0, 4) / 64.0, rng.randint(1, 4) / 64.0], [0.0, 0.0, 2.0 + rng.randint(5, 9) / 64.0]])
        Hd[2, 1] = Hd[1, 2]
        as_ops = (h % 2 == 1)
        Nd = rng.choice([2, 4, 8])
        inp = {"H": Hd.tolist(), "rwa_indices": [0, 1], "generator_as_operators": as_ops, "Ndense": Nd, "axis": [0.0, 6, 4.0]}
        ck.case(("rwa", h, as_ops, Nd), nontrivial=True, kind="all", Ndense=Nd, Nt=6, dim=n)
        try:
            ham = Hamiltonian(data=Hd.copy()); ham.set_rwa([0, 1])
            K1 = Operator(dim=n, real=True); K1.data[1, 2] = 1.0
            K2 = Operator(dim=n, real=True); K2.data[0, 1] = 1.0
            LFr = LindbladForm(ham, SystemBathInteraction([K1, K2], rates=(1.0 / 50.0, 1.0 / 300.0)), as_operators=as_ops)
            timer = TimeAxis(0.0, 6, 4.0)
            Ur = EvolutionSuperOperator(timer, ham, LFr); Ur.set_dense_dt(Nd); Ur.calculate()
            pr_ = ReducedDensityMatrixPropagator(timer, ham, RTensor=LFr); pr_.setDtRefinement(Nd)
            r0r, _ = SY.rand_state(numpy, rng, n)
            rt_ = pr_.propagate(ReducedDensityMatrix(data=r0r.copy()))

            def dev_now():
                return max(float(numpy.abs(numpy.array(Ur.apply(float(timer.data[k_]), ReducedDensityMatrix(data=r0r.copy())).data) - numpy.array(rt_.data[k_])).max())
                           for k_ in range(timer.length))
            stages = [("rotating frame", dev_now())]
            Ur.convert_from_RWA(); rt_.convert_from_RWA(ham)
            stages.append(("laboratory frame", dev_now()))
            Ulab = numpy.array(Ur.data).copy()
            Ur.convert_from_RWA(); rt_.convert_from_RWA(ham)
            stages.append(("laboratory frame requested again", max(dev_now(), float(numpy.abs(numpy.array(Ur.data) - Ulab).max()))))
            for nm_, d_ in stages:
                ck.resid("RWA: U applied vs direct propagation (%s)" % nm_, d_)
                if d_ > 1e-9:
                    ck.fail("apply-vs-propagate:rwa", "Hamiltonian with rotating-wave blocks, %s: U applied to a state differs from the direct propagation of that "
                            "state" % nm_, dict(inp, stage=nm_), d_)
                    break
        except Exception as e:
            ck.fail("raises:rwa", "evolution superoperator / propagation with rotating-wave blocks raised %r" % (e,), inp)
    model = ck.drive(DRIVER, lines)
    if model is not None:
        for l, a, b, t in zip(lines, impl, model, tol):
            ck.traces += 1
            try:
                fa = [cfrac_to_complex(x) for x in a.replace("|", " ").split()]
                fb = [cfrac_to_complex(x) for x in b.replace("|", " ").split()]
                d = max(abs(x - y) for x, y in zip(fa, fb)) if len(fa) == len(fb) and fa else float("inf")
            except Exception:
                d = float("inf")
            ck.resid("max |impl-model| (%s)" % l.split()[0], d if d != float("inf") else 1e300)
            if d > t * max([1.0] + [abs(y) for y in fb] if d != float("inf") else [1.0]):
                ck.disagree("superoperator differs by %.3g (%s)" % (d, l.split()[0]), l[:160], a[:160], b[:160])
    return ck.finish()
