"""Regenerates the data-driven parts of DESIGN.md (sections 5 and 6) from the registry, the Lean sources, the
known-findings file, the seeded-change records and the evidence files.  Run by hand after changes:
    /venv/bin/python harness/mkdesign.py
The hand-written parts of DESIGN.md live between the markers and are left alone."""
import glob
import json
import os
import re
import sys

ROOT = os.path.dirname(os.path.dirname(os.path.abspath(__file__)))
sys.path.insert(0, os.path.join(ROOT, "harness"))
import registry  # noqa: E402

TITLES = {}
for l in open(os.path.join(ROOT, "properties.jsonl")):
    d = json.loads(l)
    TITLES[d["id"]] = d["title"]

ALSO = {"C01": ["C01Basis"], "C02": ["C02Energy", "C02Deph", "C02Basis"], "C03": ["C03Enum"], "C07": ["C07Limits", "C07Basis", "C07Covariant"], "C08": ["C08Apply", "C08Dephasing", "C08Basis"], "C09": ["C09Analytic"], "C13": ["C13Inverse", "C13Linear"], "C16": ["C16Dyn", "C16Herm"], "C04": ["C04Labels", "C04Tensor"], "C17": ["C17Bound", "C17Positive", "C17Linear"], "C12": ["C12Weyl", "C12Average", "C12Pref", "C12Design", "C12DesignT8", "C12Widths", "C12Multilinear"], "C11": ["C11Spectrum"], "C05": ["C05Composite", "C05HandSwitch"], "C10": ["C10Complex"], "C14": ["C14Units"], "C20": ["C20Regions"]}
SHARED = {"C02": ["Lemmas/Taylor", "Lemmas/TruncBound"], "C07": ["Lemmas/Taylor"], "C08": ["Lemmas/Taylor", "Lemmas/TruncBound"],
          "C17": ["Lemmas/Taylor"], "C16": [], "C18": ["Props/C04"], "C12": ["Props/C19"], "C06": []}


def theorems(rel):
    p = os.path.join(ROOT, "lean", "QV", rel + ".lean")
    if not os.path.exists(p):
        return []
    return re.findall(r"^theorem ([A-Za-z0-9_']+)", open(p).read(), re.M)


def gen_defs(pid):
    p = os.path.join(ROOT, "lean", "QV", "Gen", pid + ".lean")
    if not os.path.exists(p):
        return []
    return re.findall(r"^def ([A-Za-z0-9_']+)", open(p).read(), re.M)


def wrap(s, width=110, indent=""):
    out, line = [], indent
    for w in s.split():
        if len(line) + len(w) + 1 > width and line.strip():
            out.append(line.rstrip())
            line = indent
        line += w + " "
    if line.strip():
        out.append(line.rstrip())
    return "\n".join(out)


def section5():
    kf = json.load(open(os.path.join(ROOT, "known_findings.json")))["findings"]
    out = []
    for pid in sorted(registry.CLAIMED):
        c = registry.CLAIMED[pid]
        out.append("### %s — %s\n" % (pid, TITLES[pid]))
        out.append("*Deciding method:* %s.\n" % c["technique"])
        out.append(wrap("**Proved and tied.** " + c["text"]) + "\n")
        out.append(wrap("**Trusted / not proved.** " + c["note"]) + "\n")
        th = theorems("Props/" + pid)
        for a in ALSO.get(pid, []):
            th += theorems("Props/" + a)
        files = ["Model/%s" % pid, "Props/%s" % pid] + ["Props/%s" % a for a in ALSO.get(pid, [])] + ["Drive/%s" % pid]
        files = [f for f in files if os.path.exists(os.path.join(ROOT, "lean", "QV", f + ".lean"))]
        extra_models = sorted(os.path.basename(f)[:-5] for f in glob.glob(os.path.join(ROOT, "lean", "QV", "Model", "*.lean")))
        out.append("*Lean files:* %s%s.  *Harness:* `harness/%s.py`.\n" % (
            ", ".join("`QV/%s.lean`" % f for f in files),
            ("; shared: " + ", ".join("`QV/%s.lean`" % s for s in SHARED[pid])) if SHARED.get(pid) else "", pid.lower()))
        g = gen_defs(pid)
        if g:
            out.append(wrap("*Re-extracted from the source on every run (`QV/Gen/%s.lean`):* %s." % (pid, ", ".join("`%s`" % x for x in g))) + "\n")
        else:
            out.append("*Tie:* hand model + correspondence only (nothing extracted).\n")
        out.append(wrap("*Property theorems (%d):* %s." % (len(th), ", ".join("`%s`" % t for t in th))) + "\n")
        mine = [k for k in kf if k["property"] == pid]
        if mine:
            out.append("*Findings:*\n")
            for k in mine:
                out.append(wrap("- **%s**%s: %s" % (k["status"], " (`%s`)" % k["commit"] if k.get("commit") else "", re.sub(r"^fixed: property=\S+ \S+ ", "", k["what"])),
                                indent="  ").replace("  - ", "- ", 1))
            out.append("")
        ev = os.path.join(ROOT, "evidence", pid + ".json")
        if os.path.exists(ev):
            e = json.load(open(ev))
            cov = e["coverage"]
            out.append("*Last recorded run (%s tier, seed %s):* %d/%d obligations, %d cases (%d distinct non-trivial), %.0f s.\n" % (
                e.get("tier"), e.get("seed"), cov["discharged"], cov["obligations"], cov["evaluations"], cov["distinct_nontrivial"], e.get("wall_s", 0)))
    return "\n".join(out)


def section6():
    rows = []
    for d in sorted(glob.glob(os.path.join(ROOT, "seeded", "*-*"))):
        m = json.load(open(os.path.join(d, "meta.json")))
        by = m.get("detected_by", {})
        parts = []
        if by.get("broken_obligations"):
            parts.append("obligation/tie: " + "; ".join(str(x)[:60] for x in by["broken_obligations"][:2]))
        if by.get("tie_broken"):
            parts.append("tie: " + "; ".join(str(x)[:60] for x in by["tie_broken"][:1]))
        if by.get("correspondence_differences"):
            parts.append("model≠impl: " + "; ".join(str(x)[:50] for x in by["correspondence_differences"][:2]))
        if by.get("oracle_keys"):
            ks = sorted(by["oracle_keys"].items(), key=lambda kv: -kv[1])[:3]
            parts.append("oracle: " + ", ".join("`%s`×%d" % kv for kv in ks))
        summ = m.get("summary", "").replace("|", "/").replace("\n", " ")
        rows.append("| %s | %s | %s | %s |" % (m["seed_id"], summ[:150] + ("…" if len(summ) > 150 else ""),
                                              "yes" if m.get("check_result", {}).get("detected") else "NO", "<br>".join(parts) or "-"))
    head = "| seed | change (sub-agent's summary, shortened) | quick check alarms | noticed by |\n|---|---|---|---|\n"
    brow = []
    for d in sorted(glob.glob(os.path.join(ROOT, "benign", "*-h*"))):
        m = json.load(open(os.path.join(d, "meta.json")))
        cr = m.get("check_result", {})
        summ = m.get("summary", "").replace("|", "/").replace("\n", " ")
        how = "quiet" if cr.get("quiet") else "ALARM: " + str(cr.get("line", ""))[:80]
        ev = {}
        brow.append("| %s | %s | %s |" % (m["rewrite_id"], summ[:170] + ("…" if len(summ) > 170 else ""), how))
    bhead = ("\n\n*Behaviour-preserving rewrites* (`benign/`, `harness/benigntest.py run`; expected: quiet).\n\n"
             "| rewrite | what was rewritten (sub-agent's summary, shortened) | quick check |\n|---|---|---|\n")
    return head + "\n".join(rows) + (bhead + "\n".join(brow) if brow else "")


def main():
    p = os.path.join(ROOT, "DESIGN.md")
    s = open(p).read()
    for tag, fn in (("SECTION5", section5), ("SECTION6", section6)):
        a, b = "<!-- BEGIN %s (generated by harness/mkdesign.py) -->" % tag, "<!-- END %s -->" % tag
        i, j = s.index(a) + len(a), s.index(b)
        s = s[:i] + "\n\n" + fn() + "\n\n" + s[j:]
    open(p, "w").write(s)
    print("DESIGN.md sections regenerated")


if __name__ == "__main__":
    main()
