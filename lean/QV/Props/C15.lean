import QV.Model.C15
import Mathlib.Algebra.Order.Field.Basic
import Mathlib.Data.Real.Basic
import Mathlib.Tactic.Ring
import Mathlib.Tactic.Linarith
import Mathlib.Tactic.FieldSimp
import Mathlib.Tactic.SplitIfs

/-!
# C15 — propagation results are functions of their inputs only
Theorems about the history model `QV.C15`; the bracket sequences of every branch of
`get_RelaxationTensor`, the way `propagate` treats its `Nref` argument, the position of the
auxiliary-operator reset and the attribute `recover_cutoff_coupling` adds to are re-extracted from
the source on every run (`QV.Gen.C15`).
-/
namespace QV.C15
open QV.Gen.C15

/-! ## the coupling cut-off bracket restores the Hamiltonian -/

theorem absK_eq_abs (x : ℝ) : absK x = |x| := by
  unfold absK
  split_ifs with h
  · exact (abs_of_neg h).symm
  · exact (abs_of_nonneg (not_lt.mp h)).symm

/-- **`recover_cutoff_coupling` after `subtract_cutoff_coupling` gives every coupling back exactly**,
for every coupling value and every non-negative cut-off -/
theorem recover_subtract (c x : ℝ) (hc : 0 ≤ c) : recoverElem (subtractElem c x) = x := by
  unfold recoverElem subtractElem
  simp only [absK_eq_abs]
  split_ifs with h1 h2
  · simp
  · -- |x| - c < 0 contradicts |x| > |c| = c
    rw [abs_of_nonneg hc] at h1
    exfalso; linarith [not_le.mp h1]
  · have hx : |x| ≠ 0 := by
      intro h0
      rw [h0] at h1
      exact h1 (abs_nonneg c)
    show x / |x| * (|x| - c) + x / |x| * c = x
    field_simp
    ring

/-- the kept part and the removed part have the sign of the coupling: nothing is over-subtracted -/
theorem subtract_kept_small (c x : ℝ) (hc : 0 ≤ c) : |(subtractElem c x).1| ≤ |x| := by
  unfold subtractElem
  simp only [absK_eq_abs]
  split_ifs with h1 h2
  · simpa using abs_nonneg x
  · simpa using abs_nonneg x
  · have hx : 0 < |x| := lt_of_le_of_lt (abs_nonneg c) (not_le.mp h1)
    show |x / |x| * (|x| - c)| ≤ |x|
    rw [abs_mul, abs_div, abs_abs, div_self hx.ne', one_mul, abs_of_nonneg (not_lt.mp h2)]
    linarith

/-- `recover_cutoff_coupling` adds to the raw internal-units array (not through the units-managed property) -/
theorem recover_is_raw : recoverUsesRaw = true := by decide

/-! ## every branch of `get_RelaxationTensor` leaves the system Hamiltonian's flags as they were -/

def shift (d : Int) (h : Hidden) : Hidden := { h with depth := h.depth + d }

theorem bracket_shift (d : Int) (h : Hidden) (op : String) : bracket (shift d h) op = shift d (bracket h op) := by
  unfold bracket shift
  split <;> simp <;> ring

theorem foldl_bracket_shift (d : Int) (seq : List String) : ∀ h : Hidden,
    seq.foldl bracket (shift d h) = shift d (seq.foldl bracket h) := by
  induction seq with
  | nil => intro h; rfl
  | cons op rest ih => intro h; simp only [List.foldl_cons, bracket_shift, ih]

theorem foldl_bracket_nref (seq : List String) : ∀ h : Hidden, (n : Nat) → (a : Bool) →
    seq.foldl bracket { h with nref := n, adoDirty := a } = { seq.foldl bracket h with nref := n, adoDirty := a } := by
  induction seq with
  | nil => intro h n a; rfl
  | cons op rest ih =>
    intro h n a
    simp only [List.foldl_cons]
    have : bracket { h with nref := n, adoDirty := a } op = { bracket h op with nref := n, adoDirty := a } := by
      unfold bracket; split <;> rfl
    rw [this, ih]

/-- the extracted sequences, run from the clean state, end in the clean state (finite table) -/
theorem branches_balanced_clean : ∀ b ∈ branches, b.2.foldl bracket clean = clean := by decide

/-- **frame condition of tensor construction**: whatever the propagator refinement, the hierarchy and the
context depth are, a Hamiltonian that was not protected and had no couplings removed before the call is
in the same state after it, for every theory branch -/
theorem tensor_frame (b : Nat) (hb : b < branches.length) (h : Hidden) (hr : h.remainder = false) (hp : h.prot = false) :
    (exec h (.tensor b)).1 = h := by
  have hmem : branches.getD b ("", []) ∈ branches := by
    rw [List.getD_eq_getElem?_getD, List.getElem?_eq_getElem hb]
    exact List.getElem_mem hb
  have key := branches_balanced_clean _ hmem
  have hh : h = { shift h.depth clean with nref := h.nref, adoDirty := h.adoDirty } := by
    cases h
    simp only [shift, clean] at *
    simp_all
  simp only [exec]
  conv_lhs => rw [hh]
  rw [foldl_bracket_nref, foldl_bracket_shift, key]
  exact hh.symm

/-! ## what results depend on -/

/-- state-vector and population propagation and the evolution superoperator touch no hidden field -/
theorem pure_frame (h : Hidden) (t : Nat) : exec h (.pure t) = (h, {}) := rfl

/-- **hierarchical equations**: the auxiliary operators are reset before they are read, so the result does
not depend on what the hierarchy was used for before -/
theorem heom_history_independent (h₁ h₂ : Hidden) : (exec h₁ .heom).2 = (exec h₂ .heom).2 := by
  have : heomResetsFirst = true := by decide
  simp [exec, this]

/-- a call that names its refinement does not depend on the stored one -/
theorem propagate_explicit_independent (k : Nat) (hk : 1 < k) (h₁ h₂ : Hidden) :
    (exec h₁ (.propagate k)).2 = (exec h₂ (.propagate k)).2 := by
  simp only [exec]
  by_cases hs : stickyNref = true
  · simp [hs, hk]
  · simp [hs]

/-- calls that do not store a refinement on the propagator -/
def Quiet : Call → Prop
  | .setRef _ => False
  | .propagate k => k ≤ 1
  | .tensor b => b < branches.length
  | _ => True

/-- the hidden fields every call relies on -/
def Settled (h : Hidden) : Prop := h.remainder = false ∧ h.prot = false

theorem exec_settled (h : Hidden) (c : Call) (hv : ∀ b, c = .tensor b → b < branches.length) (hs : Settled h) :
    Settled (exec h c).1 := by
  cases c with
  | setRef k => exact hs
  | propagate k => simp only [exec]; exact hs
  | heom => exact hs
  | tensor b => rw [tensor_frame b (hv b rfl) h hs.1 hs.2]; exact hs
  | pure t => exact hs

theorem exec_quiet_nref (h : Hidden) (c : Call) (hq : Quiet c) (hs : Settled h) (hn : h.nref = 1) :
    (exec h c).1.nref = 1 := by
  cases c with
  | setRef k => exact absurd hq (by simp [Quiet])
  | propagate k =>
    have hk : ¬ (k > 1) := by simp [Quiet] at hq; omega
    simp only [exec]
    split_ifs <;> simp_all
  | heom => exact hn
  | tensor b => rw [tensor_frame b hq h hs.1 hs.2]; exact hn
  | pure t => exact hn

theorem run_quiet (hist : List Call) : ∀ h : Hidden, (∀ c ∈ hist, Quiet c) → Settled h → h.nref = 1 →
    Settled (run h hist) ∧ (run h hist).nref = 1 := by
  induction hist with
  | nil => intro h _ hs hn; exact ⟨hs, hn⟩
  | cons c rest ih =>
    intro h hq hs hn
    simp only [run]
    have hqc : Quiet c := hq c (by simp)
    have hv : ∀ b, c = .tensor b → b < branches.length := by
      intro b hb; subst hb; exact hqc
    exact ih _ (fun d hd => hq d (by simp [hd])) (exec_settled h c hv hs) (exec_quiet_nref h c hqc hs hn)

/-- **history independence**: after ANY two histories of tensor constructions, propagations (density matrix,
state vector, populations, hierarchy), and evolution-superoperator calculations that do not store a
refinement on the propagator, every call reads the same hidden values - its result is a function of its
explicit inputs only -/
theorem result_history_independent (hist₁ hist₂ : List Call) (h1 : ∀ c ∈ hist₁, Quiet c) (h2 : ∀ c ∈ hist₂, Quiet c)
    (c : Call) : (exec (run clean hist₁) c).2 = (exec (run clean hist₂) c).2 := by
  obtain ⟨s1, n1⟩ := run_quiet hist₁ clean h1 ⟨rfl, rfl⟩ rfl
  obtain ⟨s2, n2⟩ := run_quiet hist₂ clean h2 ⟨rfl, rfl⟩ rfl
  cases c with
  | setRef k => rfl
  | propagate k => simp only [exec, n1, n2]
  | heom => exact heom_history_independent _ _
  | tensor b => simp only [exec, s1.1, s2.1]
  | pure t => rfl

/-- ... and every such history leaves the shared Hamiltonian unprotected, with all couplings in place -/
theorem history_frame (hist : List Call) (h : ∀ c ∈ hist, Quiet c) : Settled (run clean hist) :=
  (run_quiet hist clean h ⟨rfl, rfl⟩ rfl).1

/-- with histories that DO store a refinement the only call whose result can change is the propagation that
does not name one: everything else still reads the same values -/
theorem result_independent_except_default_propagate (hist₁ hist₂ : List Call)
    (h1 : ∀ c ∈ hist₁, ∀ b, c = .tensor b → b < branches.length)
    (h2 : ∀ c ∈ hist₂, ∀ b, c = .tensor b → b < branches.length)
    (c : Call) (hc : ∀ k, c = .propagate k → 1 < k) :
    (exec (run clean hist₁) c).2 = (exec (run clean hist₂) c).2 := by
  have settled : ∀ (hist : List Call) (h : Hidden), (∀ c ∈ hist, ∀ b, c = .tensor b → b < branches.length) →
      Settled h → Settled (run h hist) := by
    intro hist
    induction hist with
    | nil => intro h _ hs; exact hs
    | cons d rest ih =>
      intro h hv hs
      simp only [run]
      exact ih _ (fun e he => hv e (by simp [he])) (exec_settled h d (hv d (by simp)) hs)
  have s1 := settled hist₁ clean h1 ⟨rfl, rfl⟩
  have s2 := settled hist₂ clean h2 ⟨rfl, rfl⟩
  cases c with
  | setRef k => rfl
  | propagate k => exact propagate_explicit_independent k (hc k rfl) _ _
  | heom => exact heom_history_independent _ _
  | tensor b => simp only [exec, s1.1, s2.1]
  | pure t => rfl

/-- the recorded finding, formalised: as the source is written (`if Nref > 1: self.setDtRefinement(Nref)`),
a propagation that does not name a refinement depends on an earlier call that did -/
theorem default_propagate_depends_on_history (hs : stickyNref = true) :
    (exec (run clean [.propagate 4]) (.propagate 1)).2 ≠ (exec clean (.propagate 1)).2 := by
  simp [exec, run, hs, clean]

/-- the hypotheses above are satisfiable: a concrete history -/
example : (∀ c ∈ [Call.tensor 0, .propagate 1, .heom, .pure 0, .tensor 0], Quiet c) := by
  intro c hc
  simp only [List.mem_cons, List.mem_nil_iff, or_false] at hc
  rcases hc with rfl | rfl | rfl | rfl | rfl <;> simp [Quiet] <;> decide

end QV.C15
