import QV.Props.C13
import Mathlib.Algebra.BigOperators.Ring.Finset
import Mathlib.Tactic.Ring

/-!
# C13 — the transforms are linear in the data

`get_Fourier_transform` / `get_inverse_Fourier_transform` (models `ftComplete`, `iftComplete`, `ftUpper`,
`iftUpper`) commute with multiplication of the data by a constant and with addition.  Consequently the
property "equals the direct Fourier sum / returns the original values" is scale free: it holds for data of
size 1e-20 exactly as for data of size 1, and any absolute threshold applied to the values (e.g. discarding an
imaginary part "close to zero") breaks it for small data - the harness therefore uses tolerances relative to
the data and data of magnitude 2^-70 … 2^40.
-/
namespace QV.C13
open QV Finset

section
variable {α : Type} [CommRing α]

theorem dft_smul {n : Nat} (ζ c : α) (x : Fin n → α) (k : Fin n) :
    dft ζ (fun m => c * x m) k = c * dft ζ x k := by
  simp only [dft, sumFin_eq_sum, Finset.mul_sum]
  apply Finset.sum_congr rfl; intro m _; ring

theorem dft_add {n : Nat} (ζ : α) (x y : Fin n → α) (k : Fin n) :
    dft ζ (fun m => x m + y m) k = dft ζ x k + dft ζ y k := by
  simp only [dft, sumFin_eq_sum, ← Finset.sum_add_distrib]
  apply Finset.sum_congr rfl; intro m _; ring

theorem roll_smul {n : Nat} (s : Nat) (c : α) (y : Fin n → α) :
    roll s (fun m => c * y m) = fun m => c * roll s y m := rfl

theorem roll_add {n : Nat} (s : Nat) (x y : Fin n → α) :
    roll s (fun m => x m + y m) = fun m => roll s x m + roll s y m := rfl

/-- complete axes: the transform of `c·y` is `c` times the transform of `y` -/
theorem ftComplete_smul {n : Nat} (ζi dt c : α) (y : Fin n → α) (j : Fin n) :
    ftComplete ζi dt (fun m => c * y m) j = c * ftComplete ζi dt y j := by
  simp only [ftComplete, fftshift, ifftshift]
  rw [roll_smul]
  have h : dft ζi (fun m => c * roll (n - n / 2) y m) = fun k => c * dft ζi (roll (n - n / 2) y) k :=
    funext (dft_smul ζi c (roll (n - n / 2) y))
  rw [h, roll_smul]; ring

theorem ftComplete_add {n : Nat} (ζi dt : α) (x y : Fin n → α) (j : Fin n) :
    ftComplete ζi dt (fun m => x m + y m) j = ftComplete ζi dt x j + ftComplete ζi dt y j := by
  simp only [ftComplete, fftshift, ifftshift]
  rw [roll_add]
  have h : dft ζi (fun m => roll (n - n / 2) x m + roll (n - n / 2) y m)
      = fun k => dft ζi (roll (n - n / 2) x) k + dft ζi (roll (n - n / 2) y) k :=
    funext (dft_add ζi (roll (n - n / 2) x) (roll (n - n / 2) y))
  rw [h, roll_add]; ring

/-- the inverse transform is the same pipeline with the conjugate root -/
theorem iftComplete_smul {n : Nat} (ζ dt c : α) (y : Fin n → α) (j : Fin n) :
    iftComplete ζ dt (fun m => c * y m) j = c * iftComplete ζ dt y j :=
  ftComplete_smul ζ dt c y j

theorem iftUpper_smul {N : Nat} (ζ d c : α) (F : Fin (2 * N) → α) (k : Fin N) :
    iftUpper ζ d (fun m => c * F m) k = c * iftUpper ζ d F k := by
  simp only [iftUpper]; exact iftComplete_smul ζ d c F _

/-- upper-half axes, scaling by a constant that the conjugation leaves alone (a real factor) -/
theorem hermExt_smul {N : Nat} (conj : α → α) (hmul : ∀ a b, conj (a * b) = conj a * conj b) (c : α) (hc : conj c = c)
    (y : Fin N → α) (m : Fin (2 * N)) :
    hermExt conj (fun k => c * y k) m = c * hermExt conj y m := by
  unfold hermExt
  by_cases h : m.val < N
  · simp [h]
  · by_cases h2 : m.val = N
    · simp [h2]
    · simp only [h, h2, dif_neg, if_false, not_false_eq_true, hmul, hc]

theorem ftUpper_smul {N : Nat} (conj : α → α) (hmul : ∀ a b, conj (a * b) = conj a * conj b) (c : α) (hc : conj c = c)
    (ζi dt : α) (y : Fin N → α) (j : Fin (2 * N)) :
    ftUpper conj ζi dt (fun k => c * y k) j = c * ftUpper conj ζi dt y j := by
  simp only [ftUpper, fftshift]
  have h1 : hermExt conj (fun k => c * y k) = fun m => c * hermExt conj y m :=
    funext (hermExt_smul conj hmul c hc y)
  have h2 : dft ζi (fun m => c * hermExt conj y m) = fun k => c * dft ζi (hermExt conj y) k :=
    funext (dft_smul ζi c (hermExt conj y))
  rw [h1, h2, roll_smul]; ring

end

/-- non-vacuity: n = 2 over ℤ, ζ = −1 -/
example : ftComplete (α := Int) (n := 2) (-1) 1 (fun m => 3 * (if m = (0 : Fin 2) then 2 else 5)) (1 : Fin 2)
    = 3 * ftComplete (-1) 1 (fun m => if m = (0 : Fin 2) then 2 else 5) (1 : Fin 2) := by decide

end QV.C13
