import QV.Core.Num
import QV.Model.C05
open QV QV.C05

def showState (s : UState) : String :=
  s!"{s.current} {s.count} {if s.flag then 1 else 0}"

/-- the driver receives the factor table as `fac u p/q` lines -/
structure DS where
  st : UState
  facs : List (String × Rat)

def facOf (d : DS) (u : String) : Rat := (d.facs.lookup u).getD 0

def stepD (d : DS) (ts : List String) : DS × String :=
  match ts with
  | ["fac", u, v] => match parseRat? v with
    | some v => ({ d with facs := (u, v) :: d.facs }, "ok")
    | none => (d, "bad-op")
  | ["reset", u] => ({ d with st := { current := u, backups := [], count := 0, flag := false, saved := none } }, showState { current := u, backups := [], count := 0, flag := false, saved := none })
  | ["enter", u] => let (s, ok) := ustep d.st (.enter u); ({ d with st := s }, (if ok then "ok " else "refused ") ++ showState s)
  | ["exit"] => let (s, ok) := ustep d.st .exit; ({ d with st := s }, (if ok then "ok " else "refused ") ++ showState s)
  | ["rawset", u] => let (s, ok) := ustep d.st (.rawSet u); ({ d with st := s }, (if ok then "ok " else "refused ") ++ showState s)
  | ["rawunset"] => let (s, ok) := ustep d.st .rawUnset; ({ d with st := s }, (if ok then "ok " else "refused ") ++ showState s)
  | ["conv", u, u', x] => match parseRat? x with
    | some x => (d, showRat (toCurrent (facOf d) u' (toInternal (facOf d) u x)))
    | none => (d, "bad-op")
  | ["toint", u, x] => match parseRat? x with
    | some x => (d, showRat (toInternal (facOf d) u x))
    | none => (d, "bad-op")
  | _ => (d, "bad-op")

def main : IO Unit := runDriver stepD { st := { current := "1/fs", backups := [], count := 0, flag := false, saved := none }, facs := [] }
