import QV.Core.Num
import QV.Model.C19
open QV QV.C19 QV.Gen.C19

def optTok (t : String) : Option String := if t == "-" then none else some t

def showKey (k : Key) : String := k.name ++ "@" ++ (match k.tag with | some t => t | none => "-")

def insertSorted (x : String) : List String → List String
  | [] => [x]
  | y :: ys => if x < y then x :: y :: ys else y :: insertSorted x ys

def dump (s : St Int) : String :=
  if ¬ s.init then s!"res={s.res} uninit"
  else
    let items := (s.cells.map fun c => showKey c.1 ++ "=" ++ toString c.2).foldl (fun acc x => insertSorted x acc) []
    s!"res={s.res} " ++ " ".intercalate items

def step' (s : St Int) (ts : List String) : St Int × String :=
  match ts with
  | ["new"] => (fresh, "ok")
  | ["add", r, n, t, d] =>
    match d.toInt? with
    | some d =>
      let (s', ok) := addData s (optTok r) n (optTok t) d
      (s', if ok then "ok" else "refused")
    | none => (s, "bad-op")
  | ["setres", r] =>
    let (s', ok) := setRes s r
    (s', if ok then "ok" else "refused")
  | ["read", n, t] =>
    if ¬ s.init then (s, "uninit")
    else match readFlag s n (optTok t) with
      | .val v => (s, toString v)
      | .none => (s, "none")
      | .error => (s, "error")
  | ["dump"] => (s, dump s)
  | _ => (s, "bad-op")

def main : IO Unit := runDriver step' (fresh : St Int)
