import os, sys, argparse, importlib, traceback
sys.path.insert(0, os.path.dirname(os.path.abspath(__file__)))
from qvh.core import Check, Infra


def main():
    ap = argparse.ArgumentParser()
    ap.add_argument("pid")
    ap.add_argument("--tier", default=os.environ.get("VERIF_TIER", "quick"), choices=["quick", "thorough"])
    ap.add_argument("--replay", default=None)
    a = ap.parse_args()
    seed = int(os.environ.get("VERIF_SEED", "0") or 0)
    if a.replay:
        # a replay file names the seed and the tier of the run that produced it: the same run is repeated (all random
        # choices derive from the seed, so the failing input recorded in the file is met again)
        import json
        try:
            r = json.load(open(a.replay))
            seed, a.tier = int(r.get("seed", seed)), r.get("tier", a.tier)
        except Exception as e:
            print("INFRASTRUCTURE-ERROR %s: cannot read replay file %s: %r" % (a.pid, a.replay, e))
            sys.exit(2)
    try:
        mod = importlib.import_module(a.pid.lower())
        ck = Check(a.pid, a.tier, seed, a.replay)
        sys.stdout = open(os.devnull, "w")      # the library prints progress messages; results go to sys.__stdout__
        try:
            rc = mod.run(ck)
        finally:
            sys.stdout = sys.__stdout__
    except Infra as e:
        print("INFRASTRUCTURE-ERROR %s: %s" % (a.pid, e))
        sys.exit(2)
    except Exception:
        traceback.print_exc()
        print("INFRASTRUCTURE-ERROR %s: harness crashed" % a.pid)
        sys.exit(2)
    sys.stdout.flush()
    os._exit(rc)


main()
