import Mathlib.Data.Real.Basic
import Mathlib.Data.Fin.VecNotation
import Mathlib.Tactic.FinCases
import Mathlib.Data.Fintype.Basic
import Mathlib.Data.Fin.Basic
import Mathlib.Data.Fintype.Fin
import Mathlib.Tactic.Linarith
import Mathlib.Tactic.NormNum

/-!
# C12 — rank-4 tensors invariant under the rotations of the cube
(the body of `cubic_form` was produced by a script that walks the orbits of the 81 components under the two
generating quarter turns; it is checked by the kernel like everything else)
-/
namespace QV.C12

/-- quarter turn about z as a signed permutation: `(Q v)_i = εz i * v (σz i)` -/
def σz : Fin 3 → Fin 3 := ![1, 0, 2]
def εz : Fin 3 → ℝ := ![-1, 1, 1]
/-- quarter turn about x -/
def σx : Fin 3 → Fin 3 := ![0, 2, 1]
def εx : Fin 3 → ℝ := ![1, -1, 1]

/-- a rank-4 tensor invariant under the quarter turns about z and x has only the components `iijj`, `ijij`,
`ijji`, `iiii`, and each class has one value -/
theorem cubic_form (t : Fin 3 → Fin 3 → Fin 3 → Fin 3 → ℝ)
    (hz : ∀ i j k l, t i j k l = εz i * εz j * εz k * εz l * t (σz i) (σz j) (σz k) (σz l))
    (hx : ∀ i j k l, t i j k l = εx i * εx j * εx k * εx l * t (σx i) (σx j) (σx k) (σx l)) :
    ∀ i j k l, t i j k l = (if i = j ∧ k = l then t 0 0 1 1 else 0) + (if i = k ∧ j = l then t 0 1 0 1 else 0)
      + (if i = l ∧ j = k then t 0 1 1 0 else 0)
      + (if i = j ∧ j = k ∧ k = l then t 0 0 0 0 - t 0 0 1 1 - t 0 1 0 1 - t 0 1 1 0 else 0) := by
  have hx_0001 : t 0 0 0 1 = -(t 0 0 0 2) := by
    have h := hx 0 0 0 1
    simpa [σx, εx] using h
  have hx_0002 : t 0 0 0 2 = t 0 0 0 1 := by
    have h := hx 0 0 0 2
    simpa [σx, εx] using h
  have hx_0010 : t 0 0 1 0 = -(t 0 0 2 0) := by
    have h := hx 0 0 1 0
    simpa [σx, εx] using h
  have hx_0011 : t 0 0 1 1 = t 0 0 2 2 := by
    have h := hx 0 0 1 1
    simpa [σx, εx] using h
  have hx_0012 : t 0 0 1 2 = -(t 0 0 2 1) := by
    have h := hx 0 0 1 2
    simpa [σx, εx] using h
  have hx_0020 : t 0 0 2 0 = t 0 0 1 0 := by
    have h := hx 0 0 2 0
    simpa [σx, εx] using h
  have hx_0100 : t 0 1 0 0 = -(t 0 2 0 0) := by
    have h := hx 0 1 0 0
    simpa [σx, εx] using h
  have hx_0101 : t 0 1 0 1 = t 0 2 0 2 := by
    have h := hx 0 1 0 1
    simpa [σx, εx] using h
  have hx_0102 : t 0 1 0 2 = -(t 0 2 0 1) := by
    have h := hx 0 1 0 2
    simpa [σx, εx] using h
  have hx_0110 : t 0 1 1 0 = t 0 2 2 0 := by
    have h := hx 0 1 1 0
    simpa [σx, εx] using h
  have hx_0111 : t 0 1 1 1 = -(t 0 2 2 2) := by
    have h := hx 0 1 1 1
    simpa [σx, εx] using h
  have hx_0112 : t 0 1 1 2 = t 0 2 2 1 := by
    have h := hx 0 1 1 2
    simpa [σx, εx] using h
  have hx_0120 : t 0 1 2 0 = -(t 0 2 1 0) := by
    have h := hx 0 1 2 0
    simpa [σx, εx] using h
  have hx_0121 : t 0 1 2 1 = t 0 2 1 2 := by
    have h := hx 0 1 2 1
    simpa [σx, εx] using h
  have hx_0122 : t 0 1 2 2 = -(t 0 2 1 1) := by
    have h := hx 0 1 2 2
    simpa [σx, εx] using h
  have hx_0200 : t 0 2 0 0 = t 0 1 0 0 := by
    have h := hx 0 2 0 0
    simpa [σx, εx] using h
  have hx_0211 : t 0 2 1 1 = t 0 1 2 2 := by
    have h := hx 0 2 1 1
    simpa [σx, εx] using h
  have hx_0212 : t 0 2 1 2 = -(t 0 1 2 1) := by
    have h := hx 0 2 1 2
    simpa [σx, εx] using h
  have hx_0221 : t 0 2 2 1 = -(t 0 1 1 2) := by
    have h := hx 0 2 2 1
    simpa [σx, εx] using h
  have hx_0222 : t 0 2 2 2 = t 0 1 1 1 := by
    have h := hx 0 2 2 2
    simpa [σx, εx] using h
  have hx_1000 : t 1 0 0 0 = -(t 2 0 0 0) := by
    have h := hx 1 0 0 0
    simpa [σx, εx] using h
  have hx_1001 : t 1 0 0 1 = t 2 0 0 2 := by
    have h := hx 1 0 0 1
    simpa [σx, εx] using h
  have hx_1002 : t 1 0 0 2 = -(t 2 0 0 1) := by
    have h := hx 1 0 0 2
    simpa [σx, εx] using h
  have hx_1010 : t 1 0 1 0 = t 2 0 2 0 := by
    have h := hx 1 0 1 0
    simpa [σx, εx] using h
  have hx_1011 : t 1 0 1 1 = -(t 2 0 2 2) := by
    have h := hx 1 0 1 1
    simpa [σx, εx] using h
  have hx_1012 : t 1 0 1 2 = t 2 0 2 1 := by
    have h := hx 1 0 1 2
    simpa [σx, εx] using h
  have hx_1020 : t 1 0 2 0 = -(t 2 0 1 0) := by
    have h := hx 1 0 2 0
    simpa [σx, εx] using h
  have hx_1021 : t 1 0 2 1 = t 2 0 1 2 := by
    have h := hx 1 0 2 1
    simpa [σx, εx] using h
  have hx_1022 : t 1 0 2 2 = -(t 2 0 1 1) := by
    have h := hx 1 0 2 2
    simpa [σx, εx] using h
  have hx_1100 : t 1 1 0 0 = t 2 2 0 0 := by
    have h := hx 1 1 0 0
    simpa [σx, εx] using h
  have hx_1101 : t 1 1 0 1 = -(t 2 2 0 2) := by
    have h := hx 1 1 0 1
    simpa [σx, εx] using h
  have hx_1102 : t 1 1 0 2 = t 2 2 0 1 := by
    have h := hx 1 1 0 2
    simpa [σx, εx] using h
  have hx_1110 : t 1 1 1 0 = -(t 2 2 2 0) := by
    have h := hx 1 1 1 0
    simpa [σx, εx] using h
  have hx_1111 : t 1 1 1 1 = t 2 2 2 2 := by
    have h := hx 1 1 1 1
    simpa [σx, εx] using h
  have hz_0000 : t 0 0 0 0 = t 1 1 1 1 := by
    have h := hz 0 0 0 0
    simpa [σz, εz] using h
  have hz_0001 : t 0 0 0 1 = -(t 1 1 1 0) := by
    have h := hz 0 0 0 1
    simpa [σz, εz] using h
  have hz_0002 : t 0 0 0 2 = -(t 1 1 1 2) := by
    have h := hz 0 0 0 2
    simpa [σz, εz] using h
  have hz_0010 : t 0 0 1 0 = -(t 1 1 0 1) := by
    have h := hz 0 0 1 0
    simpa [σz, εz] using h
  have hz_0011 : t 0 0 1 1 = t 1 1 0 0 := by
    have h := hz 0 0 1 1
    simpa [σz, εz] using h
  have hz_0012 : t 0 0 1 2 = t 1 1 0 2 := by
    have h := hz 0 0 1 2
    simpa [σz, εz] using h
  have hz_0020 : t 0 0 2 0 = -(t 1 1 2 1) := by
    have h := hz 0 0 2 0
    simpa [σz, εz] using h
  have hz_0021 : t 0 0 2 1 = t 1 1 2 0 := by
    have h := hz 0 0 2 1
    simpa [σz, εz] using h
  have hz_0022 : t 0 0 2 2 = t 1 1 2 2 := by
    have h := hz 0 0 2 2
    simpa [σz, εz] using h
  have hz_0100 : t 0 1 0 0 = -(t 1 0 1 1) := by
    have h := hz 0 1 0 0
    simpa [σz, εz] using h
  have hz_0101 : t 0 1 0 1 = t 1 0 1 0 := by
    have h := hz 0 1 0 1
    simpa [σz, εz] using h
  have hz_0102 : t 0 1 0 2 = t 1 0 1 2 := by
    have h := hz 0 1 0 2
    simpa [σz, εz] using h
  have hz_0110 : t 0 1 1 0 = t 1 0 0 1 := by
    have h := hz 0 1 1 0
    simpa [σz, εz] using h
  have hz_0111 : t 0 1 1 1 = -(t 1 0 0 0) := by
    have h := hz 0 1 1 1
    simpa [σz, εz] using h
  have hz_0112 : t 0 1 1 2 = -(t 1 0 0 2) := by
    have h := hz 0 1 1 2
    simpa [σz, εz] using h
  have hz_0120 : t 0 1 2 0 = t 1 0 2 1 := by
    have h := hz 0 1 2 0
    simpa [σz, εz] using h
  have hz_0121 : t 0 1 2 1 = -(t 1 0 2 0) := by
    have h := hz 0 1 2 1
    simpa [σz, εz] using h
  have hz_0122 : t 0 1 2 2 = -(t 1 0 2 2) := by
    have h := hz 0 1 2 2
    simpa [σz, εz] using h
  have hz_0200 : t 0 2 0 0 = -(t 1 2 1 1) := by
    have h := hz 0 2 0 0
    simpa [σz, εz] using h
  have hz_0201 : t 0 2 0 1 = t 1 2 1 0 := by
    have h := hz 0 2 0 1
    simpa [σz, εz] using h
  have hz_0202 : t 0 2 0 2 = t 1 2 1 2 := by
    have h := hz 0 2 0 2
    simpa [σz, εz] using h
  have hz_0210 : t 0 2 1 0 = t 1 2 0 1 := by
    have h := hz 0 2 1 0
    simpa [σz, εz] using h
  have hz_0211 : t 0 2 1 1 = -(t 1 2 0 0) := by
    have h := hz 0 2 1 1
    simpa [σz, εz] using h
  have hz_0212 : t 0 2 1 2 = -(t 1 2 0 2) := by
    have h := hz 0 2 1 2
    simpa [σz, εz] using h
  have hz_0220 : t 0 2 2 0 = t 1 2 2 1 := by
    have h := hz 0 2 2 0
    simpa [σz, εz] using h
  have hz_0221 : t 0 2 2 1 = -(t 1 2 2 0) := by
    have h := hz 0 2 2 1
    simpa [σz, εz] using h
  have hz_0222 : t 0 2 2 2 = -(t 1 2 2 2) := by
    have h := hz 0 2 2 2
    simpa [σz, εz] using h
  have hz_1012 : t 1 0 1 2 = -(t 0 1 0 2) := by
    have h := hz 1 0 1 2
    simpa [σz, εz] using h
  have hz_1021 : t 1 0 2 1 = -(t 0 1 2 0) := by
    have h := hz 1 0 2 1
    simpa [σz, εz] using h
  have hz_1102 : t 1 1 0 2 = -(t 0 0 1 2) := by
    have h := hz 1 1 0 2
    simpa [σz, εz] using h
  have hz_2000 : t 2 0 0 0 = -(t 2 1 1 1) := by
    have h := hz 2 0 0 0
    simpa [σz, εz] using h
  have hz_2001 : t 2 0 0 1 = t 2 1 1 0 := by
    have h := hz 2 0 0 1
    simpa [σz, εz] using h
  have hz_2002 : t 2 0 0 2 = t 2 1 1 2 := by
    have h := hz 2 0 0 2
    simpa [σz, εz] using h
  have hz_2010 : t 2 0 1 0 = t 2 1 0 1 := by
    have h := hz 2 0 1 0
    simpa [σz, εz] using h
  have hz_2011 : t 2 0 1 1 = -(t 2 1 0 0) := by
    have h := hz 2 0 1 1
    simpa [σz, εz] using h
  have hz_2012 : t 2 0 1 2 = -(t 2 1 0 2) := by
    have h := hz 2 0 1 2
    simpa [σz, εz] using h
  have hz_2020 : t 2 0 2 0 = t 2 1 2 1 := by
    have h := hz 2 0 2 0
    simpa [σz, εz] using h
  have hz_2021 : t 2 0 2 1 = -(t 2 1 2 0) := by
    have h := hz 2 0 2 1
    simpa [σz, εz] using h
  have hz_2022 : t 2 0 2 2 = -(t 2 1 2 2) := by
    have h := hz 2 0 2 2
    simpa [σz, εz] using h
  have hz_2200 : t 2 2 0 0 = t 2 2 1 1 := by
    have h := hz 2 2 0 0
    simpa [σz, εz] using h
  have hz_2201 : t 2 2 0 1 = -(t 2 2 1 0) := by
    have h := hz 2 2 0 1
    simpa [σz, εz] using h
  have hz_2202 : t 2 2 0 2 = -(t 2 2 1 2) := by
    have h := hz 2 2 0 2
    simpa [σz, εz] using h
  have hz_2220 : t 2 2 2 0 = -(t 2 2 2 1) := by
    have h := hz 2 2 2 0
    simpa [σz, εz] using h
  have e1111 : t 1 1 1 1 = t 0 0 0 0 := by linarith only [hz_0000]
  have e2222 : t 2 2 2 2 = t 0 0 0 0 := by linarith only [hz_0000, hx_1111]
  have z0001 : t 0 0 0 1 = 0 := by linarith only [hx_0001, hx_0002]
  have z1110 : t 1 1 1 0 = 0 := by linarith only [z0001, hz_0001]
  have z0002 : t 0 0 0 2 = 0 := by linarith only [z0001, hx_0001]
  have z2220 : t 2 2 2 0 = 0 := by linarith only [z0001, hz_0001, hx_1110]
  have z1112 : t 1 1 1 2 = 0 := by linarith only [z0001, hx_0001, hz_0002]
  have z2221 : t 2 2 2 1 = 0 := by linarith only [z0001, hz_0001, hx_1110, hz_2220]
  have z0010 : t 0 0 1 0 = 0 := by linarith only [hx_0010, hx_0020]
  have z1101 : t 1 1 0 1 = 0 := by linarith only [z0010, hz_0010]
  have z0020 : t 0 0 2 0 = 0 := by linarith only [z0010, hx_0010]
  have z2202 : t 2 2 0 2 = 0 := by linarith only [z0010, hz_0010, hx_1101]
  have z1121 : t 1 1 2 1 = 0 := by linarith only [z0010, hx_0010, hz_0020]
  have z2212 : t 2 2 1 2 = 0 := by linarith only [z0010, hz_0010, hx_1101, hz_2202]
  have e1100 : t 1 1 0 0 = t 0 0 1 1 := by linarith only [hz_0011]
  have e0022 : t 0 0 2 2 = t 0 0 1 1 := by linarith only [hx_0011]
  have e2200 : t 2 2 0 0 = t 0 0 1 1 := by linarith only [hz_0011, hx_1100]
  have e1122 : t 1 1 2 2 = t 0 0 1 1 := by linarith only [hx_0011, hz_0022]
  have e2211 : t 2 2 1 1 = t 0 0 1 1 := by linarith only [hz_0011, hx_1100, hz_2200]
  have z0012 : t 0 0 1 2 = 0 := by linarith only [hz_0012, hz_1102]
  have z1102 : t 1 1 0 2 = 0 := by linarith only [z0012, hz_0012]
  have z0021 : t 0 0 2 1 = 0 := by linarith only [z0012, hx_0012]
  have z2201 : t 2 2 0 1 = 0 := by linarith only [z0012, hz_0012, hx_1102]
  have z1120 : t 1 1 2 0 = 0 := by linarith only [z0012, hx_0012, hz_0021]
  have z2210 : t 2 2 1 0 = 0 := by linarith only [z0012, hz_0012, hx_1102, hz_2201]
  have z0100 : t 0 1 0 0 = 0 := by linarith only [hx_0100, hx_0200]
  have z1011 : t 1 0 1 1 = 0 := by linarith only [z0100, hz_0100]
  have z0200 : t 0 2 0 0 = 0 := by linarith only [z0100, hx_0100]
  have z2022 : t 2 0 2 2 = 0 := by linarith only [z0100, hz_0100, hx_1011]
  have z1211 : t 1 2 1 1 = 0 := by linarith only [z0100, hx_0100, hz_0200]
  have z2122 : t 2 1 2 2 = 0 := by linarith only [z0100, hz_0100, hx_1011, hz_2022]
  have e1010 : t 1 0 1 0 = t 0 1 0 1 := by linarith only [hz_0101]
  have e0202 : t 0 2 0 2 = t 0 1 0 1 := by linarith only [hx_0101]
  have e2020 : t 2 0 2 0 = t 0 1 0 1 := by linarith only [hz_0101, hx_1010]
  have e1212 : t 1 2 1 2 = t 0 1 0 1 := by linarith only [hx_0101, hz_0202]
  have e2121 : t 2 1 2 1 = t 0 1 0 1 := by linarith only [hz_0101, hx_1010, hz_2020]
  have z0102 : t 0 1 0 2 = 0 := by linarith only [hz_0102, hz_1012]
  have z1012 : t 1 0 1 2 = 0 := by linarith only [z0102, hz_0102]
  have z0201 : t 0 2 0 1 = 0 := by linarith only [z0102, hx_0102]
  have z2021 : t 2 0 2 1 = 0 := by linarith only [z0102, hz_0102, hx_1012]
  have z1210 : t 1 2 1 0 = 0 := by linarith only [z0102, hx_0102, hz_0201]
  have z2120 : t 2 1 2 0 = 0 := by linarith only [z0102, hz_0102, hx_1012, hz_2021]
  have e1001 : t 1 0 0 1 = t 0 1 1 0 := by linarith only [hz_0110]
  have e0220 : t 0 2 2 0 = t 0 1 1 0 := by linarith only [hx_0110]
  have e2002 : t 2 0 0 2 = t 0 1 1 0 := by linarith only [hz_0110, hx_1001]
  have e1221 : t 1 2 2 1 = t 0 1 1 0 := by linarith only [hx_0110, hz_0220]
  have e2112 : t 2 1 1 2 = t 0 1 1 0 := by linarith only [hz_0110, hx_1001, hz_2002]
  have z0111 : t 0 1 1 1 = 0 := by linarith only [hx_0111, hx_0222]
  have z1000 : t 1 0 0 0 = 0 := by linarith only [z0111, hz_0111]
  have z0222 : t 0 2 2 2 = 0 := by linarith only [z0111, hx_0111]
  have z2000 : t 2 0 0 0 = 0 := by linarith only [z0111, hz_0111, hx_1000]
  have z1222 : t 1 2 2 2 = 0 := by linarith only [z0111, hx_0111, hz_0222]
  have z2111 : t 2 1 1 1 = 0 := by linarith only [z0111, hz_0111, hx_1000, hz_2000]
  have z0112 : t 0 1 1 2 = 0 := by linarith only [hx_0112, hx_0221]
  have z1002 : t 1 0 0 2 = 0 := by linarith only [z0112, hz_0112]
  have z0221 : t 0 2 2 1 = 0 := by linarith only [z0112, hx_0112]
  have z2001 : t 2 0 0 1 = 0 := by linarith only [z0112, hz_0112, hx_1002]
  have z1220 : t 1 2 2 0 = 0 := by linarith only [z0112, hx_0112, hz_0221]
  have z2110 : t 2 1 1 0 = 0 := by linarith only [z0112, hz_0112, hx_1002, hz_2001]
  have z0120 : t 0 1 2 0 = 0 := by linarith only [hz_0120, hz_1021]
  have z1021 : t 1 0 2 1 = 0 := by linarith only [z0120, hz_0120]
  have z0210 : t 0 2 1 0 = 0 := by linarith only [z0120, hx_0120]
  have z2012 : t 2 0 1 2 = 0 := by linarith only [z0120, hz_0120, hx_1021]
  have z1201 : t 1 2 0 1 = 0 := by linarith only [z0120, hx_0120, hz_0210]
  have z2102 : t 2 1 0 2 = 0 := by linarith only [z0120, hz_0120, hx_1021, hz_2012]
  have z0121 : t 0 1 2 1 = 0 := by linarith only [hx_0121, hx_0212]
  have z1020 : t 1 0 2 0 = 0 := by linarith only [z0121, hz_0121]
  have z0212 : t 0 2 1 2 = 0 := by linarith only [z0121, hx_0121]
  have z2010 : t 2 0 1 0 = 0 := by linarith only [z0121, hz_0121, hx_1020]
  have z1202 : t 1 2 0 2 = 0 := by linarith only [z0121, hx_0121, hz_0212]
  have z2101 : t 2 1 0 1 = 0 := by linarith only [z0121, hz_0121, hx_1020, hz_2010]
  have z0122 : t 0 1 2 2 = 0 := by linarith only [hx_0122, hx_0211]
  have z1022 : t 1 0 2 2 = 0 := by linarith only [z0122, hz_0122]
  have z0211 : t 0 2 1 1 = 0 := by linarith only [z0122, hx_0122]
  have z2011 : t 2 0 1 1 = 0 := by linarith only [z0122, hz_0122, hx_1022]
  have z1200 : t 1 2 0 0 = 0 := by linarith only [z0122, hx_0122, hz_0211]
  have z2100 : t 2 1 0 0 = 0 := by linarith only [z0122, hz_0122, hx_1022, hz_2011]

  intro i j k l
  fin_cases i <;> fin_cases j <;> fin_cases k <;> fin_cases l <;> simp <;> first | done | assumption | (linarith only [e1111, e2222])

end QV.C12
