import QV.Model.C12W
import QV.Lemmas.Bridge
import Mathlib.Algebra.BigOperators.Ring.Finset
import Mathlib.Tactic.Ring

/-!
# C12 — additivity for uncoupled molecules rests on the widths of the 1→2 transitions

For molecules that are not coupled the eigenvector matrix is the identity.  The excited-state absorption
pathway `a → (a,b)` then has to carry exactly the line shape of molecule `b` (the molecule that is being
excited), because only then does it cancel the cross-peak pathways and leave the sum of the single-molecule
responses.  `uncoupled_first` / `uncoupled_second` prove that the three blocks built by `diagonalize`,
combined as `get_transition_width` / `get_transition_dephasing` combine them, give exactly that - for the
Gaussian widths and, since the repair of the missing dephasing blocks, for the Lorentzian rates (same
functions, `w` = rates).  The blocks themselves are tied to the code by the correspondence on coupled
aggregates (driver op `widths`).
-/
namespace QV.C12W
open QV Finset

section
variable {α : Type} [CommRing α]

theorem oneDiag_uncoupled {N1 : Nat} (w : Fin N1 → α) (a : Fin N1) :
    oneDiag (fun i j => kd i j) w a = w a := by
  simp only [oneDiag, sumFin_eq_sum, sq, kd]
  rw [Finset.sum_eq_single a]
  · simp
  · intro n _ hn; simp [hn]
  · simp

theorem cross_uncoupled {N1 M : Nat} (w : Fin N1 → α) (tw : Fin M → Fin N1 × Fin N1) (A : Fin M) (a : Fin N1) :
    cross (fun i j => kd i j) (fun i j => kd i j) w tw A a
      = w (tw A).1 * kd (tw A).1 a + w (tw A).2 * kd (tw A).2 a := by
  simp only [cross, sumFin_eq_sum, sq, kd]
  rw [Finset.sum_eq_single A]
  · rw [Finset.sum_eq_single a]
    · simp
    · intro k _ hk; simp [hk]
    · simp
  · intro K _ hK; simp [hK]
  · simp

theorem kappa_uncoupled {N1 M : Nat} (tw : Fin M → Fin N1 × Fin N1) (n : Fin N1) (A : Fin M) :
    kappa (α := α) (fun i j => kd i j) tw n A = kd n (tw A).1 + kd n (tw A).2 := by
  simp only [kappa, sumFin_eq_sum, sq, kd]
  rw [Finset.sum_eq_single A]
  · simp
  · intro K _ hK; simp [hK]
  · simp

theorem twoDiag_uncoupled {N1 M : Nat} (w : Fin N1 → α) (tw : Fin M → Fin N1 × Fin N1) (A : Fin M)
    (hne : (tw A).1 ≠ (tw A).2) :
    twoDiag (fun i j => kd i j) w tw A = w (tw A).1 + w (tw A).2 := by
  simp only [twoDiag, sumFin_eq_sum]
  rw [Finset.sum_eq_single A]
  · rw [kappa_uncoupled, kappa_uncoupled]
    have h21 : (tw A).2 ≠ (tw A).1 := fun h => hne h.symm
    simp [sq, kd, hne, h21]
  · intro K _ hK; simp [sq, kd, hK]
  · simp

/-- **uncoupled molecules, transition `k → (k,l)`**: the width / dephasing rate is that of molecule `l` -/
theorem uncoupled_first {N1 M : Nat} (w : Fin N1 → α) (tw : Fin M → Fin N1 × Fin N1) (A : Fin M)
    (hne : (tw A).1 ≠ (tw A).2) :
    transWidth (fun i j => kd i j) (fun i j => kd i j) w tw (tw A).1 A = w (tw A).2 := by
  have h21 : (tw A).2 ≠ (tw A).1 := fun h => hne h.symm
  simp only [transWidth, oneDiag_uncoupled, cross_uncoupled, twoDiag_uncoupled w tw A hne]
  simp [kd, h21]

/-- **uncoupled molecules, transition `l → (k,l)`**: the width / dephasing rate is that of molecule `k` -/
theorem uncoupled_second {N1 M : Nat} (w : Fin N1 → α) (tw : Fin M → Fin N1 × Fin N1) (A : Fin M)
    (hne : (tw A).1 ≠ (tw A).2) :
    transWidth (fun i j => kd i j) (fun i j => kd i j) w tw (tw A).2 A = w (tw A).1 := by
  simp only [transWidth, oneDiag_uncoupled, cross_uncoupled, twoDiag_uncoupled w tw A hne]
  simp [kd, hne]

/-- what the unrepaired Lorentzian branch computed (two-exciton and cross blocks never built, i.e. zero):
the rate of the molecule that was excited *before*, not of the one being excited — the recorded
non-additivity for unequal rates -/
theorem unbuilt_blocks_witness {N1 : Nat} (w : Fin N1 → α) (a : Fin N1) :
    oneDiag (fun i j => kd i j) w a + 0 - (0 + 0) = w a := by
  rw [oneDiag_uncoupled]; ring
end

/-- non-vacuity: heterodimer, states g,1,2 and the two-exciton state (1,2); rates 3 and 5 -/
example : transWidth (α := Int) (N1 := 3) (M := 1) (fun i j => kd i j) (fun i j => kd i j)
    (fun n => if n = 1 then 3 else if n = 2 then 5 else 0) (fun _ => (1, 2)) 1 0 = 5 := by decide

end QV.C12W
