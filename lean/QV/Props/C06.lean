import QV.Model.C06
import QV.Model.C01
import QV.Lemmas.Bridge
import Mathlib.Analysis.SpecialFunctions.Exponential
import Mathlib.Analysis.SpecialFunctions.Trigonometric.DerivHyp
import Mathlib.Algebra.Order.Star.Real
import Mathlib.Algebra.BigOperators.Ring.Finset
import Mathlib.Algebra.Order.BigOperators.Group.Finset
import Mathlib.Tactic.Ring
import Mathlib.Tactic.Linarith
import Mathlib.Tactic.FieldSimp
import Mathlib.Tactic.Positivity

/-!
# C06 — rates and bath functions obey detailed balance and conserve probability
Theorems about the model `QV.C06` over the reals.
-/
namespace QV.C06
open QV Finset

section redfield
variable {n nk : Nat}

/-! ## conservation of probability -/

theorem colsum_lemma {n : Nat} (f : Fin n → ℝ) (j : Fin n) :
    ∑ i, (if i = j then 0 - ∑ i', (if i' = j then 0 else f i') else f i) = 0 := by
  have h2 : ∑ i', (if i' = j then (0 : ℝ) else f i') = ∑ x ∈ univ.erase j, f x := by
    rw [← Finset.add_sum_erase _ _ (Finset.mem_univ j)]
    simp only [if_true, zero_add]
    exact Finset.sum_congr rfl (fun x hx => by simp [Finset.ne_of_mem_erase hx])
  rw [← Finset.add_sum_erase _ _ (Finset.mem_univ j)]
  simp only [if_true]
  have h1 : ∑ x ∈ univ.erase j, (if x = j then 0 - ∑ i', (if i' = j then 0 else f i') else f x)
      = ∑ x ∈ univ.erase j, f x :=
    Finset.sum_congr rfl (fun x hx => by simp [Finset.ne_of_mem_erase hx])
  rw [h1, h2]
  ring

/-- **columns of the rate matrix sum to zero**, whatever the bath functions, energies, couplings,
cut-off and clean-up do -/
theorem rate_colsum (rtol : ℝ) (KI cc : Fin nk → Fin n → Fin n → ℝ) (j : Fin n) :
    ∑ i, rateMatrix rtol KI cc i j = 0 := by
  unfold rateMatrix
  simp only [sumFin_eq_sum]
  exact colsum_lemma (fun i => clean rtol (rawRate KI cc i j)) j

/-! ## signs -/

theorem absK_eq_abs (x : ℝ) : absK x = |x| := by
  unfold absK
  split_ifs with h
  · exact (abs_of_neg h).symm
  · exact (abs_of_nonneg (not_lt.mp h)).symm

/-- the bath factor is non-negative when the Fourier-transformed correlation function is non-negative
at non-negative frequencies and the Boltzmann factor is positive -/
theorem cc_nonneg (cutoff : ℝ) (cw boltz : ℝ → ℝ) (E : Fin n → ℝ) (hcw : ∀ x, 0 ≤ x → 0 ≤ cw x)
    (hb : ∀ x, 0 < boltz x) (i j : Fin n) : 0 ≤ ccEntry cutoff cw boltz E i j := by
  unfold ccEntry om
  split_ifs with h1 h2 h3
  · exact le_refl _
  · exact le_refl _
  · have : 0 ≤ E i - E j := by linarith
    exact mul_nonneg (hcw _ this) (le_of_lt (hb _))
  · exact hcw _ (not_lt.mp h3)

/-- the system operators stay symmetric in the eigenbasis when the inverse handed to the kernel is the
transpose (real symmetric Hamiltonian, `eigh`) -/
theorem toEigen_symm (S Kk : Fin n → Fin n → ℝ) (hK : ∀ p q, Kk p q = Kk q p) (a b : Fin n) :
    toEigen (fun p q => S q p) S Kk a b = toEigen (fun p q => S q p) S Kk b a := by
  simp only [toEigen, matMul, sumFin_eq_sum, Finset.mul_sum]
  rw [Finset.sum_comm]
  refine Finset.sum_congr rfl (fun p _ => Finset.sum_congr rfl (fun q _ => ?_))
  rw [hK q p]
  ring

theorem rawRate_nonneg (KI cc : Fin nk → Fin n → Fin n → ℝ) (hcc : ∀ k i j, 0 ≤ cc k i j)
    (hKI : ∀ k i j, KI k i j = KI k j i) (i j : Fin n) : 0 ≤ rawRate KI cc i j := by
  unfold rawRate
  split_ifs
  · exact le_refl _
  · rw [sumFin_eq_sum]
    refine Finset.sum_nonneg (fun k _ => ?_)
    rw [hKI k j i, mul_assoc]
    exact mul_nonneg (hcc k i j) (mul_self_nonneg _)

theorem clean_of_nonneg (rtol r : ℝ) (h : 0 ≤ r) : clean rtol r = r := by
  unfold clean
  rw [if_neg (not_lt.mpr h)]

/-- the clean-up leaves a rate that is non-negative or is at least `rtol` below zero (the case the
code reports with a warning) -/
theorem clean_nonneg_or_flagged (rtol r : ℝ) : 0 ≤ clean rtol r ∨ clean rtol r ≤ -rtol := by
  unfold clean
  split_ifs with h1 h2
  · exact Or.inl (le_refl _)
  · right
    rw [absK_eq_abs, abs_of_neg h1] at h2
    linarith [not_lt.mp h2]
  · exact Or.inl (not_lt.mp h1)

/-- **off-diagonal rates are non-negative** -/
theorem rate_offdiag_nonneg (rtol : ℝ) (KI cc : Fin nk → Fin n → Fin n → ℝ) (hcc : ∀ k i j, 0 ≤ cc k i j)
    (hKI : ∀ k i j, KI k i j = KI k j i) (i j : Fin n) (hij : i ≠ j) : 0 ≤ rateMatrix rtol KI cc i j := by
  unfold rateMatrix
  rw [if_neg hij, clean_of_nonneg _ _ (rawRate_nonneg KI cc hcc hKI i j)]
  exact rawRate_nonneg KI cc hcc hKI i j

/-- ... and then the clean-up changes nothing -/
theorem rate_offdiag_eq_raw (rtol : ℝ) (KI cc : Fin nk → Fin n → Fin n → ℝ) (hcc : ∀ k i j, 0 ≤ cc k i j)
    (hKI : ∀ k i j, KI k i j = KI k j i) (i j : Fin n) (hij : i ≠ j) :
    rateMatrix rtol KI cc i j = rawRate KI cc i j := by
  unfold rateMatrix
  rw [if_neg hij, clean_of_nonneg _ _ (rawRate_nonneg KI cc hcc hKI i j)]

/-! ## no transfer to or from the ground state -/

/-- with a block-diagonal eigenvector matrix (the ground state is its own eigenstate) and system
operators that do not touch the ground state, the transformed operators do not either -/
theorem toEigen_ground (S1 S Kk : Fin n → Fin n → ℝ) (g : Fin n)
    (hK : ∀ p, Kk g p = 0 ∧ Kk p g = 0) (hS1 : ∀ p, p ≠ g → S1 g p = 0) (hS : ∀ q, q ≠ g → S q g = 0)
    (j : Fin n) : toEigen S1 S Kk g j = 0 ∧ toEigen S1 S Kk j g = 0 := by
  simp only [toEigen, matMul, sumFin_eq_sum]
  constructor
  · refine Finset.sum_eq_zero (fun p _ => ?_)
    by_cases hp : p = g
    · subst hp
      simp [(hK _).1]
    · simp [hS1 p hp]
  · refine Finset.sum_eq_zero (fun p _ => ?_)
    have : ∑ q, Kk p q * S q g = 0 := by
      refine Finset.sum_eq_zero (fun q _ => ?_)
      by_cases hq : q = g
      · subst hq
        simp [(hK p).2]
      · simp [hS q hq]
    rw [this, mul_zero]

/-- **no transfer to or from the ground state** -/
theorem rate_ground_decoupled (rtol : ℝ) (KI cc : Fin nk → Fin n → Fin n → ℝ) (g : Fin n)
    (hKI : ∀ k j, KI k g j = 0 ∧ KI k j g = 0) (j : Fin n) (hj : j ≠ g) :
    rateMatrix rtol KI cc g j = 0 ∧ rateMatrix rtol KI cc j g = 0 := by
  have h1 : rawRate KI cc g j = 0 := by
    unfold rawRate
    rw [if_neg (Ne.symm hj), sumFin_eq_sum]
    exact Finset.sum_eq_zero (fun k _ => by rw [(hKI k j).1]; ring)
  have h2 : rawRate KI cc j g = 0 := by
    unfold rawRate
    rw [if_neg hj, sumFin_eq_sum]
    exact Finset.sum_eq_zero (fun k _ => by rw [(hKI k j).1]; ring)
  unfold rateMatrix
  rw [if_neg (Ne.symm hj), if_neg hj, h1, h2]
  simp [clean]

/-! ## detailed balance -/

/-- the bath factors of a pair of states are related by the Boltzmann factor of their energy difference:
by construction, for every correlation function, cut-off and pair (including pairs beyond the cut-off,
where both vanish) -/
theorem cc_detailed_balance (cutoff : ℝ) (cw boltz : ℝ → ℝ) (E : Fin n → ℝ) (a b : Fin n) (hab : E b < E a) :
    ccEntry cutoff cw boltz E a b = ccEntry cutoff cw boltz E b a * boltz (E a - E b) := by
  have hne : a ≠ b := by
    intro h; rw [h] at hab; exact lt_irrefl _ hab
  unfold ccEntry om
  rw [if_neg hne, if_neg (Ne.symm hne)]
  have habs : absK (E b - E a) = absK (E a - E b) := by
    rw [absK_eq_abs, absK_eq_abs, abs_sub_comm]
  rw [habs]
  have hneg : E b - E a < 0 := by linarith
  have hpos : ¬ (E a - E b < 0) := by linarith
  rw [if_pos hneg, if_neg hpos]
  split_ifs with h1
  · ring
  · rfl

/-- states of equal energy exchange population at equal rates -/
theorem cc_degenerate (cutoff : ℝ) (cw boltz : ℝ → ℝ) (E : Fin n → ℝ) (a b : Fin n) (hab : E a = E b) :
    ccEntry cutoff cw boltz E a b = ccEntry cutoff cw boltz E b a := by
  unfold ccEntry om
  by_cases h : a = b
  · subst h; rfl
  · rw [if_neg h, if_neg (Ne.symm h), hab]

/-- **detailed balance of the accumulated rates**: `k(a←b) = e^{−(E_a−E_b)/kT} k(b←a)` for `E_a > E_b`,
for any number of bath components sharing the temperature, any couplings -/
theorem raw_detailed_balance (cutoff : ℝ) (cw : Fin nk → ℝ → ℝ) (boltz : ℝ → ℝ) (E : Fin n → ℝ)
    (KI : Fin nk → Fin n → Fin n → ℝ) (a b : Fin n) (hab : E b < E a) :
    rawRate KI (fun k => ccEntry cutoff (cw k) boltz E) a b
      = boltz (E a - E b) * rawRate KI (fun k => ccEntry cutoff (cw k) boltz E) b a := by
  have hne : a ≠ b := by
    intro h; rw [h] at hab; exact lt_irrefl _ hab
  unfold rawRate
  rw [if_neg hne, if_neg (Ne.symm hne), sumFin_eq_sum, sumFin_eq_sum, Finset.mul_sum]
  refine Finset.sum_congr rfl (fun k _ => ?_)
  show ccEntry cutoff (cw k) boltz E a b * KI k a b * KI k b a
    = boltz (E a - E b) * (ccEntry cutoff (cw k) boltz E b a * KI k b a * KI k a b)
  rw [cc_detailed_balance cutoff (cw k) boltz E a b hab]
  ring

/-- the statement with the exponential: `boltz x = exp(−x/kT)` is what `_set_rates` multiplies by -/
theorem rate_detailed_balance (cutoff rtol kT : ℝ) (cw : Fin nk → ℝ → ℝ) (E : Fin n → ℝ)
    (S : Fin n → Fin n → ℝ) (KK : Fin nk → Fin n → Fin n → ℝ)
    (hcw : ∀ k x, 0 ≤ x → 0 ≤ cw k x) (hKK : ∀ k p q, KK k p q = KK k q p)
    (a b : Fin n) (hab : E b < E a) :
    redfieldRates cutoff rtol cw (fun x => Real.exp (-x / kT)) E (fun p q => S q p) S KK a b
      = Real.exp (-(E a - E b) / kT)
        * redfieldRates cutoff rtol cw (fun x => Real.exp (-x / kT)) E (fun p q => S q p) S KK b a := by
  have hne : a ≠ b := by
    intro h; rw [h] at hab; exact lt_irrefl _ hab
  unfold redfieldRates
  have hcc : ∀ k i j, 0 ≤ ccEntry cutoff (cw k) (fun x => Real.exp (-x / kT)) E i j :=
    fun k i j => cc_nonneg cutoff (cw k) _ E (hcw k) (fun x => Real.exp_pos _) i j
  have hKI : ∀ k i j, toEigen (fun p q => S q p) S (KK k) i j = toEigen (fun p q => S q p) S (KK k) j i :=
    fun k i j => toEigen_symm S (KK k) (hKK k) i j
  rw [rate_offdiag_eq_raw rtol _ _ hcc hKI a b hne, rate_offdiag_eq_raw rtol _ _ hcc hKI b a (Ne.symm hne)]
  exact raw_detailed_balance cutoff cw _ E _ a b hab

/-! ## golden-rule form -/

/-- **the downhill rate is `Σ_n |c_na|² |c_nb|² Ĉ_n(ω_ba)`** when the system operators are the site
projectors (`KI_n[a,b] = c_na c_nb`) -/
theorem rate_goldenrule_form (cutoff : ℝ) (cw : Fin nk → ℝ → ℝ) (boltz : ℝ → ℝ) (E : Fin n → ℝ)
    (c : Fin nk → Fin n → ℝ) (a b : Fin n) (hab : E a < E b) (hcut : ¬ cutoff < |E b - E a|) :
    rawRate (fun k i j => c k i * c k j) (fun k => ccEntry cutoff (cw k) boltz E) a b
      = ∑ k, (c k a) ^ 2 * (c k b) ^ 2 * cw k (E b - E a) := by
  have hne : a ≠ b := by
    intro h; rw [h] at hab; exact lt_irrefl _ hab
  unfold rawRate
  rw [if_neg hne, sumFin_eq_sum]
  refine Finset.sum_congr rfl (fun k _ => ?_)
  show ccEntry cutoff (cw k) boltz E a b * (c k a * c k b) * (c k b * c k a) = _
  unfold ccEntry om
  rw [if_neg hne, absK_eq_abs, if_neg hcut, if_neg (by linarith)]
  ring

/-- site projectors in the eigenbasis: `(Sᵀ |m⟩⟨m| S)[a,b] = S[m,a] S[m,b]` -/
theorem toEigen_projector (S : Fin n → Fin n → ℝ) (m a b : Fin n) :
    toEigen (fun p q => S q p) S (fun p q => if p = m ∧ q = m then 1 else 0) a b = S m a * S m b := by
  simp only [toEigen, matMul, sumFin_eq_sum]
  rw [Finset.sum_eq_single m]
  · rw [Finset.sum_eq_single m]
    · simp
    · intro q _ hq; simp [hq]
    · intro h; exact absurd (Finset.mem_univ _) h
  · intro p _ hp
    have : ∑ q, (if p = m ∧ q = m then (1 : ℝ) else 0) * S q b = 0 :=
      Finset.sum_eq_zero (fun q _ => by simp [hp])
    rw [this, mul_zero]
  · intro h; exact absurd (Finset.mem_univ _) h

/-- **the population-transfer element of the Redfield tensor** (model of `_loopit`, C01): for `a ≠ c`
`R[a,a,c,c] = K_ac conj(Λ_ac) + Λ_ac K_ac`, i.e. `2 Re(ĉ_half(ω)) K_ac²` for real `K` with
`Λ_ac = ĉ_half(ω_ca) K_ac` - the rate above when `2 Re ĉ_half = Ĉ` -/
theorem tensor_population_element (Kop : QV.C01.Mat ℂ n) (L : QV.C01.Mat ℂ n) (a c : Fin n) (hac : a ≠ c) :
    QV.C01.loopTerm Kop (fun i j => Kop j i) L (fun i j => star (L j i)) a a c c
      = Kop a c * star (L a c) + L a c * Kop a c := by
  unfold QV.C01.loopTerm
  simp [hac]

end redfield

/-! ## Foerster rates -/
section foerster
variable {n : Nat}

/-- **columns of the Foerster rate matrix sum to zero** -/
theorem foerster_colsum (H fint : Fin n → Fin n → ℝ) (b : Fin n) : ∑ a, foersterRates H fint a b = 0 := by
  unfold foersterRates
  simp only [sumFin_eq_sum]
  exact colsum_lemma (fun a => H a b * H a b * fint a b) b

/-- **Foerster detailed balance (partial)**: GIVEN that the Foerster integrals of a pair are in the
ratio `exp(−(E°_a − E°_b)/kT)` of the relaxed site energies `E° = E − λ` (an analytic consequence of
`C(−ω) = e^{−ω/kT} C(ω)` for the exact integrals; for the numerical integral it is measured), the rates
are, for a symmetric coupling matrix -/
theorem foerster_detailed_balance_partial (H fint : Fin n → Fin n → ℝ) (E0 : Fin n → ℝ) (kT : ℝ)
    (hH : ∀ a b, H a b = H b a) (a b : Fin n) (hab : a ≠ b)
    (hf : fint a b = Real.exp (-(E0 a - E0 b) / kT) * fint b a) :
    foersterRates H fint a b = Real.exp (-(E0 a - E0 b) / kT) * foersterRates H fint b a := by
  unfold foersterRates
  rw [if_neg hab, if_neg (Ne.symm hab), hf, hH b a]
  ring

end foerster

/-! ## spectral densities and the fluctuation-dissipation relation -/
section kms

/-- `SpectralDensity._make_overdamped_brownian`: `(2λ/τ) ω / (ω² + (1/τ)²)` -/
noncomputable def jOverdamped (lam tau w : ℝ) : ℝ := (2 * lam / tau) * w / (w ^ 2 + (1 / tau) ^ 2)
/-- `SpectralDensity._make_underdamped_brownian`: `2λγ ω₀² ω / ((ω² − ω₀²)² + ω² γ²)` -/
noncomputable def jUnderdamped (lam gam w0 w : ℝ) : ℝ :=
  (2 * lam * gam) * (w0 ^ 2) * (w / ((w ^ 2 - w0 ^ 2) ^ 2 + w ^ 2 * gam ^ 2))

/-- **spectral densities are odd in frequency** -/
theorem jOverdamped_odd (lam tau w : ℝ) : jOverdamped lam tau (-w) = - jOverdamped lam tau w := by
  unfold jOverdamped
  rw [neg_sq]
  ring
theorem jUnderdamped_odd (lam gam w0 w : ℝ) : jUnderdamped lam gam w0 (-w) = - jUnderdamped lam gam w0 w := by
  unfold jUnderdamped
  rw [neg_sq, neg_div]
  ring

/-- `get_FTCorrelationFunction`: `(1 + 1/tanh(ω/2kT)) J(ω)` away from `ω = 0` -/
noncomputable def ftCorr (twokT : ℝ) (J : ℝ → ℝ) (w : ℝ) : ℝ := (1 + 1 / Real.tanh (w / twokT)) * J w

theorem coth_identity (x : ℝ) (hx : x ≠ 0) :
    (1 / Real.tanh x - 1) = Real.exp (-(2 * x)) * (1 + 1 / Real.tanh x) := by
  have hs : Real.sinh x ≠ 0 := by
    intro h
    exact hx (Real.sinh_eq_zero.mp h)
  have hc : Real.cosh x ≠ 0 := (Real.cosh_pos x).ne'
  rw [Real.tanh_eq_sinh_div_cosh]
  have e1 : 1 / (Real.sinh x / Real.cosh x) = Real.cosh x / Real.sinh x := by field_simp
  rw [e1]
  have hcs : Real.cosh x - Real.sinh x = Real.exp (-x) := Real.cosh_sub_sinh x
  have hcp : Real.cosh x + Real.sinh x = Real.exp x := Real.cosh_add_sinh x
  have e2 : Real.cosh x / Real.sinh x - 1 = Real.exp (-x) / Real.sinh x := by
    rw [← hcs]; field_simp
  have e3 : 1 + Real.cosh x / Real.sinh x = Real.exp x / Real.sinh x := by
    rw [← hcp]; field_simp; ring
  rw [e2, e3]
  have : Real.exp (-(2 * x)) * Real.exp x = Real.exp (-x) := by
    rw [← Real.exp_add]; congr 1; ring
  rw [← this]
  ring

/-- **the Fourier-transformed correlation function derived from an odd spectral density satisfies
`C(−ω) = e^{−ω/kT} C(ω)`** (`twokT = 2kT > 0`, `ω ≠ 0`) -/
theorem ftCorr_kms (twokT : ℝ) (hT : twokT ≠ 0) (J : ℝ → ℝ) (hJ : ∀ w, J (-w) = - J w) (w : ℝ) (hw : w ≠ 0) :
    ftCorr twokT J (-w) = Real.exp (-(w / (twokT / 2))) * ftCorr twokT J w := by
  unfold ftCorr
  have hx : w / twokT ≠ 0 := div_ne_zero hw hT
  rw [hJ w, neg_div, Real.tanh_neg]
  have key := coth_identity (w / twokT) hx
  have e : w / (twokT / 2) = 2 * (w / twokT) := by field_simp
  rw [e]
  have : (1 + 1 / -Real.tanh (w / twokT)) * -J w = (1 / Real.tanh (w / twokT) - 1) * J w := by
    rw [div_neg]; ring
  rw [this, key]
  ring

end kms
end QV.C06
