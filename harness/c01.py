"""C01 - relaxation generators preserve trace and Hermiticity."""
import ast
import math
from qvh.core import *
from qvh import extract as X

DRIVER = "C01"
PROPS = "QV.Props.C01"


def extract(ck):
    try:
        out = {}
        for key, rel, cls in (("zeroedLegacy", "quantarhei/qm/liouvillespace/relaxationtensor.py", "RelaxationTensor"),
                              ("zeroedTD", "quantarhei/qm/liouvillespace/tdredfieldtensor.py", "TDRedfieldRelaxationTensor")):
            fn = X.find_def(ast.parse(X.read_source(REPO, rel)), "secularize", cls=cls)
            tests = []
            for n in ast.walk(fn):
                if isinstance(n, ast.If) and set(x.id for x in ast.walk(n.test) if isinstance(x, ast.Name)) == {"ii", "jj", "kk", "ll"}:
                    body = [ast.unparse(s).replace(" ", "") for s in n.body]
                    if len(body) != 1 or not (body[0].startswith("self.data[") and body[0].endswith("=0")):
                        raise X.ExtractError("secularize: unexpected body under the index test: %s" % body)
                    tests.append(ast.unparse(n.test))
                    node = n.test
            if not tests or len(set(tests)) != 1:
                raise X.ExtractError("secularize of %s: index tests not found or not all equal: %s" % (cls, set(tests)))
            se = X.SymExec(["ii", "jj", "kk", "ll"])
            out[key] = X.lean_expr(se.ev(node, se.env)).replace(" : Int", " : Nat")
        body = "namespace QV.Gen.C01\n"
        for key, doc in (("zeroedLegacy", "RelaxationTensor.secularize(legacy=True)"), ("zeroedTD", "TDRedfieldRelaxationTensor.secularize()")):
            body += ("/-- elements set to zero by `%s` -/\n"
                     "def %s (ii jj kk ll : Nat) : Prop := %s\n"
                     "instance (ii jj kk ll : Nat) : Decidable (%s ii jj kk ll) := by unfold %s; infer_instance\n") % (doc, key, out[key], key, key)
        body += "end QV.Gen.C01\n"
        ck.gen("C01", body, facts=True)
        return True
    except (X.ExtractError, Exception) as e:
        return bool(ck.tie_fallback("C01", "extraction of the secular masks failed: %r" % (e,), default=False))


class Stub:
    def __init__(self, **kw):
        self.__dict__.update(kw)


def identities(numpy, R, what, ck, inp, tag, herm=True):
    """direct oracle: sum_a R[a,a,c,d] = 0 and conj R[a,b,c,d] = R[b,a,d,c] for a 4- or 5-index array"""
    R = numpy.asarray(R)
    if R.ndim == 4:
        R = R[None]
    sc = max(1e-300, float(numpy.abs(R).max()))
    tr = numpy.abs(numpy.einsum("taacd->tcd", R)).max()
    if tr > 1e-9 * sc:
        ck.fail("trace:%s" % tag, "%s: sum_a R[a,a,c,d] != 0" % what, inp, float(tr), "<= %.3g" % (1e-9 * sc))
    if herm:
        he = numpy.abs(numpy.conj(R) - numpy.transpose(R, (0, 2, 1, 4, 3))).max()
        if he > 1e-9 * sc:
            ck.fail("herm:%s" % tag, "%s: conj R[a,b,c,d] != R[b,a,d,c]" % what, inp, float(he), "<= %.3g" % (1e-9 * sc))


def run(ck):
    import numpy
    qr = import_quantarhei()
    from quantarhei.qm.liouvillespace import redfieldtensor as rt_mod
    from quantarhei.qm.liouvillespace.redfieldtensor import RedfieldRelaxationTensor
    from quantarhei.qm.liouvillespace.tdredfieldtensor import TDRedfieldRelaxationTensor
    from quantarhei.qm.liouvillespace.foerstertensor import FoersterRelaxationTensor
    from quantarhei.qm import LindbladForm, SystemBathInteraction, Operator
    from quantarhei import Hamiltonian, eigenbasis_of, Molecule, Aggregate, TimeAxis, CorrelationFunction, energy_units
    rng = ck.rng
    ck.rule = ("kernel stream: Gaussian-integer operator triples (K real, L complex, dims 1-4, 1-3 bath components) through "
               "RedfieldRelaxationTensor._convert_operators_2_tensor/_loopit, TDRedfield._convert_operators_2_tensor, LindbladForm, secularize "
               "(both masks), updateStructure, Foerster add_dephasing, RelaxationTensor.transform with signed-permutation/rational-orthogonal S; "
               "every tensor element compared with the rational model (exact inputs, 1e-9 tolerance only where floats divide); API stream: "
               "aggregates of 2-3 sites through get_RelaxationTensor for every theory x options, both identities evaluated on .data in site and "
               "exciton basis; non-trivial = dimension >= 2 with a complex L / an API tensor with non-zero off-diagonal elements")
    ck.trusted += ["harness/c01.py + extractor of the two secular masks", "hand model QV/Model/C01.lean validated on generated inputs only",
                   "numpy.linalg.eigh / spline quadrature produce the operators K, Lambda used by the API stream (their accuracy is irrelevant to the identities)"]
    ok = extract(ck)
    ck.prove(PROPS, extra_modules=["QV.Drive.C01"], also=["QV.Props.C01Basis"])
    lines, impl, tol = [], [], []

    def cvals(a):
        return " ".join(cfrac(x) for x in numpy.asarray(a).flatten())

    def emit(l, arr, t=0.0):
        lines.append(l); impl.append(cvals(arr)); tol.append(t)

    def rint(shape, cplx=False, lo=-4, hi=4):
        a = numpy.array([rng.randint(lo, hi) for _ in range(int(numpy.prod(shape)))], dtype=float).reshape(shape)
        if cplx:
            a = a + 1j * numpy.array([rng.randint(lo, hi) for _ in range(int(numpy.prod(shape)))], dtype=float).reshape(shape)
        return a

    def orth(n):
        """random signed permutation, sometimes composed with a rational rotation (3-4-5)"""
        p = list(range(n)); rng.shuffle(p)
        S = numpy.zeros((n, n))
        for i, j in enumerate(p):
            S[i, j] = rng.choice([1.0, -1.0])
        if n >= 2 and rng.random() < 0.6:
            G = numpy.eye(n)
            i, j = rng.sample(range(n), 2)
            G[i, i] = G[j, j] = 0.6; G[i, j] = 0.8; G[j, i] = -0.8
            S = S @ G
        return S

    nk = ck.n(40, 160)
    for h in range(nk):
        n = rng.choice([1, 2, 2, 3, 3, 4]) if not ck.quick else rng.choice([1, 2, 2, 3, 3])
        nb = rng.randint(1, 3)
        K = rint((nb, n, n))
        L = rint((nb, n, n), cplx=True)
        Ld = numpy.conj(numpy.transpose(L, (0, 2, 1)))
        hermitian_input = rng.random() < 0.8
        if not hermitian_input:
            Ld = rint((nb, n, n), cplx=True)       # trace identity must hold for ANY operators
        inp = {"n": n, "nb": nb, "K": K.tolist(), "L": [[[str(z) for z in r] for r in m] for m in L]}
        # -- time-independent Redfield assembly through the real method
        t = object.__new__(RedfieldRelaxationTensor)
        t.Hamiltonian = Stub(data=numpy.zeros((n, n)))
        t.SystemBathInteraction = Stub(N=nb)
        try:
            RR = t._convert_operators_2_tensor(K.copy(), L.copy(), Ld.copy())
        except Exception as e:
            ck.fail("raises:_convert_operators_2_tensor", "raised %r" % (e,), inp)
            continue
        emit("loopit %d %s %s %s" % (n, cvals(K), cvals(L), cvals(Ld)), RR)
        identities(numpy, RR, "RedfieldRelaxationTensor._convert_operators_2_tensor", ck, inp, "redfield-kernel", herm=hermitian_input)
        ck.case(("ti", n, nb, K.tobytes(), L.tobytes()), nontrivial=(n >= 2), kind="redfield-kernel", dim=n,
                sample={"n": n, "nb": nb, "K0": K[0].tolist()} if h < 1 else None)
        # -- operator form acts like the tensor form
        rho = rint((n, n), cplx=True)
        tq = object.__new__(RedfieldRelaxationTensor)
        tq.as_operators = True; tq._Km = K.copy(); tq._Lm = L.copy(); tq._Ld = Ld.copy(); tq._current_basis = 0
        try:
            tq.Km, tq.Lm, tq.Ld
            v_ops = tq.apply(Stub(data=rho.copy()), copy=False).data
            v_ten = numpy.tensordot(RR, rho)
            if numpy.abs(v_ops - v_ten).max() > 1e-9 * max(1.0, numpy.abs(v_ten).max()):
                ck.fail("apply:ops-vs-tensor", "operator form and tensor form act differently", inp, float(numpy.abs(v_ops - v_ten).max()))
        except Exception as e:
            ck.extra.setdefault("apply_ops_errors", []).append(repr(e)[:120])
        # -- time-dependent formula (needs symmetric K to be Hermiticity preserving)
        Ksym = K + numpy.transpose(K, (0, 2, 1))
        td = object.__new__(TDRedfieldRelaxationTensor)
        td.Hamiltonian = Stub(data=numpy.zeros((n, n)))
        td.SystemBathInteraction = Stub(N=nb)
        td.Nt = 2
        Lt = numpy.stack([L, 2 * L + 1])
        Ldt = numpy.conj(numpy.transpose(Lt, (0, 1, 3, 2)))
        RT = td._convert_operators_2_tensor(Ksym.copy(), Lt.copy(), Ldt.copy())
        for tt in range(2):
            emit("td %d %s %s %s" % (n, cvals(Ksym), cvals(Lt[tt]), cvals(Ldt[tt])), RT[tt])
        identities(numpy, RT, "TDRedfieldRelaxationTensor._convert_operators_2_tensor", ck, inp, "tdredfield-kernel")
        # -- secularisation, both masks
        sec = rt_obj(LindbladForm, SystemBathInteraction, Operator, Hamiltonian, numpy, n)
        sec._data = RR.copy()
        sec.secularize()
        emit("seclegacy %d %s" % (n, cvals(RR)), sec._data)
        secular_oracle(numpy, RR, sec._data, ck, inp, "legacy")
        # a history on ONE tensor object: secularise, give it non-secular data again, secularise again
        RR2 = RR + numpy.conj(numpy.transpose(RR, (1, 0, 3, 2)))
        sec.data = RR2.copy()
        sec.secularize()
        emit("seclegacy %d %s" % (n, cvals(RR2)), sec._data)
        secular_oracle(numpy, RR2, sec._data, ck, inp, "legacy-second-call")
        td2 = object.__new__(TDRedfieldRelaxationTensor)
        td2.as_operators = False; td2._data = RT.copy(); td2._current_basis = 0; td2.is_basis_protected = True
        td2.secularize()
        emit("sectd %d %s" % (n, cvals(RT[1])), td2._data[1])
        secular_oracle(numpy, RT[1], td2._data[1], ck, inp, "td")
        # -- basis change of the tensor (real orthogonal S)
        if n >= 2:
            S = orth(n)
            tr_ = rt_obj(LindbladForm, SystemBathInteraction, Operator, Hamiltonian, numpy, n)
            tr_._data = RR.copy()
            tr_.transform(S, inv=S.T.copy())
            emit("transform %d %s %s %s" % (n, cvals(RR), cvals(S.T), cvals(S)), tr_._data, 1e-9)
            identities(numpy, tr_._data, "tensor after RelaxationTensor.transform", ck, inp, "transform", herm=hermitian_input)
            # the same without handing over the inverse, and with a complex unitary S (eigenvectors of a complex Hermitian operator are
            # such): rational complex rotation with 3-4-5 entries, so the model still computes exactly
            Sc = orth(n).astype(complex)
            i_, j_ = rng.sample(range(n), 2)
            Gc = numpy.eye(n, dtype=complex)
            Gc[i_, i_] = Gc[j_, j_] = 0.6; Gc[i_, j_] = 0.8j; Gc[j_, i_] = 0.8j
            Sc = Sc @ Gc
            for Sx, tagx in ((S, "transform:no-inverse-given"), (Sc, "transform:complex-unitary")):
                tx = rt_obj(LindbladForm, SystemBathInteraction, Operator, Hamiltonian, numpy, n)
                tx._data = RR.copy()
                try:
                    tx.transform(Sx.copy())
                except Exception as e:
                    ck.fail("raises:" + tagx, "RelaxationTensor.transform raised %r" % (e,), dict(inp, S=[[str(z) for z in r] for r in Sx]))
                    continue
                if ck.quick or h % 4 == 0 or n <= 2:       # (the exact rational evaluation is expensive for n = 4: a quarter of them in the long tier)
                    emit("transform %d %s %s %s" % (n, cvals(RR), cvals(numpy.conj(Sx.T)), cvals(Sx)), tx._data, 1e-9)
                identities(numpy, tx._data, "tensor after RelaxationTensor.transform(S)", ck, dict(inp, S=[[str(z) for z in r] for r in Sx]), tagx,
                           herm=hermitian_input)
            # the basis context of a complex Hermitian operator (its eigenvectors form a complex unitary matrix)
            if h % 4 == 0:
                Hc = rint((n, n), cplx=True); Hc = Hc + numpy.conj(Hc.T) + numpy.diag([3.0 * k for k in range(n)])
                te = rt_obj(LindbladForm, SystemBathInteraction, Operator, Hamiltonian, numpy, n)
                te._data = RR.copy()
                try:
                    with eigenbasis_of(Hamiltonian(data=Hc.copy())):
                        d_c = numpy.array(te.data).copy()
                    d_back = numpy.array(te.data).copy()
                    identities(numpy, d_c, "tensor inside eigenbasis_of(complex Hermitian operator)", ck, dict(inp, Hc=[[str(z) for z in r] for r in Hc]),
                               "other-basis:complex-hermitian", herm=hermitian_input)
                    if numpy.abs(d_back - RR).max() > 1e-9 * max(1.0, numpy.abs(RR).max()):
                        ck.fail("other-basis:complex-hermitian:restore", "tensor not restored after leaving the context of a complex Hermitian operator",
                                dict(inp, Hc=[[str(z) for z in r] for r in Hc]), float(numpy.abs(d_back - RR).max()))
                except Exception as e:
                    ck.fail("raises:other-basis:complex-hermitian", "raised %r" % (e,), inp)
        # -- updateStructure + Foerster dephasing on a population-transfer tensor
        KF = numpy.abs(rint((n, n))) / 4.0
        FT = numpy.zeros((n, n, n, n), dtype=complex)
        for a in range(n):
            for b in range(n):
                if a != b:
                    FT[a, a, b, b] = KF[a, b]
        us = rt_obj(LindbladForm, SystemBathInteraction, Operator, Hamiltonian, numpy, n)
        us._data = FT.copy()
        us.updateStructure()
        emit("update %d %s" % (n, cvals(FT)), us._data, 1e-12)
        identities(numpy, us._data, "Foerster tensor after updateStructure", ck, {"KF": KF.tolist()}, "updateStructure")
        hvals = rint((n,), cplx=True) / 8.0
        hvals[0] = 0.0
        fo = object.__new__(FoersterRelaxationTensor)
        fo.dim = n
        fo.data = us._data.copy()
        fo.SystemBathInteraction = Stub(TimeAxis=Stub(length=3),
                                        CC=Stub(create_one_integral=lambda: None,
                                                get_hoft=lambda i, j: numpy.array([0.0, 0.0, hvals[i + 1]])))
        fo.add_dephasing()
        h64 = hvals.astype(numpy.complex64).astype(complex)       # the method stores the line-shape derivatives as complex64
        emit("dephase %d %s %s" % (n, cvals(us._data), cvals(h64)), fo.data, 1e-12)
        identities(numpy, fo.data, "Foerster tensor after add_dephasing", ck, {"KF": KF.tolist(), "h": [str(z) for z in hvals]}, "Foerster:pure_dephasing")
    api_stream(ck, qr, numpy)
    lindblad_builder_stream(ck, qr, numpy)
    if ok:
        model = ck.drive(DRIVER, lines)
        if model is not None:
            for l, a, b, t in zip(lines, impl, model, tol):
                ck.traces += 1
                fa = [cfrac_to_complex(x) for x in a.split()]
                fb = [cfrac_to_complex(x) for x in b.split()] if b != "bad-op" else []
                if len(fa) != len(fb):
                    ck.disagree("shape", l[:120], len(fa), b[:60]); continue
                d = max(abs(x - y) for x, y in zip(fa, fb))
                sc = max([1.0] + [abs(y) for y in fb])
                ck.resid("max |impl-model| (%s)" % l.split()[0], d)
                if d > t * sc:
                    ck.disagree("elements differ by %.3g (%s)" % (d, l.split()[0]), l[:160], a[:200], b[:200])
    return ck.finish()


def rt_obj(LindbladForm, SystemBathInteraction, Operator, Hamiltonian, numpy, n):
    """a real RelaxationTensor object of dimension n whose _data the harness then replaces"""
    K = numpy.zeros((n, n)); K[0, n - 1] = 1.0
    sbi = SystemBathInteraction([Operator(data=K)], rates=(0.5,))
    return LindbladForm(Hamiltonian(data=numpy.zeros((n, n))), sbi, as_operators=False)


def secular_oracle(numpy, R, Rs, ck, inp, tag):
    n = R.shape[0]
    bad = None
    for a in range(n):
        for b in range(n):
            for c in range(n):
                for d in range(n):
                    keep = (a == b and c == d) or (a == c and b == d)
                    if keep and Rs[a, b, c, d] != R[a, b, c, d]:
                        bad = ("kept element changed", (a, b, c, d))
                    if not keep and Rs[a, b, c, d] != 0:
                        bad = ("element not zeroed", (a, b, c, d))
    if bad:
        ck.fail("secular:%s" % tag, "secularisation: %s at %s" % bad, inp)
    identities(numpy, Rs, "secularised tensor", ck, inp, "secular-identities:%s" % tag, herm=(numpy.abs(numpy.conj(R) - numpy.transpose(R, (1, 0, 3, 2))).max() < 1e-12))


def lindblad_builder_stream(ck, qr, numpy):
    """relaxation_theory='Lindblad_form' / 'electronic_Lindblad' of the builder (system-bath interaction given by operators and rates)"""
    from quantarhei import Molecule, Aggregate, TimeAxis, energy_units, eigenbasis_of
    from quantarhei.qm import SystemBathInteraction, ProjectionOperator
    rng = ck.rng
    ta = TimeAxis(0.0, 50, 1.0)
    for s in range(ck.n(2, 8)):
        nmol = rng.choice([2, 3])
        with energy_units("1/cm"):
            agg = Aggregate([Molecule([0.0, 12000.0 + rng.randint(-300, 300)]) for _ in range(nmol)])
            for i in range(nmol):
                for j in range(i + 1, nmol):
                    agg.set_resonance_coupling(i, j, rng.choice([50.0, -120.0, 200.0]))
        agg.build()
        dim = agg.get_Hamiltonian().dim
        ops, rates = [], []
        for i in range(1, dim):
            for j in range(1, dim):
                if i != j and rng.random() < 0.7:
                    ops.append(ProjectionOperator(i, j, dim=dim)); rates.append(rng.randint(1, 16) / 1600.0)
        if not ops:
            ops.append(ProjectionOperator(1, 2, dim=dim)); rates.append(0.005)
        agg.set_SystemBathInteraction(SystemBathInteraction(ops, rates=rates))
        for theory in ("Lindblad_form", "electronic_Lindblad"):
            for sec in (False, True):
                inp = {"sites": nmol, "theory": theory, "secular_relaxation": sec, "rates": rates}
                tag = "%s%s" % (theory, ":secular" if sec else "")
                try:
                    RT, ham = agg.get_RelaxationTensor(ta, relaxation_theory=theory, secular_relaxation=sec)
                    if getattr(RT, "as_operators", False):
                        RT.convert_2_tensor()
                    d = numpy.array(RT.data).copy()
                    with eigenbasis_of(ham):
                        d_e = numpy.array(RT.data).copy()
                except Exception as e:
                    ck.fail("raises:builder:%s" % tag, "get_RelaxationTensor raised %r" % (e,), inp)
                    continue
                ck.case(("lindblad-builder", s, tag), nontrivial=True, kind="api", theory=theory)
                identities(numpy, d, "get_RelaxationTensor(%s)" % tag, ck, inp, "api:" + tag)
                identities(numpy, d_e, "get_RelaxationTensor(%s) exciton basis" % tag, ck, inp, "api-exciton:" + tag)


def api_stream(ck, qr, numpy):
    from quantarhei import Molecule, Aggregate, TimeAxis, CorrelationFunction, energy_units, eigenbasis_of, Hamiltonian
    rng = ck.rng
    cases = [("standard_Redfield", dict()), ("standard_Redfield", dict(secular_relaxation=True)),
             ("standard_Redfield", dict(time_dependent=True)), ("standard_Redfield", dict(time_dependent=True, secular_relaxation=True)),
             ("standard_Redfield", dict(as_operators=True)), ("standard_Foerster", dict()), ("standard_Foerster", dict(time_dependent=True)),
             ("combined_RedfieldFoerster", dict(coupling_cutoff=30.0)), ("combined_RedfieldFoerster", dict(coupling_cutoff=30.0, secular_relaxation=True)),
             ("combined_RedfieldFoerster", dict(coupling_cutoff=30.0, time_dependent=True)),
             ("standard_Redfield", dict(time_dependent=True, relaxation_cutoff_time=40.0)),
             ("noneq_Foerster", dict()), ("noneq_Foerster", dict(time_dependent=True))]
    nsys = ck.n(3, 12)
    for s in range(nsys):
        nmol = rng.choice([2, 3, 3, 4]) if s else 3
        ta = TimeAxis(0.0, ck.n(160, 400), 1.0)
        with energy_units("1/cm"):
            mols = []
            for k in range(nmol):
                m = Molecule([0.0, 12000.0 + rng.randint(-300, 300)])
                cf = CorrelationFunction(ta, dict(ftype="OverdampedBrownian", reorg=rng.choice([20.0, 35.0, 60.0]),
                                                  cortime=rng.choice([50.0, 100.0]), T=rng.choice([77.0, 300.0]) if k == 0 else None or 0, matsubara=20)) if False else None
                mols.append(m)
            T = rng.choice([77.0, 300.0])
            for m in mols:
                cf = CorrelationFunction(ta, dict(ftype="OverdampedBrownian", reorg=rng.choice([20.0, 35.0, 60.0]),
                                                  cortime=rng.choice([50.0, 100.0]), T=T, matsubara=20))
                m.set_transition_environment((0, 1), cf)
            agg = Aggregate(mols)
            for i in range(nmol):
                for j in range(i + 1, nmol):
                    agg.set_resonance_coupling(i, j, rng.choice([10.0, 20.0, 80.0, 150.0, -120.0]))
        agg.build()
        # ---- the same theories on a Hamiltonian with COMPLEX resonance couplings (phases), built directly from the tensor classes the way
        # the builder does it ------------------------------------------------------------------------------------------------
        try:
            from quantarhei.qm import RedfieldRelaxationTensor, FoersterRelaxationTensor
            from quantarhei.qm.liouvillespace.tdfoerstertensor import TDFoersterRelaxationTensor
            sbi_c = agg.get_SystemBathInteraction()
            Hc = numpy.array(agg.get_Hamiltonian().data, dtype=complex)
            for i in range(1, Hc.shape[0]):
                for j in range(i + 1, Hc.shape[0]):
                    ph = rng.choice([0.3, 0.7, 1.1])
                    Hc[i, j] = Hc[i, j] * complex(math.cos(ph), math.sin(ph)); Hc[j, i] = numpy.conj(Hc[i, j])
            for cname, mk in (("standard_Foerster", lambda h_: FoersterRelaxationTensor(h_, sbi_c)),
                              ("standard_Foerster:pure_dephasing", lambda h_: FoersterRelaxationTensor(h_, sbi_c, pure_dephasing=True)),
                              ("standard_Foerster:time_dependent", lambda h_: TDFoersterRelaxationTensor(h_, sbi_c)),
                              ("standard_Redfield", None)):
                inpc = {"sites": nmol, "theory": cname, "hamiltonian": "complex Hermitian (couplings with phases)", "T": T}
                try:
                    hc_obj = Hamiltonian(data=Hc.copy())
                    if mk is None:
                        hc_obj.protect_basis()
                        try:
                            with eigenbasis_of(hc_obj):
                                RTc = RedfieldRelaxationTensor(hc_obj, sbi_c)
                        finally:
                            hc_obj.unprotect_basis()
                    else:
                        RTc = mk(hc_obj)
                    dcx = numpy.array(RTc.data)
                    if dcx.ndim == 5:
                        dcx = dcx[[0, 1, dcx.shape[0] // 2, dcx.shape[0] - 1]]
                    identities(numpy, dcx, "%s tensor for a complex Hermitian Hamiltonian" % cname, ck, inpc, "complex-hamiltonian:" + cname)
                    with eigenbasis_of(hc_obj):
                        dce = numpy.array(RTc.data)
                    if dce.ndim == 5:
                        dce = dce[[0, dce.shape[0] - 1]]
                    identities(numpy, dce, "%s tensor for a complex Hermitian Hamiltonian, its eigenbasis" % cname, ck, inpc, "complex-hamiltonian:eigenbasis:" + cname)
                    ck.case(("api-complex", s, cname), nontrivial=True, kind="api", theory=cname.split(":")[0])
                except Exception as e:
                    ck.fail("raises:complex-hamiltonian:%s" % cname, "construction for a complex Hermitian Hamiltonian raised %r" % (e,), inpc)
        except Exception as e:
            ck.fail("raises:complex-hamiltonian:setup", "raised %r" % (e,), {"sites": nmol})
        # ---- a secular tensor requested with recalculate=False after the full tensor of the same theory was built: still secular -------
        try:
            agg.get_RelaxationTensor(ta, relaxation_theory="standard_Redfield")
            RTs, hs_ = agg.get_RelaxationTensor(ta, relaxation_theory="standard_Redfield", secular_relaxation=True, recalculate=False)
            with eigenbasis_of(hs_):
                dsx = numpy.array(RTs.data)
            n_ = dsx.shape[0]; scs = max(1e-300, float(numpy.abs(dsx).max())); worst = 0.0
            for a in range(n_):
                for b in range(n_):
                    for c in range(n_):
                        for d in range(n_):
                            if not ((a == b and c == d) or (a == c and b == d)):
                                worst = max(worst, abs(dsx[a, b, c, d]))
            ck.case(("api-secular-norecalc", s), nontrivial=True, kind="api", theory="standard_Redfield")
            if worst > 1e-9 * scs:
                ck.fail("secular:recalculate-false", "a tensor requested with secular_relaxation=True, recalculate=False after the full tensor was built has "
                        "non-secular elements in the eigenbasis", {"sites": nmol, "T": T}, float(worst / scs))
        except Exception as e:
            ck.fail("raises:secular:recalculate-false", "raised %r" % (e,), {"sites": nmol})
        # ---- a secular tensor requested in operator form: what comes back is secular (after conversion), or the request is refused -------
        for td_ in (False, True):
            inpo = {"sites": nmol, "T": T, "request": "standard_Redfield, secular_relaxation=True, as_operators=True, time_dependent=%s" % td_}
            ck.case(("api-secular-operators", s, td_), nontrivial=True, kind="api", theory="standard_Redfield")
            try:
                RTo, ho_ = agg.get_RelaxationTensor(ta, relaxation_theory="standard_Redfield", secular_relaxation=True, as_operators=True, time_dependent=td_)
            except Exception:
                ck.dist["secular + operator form: refused"] += 1
                continue
            try:
                if getattr(RTo, "as_operators", False):
                    RTo.convert_2_tensor()
                with eigenbasis_of(ho_):
                    dso = numpy.array(RTo.data)
                if dso.ndim == 5:
                    dso = dso[-1]
                n_ = dso.shape[0]; sco = max(1e-300, float(numpy.abs(dso).max())); worst = 0.0
                for a in range(n_):
                    for b in range(n_):
                        for c in range(n_):
                            for d in range(n_):
                                if not ((a == b and c == d) or (a == c and b == d)):
                                    worst = max(worst, abs(dso[a, b, c, d]))
                if worst > 1e-9 * sco:
                    ck.fail("secular:operator-form-request", "a tensor requested with secular_relaxation=True and as_operators=True has non-secular elements in the "
                            "eigenbasis", inpo, float(worst / sco))
                identities(numpy, dso, "secular tensor requested in operator form", ck, inpo, "secular-identities:operator-form-request")
            except Exception as e:
                ck.fail("raises:secular:operator-form-request", "raised %r" % (e,), inpo)
        # quick: the Foerster, combined, cut-off and non-equilibrium cases in every run, five of the others at random
        for theory, opts in (cases if not ck.quick else rng.sample(cases[:5] + [cases[6]] + cases[8:10], 5) + [cases[5], cases[7], cases[10], cases[11 + s % 2]]):
            inp = {"sites": nmol, "theory": theory, "options": {k: v for k, v in opts.items()}, "T": T}
            o = dict(opts)
            try:
                if "coupling_cutoff" in o:
                    with energy_units("1/cm"):
                        RT, ham = agg.get_RelaxationTensor(ta, relaxation_theory=theory, **o)
                else:
                    RT, ham = agg.get_RelaxationTensor(ta, relaxation_theory=theory, **o)
            except Exception as e:
                ck.fail("raises:%s:%s" % (theory, ",".join(sorted(opts))), "get_RelaxationTensor raised %r" % (e,), inp)
                continue
            tag = "%s%s" % (theory, ":" + ",".join(sorted(opts)) if opts else "")
            if getattr(RT, "as_operators", False):
                RT.convert_2_tensor()
            d_site = numpy.array(RT.data)
            identities(numpy, d_site, "get_RelaxationTensor(%s) site basis" % tag, ck, inp, "api:" + tag)
            try:
                with eigenbasis_of(ham):
                    d_ex = numpy.array(RT.data)
                identities(numpy, d_ex, "get_RelaxationTensor(%s) exciton basis" % tag, ck, inp, "api-exciton:" + tag)
            except Exception as e:
                ck.fail("raises:basis:%s" % tag, "reading the tensor in the exciton basis raised %r" % (e,), inp)
            if theory in ("standard_Foerster", "noneq_Foerster") and hasattr(RT, "initialize"):
                # the public initialize() called again on the same object (a refresh after a parameter change): the same generator again
                try:
                    RT.initialize()
                    d_re = numpy.array(RT.data)
                    identities(numpy, d_re, "get_RelaxationTensor(%s) after a second initialize()" % tag, ck, inp, "api:reinitialized:" + tag)
                    ck.case(("api-reinit", s, tag), nontrivial=True, kind="reinitialize", theory=theory)
                except Exception as e:
                    ck.fail("raises:reinitialize:%s" % tag, "a second initialize() raised %r" % (e,), inp)
            if opts.get("secular_relaxation") and d_site.ndim == 4:
                # secularised in the exciton basis by the builder; secularising the same object again in the site basis
                before = numpy.array(RT.data).copy()
                RT.secularize()
                secular_oracle(numpy, before, numpy.array(RT.data), ck, inp, "api-second-call")
            if not opts.get("secular_relaxation") and d_site.ndim == 4:
                # secularising in ANOTHER basis than the one the tensor is stored in (no read of .data in between):
                # the elements of the tensor in the basis where secularize() is called are what is kept / zeroed
                try:
                    with eigenbasis_of(ham):
                        RT.secularize()
                        d_sec = numpy.array(RT.data).copy()
                    sc_ = max(float(numpy.abs(d_ex).max()), 1e-300)
                    n_ = d_ex.shape[0]
                    bad = None
                    for a in range(n_):
                        for b in range(n_):
                            for c in range(n_):
                                for d in range(n_):
                                    keep = (a == b and c == d) or (a == c and b == d)
                                    if keep and abs(d_sec[a, b, c, d] - d_ex[a, b, c, d]) > 1e-9 * sc_:
                                        bad = ("kept element changed", (a, b, c, d))
                                    if not keep and abs(d_sec[a, b, c, d]) > 1e-9 * sc_:
                                        bad = ("element not zeroed", (a, b, c, d))
                    if bad:
                        ck.fail("secular:other-basis:%s" % tag, "secularize() inside eigenbasis_of(H) on a tensor stored in the site basis: %s at %s" % bad, inp)
                    identities(numpy, d_sec, "tensor secularised in the exciton basis", ck, inp, "secular-identities:other-basis:" + tag)
                    ck.case(("api-sec-other", s, tag), nontrivial=float(numpy.abs(d_ex).max()) > 0, kind="secularize-in-other-basis", theory=theory)
                except Exception as e:
                    ck.fail("raises:secular:other-basis:%s" % tag, "secularize() inside eigenbasis_of raised %r" % (e,), inp)
            if not opts.get("secular_relaxation") and d_site.ndim == 5 and theory != "standard_Redfield":
                # time-dependent tensors of the general class (all times in one array): every time slice is projected
                try:
                    before5 = numpy.array(RT.data).copy()
                    RT.secularize()
                    after5 = numpy.array(RT.data)
                    for tt in sorted(set([0, 1, before5.shape[0] // 2, before5.shape[0] - 1])):
                        secular_oracle(numpy, before5[tt], after5[tt], ck, dict(inp, time_index=tt), "all-times:" + tag)
                    ck.case(("api-sec-5", s, tag), nontrivial=float(numpy.abs(before5).max()) > 0, kind="secularize-all-times", theory=theory)
                except Exception as e:
                    ck.fail("raises:secular:all-times:%s" % tag, "secularize() of a time-dependent tensor raised %r" % (e,), inp)
            if not opts.get("secular_relaxation") and d_site.ndim in (4, 5) and not getattr(RT, "as_operators", False):
                # the reversible secularisation of the newer interface (rates are extracted, the tensor itself is left as it is so that
                # the step can be undone): both identities still hold for the tensor and nothing in it has changed
                try:
                    from quantarhei.qm.liouvillespace.secular import Secular
                    if isinstance(RT, Secular) and not RT.is_secular:
                        before_r = numpy.array(RT.data).copy()
                        Secular.secularize(RT, reversible=True, use_data=False)
                        after_r = numpy.array(RT.data).copy()
                        RT.recover_nonsecular()
                        identities(numpy, after_r, "tensor after a reversible secularisation", ck, inp, "secular-identities:reversible:" + tag)
                        if numpy.abs(after_r - before_r).max() != 0.0:
                            ck.fail("secular:reversible:" + tag, "a reversible secularisation (use_data=False) changed the tensor's elements", inp,
                                    float(numpy.abs(after_r - before_r).max() / max(1e-300, numpy.abs(before_r).max())))
                        ck.case(("api-sec-rev", s, tag), nontrivial=True, kind="secularize-reversible", theory=theory)
                except Exception as e:
                    ck.fail("raises:secular:reversible:%s" % tag, "reversible secularisation raised %r" % (e,), inp)
            if not opts.get("secular_relaxation") and ((d_site.ndim == 4 and s % 2 == 1) or (d_site.ndim == 5 and theory != "standard_Redfield")):
                # the newer interface (secularize(legacy=False) -> Secular.secularize on the data) and its second call
                try:
                    RT2, _h2 = (agg.get_RelaxationTensor(ta, relaxation_theory=theory, **o) if "coupling_cutoff" not in o else (None, None))
                    if RT2 is not None:
                        if getattr(RT2, "as_operators", False):
                            RT2.convert_2_tensor()
                        b4 = numpy.array(RT2.data).copy()
                        RT2.secularize(legacy=False)
                        a4 = numpy.array(RT2.data).copy()
                        if b4.ndim == 4:
                            secular_oracle(numpy, b4, a4, ck, inp, "new-interface:" + tag)
                        else:
                            for tt in sorted(set([0, 1, b4.shape[0] // 2, b4.shape[0] - 1])):
                                secular_oracle(numpy, b4[tt], a4[tt], ck, dict(inp, time_index=tt), "new-interface:all-times:" + tag)
                        RT2.secularize(legacy=False)
                        if numpy.abs(numpy.array(RT2.data) - a4).max() > 0:
                            ck.fail("secular:new-interface:second-call:" + tag, "a second secularize(legacy=False) changed the tensor", inp)
                        ck.case(("api-sec-new", s, tag), nontrivial=float(numpy.abs(b4).max()) > 0, kind="secularize-new-interface", theory=theory)
                except Exception as e:
                    ck.fail("raises:secular:new-interface:%s" % tag, "secularize(legacy=False) raised %r" % (e,), inp)
            nz = float(numpy.abs(d_site).max())
            ck.case(("api", s, tag), nontrivial=nz > 0, kind="api", theory=theory,
                    sample={"api": tag, "sites": nmol, "max|R|": nz} if s == 0 and theory == "standard_Foerster" else None)
