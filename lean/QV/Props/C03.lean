import QV.Model.C03
import QV.Lemmas.Bridge
import Mathlib.Algebra.BigOperators.Group.List.Basic
import Mathlib.Algebra.BigOperators.Ring.Finset
import Mathlib.Algebra.Field.Basic
import Mathlib.Tactic.Ring
import Mathlib.Tactic.FieldSimp

/-!
# C03 — aggregate Hamiltonian and dipole operator are the Frenkel-exciton ones
-/
namespace QV.C03
open QV

/-! ## signatures -/

theorem inc_length (l : List Nat) (n : Nat) : (inc l n).length = l.length := by
  induction l generalizing n with
  | nil => simp [inc]
  | cons x xs ih => cases n <;> simp [inc, ih]

theorem inc_sum (l : List Nat) (n : Nat) (h : n < l.length) : (inc l n).sum = l.sum + 1 := by
  induction l generalizing n with
  | nil => simp at h
  | cons x xs ih =>
    cases n with
    | zero => simp [inc]; ring
    | succ n => simp only [inc, List.sum_cons]; rw [ih n (by simpa using h)]; ring

theorem inc_getElem? (l : List Nat) (n i : Nat) :
    (inc l n)[i]? = if i = n then (l[i]?).map (· + 1) else l[i]? := by
  induction l generalizing n i with
  | nil => simp [inc]
  | cons x xs ih =>
    cases n with
    | zero => cases i <;> simp [inc]
    | succ n =>
      cases i with
      | zero => simp [inc]
      | succ i => simp [inc, ih]

/-- what `_add_excitation` maintains for two-level molecules: length, number of excitations, 0/1 entries -/
def Sound (N k : Nat) (σ : List Nat) : Prop := σ.length = N ∧ σ.sum = k ∧ ∀ i : Nat, σ[i]?.getD 0 ≤ 1

theorem bandItems_sound (N : Nat) : ∀ k, ∀ p ∈ bandItems (List.replicate N 1) k, Sound N k p.1 := by
  intro k
  induction k with
  | zero =>
    intro p hp
    simp only [bandItems, List.length_replicate, List.mem_singleton] at hp
    subst hp
    refine ⟨by simp, by simp, fun i => ?_⟩
    simp only [List.getElem?_replicate]
    split_ifs <;> simp
  | succ k ih =>
    intro p hp
    simp only [bandItems, addExcitation, List.mem_flatMap, List.mem_map, List.mem_filter, List.mem_range] at hp
    obtain ⟨q, hq, i, ⟨hi, hcond⟩, rfl⟩ := hp
    obtain ⟨h1, h2, h3⟩ := ih q hq
    simp only [decide_eq_true_eq] at hcond
    refine ⟨by rw [inc_length, h1], by rw [inc_sum q.1 i hi, h2], fun j => ?_⟩
    rw [inc_getElem?]
    by_cases hj : j = i
    · subst hj
      have hlt : q.1[j]?.getD 0 < 1 := by
        have := hcond.2
        have hN : j < N := h1 ▸ hi
        simpa [List.getElem?_replicate, hN] using this
      have : q.1[j]?.getD 0 = 0 := by omega
      cases hq' : q.1[j]? with
      | none => simp
      | some v => simp [hq'] at this ⊢; omega
    · simp [hj]; exact h3 j

/-- **every generated electronic state is a 0/1 signature of the right length whose band is its number of excitations** -/
theorem elsigs_sound (N mult : Nat) : ∀ σ ∈ elsigs (List.replicate N 1) mult,
    σ.length = N ∧ band σ ≤ mult ∧ ∀ i : Nat, σ[i]?.getD 0 ≤ 1 := by
  intro σ hσ
  simp only [elsigs, List.mem_flatMap, List.mem_range, bandSigs, List.mem_map] at hσ
  obtain ⟨k, hk, p, hp, rfl⟩ := hσ
  obtain ⟨h1, h2, h3⟩ := bandItems_sound N k p hp
  exact ⟨h1, by unfold band; omega, h3⟩

/-- **states are ordered by band** -/
theorem elsigs_band_ordered (N mult : Nat) :
    (elsigs (List.replicate N 1) mult).Pairwise (fun a b => band a ≤ band b) := by
  unfold elsigs
  rw [List.pairwise_flatMap]
  refine ⟨?_, ?_⟩
  · intro k _
    apply List.pairwise_of_forall_mem_list
    intro a ha b hb
    simp only [bandSigs, List.mem_map] at ha hb
    obtain ⟨p, hp, rfl⟩ := ha
    obtain ⟨q, hq, rfl⟩ := hb
    unfold band
    rw [(bandItems_sound N k p hp).2.1, (bandItems_sound N k q hq).2.1]
  · apply List.Pairwise.imp _ (List.pairwise_lt_range (n := mult + 1))
    intro a b hab x hx y hy
    simp only [bandSigs, List.mem_map] at hx hy
    obtain ⟨p, hp, rfl⟩ := hx
    obtain ⟨q, hq, rfl⟩ := hy
    unfold band
    rw [(bandItems_sound N a p hp).2.1, (bandItems_sound N b q hq).2.1]
    omega

/-! ## element rules -/
section
variable {α : Type} [CommRing α]

/-- **no Hamiltonian elements between different bands** -/
theorem coupling_interband_zero (nmono : Nat) (J : Nat → Nat → α) (σ1 σ2 : List Nat) (i j : Nat)
    (h : band σ1 ≠ band σ2) : coupling nmono J σ1 σ2 i j = 0 := by
  unfold coupling; split_ifs <;> simp_all

/-- inside a band (other than the one-exciton band, which is indexed directly by site) an element is
non-zero only between states that differ by moving one excitation `k ↔ l`, and then equals `J k l` -/
theorem coupling_rule (nmono : Nat) (hm : 1 < nmono) (J : Nat → Nat → α) (σ1 σ2 : List Nat) (i j : Nat)
    (hb : band σ1 = band σ2) (h1 : band σ1 ≠ 1) :
    (∀ k l, diffSites σ1 σ2 = [k, l] → absDiffSum σ1 σ2 = 2 → coupling nmono J σ1 σ2 i j = J k l) ∧
    ((∀ k l, diffSites σ1 σ2 ≠ [k, l]) → coupling nmono J σ1 σ2 i j = 0) := by
  have hm' : nmono > 1 := hm
  unfold coupling
  rw [if_pos hm', if_pos hb, if_neg h1]
  constructor
  · intro k l hd ha
    rw [hd]; simp [ha]
  · intro hne
    split
    · rename_i kk ll heq; exact absurd heq (hne kk ll)
    · rfl

/-- in the one-exciton band the element between the states of sites `k` and `l` is `J k l` -/
theorem coupling_one_exciton (nmono : Nat) (hm : 1 < nmono) (J : Nat → Nat → α) (σ1 σ2 : List Nat) (k l : Nat)
    (h1 : band σ1 = 1) (h2 : band σ2 = 1) : coupling nmono J σ1 σ2 (k + 1) (l + 1) = J k l := by
  unfold coupling; simp [hm, h1, h2]

/-- **dipole selection rule**: a non-zero element needs bands differing by one or two and exactly one
molecule changing state, and is the dipole of that molecule -/
theorem dipole_selection (d : Nat → α) (σ1 σ2 : List Nat) (h : transDipole d σ1 σ2 ≠ 0) :
    ∃ k, diffSites σ1 σ2 = [k] ∧ transDipole d σ1 σ2 = d k ∧
      (((band σ1 : Int) - band σ2).natAbs = 1 ∨ ((band σ1 : Int) - band σ2).natAbs = 2) := by
  unfold transDipole exIndex at h ⊢
  simp only at h ⊢
  split_ifs at h ⊢ with hb
  · simp at h
  · split at h
    · rename_i k heq
      split at heq
      · rename_i k' hd
        injection heq with heq; subst heq
        refine ⟨k', hd, by simp [hd], ?_⟩
        by_contra hc
        exact hb ⟨fun e => hc (Or.inl e), fun e => hc (Or.inr e)⟩
      · simp at heq
    · simp at h

theorem diffSites_symm (a b : List Nat) (h : a.length = b.length) : diffSites a b = diffSites b a := by
  unfold diffSites
  rw [h]
  apply List.filter_congr
  intro i _
  simp [ne_comm]

theorem absDiffSum_symm (a b : List Nat) (h : a.length = b.length) : absDiffSum a b = absDiffSum b a := by
  unfold absDiffSum
  rw [h]
  congr 1
  apply List.map_congr_left
  intro i _
  omega

/-- **the Hamiltonian is symmetric** for a symmetric coupling matrix -/
theorem coupling_symm (nmono : Nat) (J : Nat → Nat → α) (hJ : ∀ k l, J k l = J l k) (σ1 σ2 : List Nat) (i j : Nat)
    (hl : σ1.length = σ2.length) : coupling nmono J σ1 σ2 i j = coupling nmono J σ2 σ1 j i := by
  unfold coupling
  by_cases hm : nmono > 1
  · rw [if_pos hm, if_pos hm]
    by_cases hb : band σ1 = band σ2
    · rw [if_pos hb, if_pos hb.symm]
      by_cases h1 : band σ1 = 1
      · have h2 : band σ2 = 1 := hb.symm.trans h1
        rw [if_pos h1, if_pos h2]
        by_cases hc : i ≥ 1 ∧ j ≥ 1
        · rw [if_pos hc, if_pos ⟨hc.2, hc.1⟩, hJ]
        · rw [if_neg hc, if_neg (fun h => hc ⟨h.2, h.1⟩)]
      · rw [if_neg h1, if_neg (fun h => h1 (hb.trans h)), diffSites_symm σ1 σ2 hl, absDiffSum_symm σ1 σ2 hl]
    · rw [if_neg hb, if_neg (fun h => hb h.symm)]
  · rw [if_neg hm, if_neg hm]
end

end QV.C03
