import QV.Core.Num
import QV.Model.C09Cfg
open QV QV.C09

/-- the free additive type on generator ids: a bag of ids (compared sorted) -/
structure Bag where
  l : List Nat
instance : Add Bag := ⟨fun a b => ⟨a.l ++ b.l⟩⟩
instance : Zero Bag := ⟨⟨[]⟩⟩

def gen (c : Comp) : Bag := ⟨[c.id * 8 + c.conv]⟩

def insSorted (x : Nat) : List Nat → List Nat
  | [] => [x]
  | y :: ys => if x ≤ y then x :: y :: ys else y :: insSorted x ys
def sortNats (l : List Nat) : List Nat := l.foldl (fun acc x => insSorted x acc) []

def showNats (l : List Nat) : String := ",".intercalate (l.map toString)

def showFn (f : Fn Bag) : String :=
  let t := match f.temp with | none => "none" | some t => showRat t
  s!"params={showNats (f.params.map fun c => c.id * 8 + c.conv)} data={showNats (sortNats f.data.l)} lamb={showNats (sortNats f.lamb.l)} temp={t} cut={showRat f.cut}"

def showErr : Option Err → String
  | none => "ok"
  | some .temp => "err-temp"
  | some .valued => "err-valued"

def parseComp? (ts : List String) : Option Comp :=
  match ts with
  | [i, k, t, c, v] => do
    let i ← i.toNat?
    let k ← k.toNat?
    let t ← parseRat? t
    let c ← parseRat? c
    some { id := i, kind := k, conv := 0, temp := t, cut := c, valued := v == "1" }
  | _ => none

def splitOnTok (ts : List String) (sep : String) : List (List String) :=
  let (acc, cur) := ts.foldl (fun (p : List (List String) × List String) t =>
    if t == sep then (p.1 ++ [p.2], []) else (p.1, p.2 ++ [t])) ([], [])
  acc ++ [cur]

structure DSt where
  sd : Bool
  store : Store Bag

def report (s s' : Store Bag) (e : Option Err) (i : Option Nat) : String :=
  match i with
  | some i => match s'[i]? with
    | some f => s!"{showErr e} n={s'.length} {showFn f}"
    | none => s!"{showErr e} n={s'.length}"
  | none =>
    if s'.length > s.length then
      match s'.getLast? with
      | some f => s!"{showErr e} n={s'.length} {showFn f}"
      | none => "?"
    else s!"{showErr e} n={s'.length}"

def ctxOf (t : String) : Bool := t == "1"

def step' (st : DSt) (ts : List String) : DSt × String :=
  let cfg := if st.sd then sdCfg else cfCfg
  let doit (stmt : Stmt) (i : Option Nat) : DSt × String :=
    let (s', e) := step cfg gen gen st.store stmt
    ({ st with store := s' }, report st.store s' e i)
  match ts with
  | ["reset", "cf"] => ({ sd := false, store := [] }, "ok")
  | ["reset", "sd"] => ({ sd := true, store := [] }, "ok")
  | "new" :: rest =>
    match (splitOnTok rest ";").mapM parseComp? with
    | some ps => doit (.new ps) none
    | none => (st, "bad-op")
  | "newv" :: rest =>
    match parseComp? rest with
    | some c => doit (.newValued { c with valued := true }) none
    | none => (st, "bad-op")
  | ["add", i, j, c] => match i.toNat?, j.toNat? with
    | some i, some j => doit (.add i j (ctxOf c)) none
    | _, _ => (st, "bad-op")
  | ["iadd", i, j, c] => match i.toNat?, j.toNat? with
    | some i, some j => doit (.iadd i j (ctxOf c)) (some i)
    | _, _ => (st, "bad-op")
  | ["copy", i, c] => match i.toNat? with
    | some i => doit (.copy i (ctxOf c)) none
    | none => (st, "bad-op")
  | _ => (st, "bad-op")

def main : IO Unit := runDriver step' ({ sd := false, store := [] } : DSt)
