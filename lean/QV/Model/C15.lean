import QV.Gen.C15

/-! # C15 - propagation results are functions of their inputs only

A history model: the hidden fields that calls on shared objects read and write
(`ReducedDensityMatrixPropagator.Nref`, the auxiliary operators kept on a hierarchy,
`Hamiltonian._has_remainder_coupling` / `is_basis_protected`, the basis-context depth) and the
calls as state transformers whose shape is read off the source (`QV.Gen.C15`), results abstract;
plus the element rule of `subtract_cutoff_coupling` / `recover_cutoff_coupling`.  Import-free. -/
namespace QV.C15
open QV.Gen.C15

/-! ## the coupling cut-off bracket on one matrix element -/
section
variable {K : Type} [Add K] [Sub K] [Mul K] [Div K] [Zero K] [Neg K] [LT K] [LE K] [DecidableLT K] [DecidableLE K]

def absK (x : K) : K := if x < 0 then -x else x

/-- `subtract_cutoff_coupling` on one off-diagonal element: (what stays in `_data`, what goes to `JR`) -/
def subtractElem (c x : K) : K × K :=
  if absK x ≤ absK c then (0, x)
  else
    let a := absK x
    let s := x / a
    let v := a - c
    (s * (if v < 0 then 0 else v), s * c)

/-- `recover_cutoff_coupling`: `_data += JR` -/
def recoverElem (p : K × K) : K := p.1 + p.2
end

/-! ## hidden fields and calls -/

structure Hidden where
  nref : Nat          -- refinement stored on a ReducedDensityMatrixPropagator
  adoDirty : Bool     -- the hierarchy's auxiliary operators hold a previous run
  remainder : Bool    -- Hamiltonian._has_remainder_coupling (couplings currently removed)
  prot : Bool    -- Hamiltonian.is_basis_protected
  depth : Int         -- open eigenbasis_of contexts (never negative on well-bracketed sequences)
deriving DecidableEq, Repr

def clean : Hidden := { nref := 1, adoDirty := false, remainder := false, prot := false, depth := 0 }

/-- one bracket call of `get_RelaxationTensor` on the system Hamiltonian -/
def bracket (h : Hidden) : String → Hidden
  | "subtract" => { h with remainder := true }
  | "recover" => { h with remainder := false }
  | "protect" => { h with prot := true }
  | "unprotect" => { h with prot := false }
  | "enter" => { h with depth := h.depth + 1 }
  | "exit" => { h with depth := h.depth - 1 }
  | _ => h

inductive Call
  /-- `prop.setDtRefinement(k)` -/
  | setRef (k : Nat)
  /-- `prop.propagate(rho, Nref=k)` (k = 1 is the default) -/
  | propagate (k : Nat)
  /-- `KTHierarchyPropagator.propagate(rho)` -/
  | heom
  /-- `get_RelaxationTensor`, branch number `b` of the extracted table -/
  | tensor (b : Nat)
  /-- state-vector / population propagation, evolution superoperator: no hidden field -/
  | pure (tag : Nat)
deriving DecidableEq, Repr

/-- what a call's result is a function of, besides its explicit arguments -/
structure Reads where
  nref : Option Nat := none
  adoDirty : Option Bool := none
  remainder : Option Bool := none
deriving DecidableEq, Repr

def exec (h : Hidden) : Call → Hidden × Reads
  | .setRef k => ({ h with nref := k }, {})
  | .propagate k =>
    let n := if stickyNref then (if k > 1 then k else h.nref) else k
    ({ h with nref := if stickyNref then n else h.nref }, { nref := some n })
  | .heom =>
    let seen := if heomResetsFirst then false else h.adoDirty
    ({ h with adoDirty := true }, { adoDirty := some seen })
  | .tensor b =>
    let seq := (branches.getD b ("", [])).2
    -- the tensor is computed between the brackets: it sees the Hamiltonian with the couplings removed iff
    -- the sequence starts with `subtract`; afterwards the flags are whatever the sequence leaves
    (seq.foldl bracket h, { remainder := some h.remainder })
  | .pure _ => (h, {})

def run (h : Hidden) : List Call → Hidden
  | [] => h
  | c :: cs => run (exec h c).1 cs

end QV.C15
