"""small random quantum systems shared by the propagation checks (C02, C07, C08, C15)"""
import math
from .core import frac, cfrac


def rand_herm(numpy, rng, n, cplx=False, ground=False, scale=8.0):
    H = numpy.zeros((n, n), dtype=complex if cplx else float)
    for i in range(n):
        H[i, i] = rng.randint(-8, 8) / scale
        for j in range(i + 1, n):
            v = rng.randint(-8, 8) / scale
            if cplx:
                v = v + 1j * rng.randint(-8, 8) / scale
            H[i, j] = v
            H[j, i] = numpy.conj(v)
    if ground:
        H[0, :] = 0
        H[:, 0] = 0
    return H


def rand_state(numpy, rng, n, pure=False):
    """Hermitian, positive, unit trace, dyadic entries where possible"""
    if pure:
        while True:
            psi = numpy.array([rng.randint(-4, 4) + 1j * rng.randint(-4, 4) for _ in range(n)], dtype=complex)
            if abs(psi).sum() > 0:
                break
        psi = psi / numpy.linalg.norm(psi)
        return numpy.outer(psi, psi.conj()), psi
    A = numpy.array([[rng.randint(-4, 4) + 1j * rng.randint(-4, 4) for _ in range(n)] for _ in range(n)], dtype=complex)
    rho = A @ A.conj().T + numpy.eye(n)
    return rho / numpy.trace(rho).real, None


def lindblad_ops(numpy, rng, n, nops=None):
    """projector-like real jump operators |a><b| and dyadic rates"""
    nops = nops or rng.randint(1, 3)
    Ks, rates = [], []
    for _ in range(nops):
        a, b = rng.sample(range(n), 2) if n > 1 else (0, 0)
        K = numpy.zeros((n, n))
        K[a, b] = 1.0
        if rng.random() < 0.3:
            c = rng.randrange(n)
            K[c, c] = 1.0
        Ks.append(K)
        rates.append(rng.randint(1, 16) / 64.0)
    return Ks, rates


def gksl_superop(numpy, H, Ks, rates):
    """dense matrix of rho -> -i[H,rho] + sum g (K rho K^+ - 1/2 {K^+K, rho}) acting on row-major vec(rho)"""
    n = H.shape[0]
    I = numpy.eye(n)
    Lv = -1j * (numpy.kron(H, I) - numpy.kron(I, H.T))
    for K, g in zip(Ks, rates):
        KdK = K.conj().T @ K
        Lv = Lv + g * (numpy.kron(K, K.conj()) - 0.5 * numpy.kron(KdK, I) - 0.5 * numpy.kron(I, KdK.T))
    return Lv


def tensor_superop(numpy, H, R):
    """dense matrix of rho -> -i[H,rho] + R rho for a 4-index tensor R"""
    n = H.shape[0]
    I = numpy.eye(n)
    return -1j * (numpy.kron(H, I) - numpy.kron(I, H.T)) + numpy.asarray(R).reshape(n * n, n * n)


def trunc_bound(x, L, m, e0=1.0):
    """|| T_L(X)^m - exp(X)^m || <= m e^{(m-1)x} (e^x - sum_{k<=L} x^k/k!),  x = ||X||"""
    eps1 = math.exp(x) - sum(x ** k / math.factorial(k) for k in range(L + 1))
    return m * math.exp(max(0, m - 1) * x) * max(eps1, 0.0) * e0


def cvals(numpy, a):
    return " ".join(cfrac(x) for x in numpy.asarray(a).flatten())
