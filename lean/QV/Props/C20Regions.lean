import QV.Model.C20Regions

/-!
# C20 — nested parallel regions

Library routines open a parallel region of their own inside the region of the calling script.  The bookkeeping is a
counter: properly nested regions bring level and region count back to where they were, so after a nested region is
closed the outer region distributes exactly as before (`distributes` is a function of the level alone), and inside a
nested region (level two or more) nothing is distributed a second time.  The seeded change C20-13 lowered the level
only when it was one; `finish_only_at_level_one_witness` is what then happens.
-/
namespace QV.C20

theorem rstep_start_finish (active : Bool) (s : RState) :
    rstep active (rstep active s .start) .finish = s := by
  cases s with
  | mk l r =>
    cases active <;> simp [rstep] <;> omega

/-- **properly nested regions restore the level and the region count** -/
theorem nested_restores (active : Bool) (ops : List ROp) (h : Nested ops) : ∀ s, rrun active s ops = s := by
  induction h with
  | nil => intro s; rfl
  | block body rest _ _ ihb ihr =>
    intro s
    have e : rrun active s (ROp.start :: body ++ ROp.finish :: rest)
        = rrun active (rstep active (rrun active (rstep active s .start) body) .finish) rest := by
      simp [rrun, List.foldl_append]
    rw [e, ihb, rstep_start_finish, ihr]

/-- after a nested block inside an open region the outer region distributes as it did before the block -/
theorem outer_distributes_after_nested (active : Bool) (s : RState) (body : List ROp) (h : Nested body) :
    distributes (rrun active s (ROp.start :: body ++ [ROp.finish])) = distributes s := by
  have : Nested (ROp.start :: body ++ ROp.finish :: []) := Nested.block body [] h .nil
  rw [nested_restores active _ this s]

/-- with MPI and more than one process: the first region opened from level zero distributes, a region nested in it does not -/
theorem first_level_distributes_second_does_not (r : Int) :
    distributes (rstep true { level := 0, region := r } .start) = true ∧
    distributes (rstep true (rstep true { level := 0, region := r } .start) .start) = false := by
  simp [distributes, rstep]

/-- without MPI (or with one process) the level never changes: whatever it was set to decides -/
theorem inactive_level_constant (s : RState) (ops : List ROp) : (rrun false s ops).level = s.level := by
  induction ops generalizing s with
  | nil => rfl
  | cons op ops ih =>
    simp only [rrun, List.foldl_cons] at *
    rw [ih]
    cases op <;> simp [rstep]

/-- a `finish` that lowers the level only when it is one (the seeded change): after `start start finish` the level is
still two, the outer region no longer distributes -/
theorem finish_only_at_level_one_witness :
    let bad : RState → ROp → RState := fun s op => match op with
      | .start => { level := s.level + 1, region := s.region + 1 }
      | .finish => { level := if s.level = 1 then s.level - 1 else s.level, region := s.region - 1 }
    distributes ([ROp.start, ROp.start, ROp.finish].foldl bad { level := 0, region := 0 }) = false := by
  decide

example : Nested [.start, .start, .finish, .start, .finish, .finish] :=
  Nested.block [.start, .finish, .start, .finish] [] (Nested.block [] [.start, .finish] .nil (Nested.block [] [] .nil .nil)) .nil

end QV.C20
