import QV.Props.C14

/-!
# C14 — the Boltzmann exponents do not depend on the energy units, as long as kT is in the same units

`_thermal_population` forms `-(E_i - E_min)/kT` from the diagonal of the Hamiltonian *as presented in the current
energy units*.  Expressing energies, reorganisation energies and `kT` in other units multiplies all of them by the
same positive factor `c`; the exponents (hence the populations) are unchanged.  Mixing units - energies in the current
units, `kT` in internal ones, the defect repaired in `9baa191` - multiplies every exponent by `c`, i.e. hands out the
Boltzmann state of the temperature `T/c`.
-/
namespace QV.C14

theorem foldl_min_scale (c : ℝ) (hc : 0 < c) : ∀ (xs : List ℝ) (m : ℝ),
    (xs.map (c * ·)).foldl (fun m y => if y < m then y else m) (c * m)
      = c * xs.foldl (fun m y => if y < m then y else m) m := by
  intro xs
  induction xs with
  | nil => intro m; rfl
  | cons x xs ih =>
    intro m
    simp only [List.map_cons, List.foldl_cons]
    by_cases h : x < m
    · have h' : c * x < c * m := mul_lt_mul_of_pos_left h hc
      simp only [h, h', if_true]
      exact ih x
    · have h' : ¬ c * x < c * m := by
        intro hlt; exact h (lt_of_mul_lt_mul_left hlt hc.le)
      simp only [h, h', if_false]
      exact ih m

theorem listMin_scale (c : ℝ) (hc : 0 < c) (l : List ℝ) : listMin (l.map (c * ·)) = c * listMin l := by
  cases l with
  | nil => simp [listMin]
  | cons x xs => simpa [listMin] using foldl_min_scale c hc xs x

theorem zipWith_sub_scale (c : ℝ) : ∀ (a b : List ℝ),
    (a.map (c * ·)).zipWith (· - ·) (b.map (c * ·)) = (a.zipWith (· - ·) b).map (c * ·) := by
  intro a
  induction a with
  | nil => intro b; simp
  | cons x xs ih =>
    intro b
    cases b with
    | nil => simp
    | cons y ys => simp [ih ys, mul_sub]

/-- **units invariance**: energies, subtracted reorganisation energies and `kT` all multiplied by the same `c > 0`
(the same quantities in other energy units) give the same exponents -/
theorem thermalPlan_units_invariant (temp kBT c : ℝ) (ht : temp ≠ 0) (hc : 0 < c) (hk : kBT ≠ 0)
    (diagH subtract : List ℝ) (start : Nat) :
    (thermalPlan temp (c * kBT) (diagH.map (c * ·)) (subtract.map (c * ·)) start).exps
      = (thermalPlan temp kBT diagH subtract start).exps := by
  simp only [thermalPlan, ht, if_false]
  rw [← List.map_drop, zipWith_sub_scale, listMin_scale c hc, List.map_map]
  apply List.map_congr_left
  intro e _
  simp only [Function.comp]
  rw [← mul_sub, ← mul_neg, mul_div_mul_left _ _ hc.ne']

/-- **mixed units** (energies in the current units, `kT` in internal ones): every exponent is multiplied by `c` -
the state handed out is the Boltzmann state of the temperature `T/c` -/
theorem thermalPlan_mixed_units (temp kBT c : ℝ) (ht : temp ≠ 0) (hc : 0 < c)
    (diagH subtract : List ℝ) (start : Nat) :
    (thermalPlan temp kBT (diagH.map (c * ·)) (subtract.map (c * ·)) start).exps
      = (thermalPlan temp kBT diagH subtract start).exps.map (c * ·) := by
  simp only [thermalPlan, ht, if_false]
  rw [← List.map_drop, zipWith_sub_scale, listMin_scale c hc, List.map_map, List.map_map]
  apply List.map_congr_left
  intro e _
  simp only [Function.comp]
  rw [← mul_sub, ← mul_neg, mul_div_assoc]

/-- non-vacuity / the repaired input in small: two levels `0, 1`, `kT = 1`, units factor `c = 5000` (internal -> 1/cm) -/
example : (thermalPlan (300 : ℝ) 1 ([0, 1].map ((5000 : ℝ) * ·)) ([0, 0].map ((5000 : ℝ) * ·)) 0).exps = [0, -5000] := by
  rw [thermalPlan_mixed_units 300 1 5000 (by norm_num) (by norm_num)]
  simp [thermalPlan, listMin]
  norm_num

end QV.C14
