import QV.Props.C05

/-!
# C05 — units switched by hand inside a context are undone when the context is left

`contexts_restore` is about programs made of `with energy_units(...)` blocks only.  Library code also switches
units by hand (`Manager().set_current_units`), and a routine that is refused half way (e.g. `Aggregate.build`)
may leave them switched.  The exit of the enclosing context does not depend on what is current when it runs: it
puts back the units that were active when the context was entered.  So a block restores units, backup stack and
nesting counter **whatever sequence of hand switches and nested blocks its body contains** — in particular when
the block asked for the units that were already active (the seeded change C05-12 skipped the restore there).
-/
namespace QV.C05
open QV.Gen.C05

/-- bodies of blocks: hand switches (to known units) and properly nested blocks, in any order -/
inductive Inner : List UOp → Prop where
  | nil : Inner []
  | raw (u : String) (rest : List UOp) : u ∈ energyUnits → Inner rest → Inner (UOp.rawSet u :: rest)
  | block (u : String) (body rest : List UOp) : u ∈ energyUnits → Inner body → Inner rest →
      Inner (UOp.enter u :: body ++ UOp.exit :: rest)

theorem rawSet_known (s : UState) (hk : Known s) (u : String) (hu : u ∈ energyUnits) :
    (ustep s (.rawSet u)).1.current = u ∧ (ustep s (.rawSet u)).1.backups = s.backups ∧
    (ustep s (.rawSet u)).1.count = s.count ∧ Known (ustep s (.rawSet u)).1 := by
  simp only [ustep, rawSet, hu, if_true, Known, true_and]
  exact hk.2

/-- the body of a block leaves the backup stack and the nesting counter alone (the current units may be anything known) -/
theorem inner_keeps_stack (ops : List UOp) (h : Inner ops) :
    ∀ s, Known s → (urun s ops).backups = s.backups ∧ (urun s ops).count = s.count ∧ Known (urun s ops) := by
  induction h with
  | nil => intro s hk; exact ⟨rfl, rfl, hk⟩
  | raw u rest hu _ ih =>
    intro s hk
    obtain ⟨_, b1, c1, k1⟩ := rawSet_known s hk u hu
    have e : urun s (UOp.rawSet u :: rest) = urun (ustep s (.rawSet u)).1 rest := by simp [urun]
    rw [e]
    obtain ⟨b2, c2, k2⟩ := ih _ k1
    exact ⟨b2.trans b1, c2.trans c1, k2⟩
  | block u body rest hu _ _ ihb ihr =>
    intro s hk
    have e : urun s (UOp.enter u :: body ++ UOp.exit :: rest)
        = urun (ustep (urun (ustep s (.enter u)).1 body) .exit).1 rest := by
      simp [urun, List.foldl_append]
    rw [e]
    obtain ⟨_, e2, e3, _⟩ := enter_ok s u hu
    have hk1 : Known (ustep s (.enter u)).1 := Known_step s hk _ (by simp) (by simp)
    obtain ⟨b2, c2, k2⟩ := ihb _ hk1
    have b2' : (urun (ustep s (.enter u)).1 body).backups = s.current :: s.backups := b2.trans e2
    have c2' : (urun (ustep s (.enter u)).1 body).count = s.count + 1 := c2.trans e3
    have hcur : s.current ∈ energyUnits := hk.1
    have hx : (ustep (urun (ustep s (.enter u)).1 body) .exit).1.backups = s.backups ∧
        (ustep (urun (ustep s (.enter u)).1 body) .exit).1.count = s.count ∧
        (ustep (urun (ustep s (.enter u)).1 body) .exit).1.current = s.current := by
      generalize urun (ustep s (.enter u)).1 body = s2 at b2' c2' k2
      simp [ustep, b2', rawSet, hcur, c2']
    have k3 : Known (ustep (urun (ustep s (.enter u)).1 body) .exit).1 := by
      refine ⟨by rw [hx.2.2]; exact hcur, ?_⟩
      intro b hb; rw [hx.1] at hb; exact hk.2 b hb
    obtain ⟨b4, c4, k4⟩ := ihr _ k3
    exact ⟨b4.trans hx.1, c4.trans hx.2.1, k4⟩

/-- **a block restores the active units, the backup stack and the nesting counter whatever hand switches and nested
blocks its body contains** (also when it asked for the units that were active already) -/
theorem block_restores_despite_hand_switches (u : String) (hu : u ∈ energyUnits) (body : List UOp) (hb : Inner body)
    (s : UState) (hk : Known s) :
    visible (urun s (UOp.enter u :: body ++ [UOp.exit])) = visible s := by
  have e : urun s (UOp.enter u :: body ++ [UOp.exit]) = (ustep (urun (ustep s (.enter u)).1 body) .exit).1 := by
    simp [urun, List.foldl_append]
  rw [e]
  obtain ⟨_, e2, e3, _⟩ := enter_ok s u hu
  have hk1 : Known (ustep s (.enter u)).1 := Known_step s hk _ (by simp) (by simp)
  obtain ⟨b2, c2, _⟩ := inner_keeps_stack body hb _ hk1
  have b2' : (urun (ustep s (.enter u)).1 body).backups = s.current :: s.backups := b2.trans e2
  have c2' : (urun (ustep s (.enter u)).1 body).count = s.count + 1 := c2.trans e3
  have hcur : s.current ∈ energyUnits := hk.1
  generalize urun (ustep s (.enter u)).1 body = s2 at b2' c2'
  simp [ustep, b2', rawSet, hcur, visible, c2']

/-- the program of the seeded change: `with 1/cm: with 1/cm: set_current_units(eV)` started under 1/cm -/
example : visible (urun { current := "1/cm", backups := [], count := 0, flag := false, saved := none }
    [.enter "1/cm", .enter "1/cm", .rawSet "eV", .exit, .exit]) = ("1/cm", [], 0) := by decide

example : Inner [.enter "1/cm", .rawSet "eV", .exit] :=
  Inner.block "1/cm" [.rawSet "eV"] [] (by decide) (Inner.raw "eV" [] (by decide) .nil) .nil

end QV.C05
