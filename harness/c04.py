"""C04 - basis-change contexts are transparent and self-restoring."""
from qvh.core import *

DRIVER = "C04"
PROPS = "QV.Props.C04"
N = 3


class Boom(Exception):
    pass


def run(ck):
    import numpy
    qr = import_quantarhei()
    from quantarhei import Manager, eigenbasis_of, ReducedDensityMatrix, Hamiltonian
    from quantarhei.qm.hilbertspace.operators import Operator, SelfAdjointOperator, DensityMatrix
    rng = ck.rng
    m = Manager()
    ck.rule = ("random programs (<=40 events, nesting <=4) of entering/leaving eigenbasis_of contexts of real symmetric operators "
               "(incl. degenerate spectra), creating, reading, writing and protecting Operator / SelfAdjointOperator / Hamiltonian / "
               "ReducedDensityMatrix / DensityMatrix objects, with exceptions raised at random points; after every event the basis stack, "
               "registry per level, per-object basis labels, current basis operator and flags are compared exactly with the model and every "
               "value read is compared numerically (1e-9); second stream: relaxation tensors, superoperators and evolutions in (nested) "
               "contexts checked by the oracle; non-trivial = program with nesting >= 2 and (an exception or an object created inside)")
    ck.trusted += ["harness/c04.py; the transformation matrix S of each context is read from Manager.basis_transformations after entering and "
                   "handed to the model (eigh contract S^T S = 1, S^-1 A S diagonal ascending is re-checked numerically)",
                   "hand model QV/Model/C04.lean validated on generated programs only; model inverts S exactly in rationals, the code with numpy.linalg.inv",
                   "4-index tensors / superoperators are not in the executable C04 model; their there-and-back transformation is the theorem transform_back (QV/Props/C04Tensor.lean) on the two passes of RelaxationTensor.transform as transcribed in QV/Model/C01.lean (tied to the code by the C01 driver); the tensor stream here is the oracle for it"]
    ck.prove(PROPS, extra_modules=["QV.Drive.C04"], also=["QV.Props.C04Labels", "QV.Props.C04Tensor"])
    lines, impl, kinds = [], [], []

    def emit(l, o, k="exact"):
        lines.append(l); impl.append(o); kinds.append(k)

    def mat(a):
        return " ".join(frac(x) for x in numpy.real(numpy.asarray(a)).flatten())

    def symm(deg=False):
        a = numpy.zeros((N, N))
        for i in range(N):
            for j in range(i, N):
                a[i, j] = a[j, i] = rng.randint(-8, 8) / 4.0
        if deg:
            a = rng.choice([numpy.diag([1.0, 1.0, 2.5]), numpy.array([[2.0, 1.0, 0.0], [1.0, 2.0, 0.0], [0.0, 0.0, 3.0]]),
                            numpy.diag([2.0, 0.5, 1.25]), numpy.diag([0.0, 2.0, 2.0]), numpy.diag([3.0, 1.0, 1.0])])
        return a

    def general():
        return numpy.array([[rng.randint(-8, 8) / 4.0 for _ in range(N)] for _ in range(N)])

    classes = [("Operator", lambda d: Operator(data=d), general), ("SelfAdjointOperator", lambda d: SelfAdjointOperator(data=d), symm),
               ("Hamiltonian", lambda d: Hamiltonian(data=d), symm), ("ReducedDensityMatrix", lambda d: ReducedDensityMatrix(data=d), symm),
               ("DensityMatrix", lambda d: DensityMatrix(data=d), symm)]

    for h in range(ck.n(40, 700)):
        objs = {}       # id -> object
        orig = {}       # id -> original matrix for objects never written and created outside
        ident = {}

        def oid(o):
            return ident.get(id(o), -1)

        def dump():
            d = len(m.basis_stack) - 1
            regs = []
            for l in range(1, d + 1):
                ids = sorted(oid(o) for o in m.basis_registered.get(m.basis_stack[l], []))
                regs.append("%d:[%s]" % (l, ",".join(str(i) for i in ids)))
            ob = " ".join("%d:%d:%d" % (i, objs[i].get_current_basis(), 1 if objs[i].is_basis_protected else 0) for i in sorted(objs))
            cur = m.current_basis_operator
            return "d=%d op=%s in=%d %s | %s" % (d, "-" if cur is None else str(oid(cur)), 1 if m._in_eigenbasis_of_context else 0, " ".join(regs), ob)

        def new_obj(cls_i, inside):
            name, ctor, gen = classes[cls_i]
            d = gen()
            o = ctor(d.copy())
            i = len(objs)
            objs[i] = o; ident[id(o)] = i
            if not inside:
                orig[i] = d.copy()
            return i, d

        emit("reset", "ok")
        # operators that may define contexts (self-adjoint ones), created outside
        ctx_ids = []
        for k in range(rng.randint(1, 3)):
            d = symm(deg=rng.random() < 0.4)
            o = Hamiltonian(data=d.copy()) if rng.random() < 0.5 else SelfAdjointOperator(data=d.copy())
            i = len(objs); objs[i] = o; ident[id(o)] = i; orig[i] = d.copy(); ctx_ids.append(i)
            emit("create %d %s" % (i, mat(d)), dump())
        for k in range(rng.randint(1, 3)):
            i, d = new_obj(rng.randrange(len(classes)), False)
            emit("create %d %s" % (i, mat(d)), dump())
        stats = dict(depth=0, raises=0, created_inside=0, events=0)
        written = set()

        def events(depth):
            n_ev = rng.randint(1, 5)
            for _ in range(n_ev):
                if stats["events"] > 40:
                    return
                stats["events"] += 1
                x = rng.random()
                if x < 0.3 and depth < 4:
                    i = rng.choice(ctx_ids)
                    op = objs[i]
                    try:
                        try:
                            with eigenbasis_of(op):
                                S = numpy.array(m.basis_transformations[-1], dtype=float)
                                ck.resid("eigh contract |S^T S - 1|", numpy.abs(S.T @ S - numpy.eye(N)).max())
                                emit("enter %d %s" % (i, mat(S)), dump())
                                stats["depth"] = max(stats["depth"], depth + 1)
                                # inside: the context operator is diagonal with ascending eigenvalues
                                dd = numpy.array(op.data)
                                emit("read %d" % i, mat(dd), "num")
                                off = numpy.abs(dd - numpy.diag(numpy.diag(dd))).max()
                                ev = numpy.real(numpy.diag(dd))
                                if off > 1e-9 * max(1.0, numpy.abs(dd).max()) or numpy.any(numpy.diff(ev) < -1e-9):
                                    ck.fail("inside:diagonal", "context operator not diagonal/ascending inside its context",
                                            {"operator": orig.get(i, dd).tolist()}, dd.tolist())
                                events(depth + 1)
                        finally:
                            emit("exit", dump())
                    except Boom:
                        if rng.random() < 0.5:
                            raise
                elif x < 0.5:
                    i = rng.choice(list(objs))
                    v = numpy.array(objs[i].data)
                    emit("read %d" % i, mat(v), "num")
                    emit("dump", dump())
                    if i in orig and i not in written:
                        # basis-independent results: trace and spectrum
                        if abs(numpy.trace(v) - numpy.trace(orig[i])) > 1e-9 * max(1.0, numpy.abs(orig[i]).max()):
                            ck.fail("inside:trace", "trace of an object differs inside a context", {"object": orig[i].tolist()})
                elif x < 0.62:
                    i = rng.choice(list(objs))
                    if i in ctx_ids and depth > 0:
                        continue   # do not overwrite an operator that defines an active context
                    name = type(objs[i]).__name__
                    d = general() if name == "Operator" else symm()
                    was_protected = objs[i].is_basis_protected
                    objs[i].data = d.copy()
                    emit("write %d %s" % (i, mat(d)), dump())
                    if was_protected or i in written:
                        written.add(i)
                    else:
                        # the value was given in the current basis: its representation outside all contexts
                        St = numpy.eye(N)
                        for Sk in m.basis_transformations[1:]:
                            St = St @ numpy.array(Sk, dtype=float)
                        orig[i] = St @ d @ St.T
                elif x < 0.77:
                    i, d = new_obj(rng.randrange(len(classes)), depth > 0)
                    if depth > 0:
                        stats["created_inside"] += 1
                    emit("create %d %s" % (i, mat(d)), dump())
                elif x < 0.87:
                    # tr(A B) of two objects presented in the same basis
                    a, b = rng.choice(list(objs)), rng.choice(list(objs))
                    va = numpy.array(objs[a].data); emit("read %d" % a, mat(va), "num")
                    vb = numpy.array(objs[b].data); emit("read %d" % b, mat(vb), "num")
                    if a in orig and b in orig and a not in written and b not in written:
                        t_in, t_out = numpy.trace(va @ vb), numpy.trace(orig[a] @ orig[b])
                        if abs(t_in - t_out) > 1e-9 * max(1.0, abs(t_out)):
                            ck.fail("inside:trAB", "tr(A B) differs inside a context (objects not in the same basis)",
                                    {"A": orig[a].tolist(), "B": orig[b].tolist(), "depth": depth}, complex(t_in), complex(t_out))
                elif x < 0.93:
                    i = rng.choice(list(objs))
                    if i in ctx_ids:
                        continue
                    if objs[i].is_basis_protected:
                        objs[i].unprotect_basis(); emit("unprotect %d" % i, dump())
                    else:
                        objs[i].protect_basis(); emit("protect %d" % i, dump())
                    written.add(i)      # protection inside a context is not claimed to restore (see DESIGN)
                elif depth > 0:
                    stats["raises"] += 1
                    raise Boom()

        try:
            events(0)
        except Boom:
            pass
        # ---- after the program: everything restored -------------------------------------------
        end = dump()
        if len(m.basis_stack) != 1 or m.basis_registered or m._in_eigenbasis_of_context or m.current_basis_operator is not None:
            ck.fail("restore:bookkeeping", "basis bookkeeping not back in its initial state after all contexts were left",
                    {"dump": end})
            m.basis_stack[:] = [0]; m.basis_transformations[:] = [1]; m.basis_registered.clear()
            m._in_eigenbasis_of_context = False; m.current_basis_operator = None
        stale = [i for i in sorted(objs) if objs[i].get_current_basis() not in m.basis_stack]
        if stale:
            ck.fail("restore:label", "after all contexts were left an object still carries the label of a basis that is no longer on the stack "
                    "(protected objects included: their values stay, their label follows the stack)",
                    {"dump": end, "objects": stale, "classes": [type(objs[i]).__name__ for i in stale]})
            for i in stale:
                objs[i].set_current_basis(0)
        for i in sorted(objs):
            emit("raw %d" % i, mat(objs[i]._data), "num")
            if i in orig and i not in written:
                dev = numpy.abs(numpy.asarray(objs[i]._data) - orig[i]).max()
                if dev > 1e-9 * max(1.0, numpy.abs(orig[i]).max()) or objs[i].get_current_basis() != 0:
                    ck.fail("restore:object", "object not back in its original representation after the contexts were left",
                            {"class": type(objs[i]).__name__, "original": orig[i].tolist()}, numpy.asarray(objs[i]._data).tolist())
        ck.case(tuple(lines[-stats["events"] - 8:]), nontrivial=(stats["depth"] >= 2 and (stats["raises"] or stats["created_inside"])),
                nesting=stats["depth"], raises=min(stats["raises"], 2), created_inside=min(stats["created_inside"], 3),
                sample=[l[:60] for l in lines[-min(12, stats["events"] + 6):]] if h < 1 else None)
    tensor_stream(ck, qr, numpy, m)
    td_tensor_stream(ck, qr, numpy, m)
    complex_stream(ck, qr, numpy, m)
    scripted_stream(ck, qr, numpy, m)
    model = ck.drive(DRIVER, lines, args=(N,))
    if model is not None:
        for l, a, b, k in zip(lines, impl, model, kinds):
            ck.traces += 1
            if k == "exact":
                if a != b:
                    ck.disagree("bookkeeping differs", l[:80], a, b)
            else:
                try:
                    fa = [float(Fraction(x)) for x in a.split()]
                    fb = [float(Fraction(x)) for x in b.split()]
                    d = max(abs(x - y) for x, y in zip(fa, fb)) if len(fa) == len(fb) and fa else float("inf")
                except Exception:
                    d = float("inf")
                if d != float("inf"):
                    ck.resid("max |impl-model| of values read", d)
                if d > 1e-9 * max(1.0, max(abs(x) for x in fb) if d != float("inf") else 1.0):
                    ck.disagree("value differs by %.3g" % d, l[:80], a[:160], b[:160])
    return ck.finish()


def tensor_stream(ck, qr, numpy, m):
    """relaxation tensors, superoperators, evolutions: restoration and invariance, oracle only"""
    from quantarhei import eigenbasis_of, ReducedDensityMatrix, Hamiltonian, TimeAxis
    from quantarhei.qm import Operator, SystemBathInteraction, LindbladForm, RedfieldRelaxationTensor
    from quantarhei.qm.liouvillespace.superoperator import SuperOperator
    rng = ck.rng
    for h in range(ck.n(12, 120)):
        n = 3
        Hd = numpy.zeros((n, n))
        for i in range(n):
            for j in range(i, n):
                Hd[i, j] = Hd[j, i] = rng.randint(-8, 8) / 8.0
        Hd[0, :] = 0; Hd[:, 0] = 0
        ham = Hamiltonian(data=Hd.copy())
        K1 = numpy.zeros((n, n)); K1[1, 2] = 1.0
        K2 = numpy.zeros((n, n)); K2[2, 1] = 1.0
        sbi = SystemBathInteraction([Operator(data=K1), Operator(data=K2)], rates=(rng.randint(1, 8) / 64.0, rng.randint(1, 8) / 64.0))
        as_ops = rng.random() < 0.5
        if h % 3 == 0:
            as_ops = (h % 6 == 0)      # the snapshot cases below: both forms, whatever the seed
        LF = LindbladForm(ham, sbi, as_operators=as_ops)
        Sd = numpy.array([[[[rng.randint(-4, 4) / 4.0 for _ in range(n)] for _ in range(n)] for _ in range(n)] for _ in range(n)])
        SO = SuperOperator(data=Sd.copy())
        rd = numpy.zeros((n, n)); rd[1, 1] = 0.5; rd[2, 2] = 0.25; rd[1, 2] = rd[2, 1] = 0.125; rd[0, 0] = 0.25
        rho = ReducedDensityMatrix(data=rd.copy())
        out_LF = numpy.array(LF.apply(rho, copy=True).data) if hasattr(LF, "apply") else None
        out_SO = numpy.array(SO.apply(rho).data)
        lf_data0 = None if as_ops else numpy.array(LF.data).copy()
        other = Hamiltonian(data=numpy.diag([0.0, 1.0, 3.0]) + 0.25 * (numpy.ones((n, n)) - numpy.eye(n)))
        nest = rng.random() < 0.5
        boom = rng.random() < 0.4
        inp = {"H": Hd.tolist(), "as_operators": as_ops, "nested": nest, "exception": boom}
        ops0 = [numpy.array(getattr(LF, k)).copy() for k in ("_Km", "_Lm", "_Ld")] if as_ops else None
        snap = (h % 3 == 0)          # a snapshot (deep copy, which goes through the same state hook as save()) taken inside the context
        inp["snapshot_inside"] = snap
        cp = a1b = None
        try:
            with eigenbasis_of(ham):
                a1 = LF.apply(rho, copy=True)
                b1 = SO.apply(rho)
                if snap:
                    import copy as _copy
                    cp = (_copy.deepcopy(LF), _copy.deepcopy(SO))
                    a1b = (LF.apply(rho, copy=True), SO.apply(rho))
                if nest:
                    with eigenbasis_of(other):
                        a2 = LF.apply(rho, copy=True)
                        SO.data
                        if boom:
                            raise Boom()
                elif boom:
                    raise Boom()
        except Boom:
            pass
        ck.case(("tensor", Hd.tobytes(), as_ops, nest, boom), nontrivial=True, kind="tensor-stream", nested=nest, exception=boom)
        sc = 1.0
        bad = []
        if numpy.abs(numpy.array(a1.data) - out_LF).max() > 1e-9:
            bad.append(("Lindblad action", float(numpy.abs(numpy.array(a1.data) - out_LF).max())))
        if numpy.abs(numpy.array(b1.data) - out_SO).max() > 1e-9:
            bad.append(("SuperOperator action", float(numpy.abs(numpy.array(b1.data) - out_SO).max())))
        if nest and not boom and numpy.abs(numpy.array(a2.data) - out_LF).max() > 1e-9:
            bad.append(("Lindblad action nested", float(numpy.abs(numpy.array(a2.data) - out_LF).max())))
        if numpy.abs(numpy.array(SO._data) - Sd).max() > 1e-9:
            bad.append(("SuperOperator restored", float(numpy.abs(numpy.array(SO._data) - Sd).max())))
        if lf_data0 is not None and numpy.abs(numpy.array(LF._data) - lf_data0).max() > 1e-9:
            bad.append(("Lindblad tensor restored", float(numpy.abs(numpy.array(LF._data) - lf_data0).max())))
        if numpy.abs(numpy.array(rho._data) - rd).max() > 1e-9 or numpy.abs(numpy.array(ham._data) - Hd).max() > 1e-9:
            bad.append(("state/Hamiltonian restored", 0.0))
        if ops0 is not None:
            dv = max(float(numpy.abs(numpy.array(getattr(LF, k)) - o).max()) for k, o in zip(("_Km", "_Lm", "_Ld"), ops0))
            if dv > 1e-9:
                bad.append(("Lindblad operators restored", dv))
        if snap and a1b is not None:
            if numpy.abs(numpy.array(a1b[0].data) - out_LF).max() > 1e-9:
                bad.append(("Lindblad action after a snapshot inside the context", float(numpy.abs(numpy.array(a1b[0].data) - out_LF).max())))
            if numpy.abs(numpy.array(a1b[1].data) - out_SO).max() > 1e-9:
                bad.append(("SuperOperator action after a snapshot inside the context", float(numpy.abs(numpy.array(a1b[1].data) - out_SO).max())))
            # the snapshot is the object in its stored representation: used outside, it acts like the original
            try:
                c0 = numpy.array(cp[0].apply(rho, copy=True).data); c1 = numpy.array(cp[1].apply(rho).data)
                if numpy.abs(c0 - out_LF).max() > 1e-9:
                    bad.append(("snapshot of the Lindblad form taken inside the context", float(numpy.abs(c0 - out_LF).max())))
                if numpy.abs(c1 - out_SO).max() > 1e-9:
                    bad.append(("snapshot of the SuperOperator taken inside the context", float(numpy.abs(c1 - out_SO).max())))
            except Exception as e:
                bad.append(("snapshot unusable: %r" % (e,), 0.0))
        if len(m.basis_stack) != 1 or m.basis_registered or m.current_basis_operator is not None:
            bad.append(("bookkeeping", 0.0))
            m.basis_stack[:] = [0]; m.basis_transformations[:] = [1]; m.basis_registered.clear()
            m._in_eigenbasis_of_context = False; m.current_basis_operator = None
        for what, dev in bad:
            ck.fail("tensor:%s" % what, "tensor/superoperator stream: %s differs (%.3g)" % (what, dev), inp)


def td_tensor_stream(ck, qr, numpy, m):
    """time-dependent relaxation tensors (all times in one array / operator form), with and without a cut-off time: the action at every
    time is the same inside and outside a context, and the stored arrays come back after the context"""
    from quantarhei import Molecule, Aggregate, TimeAxis, CorrelationFunction, energy_units, eigenbasis_of, ReducedDensityMatrix
    rng = ck.rng
    ta = TimeAxis(0.0, 60, 1.0)
    for h in range(ck.n(2, 8)):
        nmol = 2 if h % 2 == 0 else 3
        with energy_units("1/cm"):
            mols = []
            for k in range(nmol):
                ml = Molecule([0.0, 12000.0 + 120.0 * k + rng.randint(-30, 30)])
                ml.set_transition_environment((0, 1), CorrelationFunction(ta, dict(ftype="OverdampedBrownian", reorg=rng.choice([20.0, 40.0]),
                                                                                      cortime=rng.choice([30.0, 60.0]), T=300, matsubara=20)))
                mols.append(ml)
            agg = Aggregate(mols)
            for i in range(nmol):
                for j in range(i + 1, nmol):
                    agg.set_resonance_coupling(i, j, rng.choice([60.0, -90.0, 140.0]))
        agg.build()
        sysd = {"H_site": numpy.array(agg.get_Hamiltonian().data).tolist(), "reorg_cm": [float(ml.get_transition_environment((0, 1)).lamb) for ml in mols]}
        for cut, ops in ((None, False), (20.0, False), (20.0, True), (None, True)):
            inp = dict(sysd, sites=nmol, relaxation_cutoff_time=cut, as_operators=ops)
            ck.case(("td-tensor", h, cut, ops), nontrivial=True, kind="tensor-stream", nested=False, exception=False)
            try:
                RT, ham = agg.get_RelaxationTensor(ta, relaxation_theory="standard_Redfield", time_dependent=True, relaxation_cutoff_time=cut, as_operators=ops)
                dim = ham.dim
                rd = numpy.zeros((dim, dim), dtype=complex); rd[1, 1] = 0.6; rd[dim - 1, dim - 1] = 0.4; rd[1, dim - 1] = rd[dim - 1, 1] = 0.2
                A = numpy.array([[rng.randint(-4, 4) / 4.0 for _ in range(dim)] for _ in range(dim)]); A = A + A.T
                names = ("_Km", "_Lm", "_Ld") if ops else ("_data",)
                raw0 = [numpy.array(getattr(RT, k)).copy() for k in names]

                def act(tidx):
                    if ops:
                        RT.set_time(tidx) if hasattr(RT, "set_time") else None
                        K, L, Ld = numpy.array(RT.Km), numpy.array(RT.Lm), numpy.array(RT.Ld)
                        rho = numpy.array(ReducedDensityMatrix(data=rd.copy()).data)
                        out = numpy.zeros_like(rho)
                        Lt = L[tidx] if L.ndim == 4 else L
                        Ldt = Ld[tidx] if Ld.ndim == 4 else Ld
                        for mm in range(K.shape[0]):
                            out = out + K[mm] @ rho @ Ldt[mm] + Lt[mm] @ rho @ K[mm] - K[mm] @ Lt[mm] @ rho - rho @ Ldt[mm] @ K[mm]
                        return out
                    return numpy.tensordot(numpy.array(RT.data)[tidx], rd)

                tix = [1, 15, 25, 45, ta.length - 1]
                outside = [complex(numpy.trace(A @ act(t_))) for t_ in tix]
                with eigenbasis_of(ham):
                    S = numpy.array(m.basis_transformations[-1], dtype=float)
                    A_in, rd_in = S.T @ A @ S, S.T @ rd @ S
                    rd_keep = rd
                    rd = rd_in
                    inside = [complex(numpy.trace(A_in @ act(t_))) for t_ in tix]
                    rd = rd_keep
                raw1 = [numpy.array(getattr(RT, k)).copy() for k in names]
                # scale of the comparison: size of the tensor times size of the operators (tr(A R[rho]) itself may vanish, e.g. for A ~ 1)
                scR = (float(numpy.abs(raw0[0]).max()) * float(numpy.abs(raw0[1]).max())) if ops else float(numpy.abs(raw0[0]).max())
                sc = max(1e-300, max(abs(z) for z in outside), scR * max(1.0, float(numpy.abs(A).max())))
                worst = max(abs(a - b) for a, b in zip(inside, outside))
                if worst > 1e-9 * sc:
                    kbad = tix[int(numpy.argmax([abs(a - b) for a, b in zip(inside, outside)]))]
                    ck.fail("td-tensor:action", "tr(A R(t)[rho]) of a time-dependent tensor differs inside and outside eigenbasis_of(H)", dict(inp, time_index=kbad),
                            float(worst / sc))
                dv = max(float(numpy.abs(a - b).max()) for a, b in zip(raw0, raw1))
                if dv > 1e-9 * max(float(numpy.abs(a).max()) for a in raw0):
                    ck.fail("td-tensor:restore", "stored arrays of a time-dependent tensor are not restored after the context", inp, dv)
            except Exception as e:
                ck.fail("raises:td-tensor", "time-dependent tensor in a context raised %r" % (e,), inp)
            if len(m.basis_stack) != 1 or m.basis_registered or m.current_basis_operator is not None:
                ck.fail("td-tensor:bookkeeping", "bookkeeping not restored", inp)
                m.basis_stack[:] = [0]; m.basis_transformations[:] = [1]; m.basis_registered.clear()
                m._in_eigenbasis_of_context = False; m.current_basis_operator = None


def complex_stream(ck, qr, numpy, m):
    """contexts of COMPLEX Hermitian operators (unitary, not orthogonal, transformations) on operators and states:
    diagonal/ascending inside, tr(A rho) invariant, everything restored after leaving (nested, through exceptions,
    objects created inside), re-entry; oracle only"""
    from quantarhei import eigenbasis_of, ReducedDensityMatrix, Hamiltonian
    from quantarhei.qm import Operator
    from quantarhei.qm.hilbertspace.operators import SelfAdjointOperator
    rng = ck.rng

    def cherm(n, deg=False):
        a = numpy.array([[rng.randint(-6, 6) / 4.0 + 1j * rng.randint(-6, 6) / 4.0 for _ in range(n)] for _ in range(n)])
        a = (a + a.conj().T) / 2.0
        if deg:
            # a degenerate spectrum with complex eigenvectors: U diag(1,1,3..) U^+
            w, v = numpy.linalg.eigh(a)
            w = numpy.array([1.0, 1.0] + [3.0 + k for k in range(n - 2)])
            a = (v * w) @ v.conj().T
            a = (a + a.conj().T) / 2.0
        return a

    for h in range(ck.n(10, 120)):
        n = rng.choice([2, 3, 3, 4])
        Hc = cherm(n, deg=(n >= 3 and rng.random() < 0.25))
        Oc = cherm(n)
        ctx = Hamiltonian(data=Hc.copy()) if rng.random() < 0.5 else SelfAdjointOperator(data=Hc.copy())
        ctx2 = SelfAdjointOperator(data=Oc.copy())
        Ad = numpy.array([[rng.randint(-4, 4) / 4.0 + 1j * rng.randint(-4, 4) / 4.0 for _ in range(n)] for _ in range(n)])
        if h % 3 == 1:
            Ad = numpy.array([[rng.randint(-4, 4) / 4.0 for _ in range(n)] for _ in range(n)])      # a real operator in a complex context
        A = Operator(data=Ad.copy())
        rd = cherm(n); rd = rd @ rd.conj().T; rd = rd / numpy.trace(rd).real
        rho = ReducedDensityMatrix(data=rd.copy())
        nest = rng.random() < 0.5
        boom = rng.random() < 0.4
        inp = {"context operator": [[str(z) for z in r] for r in Hc], "n": n, "nested": nest, "exception": boom}
        t_out = numpy.trace(Ad @ rd)
        bad = []
        made = {}
        try:
            try:
                with eigenbasis_of(ctx):
                    dd = numpy.array(ctx.data)
                    off = numpy.abs(dd - numpy.diag(numpy.diag(dd))).max()
                    ev = numpy.real(numpy.diag(dd))
                    if off > 1e-9 * max(1.0, numpy.abs(dd).max()) or numpy.any(numpy.diff(ev) < -1e-9):
                        bad.append(("inside:diagonal", float(off)))
                    t_in = numpy.trace(numpy.array(A.data) @ numpy.array(rho.data))
                    if abs(t_in - t_out) > 1e-9 * max(1.0, abs(t_out)):
                        bad.append(("inside:trAB", abs(t_in - t_out)))
                    B = Operator(data=numpy.array(A.data) @ numpy.array(rho.data))      # created inside, in this basis
                    made["B"] = B
                    if nest:
                        with eigenbasis_of(ctx2):
                            t_in2 = numpy.trace(numpy.array(A.data) @ numpy.array(rho.data))
                            if abs(t_in2 - t_out) > 1e-9 * max(1.0, abs(t_out)):
                                bad.append(("inside:trAB:nested", abs(t_in2 - t_out)))
                            if boom:
                                raise Boom()
                    elif boom:
                        raise Boom()
            except Boom:
                pass
            sc = max(1.0, float(numpy.abs(Hc).max()))
            for nm, obj, want in (("context operator", ctx, Hc), ("second operator", ctx2, Oc), ("operator", A, Ad), ("state", rho, rd),
                                  ("operator created inside", made.get("B"), Ad @ rd)):
                if obj is None:
                    continue
                dev = float(numpy.abs(numpy.asarray(obj._data) - want).max())
                if dev > 1e-9 * sc or obj.get_current_basis() != 0:
                    bad.append(("restore:" + nm, dev))
            if len(m.basis_stack) != 1 or m.basis_registered or m.current_basis_operator is not None or m._in_eigenbasis_of_context:
                bad.append(("bookkeeping", 0.0))
                m.basis_stack[:] = [0]; m.basis_transformations[:] = [1]; m.basis_registered.clear()
                m._in_eigenbasis_of_context = False; m.current_basis_operator = None
            # re-entry still diagonalises
            with eigenbasis_of(ctx):
                dd = numpy.array(ctx.data)
                if numpy.abs(dd - numpy.diag(numpy.diag(dd))).max() > 1e-9 * sc:
                    bad.append(("re-entry:diagonal", float(numpy.abs(dd - numpy.diag(numpy.diag(dd))).max())))
        except Exception as e:
            ck.fail("raises:complex-context", "context of a complex Hermitian operator raised %r" % (e,), inp)
            m.basis_stack[:] = [0]; m.basis_transformations[:] = [1]; m.basis_registered.clear()
            m._in_eigenbasis_of_context = False; m.current_basis_operator = None
            continue
        ck.case(("complex", Hc.tobytes(), nest, boom), nontrivial=True, kind="complex-hermitian-context", nested=nest, exception=boom, dim=n)
        for what, dev in bad:
            ck.fail("complex:%s" % what, "context of a complex Hermitian operator: %s (%.3g)" % (what, dev), inp)


def scripted_stream(ck, qr, numpy, m):
    """fixed scripts that every run contains (the random programs meet them only by chance): for every managed class an object
    created outside whose FIRST access inside a (nested) context is a whole-array write, then a read; after leaving, the raw data
    are the value written, expressed in the outermost basis"""
    from quantarhei import eigenbasis_of, ReducedDensityMatrix, Hamiltonian
    from quantarhei.qm import Operator
    from quantarhei.qm.hilbertspace.operators import SelfAdjointOperator
    rng = ck.rng
    N = 3
    def symm():
        a = numpy.array([[rng.randint(-6, 6) / 4.0 for _ in range(N)] for _ in range(N)])
        return (a + a.T) / 2.0
    for depth in (1, 2):
        for cname, ctor in (("Operator", lambda d: Operator(data=d)), ("SelfAdjointOperator", lambda d: SelfAdjointOperator(data=d)),
                            ("Hamiltonian", lambda d: Hamiltonian(data=d)), ("ReducedDensityMatrix", lambda d: ReducedDensityMatrix(data=d))):
            c1, c2 = SelfAdjointOperator(data=symm() + numpy.diag([0.0, 1.0, 2.5])), Hamiltonian(data=symm() + numpy.diag([0.0, 2.0, 3.0]))
            obj = ctor(symm())
            newv = symm()
            inp = {"script": "first access inside the context is a whole-array write", "class": cname, "nesting": depth}
            try:
                with eigenbasis_of(c1):
                    S1 = numpy.array(m.basis_transformations[-1], dtype=float)
                    book1 = (len(m.basis_stack), bool(m._in_eigenbasis_of_context), m.current_basis_operator is c1)
                    if depth == 2:
                        with eigenbasis_of(c2):
                            S2 = numpy.array(m.basis_transformations[-1], dtype=float)
                            obj.data = newv.copy()
                            back_in = numpy.array(obj.data).copy()
                        # the inner context is left, the outer one is still open: its bookkeeping is what it was before the inner one
                        book2 = (len(m.basis_stack), bool(m._in_eigenbasis_of_context), m.current_basis_operator is c1)
                        if book2 != book1 or book1 != (2, True, True):
                            ck.fail("script:bookkeeping:after-inner-exit", "after a nested context is left the bookkeeping of the enclosing context is not "
                                    "what it was (stack depth, in-context flag, current basis operator)", inp, list(book2), list(book1))
                        St = S1 @ S2
                    else:
                        obj.data = newv.copy()
                        back_in = numpy.array(obj.data).copy()
                        St = S1
                raw = numpy.asarray(obj._data)
                want = St @ newv @ St.T
                ck.case(("script", cname, depth), nontrivial=True, kind="scripted", cls=cname, nesting=depth)
                if numpy.abs(back_in - newv).max() > 1e-12:
                    ck.fail("script:read-after-write", "a value written inside a context is not read back inside it", inp, float(numpy.abs(back_in - newv).max()))
                if numpy.abs(raw - want).max() > 1e-9 * max(1.0, numpy.abs(want).max()) or obj.get_current_basis() != 0:
                    ck.fail("script:restore-after-write", "a value written inside a context (first access) is not expressed in the outermost basis after "
                            "the context was left", inp, float(numpy.abs(raw - want).max()))
            except Exception as e:
                ck.fail("raises:script", "scripted context program raised %r" % (e,), inp)
            if len(m.basis_stack) != 1 or m.basis_registered or m.current_basis_operator is not None:
                ck.fail("script:bookkeeping", "bookkeeping not restored after a scripted program", inp)
                m.basis_stack[:] = [0]; m.basis_transformations[:] = [1]; m.basis_registered.clear()
                m._in_eigenbasis_of_context = False; m.current_basis_operator = None
    # ---- a construction that the library refuses inside a context (the caller catches the refusal and goes on): the context is still
    # left cleanly, every other object comes back, the bookkeeping is restored
    from quantarhei.qm.liouvillespace.superoperator import SuperOperator
    refusals = (("Operator(non-square data)", lambda: Operator(data=numpy.zeros((2, 3)))),
                ("SelfAdjointOperator(not self-adjoint)", lambda: SelfAdjointOperator(data=numpy.array([[0.0, 1.0, 0.0], [2.0, 0.0, 0.0], [0.0, 0.0, 1.0]]))),
                ("SuperOperator(3-index data)", lambda: SuperOperator(data=numpy.zeros((3, 3, 3)))),
                ("Operator(data, wrong dim)", lambda: Operator(dim=4, data=numpy.zeros((3, 3)))),
                ("ReducedDensityMatrix(non-square data)", lambda: ReducedDensityMatrix(data=numpy.zeros((3, 2)))))
    for depth in (1, 2):
        for rname, bad_ctor in refusals:
            c1, c2 = SelfAdjointOperator(data=symm() + numpy.diag([0.0, 1.0, 2.5])), Hamiltonian(data=symm() + numpy.diag([0.0, 2.0, 3.0]))
            a0, b0 = symm(), symm()
            A, B = Operator(data=a0.copy()), ReducedDensityMatrix(data=b0.copy())
            inp = {"script": "a refused construction inside the context, caught by the caller", "refused": rname, "nesting": depth}
            refused = None
            try:
                with eigenbasis_of(c1):
                    A.data
                    if depth == 2:
                        with eigenbasis_of(c2):
                            B.data
                            try:
                                bad_ctor(); refused = False
                            except Exception:
                                refused = True
                            tr_in = float(numpy.trace(numpy.array(A.data) @ numpy.array(B.data)).real)
                    else:
                        try:
                            bad_ctor(); refused = False
                        except Exception:
                            refused = True
                        tr_in = float(numpy.trace(numpy.array(A.data) @ numpy.array(B.data)).real)
                    after_made = Operator(data=symm())
            except Exception as e:
                ck.fail("script:refused-construction:exit", "leaving the context after a refused construction raised %r" % (e,), inp)
            ck.case(("script-refused", rname, depth), nontrivial=True, kind="scripted", cls="refused:" + rname.split("(")[0], nesting=depth)
            if refused is False:
                ck.extra.setdefault("constructions_not_refused", []).append(rname)
            dva = float(numpy.abs(numpy.asarray(A._data) - a0).max()); dvb = float(numpy.abs(numpy.asarray(B._data) - b0).max())
            if dva > 1e-9 or dvb > 1e-9 or A.get_current_basis() != 0 or B.get_current_basis() != 0:
                ck.fail("script:refused-construction:restore", "objects are not back in their original representation after a context in which a "
                        "construction was refused", inp, [dva, dvb])
            if len(m.basis_stack) != 1 or m.basis_registered or m.current_basis_operator is not None:
                ck.fail("script:refused-construction:bookkeeping", "bookkeeping not restored after a context in which a construction was refused", inp,
                        [list(m.basis_stack), sorted(m.basis_registered), m.current_basis_operator is not None])
                m.basis_stack[:] = [0]; m.basis_transformations[:] = [1]; m.basis_registered.clear()
                m._in_eigenbasis_of_context = False; m.current_basis_operator = None
    def reset_book():
        m.basis_stack[:] = [0]; m.basis_transformations[:] = [1]; m.basis_registered.clear()
        m._in_eigenbasis_of_context = False; m.current_basis_operator = None

    def book_ok():
        return len(m.basis_stack) == 1 and not m.basis_registered and m.current_basis_operator is None and not m._in_eigenbasis_of_context
    # ---- the library's own pattern (protect the Hamiltonian, enter its eigenbasis) used while another context is open ---------------------
    for variant in ("normal", "exception"):
        c1 = SelfAdjointOperator(data=symm() + numpy.diag([0.0, 1.0, 2.5]))
        pd_ = symm() + numpy.diag([0.0, 2.0, 3.0]); P = Hamiltonian(data=pd_.copy())
        a0 = symm(); A = Operator(data=a0.copy())
        inp = {"script": "protect_basis(); with eigenbasis_of(other): with eigenbasis_of(protected): ...; unprotect_basis()", "exit": variant}
        ck.case(("script-protected-nested", variant), nontrivial=True, kind="scripted", cls="Hamiltonian", nesting=2)
        try:
            P.protect_basis()
            try:
                with eigenbasis_of(c1):
                    A.data
                    with eigenbasis_of(P):
                        A.data
                        if variant == "exception":
                            raise Boom()
            except Boom:
                pass
            P.unprotect_basis()
            devs = [float(numpy.abs(numpy.asarray(P._data) - pd_).max()), float(numpy.abs(numpy.asarray(A._data) - a0).max())]
            if max(devs) > 1e-9 or P.get_current_basis() != 0:
                ck.fail("script:protected-nested:restore", "a protected operator used as the operator of a nested context (or another object) is not back in its "
                        "original representation after all contexts were left", inp, devs)
            with eigenbasis_of(P):
                dd_ = numpy.array(P.data)
            if numpy.abs(dd_ - numpy.diag(numpy.linalg.eigvalsh(pd_))).max() > 1e-9:
                ck.fail("script:protected-nested:re-entry", "after the script the operator's own context no longer presents it diagonal with its eigenvalues", inp)
        except Exception as e:
            ck.fail("raises:script:protected-nested", "raised %r" % (e,), inp)
            try:
                P.unprotect_basis()
            except Exception:
                pass
        if not book_ok():
            ck.fail("script:protected-nested:bookkeeping", "bookkeeping not restored", inp); reset_book()
    # ---- ONE context object entered several times: after the operator was given new values, and inside another context --------------------
    for variant in ("data-changed", "other-enclosing-context"):
        hd = symm() + numpy.diag([0.0, 2.0, 3.0]); hd2 = symm() + numpy.diag([3.0, 0.0, 1.0])
        H1 = Hamiltonian(data=hd.copy()); c1 = SelfAdjointOperator(data=symm() + numpy.diag([0.0, 1.0, 2.5]))
        rd_ = symm(); rd_ = rd_ @ rd_.T; rho = ReducedDensityMatrix(data=rd_.copy())
        inp = {"script": "ctx = eigenbasis_of(H); with ctx: ...; (%s); with ctx: ..." % variant}
        ck.case(("script-reentered-context-object", variant), nontrivial=True, kind="scripted", cls="Hamiltonian", nesting=2)
        try:
            ctx = eigenbasis_of(H1)
            with ctx:
                H1.data; rho.data
            want_h = hd
            if variant == "data-changed":
                H1.data = hd2.copy(); want_h = hd2
                with ctx:
                    hin = numpy.array(H1.data).copy(); rin = numpy.array(rho.data).copy()
            else:
                with eigenbasis_of(c1):
                    rho.data
                    with ctx:
                        hin = numpy.array(H1.data).copy(); rin = numpy.array(rho.data).copy()
            ev, Sv = numpy.linalg.eigh(want_h)
            pops = numpy.array([Sv[:, k_] @ rd_ @ Sv[:, k_] for k_ in range(N)])
            if numpy.abs(hin - numpy.diag(ev)).max() > 1e-9 or numpy.abs(numpy.diag(rin) - pops).max() > 1e-9:
                ck.fail("script:reentered-context-object:inside", "a context object entered a second time does not present its operator diagonal with ascending "
                        "eigenvalues / the state in that basis", inp, [numpy.diag(hin).tolist(), numpy.diag(rin).tolist()], [ev.tolist(), pops.tolist()])
            if numpy.abs(numpy.asarray(H1._data) - want_h).max() > 1e-9 or numpy.abs(numpy.asarray(rho._data) - rd_).max() > 1e-9:
                ck.fail("script:reentered-context-object:restore", "objects not restored after a context object was entered a second time", inp)
        except Exception as e:
            ck.fail("raises:script:reentered-context-object", "raised %r" % (e,), inp)
        if not book_ok():
            ck.fail("script:reentered-context-object:bookkeeping", "bookkeeping not restored", inp); reset_book()
    # ---- a Hamiltonian that carries couplings split off by a cut-off (the remainder JR): strong part and remainder are presented in the same
    # basis inside a context, and couplings recovered inside the context are back where they were after it ------------------------------
    for variant in ("look", "recover-inside"):
        hd = numpy.array([[0.0, 0.0, 0.0, 0.0], [0.0, 2.0, 0.5, 0.02], [0.0, 0.5, 2.5, -0.03], [0.0, 0.02, -0.03, 3.25]])
        c1 = SelfAdjointOperator(data=numpy.array([[0.0, 0.0, 0.0, 0.0], [0.0, 1.0, 0.25, -0.5], [0.0, 0.25, 2.0, 0.75], [0.0, -0.5, 0.75, 3.5]]))
        inp = {"script": "H.remove_cutoff_coupling(0.1); with eigenbasis_of(other): H.data + H.JR%s" % ("; H.recover_cutoff_coupling()" if variant != "look" else "")}
        ck.case(("script-remainder-coupling", variant), nontrivial=True, kind="scripted", cls="Hamiltonian", nesting=1)
        try:
            Hr = Hamiltonian(data=hd.copy())
            Hr.remove_cutoff_coupling(0.1)
            with eigenbasis_of(c1):
                S = numpy.array(m.basis_transformations[-1], dtype=float)
                full_in = numpy.array(Hr.data) + numpy.array(Hr.JR)
                if variant != "look":
                    Hr.recover_cutoff_coupling()
            dv_in = float(numpy.abs(full_in - S.T @ hd @ S).max())
            if dv_in > 1e-9:
                ck.fail("script:remainder-coupling:inside", "inside a context the strong part of a Hamiltonian and the couplings split off by a cut-off are not presented "
                        "in the same basis (their sum is not the Hamiltonian in that basis)", inp, dv_in)
            full_out = numpy.array(Hr._data) + (numpy.array(Hr.JR) if variant == "look" else 0.0)
            dv_out = float(numpy.abs(full_out - hd).max())
            if dv_out > 1e-9:
                ck.fail("script:remainder-coupling:restore", "after the context the Hamiltonian (with its remainder couplings) is not back in its original representation",
                        inp, dv_out)
        except Exception as e:
            ck.fail("raises:script:remainder-coupling", "raised %r" % (e,), inp)
        if not book_ok():
            ck.fail("script:remainder-coupling:bookkeeping", "bookkeeping not restored", inp); reset_book()
    # ---- a state vector created inside a context: given in the context's basis, expressed in the original one after the context is left ------
    from quantarhei import StateVector
    for variant in ("data", "dim"):
        c1 = SelfAdjointOperator(data=symm() + numpy.diag([0.0, 1.0, 2.5]))
        inp = {"script": "StateVector(%s) created inside eigenbasis_of" % ("data=[0,1,0]" if variant == "data" else "dim=3, then data[1] = 1")}
        ck.case(("script-statevector-created-inside", variant), nontrivial=True, kind="scripted", cls="StateVector", nesting=1)
        try:
            with eigenbasis_of(c1):
                S = numpy.array(m.basis_transformations[-1], dtype=float)
                if variant == "data":
                    sv = StateVector(data=numpy.array([0.0, 1.0, 0.0]))
                else:
                    sv = StateVector(dim=N); sv.data[1] = 1.0
                vin = numpy.array(sv.data).copy()
            vout = numpy.array(sv._data)
            if numpy.abs(vin - numpy.array([0.0, 1.0, 0.0])).max() > 1e-12 or numpy.abs(vout - S[:, 1]).max() > 1e-9 or sv.get_current_basis() != 0:
                ck.fail("script:statevector-created-inside:restore", "a state vector created inside a context is not expressed in the original basis after the "
                        "context was left", inp, numpy.real(vout).tolist(), S[:, 1].tolist())
        except Exception as e:
            ck.fail("raises:script:statevector-created-inside", "raised %r" % (e,), inp)
        if not book_ok():
            ck.fail("script:statevector-created-inside:bookkeeping", "bookkeeping not restored", inp); reset_book()
    # ---- whole-number data (an initial state written as 1 and 0): presented in the context's basis, trace one, restored ----------------------
    for variant in ("list of ints", "integer array"):
        c1 = SelfAdjointOperator(data=symm() + numpy.diag([0.0, 1.0, 2.5]))
        ri = [[1, 0, 0], [0, 0, 0], [0, 0, 0]]
        inp = {"script": "ReducedDensityMatrix(data=%s of 1 and 0) inside eigenbasis_of" % variant}
        ck.case(("script-integer-state", variant), nontrivial=True, kind="scripted", cls="ReducedDensityMatrix", nesting=1)
        try:
            rho = ReducedDensityMatrix(data=ri if variant == "list of ints" else numpy.array(ri, dtype=int))
            with eigenbasis_of(c1):
                rin = numpy.array(rho.data, dtype=complex).copy()
                S = numpy.array(m.basis_transformations[-1], dtype=float)
            want_in = S.T @ numpy.array(ri, dtype=float) @ S
            if numpy.abs(rin - want_in).max() > 1e-9 or abs(numpy.trace(rin) - 1.0) > 1e-9:
                ck.fail("script:integer-state:inside", "a state given as whole numbers is not presented in the context's basis (trace %.3g inside)" % abs(numpy.trace(rin)),
                        inp, numpy.real(rin).tolist(), want_in.tolist())
            if numpy.abs(numpy.asarray(rho._data, dtype=complex) - numpy.array(ri)).max() > 1e-9:
                ck.fail("script:integer-state:restore", "a state given as whole numbers is not restored after the context", inp, numpy.real(numpy.asarray(rho._data)).tolist(), ri)
        except Exception as e:
            ck.fail("raises:script:integer-state", "raised %r" % (e,), inp)
        if not book_ok():
            ck.fail("script:integer-state:bookkeeping", "bookkeeping not restored", inp); reset_book()
    # ---- a basis context entered while energy units other than the internal ones are active: still the eigenbasis of the operator ------
    from quantarhei import energy_units
    for uctx in ("1/cm", "eV", "nm", "THz"):
        hd = symm() + numpy.diag([0.0, 6.0, 9.0]) + 4.0 * numpy.eye(N)          # positive spectrum (wavelengths are defined)
        with energy_units("int"):
            hq = Hamiltonian(data=hd.copy())
        a0 = symm(); A = Operator(data=a0.copy())
        inp = {"script": "eigenbasis_of(Hamiltonian) entered inside energy_units", "units": uctx}
        ck.case(("script-units", uctx), nontrivial=True, kind="scripted", cls="Hamiltonian", nesting=1)
        try:
            with energy_units(uctx):
                with eigenbasis_of(hq):
                    hq.data                                   # (presentation in the context's basis happens on access)
                    hin = numpy.array(hq._data).copy()
                    ain = numpy.array(A.data).copy()
                    S = numpy.array(m.basis_transformations[-1], dtype=float)
            ev = numpy.linalg.eigvalsh(hd)
            off = float(numpy.abs(hin - numpy.diag(numpy.diag(hin))).max())
            if off > 1e-9 or numpy.abs(numpy.diag(hin) - ev).max() > 1e-9 or numpy.abs(ain - S.T @ a0 @ S).max() > 1e-9:
                ck.fail("script:units-context:diagonal", "inside eigenbasis_of(H) entered under energy_units(%r) the Hamiltonian is not diagonal with ascending "
                        "eigenvalues / another object is not presented in that basis" % uctx, inp, [off, numpy.diag(hin).tolist()], ev.tolist())
            if numpy.abs(numpy.asarray(hq._data) - hd).max() > 1e-9 or numpy.abs(numpy.asarray(A._data) - a0).max() > 1e-9:
                ck.fail("script:units-context:restore", "objects not restored after a basis context entered under energy_units(%r)" % uctx, inp)
        except Exception as e:
            ck.fail("raises:script:units-context", "raised %r" % (e,), inp)
        if len(m.basis_stack) != 1 or m.basis_registered or m.current_basis_operator is not None:
            ck.fail("script:units-context:bookkeeping", "bookkeeping not restored", inp)
            m.basis_stack[:] = [0]; m.basis_transformations[:] = [1]; m.basis_registered.clear()
            m._in_eigenbasis_of_context = False; m.current_basis_operator = None
    # ---- objects HANDED OUT by a managed object inside a context (a time slice of an evolution, a Cartesian component of the dipole
    # operator) and kept until the context is left: they are objects created inside, and come back in the original representation --------
    from quantarhei import TimeAxis
    from quantarhei.qm import ReducedDensityMatrixPropagator
    from quantarhei.qm.hilbertspace.dmoment import TransitionDipoleMoment
    for depth in (1, 2):
        c1, c2 = Hamiltonian(data=symm() + numpy.diag([0.0, 1.0, 2.5])), SelfAdjointOperator(data=symm() + numpy.diag([0.0, 2.0, 3.0]))
        rd0 = numpy.diag([0.2, 0.5, 0.3]).astype(complex); rd0[0, 1] = rd0[1, 0] = 0.1
        ev = ReducedDensityMatrixPropagator(TimeAxis(0.0, 5, 1.0), Hamiltonian(data=symm() + numpy.diag([0.0, 1.5, 2.0]))).propagate(ReducedDensityMatrix(data=rd0.copy()))
        ev0 = numpy.array(ev.data).copy()
        dd = numpy.zeros((N, N, 3))
        for k_ in range(3):
            a_ = symm(); dd[:, :, k_] = a_
        D = TransitionDipoleMoment(data=dd.copy())
        inp = {"script": "objects handed out inside a context and kept", "nesting": depth}
        ck.case(("script-handed-out", depth), nontrivial=True, kind="scripted", cls="handed-out", nesting=depth)
        try:
            with eigenbasis_of(c1):
                if depth == 2:
                    with eigenbasis_of(c2):
                        snap = ev.at(2.0); comp = D.get_component(1)
                        St = numpy.array(m.basis_transformations[1], dtype=float) @ numpy.array(m.basis_transformations[2], dtype=float)
                        s_in, c_in = numpy.array(snap.data).copy(), numpy.array(comp.data).copy()
                else:
                    snap = ev.at(2.0); comp = D.get_component(1)
                    St = numpy.array(m.basis_transformations[1], dtype=float)
                    s_in, c_in = numpy.array(snap.data).copy(), numpy.array(comp.data).copy()
            if numpy.abs(s_in - St.T @ ev0[2] @ St).max() > 1e-9 or numpy.abs(c_in - St.T @ dd[:, :, 1] @ St).max() > 1e-9:
                ck.fail("script:handed-out:inside", "a time slice / dipole component handed out inside a context is not presented in the context's basis", inp)
            for nm_, ob_, want_ in (("evolution.at(t)", snap, ev0[2]), ("TransitionDipoleMoment.get_component(k)", comp, dd[:, :, 1])):
                dv_ = float(numpy.abs(numpy.array(ob_.data) - want_).max())
                if dv_ > 1e-9:
                    ck.fail("script:handed-out:restore", "%s obtained inside a context is not in the original representation after the context was left" % nm_,
                            dict(inp, object=nm_), dv_)
            if numpy.abs(numpy.array(ev.data) - ev0).max() > 1e-9 or numpy.abs(numpy.array(D.data) - dd).max() > 1e-9:
                ck.fail("script:handed-out:parent", "the evolution / dipole operator itself is not restored after handing out a slice inside a context", inp)
        except Exception as e:
            ck.fail("raises:script:handed-out", "raised %r" % (e,), inp)
        if len(m.basis_stack) != 1 or m.basis_registered or m.current_basis_operator is not None:
            ck.fail("script:handed-out:bookkeeping", "bookkeeping not restored", inp)
            m.basis_stack[:] = [0]; m.basis_transformations[:] = [1]; m.basis_registered.clear()
            m._in_eigenbasis_of_context = False; m.current_basis_operator = None
    # ---- a relaxation tensor whose construction is refused inside a context (cut-off time beyond the bath axis), caught by the caller ----
    from quantarhei import Molecule, Aggregate, CorrelationFunction
    from quantarhei.qm import RedfieldRelaxationTensor
    from quantarhei.qm.liouvillespace.tdredfieldtensor import TDRedfieldRelaxationTensor
    tab_ = TimeAxis(0.0, 40, 1.0)
    with energy_units("1/cm"):
        msb = [Molecule([0.0, 12000.0]), Molecule([0.0, 12200.0])]
        for ml_ in msb:
            ml_.set_transition_environment((0, 1), CorrelationFunction(tab_, dict(ftype="OverdampedBrownian", reorg=20.0, cortime=50.0, T=300, matsubara=20)))
        aggb = Aggregate(msb); aggb.set_resonance_coupling(0, 1, 80.0)
    aggb.build()
    hamb, sbib = aggb.get_Hamiltonian(), aggb.get_SystemBathInteraction()
    for tname, tcls in (("RedfieldRelaxationTensor", RedfieldRelaxationTensor), ("TDRedfieldRelaxationTensor", TDRedfieldRelaxationTensor)):
        for ops_ in (False, True):
            a0 = symm(); A = Operator(data=a0.copy())
            inp = {"script": "a relaxation tensor refused inside the context (cut-off time beyond the axis), caught by the caller", "class": tname, "as_operators": ops_}
            ck.case(("script-refused-tensor", tname, ops_), nontrivial=True, kind="scripted", cls="refused:" + tname, nesting=1)
            refused = None
            try:
                with eigenbasis_of(hamb):
                    A.data
                    try:
                        tcls(hamb, sbib, cutoff_time=500.0, as_operators=ops_); refused = False
                    except Exception:
                        refused = True
            except Exception as e:
                ck.fail("script:refused-construction:exit", "leaving the context after a refused tensor construction raised %r" % (e,), inp)
            if refused is False:
                ck.extra.setdefault("constructions_not_refused", []).append(tname)
            if numpy.abs(numpy.asarray(A._data) - a0).max() > 1e-9 or A.get_current_basis() != 0:
                ck.fail("script:refused-construction:restore", "an operator is not back in its original representation after a context in which a tensor "
                        "construction was refused", inp, float(numpy.abs(numpy.asarray(A._data) - a0).max()))
            if len(m.basis_stack) != 1 or m.basis_registered or m.current_basis_operator is not None:
                ck.fail("script:refused-construction:bookkeeping", "bookkeeping not restored after a context in which a tensor construction was refused", inp,
                        [list(m.basis_stack), sorted(m.basis_registered), m.current_basis_operator is not None])
                m.basis_stack[:] = [0]; m.basis_transformations[:] = [1]; m.basis_registered.clear()
                m._in_eigenbasis_of_context = False; m.current_basis_operator = None

