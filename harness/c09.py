"""C09 - bath correlation functions add linearly and carry consistent parameters."""
import ast
from fractions import Fraction
from qvh.core import *
from qvh import extract as X

DRIVER = "C09"
PROPS = "QV.Props.C09"
CF_FILE = "quantarhei/qm/corfunctions/correlationfunctions.py"
SD_FILE = "quantarhei/qm/corfunctions/spectraldensities.py"


# ---------------------------------------------------------------------------------------------------
# source -> model switches
# ---------------------------------------------------------------------------------------------------
def _cls(tree, name):
    for n in tree.body:
        if isinstance(n, ast.ClassDef) and n.name == name:
            return n
    raise X.ExtractError("class %s not found" % name)


def _method(cls, name):
    for n in cls.body:
        if isinstance(n, ast.FunctionDef) and n.name == name:
            return n
    raise X.ExtractError("method %s.%s not found" % (cls.name, name))


def _chain(first_if):
    """[(ftype string, maker name, first argument name)] of an if/elif chain `ftype == "..."`"""
    out, node, var = [], first_if, None
    while isinstance(node, ast.If):
        t = node.test
        if not (isinstance(t, ast.Compare) and len(t.ops) == 1 and isinstance(t.ops[0], ast.Eq)
                and isinstance(t.left, ast.Name) and isinstance(t.comparators[0], ast.Constant)):
            raise X.ExtractError("dispatch test is not `name == \"literal\"`")
        var = var or t.left.id
        if t.left.id != var:
            raise X.ExtractError("dispatch chain tests different variables")
        calls = [s.value for s in node.body if isinstance(s, ast.Expr) and isinstance(s.value, ast.Call)]
        if len(calls) != 1 or len(node.body) != 1:
            raise X.ExtractError("dispatch branch for %r is not a single maker call" % t.comparators[0].value)
        c = calls[0]
        if not (isinstance(c.func, ast.Attribute) and isinstance(c.func.value, ast.Name) and c.func.value.id == "self"
                and c.args and isinstance(c.args[0], ast.Name)):
            raise X.ExtractError("maker call has an unexpected shape")
        out.append((t.comparators[0].value, c.func.attr, c.args[0].id))
        node = node.orelse[0] if len(node.orelse) == 1 and isinstance(node.orelse[0], ast.If) else None
    return var, out


def _dispatch(init, klass):
    """find the maker dispatch loop of the constructor; returns [(ftype, maker, own?)]"""
    for loop in ast.walk(init):
        if not isinstance(loop, ast.For):
            continue
        ifs = [s for s in loop.body if isinstance(s, ast.If) and isinstance(s.test, ast.Compare)
               and isinstance(s.test.left, ast.Name) and s.test.left.id == "ftype"]
        if not ifs:
            continue
        var, chain = _chain(ifs[-1])
        # names bound per iteration: the loop target and names assigned in the loop body before the chain
        pos = loop.body.index(ifs[-1])
        assigned = {}
        for s in loop.body[:pos]:
            for n in ast.walk(s):
                if isinstance(n, ast.Assign):
                    for t in n.targets:
                        if isinstance(t, ast.Name):
                            assigned[t.id] = n.value
        tgt = loop.target.id if isinstance(loop.target, ast.Name) else None
        # the dispatch variable must be read from this iteration's dictionary
        fresh = False
        v = assigned.get(var)
        if isinstance(v, ast.Subscript) and isinstance(v.value, ast.Name) and isinstance(v.slice, ast.Constant) \
                and v.slice.value == "ftype" and (v.value.id == tgt or v.value.id in assigned):
            fresh = True
        # the converted dictionary of this iteration: CorrelationFunction loops over self.params (converted);
        # SpectralDensity builds `prms` in the loop body
        it = loop.iter
        over_converted = isinstance(it, ast.Attribute) and it.attr == "params"
        own_name = tgt if over_converted else ("prms" if "prms" in assigned else None)
        return [(ft, mk, bool(fresh and own_name is not None and arg == own_name)) for ft, mk, arg in chain]
    raise X.ExtractError("no maker dispatch loop in %s.__init__" % klass)


def _maker_acc(cls, maker):
    f = _method(cls, maker)
    add = make = 0
    lamb_aug = lamb_set = 0
    for n in ast.walk(f):
        if isinstance(n, ast.Call) and isinstance(n.func, ast.Attribute) and isinstance(n.func.value, ast.Name) and n.func.value.id == "self":
            if n.func.attr == "_add_me":
                add += 1
            elif n.func.attr == "_make_me":
                make += 1
        tgt = None
        if isinstance(n, ast.AugAssign):
            tgt = n.target
            if isinstance(tgt, ast.Attribute) and tgt.attr == "lamb":
                if isinstance(n.op, ast.Add):
                    lamb_aug += 1
                else:
                    lamb_set += 1
            if isinstance(tgt, ast.Attribute) and tgt.attr == "data":
                make += 1
        if isinstance(n, ast.Assign):
            for t in n.targets:
                if isinstance(t, ast.Attribute) and t.attr == "lamb":
                    lamb_set += 1
                if isinstance(t, ast.Attribute) and t.attr == "data":
                    make += 1
    return (add >= 1 and make == 0), (lamb_aug == 1 and lamb_set == 0)


def _in_int_context(func, klass):
    """every constructor call `klass(...)` in `func` sits inside `with energy_units("int")`"""
    found = []

    def walk(node, inside):
        if isinstance(node, ast.With):
            ok = any(isinstance(i.context_expr, ast.Call) and isinstance(i.context_expr.func, ast.Name)
                     and i.context_expr.func.id == "energy_units" and i.context_expr.args
                     and isinstance(i.context_expr.args[0], ast.Constant) and i.context_expr.args[0].value == "int"
                     for i in node.items)
            for s in node.body:
                walk(s, inside or ok)
            return
        if isinstance(node, ast.Call) and isinstance(node.func, ast.Name) and node.func.id == klass:
            found.append(inside)
        for ch in ast.iter_child_nodes(node):
            walk(ch, inside)
    walk(func, False)
    if not found:
        raise X.ExtractError("no %s(...) call in %s" % (klass, func.name))
    return all(found)


def _check_first(func, cls=None, depth=0):
    """the temperature refusal precedes every modification of self"""
    raise_line, mod_line = None, None
    for n in ast.walk(func):
        if isinstance(n, ast.If) and "temperature" in ast.dump(n.test) and any(isinstance(s, ast.Raise) for s in n.body):
            raise_line = n.lineno
        if isinstance(n, ast.AugAssign) and isinstance(n.target, ast.Attribute) and isinstance(n.target.value, ast.Name) \
                and n.target.value.id == "self":
            mod_line = n.lineno if mod_line is None else min(mod_line, n.lineno)
        if isinstance(n, ast.Call) and isinstance(n.func, ast.Attribute) and n.func.attr == "append":
            mod_line = n.lineno if mod_line is None else min(mod_line, n.lineno)
    if raise_line is None:
        # the refusal may live in another method of the class that this one hands the operand to (e.g. add_to_data2 ->
        # add_to_data): then that method's answer counts, provided nothing of self is modified before the hand-over
        if cls is not None and depth < 2:
            for n in ast.walk(func):
                if isinstance(n, ast.Call) and isinstance(n.func, ast.Attribute) and isinstance(n.func.value, ast.Name) \
                        and n.func.value.id == "self" and n.func.attr != func.name:
                    try:
                        callee = _method(cls, n.func.attr)
                    except Exception:
                        continue
                    sub = _check_first(callee, cls, depth + 1)
                    if sub is not None:
                        return bool(sub) and (mod_line is None or n.lineno < mod_line)
        return None
    return mod_line is None or raise_line < mod_line


def extract(ck):
    try:
        B = lambda b: "true" if b else "false"
        L, S = X.lean_list, X.lean_str
        cft = ast.parse(X.read_source(REPO, CF_FILE))
        sdt = ast.parse(X.read_source(REPO, SD_FILE))
        cf, sd = _cls(cft, "CorrelationFunction"), _cls(sdt, "SpectralDensity")
        out = {}
        for tag, cls, klass in (("cf", cf, "CorrelationFunction"), ("sd", sd, "SpectralDensity")):
            disp = _dispatch(_method(cls, "__init__"), klass)
            acc = [_maker_acc(cls, mk) if ft != "Value-defined" else (True, True) for ft, mk, _ in disp]
            out[tag] = dict(kinds=[d[0] for d in disp], own=[d[2] or d[0] == "Value-defined" for d in disp],
                            accData=[a[0] for a in acc], accLamb=[a[1] for a in acc],
                            rebuildInt=all(_in_int_context(_method(cls, m), klass) for m in ("__add__", "add_to_data2", "copy")))
        cf1, cf2 = _check_first(_method(cf, "add_to_data"), cf), _check_first(_method(cf, "add_to_data2"), cf)
        out["cf"]["checkTemp"] = cf1 is not None and cf2 is not None
        out["cf"]["checkFirst"] = bool(cf1) and bool(cf2)
        body = "namespace QV.Gen.C09\n"
        body += "def cfKinds : List String := %s\n" % L(out["cf"]["kinds"], S)
        for k in ("own", "accData", "accLamb"):
            body += "def cf%s : List Bool := %s\n" % (k[0].upper() + k[1:], L(out["cf"][k], B))
        body += "def cfCheckTemp : Bool := %s\ndef cfCheckFirst : Bool := %s\ndef cfRebuildInt : Bool := %s\n" % (
            B(out["cf"]["checkTemp"]), B(out["cf"]["checkFirst"]), B(out["cf"]["rebuildInt"]))
        body += "def sdKinds : List String := %s\n" % L(out["sd"]["kinds"], S)
        for k in ("own", "accData", "accLamb"):
            body += "def sd%s : List Bool := %s\n" % (k[0].upper() + k[1:], L(out["sd"][k], B))
        body += "def sdRebuildInt : Bool := %s\nend QV.Gen.C09\n" % B(out["sd"]["rebuildInt"])
    except (X.ExtractError, Exception) as e:
        return ck.tie_fallback("C09", "extraction of the constructor dispatch / maker / addition switches failed: %r" % e)
    ck.gen("C09", body, facts=out)
    return out


# ---------------------------------------------------------------------------------------------------
KINDS = {
    "OverdampedBrownian-HighTemperature": lambda r, rng, T: dict(ftype="OverdampedBrownian-HighTemperature", reorg=r, T=T,
                                                               cortime=rng.choice([40.0, 50.0, 100.0])),
    "OverdampedBrownian": lambda r, rng, T: dict(ftype="OverdampedBrownian", reorg=r, T=T, cortime=rng.choice([30.0, 60.0, 120.0]),
                                                matsubara=rng.choice([10, 20])),
    "UnderdampedBrownian": lambda r, rng, T: dict(ftype="UnderdampedBrownian", reorg=r, T=T, freq=rng.choice([150.0, 300.0, 520.0]),
                                                 gamma=rng.choice([15.0, 30.0, 60.0])),
    "Underdamped": lambda r, rng, T: dict(ftype="Underdamped", reorg=r, T=T, freq=rng.choice([150.0, 300.0, 520.0]),
                                         gamma=rng.choice([15.0, 30.0, 60.0])),
    "B777": lambda r, rng, T: dict(ftype="B777", reorg=r, T=T, gamma=30.0, alternative_form=rng.random() < 0.5),
    "CP29": lambda r, rng, T: dict(ftype="CP29", reorg=r, T=T, gamma=30.0),
}
UNITS = ["1/cm", "int", "eV", "THz"]
ENERGY_KEYS = ("reorg", "freq", "gamma")      # `gamma` is listed in energy_params: it is given in energy units


def run(ck):
    import numpy
    qr = import_quantarhei()
    from quantarhei import TimeAxis, CorrelationFunction, SpectralDensity, energy_units, convert
    from quantarhei.qm.corfunctions.correlationfunctions import EvenFTCorrelationFunction, OddFTCorrelationFunction
    rng = ck.rng
    ck.rule = ("random programs (6-14 statements: single and list constructions in 1/cm, internal units, eV or THz; x+y in both groupings, "
               "x+=y, x+=x, copy(); inside and outside energy_units('1/cm'); components of all six parameterised types at 300 K with a "
               "77 K or 150 K component mixed in; value-defined functions as right operands) on CorrelationFunction and SpectralDensity: "
               "after every statement the outcome (ok / refused), the component list, temperature and cutoff are compared exactly with the "
               "Lean model and the data and reorganisation energy with the sum over the model's bag of components (1e-12 relative); "
               "oracles on the implementation alone: (x+y).data = x.data + y.data, lamb likewise, get_reorganization_energy in three unit "
               "contexts, list constructor = sum of singles, refusal iff temperatures differ and the operands unchanged, unit-independent "
               "construction; analytic clauses: measured vs declared reorganisation energy for the two analytic types on axes >= 10 "
               "correlation times (1e-3, the code's tolerance), even/odd Fourier parts symmetric/antisymmetric to 1e-12; non-trivial = "
               "program with >= 2 component types and a rebuild of a composite (left operand, x+=x or copy)")
    ck.trusted += ["harness/c09.py + AST extractor of the dispatch loop, the makers' update operators, the order of refusal and modification, "
                   "and the units context of the rebuilds (named switches only; the numerical formulas of the makers are not modelled: the "
                   "model is generic in the generator of a component's data)",
                   "hand model QV/Model/C09.lean validated on generated programs",
                   "that the spline quadrature of measure_reorganization_energy reproduces the integral of the closed form is measured, "
                   "not proved (reorg_closed_form / reorg_window are about the closed form)"]
    tabs = extract(ck)
    ck.prove(PROPS, extra_modules=["QV.Drive.C09"], also=["QV.Props.C09Analytic"])
    if tabs is None:
        tabs = {"cf": {"kinds": list(KINDS) + ["Value-defined"]}, "sd": {"kinds": list(KINDS)[1:] + ["Value-defined"]}}
    ta = TimeAxis(0.0, ck.n(150, 400), 5.0)
    with energy_units("int"):
        fa = ta.get_FrequencyAxis()

    def conv_params(p, units, to):
        q = dict(p)
        for k in ENERGY_KEYS:
            if k in q:
                q[k] = float(convert(q[k], units, to))
        return q

    def leaf_params(kind, T, units):
        r = rng.choice([10.0, 20.0, 35.0, 64.0])
        p = KINDS[kind](r, rng, T)
        return conv_params(p, "1/cm", units) if units != "1/cm" else p

    classes = (("cf", CorrelationFunction), ("sd", SpectralDensity))
    lines, plans = [], []          # model lines / per-line expectation records
    nprog = ck.n(40, 300)

    def short(e):
        m = str(e)
        if "temperature" in m.lower():
            return "err-temp"
        if "without values" in m:
            return "err-valued"
        return "err-other:%s:%s" % (type(e).__name__, m[:80])

    def relerr(a, b):
        a, b = numpy.asarray(a), numpy.asarray(b)
        s = max(numpy.abs(b).max(), 1e-300)
        return float(numpy.abs(a - b).max() / s)

    # a component list that keeps growing inside a library call must end as a reported failure, not as a killed check: the address space
    # of this process is capped while the histories run (restored afterwards; the Lean drivers run later, uncapped)
    import resource
    _soft, _hard = resource.getrlimit(resource.RLIMIT_AS)
    try:
        resource.setrlimit(resource.RLIMIT_AS, (12 * 2 ** 30, _hard))
    except Exception:
        pass

    class Runaway(Exception):
        pass
    runaway = False
    for ip in range(nprog):
        if runaway:
            break
        tag, cls = classes[ip % 2]
        kinds = [k for k in tabs[tag]["kinds"] if k in KINDS]
        lines.append("reset %s" % tag)
        plans.append(None)
        store, leaves = [], {}       # impl objects; id -> dict(data, lamb, T, cut)
        Tmain = 300.0
        types_used, rebuilt_composite = set(), False
        prog_desc = []

        def new_leaf(kind, T, units):
            p = leaf_params(kind, T, units)
            i = len(leaves)
            p["qvid"] = i
            with energy_units(units):
                single = cls(ta, dict(p))
            # unit-independent construction: the same physical parameters given in internal units
            with energy_units("int"):
                single_int = cls(ta, conv_params(p, units, "int"))
            if relerr(single_int.data, single.data) > 1e-9 or abs(single_int.lamb - single.lamb) > 1e-12 * abs(single.lamb):
                ck.fail("units:construction:%s:%s" % (tag, kind), "the same component constructed in %s and in internal units differs" % units,
                        {"class": tag, "params": {k: v for k, v in p.items() if k != "qvid"}, "units": units},
                        [relerr(single_int.data, single.data), single_int.lamb], single.lamb)
            leaves[i] = dict(data=numpy.array(single.data).copy(), lamb=float(single.lamb), T=float(T), kind=kind,
                             cut=float(getattr(single, "cutoff_time", 0.0)), params=p, units=units)
            types_used.add(kind)
            return i, p

        def comp_line(i):
            lf = leaves[i]
            return "%d %d %s %s %d" % (i, tabs[tag]["kinds"].index(lf["kind"]), frac(lf["T"]), frac(lf["cut"]), 1 if lf["kind"] == "Value-defined" else 0)

        def snapshot(o):
            if len(o.params) > 50000:
                raise Runaway(len(o.params))
            return dict(data=numpy.array(o.data).copy(), lamb=float(o.lamb), ids=[p.get("qvid") for p in o.params],
                        T=float(getattr(o, "temperature", -1.0)), cut=float(getattr(o, "cutoff_time", 0.0)))

        nst = rng.randint(6, 14)
        for ist in range(nst):
            ops = ["new"] if len(store) < 2 else rng.choice([["new"], ["add"], ["add"], ["add"], ["iadd"], ["iadd"], ["copy"], ["newlist"], ["newv"]])
            op = ops[0]
            ctx = rng.random() < 0.4
            T = Tmain if rng.random() < 0.85 else rng.choice([77.0, 150.0])
            rec = dict(tag=tag, prog=ip, st=ist, op=op, ctx=ctx)
            nl = len(lines)
            try:
                if op in ("new", "newlist"):
                    units = rng.choice(UNITS)
                    n = 1 if op == "new" else rng.randint(2, 3)
                    ids, ps = [], []
                    for _ in range(n):
                        Tc = T if (tag == "sd" or rng.random() < 0.9) else rng.choice([77.0, 300.0])
                        i, p = new_leaf(rng.choice(kinds), Tc, units)
                        ids.append(i); ps.append(p)
                    lines.append("new " + " ; ".join(comp_line(i) for i in ids))
                    rec.update(ids=ids, units=units)
                    with energy_units(units):
                        obj = cls(ta, dict(ps[0]) if n == 1 else [dict(p) for p in ps])
                    store.append(obj)
                    rec.update(status="ok", idx=len(store) - 1, expect_sum=ids)
                elif op == "newv":
                    if tag == "sd":
                        lines.append("copy 0 0")
                        rec.update(op="copy", a=0, ctx=False)
                        pre = snapshot(store[0])
                        store.append(store[0].copy())
                        rec.update(status="ok", idx=len(store) - 1, same_as=pre)
                    else:
                        i = len(leaves)
                        vals = (rng.random() + 0.5) * 1e-4 * numpy.exp(-ta.data / 80.0) * (1.0 - 0.3j)
                        p = dict(ftype="Value-defined", reorg=12.0, T=T, qvid=i)
                        with energy_units("1/cm"):
                            obj = CorrelationFunction(ta, dict(p), values=vals.copy())
                        leaves[i] = dict(data=vals.copy(), lamb=float(obj.lamb), T=float(T), kind="Value-defined", cut=float(obj.cutoff_time), params=p, units="1/cm")
                        lines.append("newv " + comp_line(i))
                        store.append(obj)
                        rec.update(status="ok", idx=len(store) - 1, expect_sum=[i])
                elif op == "add":
                    a, b = rng.randrange(len(store)), rng.randrange(len(store))
                    lines.append("add %d %d %d" % (a, b, 1 if ctx else 0))
                    rec.update(a=a, b=b)
                    pa, pb = snapshot(store[a]), snapshot(store[b])
                    rec.update(pre_a=pa, pre_b=pb)
                    if len(pa["ids"]) > 1:
                        rebuilt_composite = True
                    if ctx:
                        with energy_units("1/cm"):
                            r = store[a] + store[b]
                    else:
                        r = store[a] + store[b]
                    store.append(r)
                    rec.update(status="ok", idx=len(store) - 1)
                elif op == "iadd":
                    a, b = rng.randrange(len(store)), rng.randrange(len(store))
                    if rng.random() < 0.3:
                        b = a
                    lines.append("iadd %d %d %d" % (a, b, 1 if ctx else 0))
                    rec.update(a=a, b=b, idx=a)
                    pa, pb = snapshot(store[a]), snapshot(store[b])
                    rec.update(pre_a=pa, pre_b=pb)
                    if a == b and len(pa["ids"]) > 1:
                        rebuilt_composite = True
                    x = store[a]
                    if ctx:
                        with energy_units("1/cm"):
                            x += store[b]
                    else:
                        x += store[b]
                    store[a] = x
                    rec.update(status="ok")
                elif op == "copy":
                    a = rng.randrange(len(store))
                    lines.append("copy %d %d" % (a, 1 if ctx else 0))
                    rec.update(a=a)
                    pre = snapshot(store[a])
                    if len(pre["ids"]) > 1:
                        rebuilt_composite = True
                    if ctx:
                        with energy_units("1/cm"):
                            r = store[a].copy()
                    else:
                        r = store[a].copy()
                    store.append(r)
                    rec.update(status="ok", idx=len(store) - 1, same_as=pre)
            except (Runaway, MemoryError) as e:
                runaway = True
            except Exception as e:
                rec.update(status=short(e))
            if not runaway and "idx" in rec and rec["idx"] < len(store):
                try:
                    runaway = len(store[rec["idx"]].params) > 50000
                except Exception:
                    pass
            if runaway:
                nbig = max([len(getattr(o_, "params", [])) for o_ in store] + [0])
                del lines[nl:]
                store[:] = []
                ck.fail("components:runaway", "the component list of a function grew without bound (%d entries) in a history of sums: sums no longer carry the "
                        "components of their operands" % nbig, {"class": tag, "program": prog_desc + ["%s%s" % (rec["op"], tuple(rec.get(k) for k in ("a", "b") if k in rec))]})
                lines.append("noop")
                plans.append(None)
                break
            if len(lines) == nl:
                # the statement failed before it was put on the wire (construction of a single component raised)
                lines.append("noop")
                rec["noline"] = True
            if "idx" in rec and rec["idx"] < len(store) and (rec["status"] == "ok" or rec["op"] == "iadd"):
                rec["post"] = snapshot(store[rec["idx"]])
            rec["n"] = len(store)
            rec["leaves"] = leaves
            ck.dist["op=%s" % rec["op"]] += 1
            ck.dist["outcome=%s" % rec["status"][:10]] += 1
            ck.traces += 1
            plans.append(rec)
            prog_desc.append("%s%s" % (rec["op"], tuple(rec.get(k) for k in ("a", "b") if k in rec)))
        ck.case((tag, ip, tuple(prog_desc)), nontrivial=(len(types_used) >= 2 and rebuilt_composite), cls=tag, statements=nst,
                types=len(types_used), rebuilt_composite=rebuilt_composite,
                sample={"class": tag, "program": prog_desc} if ip < 2 else None)

    try:
        resource.setrlimit(resource.RLIMIT_AS, (_soft, _hard))
    except Exception:
        pass
    # ---- functions DERIVED from another one at an explicitly requested temperature take part in sums like any other ----------
    for idv in range(ck.n(6, 30)):
        kind = [k for k in KINDS if k != "OverdampedBrownian-HighTemperature"][idv % 5]
        Tst, Treq = ((300.0, 77.0), (77.0, 300.0), (150.0, 300.0))[idv % 3]
        p = KINDS[kind](rng.choice([10.0, 20.0, 35.0]), rng, Tst)
        inp = {"derived_from": "SpectralDensity", "params": dict(p), "temperature_requested": Treq}
        ck.case(("derived", idv, kind, Tst, Treq), nontrivial=True, cls="derived", types=1)
        try:
            with energy_units("1/cm"):
                sd = SpectralDensity(ta, dict(p))
                ref_req = CorrelationFunction(ta, dict(p, T=Treq))
                ref_st = CorrelationFunction(ta, dict(p, T=Tst))
            der = sd.get_CorrelationFunction(temperature=Treq)
            d_der = numpy.array(der.data).copy()
        except Exception as e:
            ck.fail("raises:derived", "SpectralDensity.get_CorrelationFunction(temperature=) raised %r" % (e,), inp)
            continue
        # which temperature the derived function describes is decided by its data, not by its label
        at_req = relerr(d_der, ref_req.data) < 1e-9
        at_st = relerr(d_der, ref_st.data) < 1e-9
        inp["data_are_those_of"] = "requested" if at_req else ("stored" if at_st else "neither")
        for other, same, nm in ((ref_req, at_req, "requested"), (ref_st, at_st, "stored")):
            try:
                sm = der + other
                status = "ok"
            except Exception as e:
                status = short(e)
            if same and status != "ok":
                ck.fail("refused:derived", "a correlation function derived at %g K and one constructed at the same temperature (equal data) "
                        "cannot be added: %s" % (Treq if nm == "requested" else Tst, status), dict(inp, other=nm))
            elif same:
                if relerr(sm.data, d_der + numpy.array(other.data)) > 1e-10 or abs(sm.lamb - der.lamb - other.lamb) > 1e-10 * abs(sm.lamb):
                    ck.fail("data:derived:add", "sum with a derived function: data / reorganisation energy are not the sums", dict(inp, other=nm))
            elif status == "ok" and (at_req or at_st):
                ck.fail("temperature:not-refused:derived", "a function whose data are those of %g K was added to one at %g K" %
                        ((Treq, Tst) if at_req else (Tst, Treq)), dict(inp, other=nm))

    # ---- component lists: a component at another temperature is refused wherever it stands and whatever its correlation time ----
    for tag, cls in classes[:1]:       # correlation functions (a spectral density does not depend on the temperature)
        for order in (0, 1):
            for shorter in (False, True):
                kind = "OverdampedBrownian"
                pa = KINDS[kind](20.0, rng, 300.0); pb = KINDS[kind](35.0, rng, 77.0)
                pa["cortime"], pb["cortime"] = (100.0, 50.0) if shorter else (50.0, 100.0)
                lst = [dict(pa), dict(pb)] if order == 0 else [dict(pb), dict(pa)]
                inp = {"class": tag, "components": lst}
                ck.case(("list-refusal", tag, order, shorter), nontrivial=True, cls=tag, types=1)
                try:
                    with energy_units("1/cm"):
                        cls(ta, lst)
                    ck.fail("temperature:not-refused:list:%s" % tag, "a component list naming two temperatures was accepted", inp, [c["T"] for c in lst])
                except Exception as e:
                    if short(e) != "err-temp":
                        ck.fail("refused:list:other:%s" % tag, "component list refused for another reason: %s" % short(e), inp)
    # ---- the same for lists of three and four components (the odd temperature first, in the middle, last), analytically defined and with the
    # values handed over (`values=`) ---------------------------------------------------------------------------------------------------
    for tag, cls in classes[:1]:
        for Ts in ((77.0, 300.0, 300.0), (300.0, 77.0, 300.0), (300.0, 300.0, 77.0), (300.0, 77.0, 77.0, 300.0)):
            for with_values in (False, True):
                lst = []
                for Tc in Ts:
                    pc = KINDS["OverdampedBrownian"](10.0 + 5.0 * len(lst), rng, Tc); pc["cortime"] = 60.0 + 20.0 * len(lst)
                    lst.append(pc)
                inp = {"class": tag, "components": lst, "values_handed_over": with_values}
                ck.case(("list-refusal", tag, Ts, with_values), nontrivial=True, cls=tag, types=1)
                try:
                    with energy_units("1/cm"):
                        if with_values:
                            vals_ = numpy.array(cls(ta, dict(lst[-1])).data).copy()
                            cls(ta, [dict(c) for c in lst], values=vals_)
                        else:
                            cls(ta, [dict(c) for c in lst])
                    ck.fail("temperature:not-refused:list:%s" % tag, "a component list naming two temperatures was accepted", inp, [c["T"] for c in lst])
                except Exception as e:
                    if short(e) != "err-temp":
                        ck.fail("refused:list:other:%s" % tag, "component list refused for another reason: %s" % short(e), inp)
    # ---- temperatures that differ in the sixth digit are different temperatures: refused through every route -------------------------
    for tag, cls in classes[:1]:
        pa_ = KINDS["OverdampedBrownian"](20.0, rng, 300.0); pb_ = KINDS["OverdampedBrownian"](35.0, rng, 300.002)
        for route in ("list", "+", "+=", "add_to_data"):
            inp = {"class": tag, "temperatures": [300.0, 300.002], "route": route}
            ck.case(("close-temperatures", tag, route), nontrivial=True, cls=tag, types=1)
            try:
                with energy_units("1/cm"):
                    if route == "list":
                        cls(ta, [dict(pa_), dict(pb_)])
                    else:
                        fa_, fb_ = cls(ta, dict(pa_)), cls(ta, dict(pb_))
                        if route == "+":
                            fa_ + fb_
                        elif route == "+=":
                            fa_ += fb_
                        else:
                            fa_.add_to_data(fb_)
                ck.fail("temperature:not-refused:close:%s" % route, "components at 300 K and 300.002 K were added (%s)" % route, inp, [300.0, 300.002])
            except Exception as e:
                if short(e) != "err-temp":
                    ck.fail("refused:close-temperatures:other:%s" % route, "refused for another reason: %s" % short(e), inp)
    # ---- components that differ only in the number of Matsubara terms (same correlation time): the composite still is the sum ------------
    for tag, cls in classes[:1]:
        try:
            comps_ = [dict(ftype="OverdampedBrownian", reorg=20.0, cortime=100.0, T=77.0, matsubara=2),
                      dict(ftype="OverdampedBrownian", reorg=30.0, cortime=100.0, T=77.0, matsubara=60),
                      dict(ftype="OverdampedBrownian", reorg=10.0, cortime=60.0, T=77.0, matsubara=20)]
            with energy_units("1/cm"):
                singles_ = [cls(ta, dict(c_)) for c_ in comps_]
                want_ = sum(numpy.array(f_.data) for f_ in singles_)
                variants_ = {"list constructor": cls(ta, [dict(c_) for c_ in comps_]),
                             "(a+b)+c": (singles_[0] + singles_[1]) + singles_[2], "a+(b+c)": singles_[0] + (singles_[1] + singles_[2]),
                             "copy of (a+b)+c": ((singles_[0] + singles_[1]) + singles_[2]).copy()}
            for nm_, f_ in variants_.items():
                dv_ = relerr(f_.data, want_)
                ck.case(("matsubara-counts", tag, nm_), nontrivial=True, cls=tag, types=1)
                if dv_ > 1e-12:
                    ck.fail("data:matsubara-counts:%s" % tag, "a composite of components with equal correlation time and different numbers of Matsubara terms (%s) "
                            "is not the sum of its components" % nm_, {"components": comps_, "built_as": nm_}, dv_)
        except Exception as e:
            ck.fail("raises:matsubara-counts", "raised %r" % (e,), {})
    # ---- one parameter dictionary reused (and changed) by the script between constructions, in every unit incl. internal ones -------
    for tag, cls in classes:
        for units in ("int", "1/cm", "eV"):
            kind = [k for k in tabs[tag]["kinds"] if k in KINDS][(len(tag) + len(units)) % 3]
            base_p = conv_params(KINDS[kind](16.0, rng, 300.0), "1/cm", units or "int")
            inp = {"class": tag, "units": units or "no context", "kind": kind}
            ck.case(("shared-dict", tag, units), nontrivial=True, cls=tag, types=1)
            try:
                def mk_(pp):
                    if units is None:
                        return cls(ta, pp)
                    with energy_units(units):
                        return cls(ta, pp)
                shared = dict(base_p)
                a_ = mk_(shared); da, la = numpy.array(a_.data).copy(), float(a_.lamb)
                shared["reorg"] = shared["reorg"] * 2.5
                b_ = mk_(shared); db, lb = numpy.array(b_.data).copy(), float(b_.lamb)
                shared["reorg"] = shared["reorg"] * 0.1
                c_ = mk_(shared); dc, lc = numpy.array(c_.data).copy(), float(c_.lamb)
                s1 = (a_ + b_) + c_
                s2 = a_ + (b_ + c_)
                cp = a_.copy(); cp += b_
                for nm_, ob_, dw, lw in (("(a+b)+c", s1, da + db + dc, la + lb + lc), ("a+(b+c)", s2, da + db + dc, la + lb + lc), ("copy(a)+=b", cp, da + db, la + lb)):
                    if relerr(ob_.data, dw) > 1e-10 or abs(ob_.lamb - lw) > 1e-10 * abs(lw):
                        ck.fail("data:shared-dict:%s" % tag, "functions built one after another from ONE parameter dictionary that the script changed in "
                                "between: %s is not the sum of the functions as they were built" % nm_, dict(inp, expression=nm_),
                                [relerr(ob_.data, dw), float(ob_.lamb)], lw)
            except Exception as e:
                ck.fail("raises:shared-dict:%s" % tag, "raised %r" % (e,), inp)

    # ---- model -----------------------------------------------------------------------------------
    out = ck.drive(DRIVER, lines)
    if out is not None and len(out) != len(lines):
        ck.tie_fail("model driver returned %d lines for %d" % (len(out), len(lines)))
        out = None

    def parse(line):
        ts = line.split()
        d = {"status": ts[0]}
        for t in ts[1:]:
            k, _, v = t.partition("=")
            d[k] = v
        return d

    def ids_of(s):
        return [int(x) for x in s.split(",")] if s else []

    for k, rec in enumerate(plans):
        if rec is None:
            continue
        inp = {"class": rec["tag"], "program": rec["prog"], "statement": rec["st"], "op": rec["op"], "operands": [rec.get("a"), rec.get("b")],
               "inside_units_context": rec["ctx"], "model_line": lines[k]}
        lv = rec["leaves"]
        post = rec.get("post")
        status = rec["status"]
        if status.startswith("err-other"):
            ck.fail("raises:%s:%s" % (rec["tag"], rec["op"]), "statement raised an unexpected exception: %s" % status, inp)
        # ---- oracle on the implementation alone ---------------------------------------------------
        tol = 1e-12
        if rec["op"] in ("add", "iadd") and "pre_a" in rec:
            pa, pb = rec["pre_a"], rec["pre_b"]
            differ = rec["tag"] == "cf" and pa["T"] != pb["T"]
            valued_left = rec["op"] == "add" and any(lv[i]["kind"] == "Value-defined" for i in pa["ids"])
            valued_left = valued_left or (rec["op"] == "iadd" and rec["a"] == rec["b"] and any(lv[i]["kind"] == "Value-defined" for i in pa["ids"]))
            if differ and status == "ok":
                ck.fail("temperature:not-refused:%s" % rec["op"], "components at different temperatures were added", inp, [pa["T"], pb["T"]])
            elif not differ and not valued_left and status != "ok":
                ck.fail("refused:%s:%s" % (rec["tag"], rec["op"]), "addition of functions on the same axis and temperature was refused: %s" % status, inp)
            if status == "ok" and post is not None:
                ed = relerr(post["data"], pa["data"] + pb["data"])
                el = abs(post["lamb"] - (pa["lamb"] + pb["lamb"])) / abs(pa["lamb"] + pb["lamb"])
                ck.resid("sum data", ed); ck.resid("sum lamb", el)
                kinds = sorted({lv[i]["kind"] for i in pa["ids"] + pb["ids"]})
                key = "%s:%s:%s" % (rec["tag"], rec["op"] if rec.get("a") != rec.get("b") or rec["op"] == "add" else "iadd-self",
                                    "ctx" if rec["ctx"] else "noctx")
                if ed > tol:
                    ck.fail("data:" + key, "data of the sum is not the sum of the data", dict(inp, kinds=kinds), ed, "<= 1e-12")
                if el > tol:
                    ck.fail("lamb:" + key, "reorganisation energy of the sum is not the sum of the reorganisation energies",
                            dict(inp, kinds=kinds), [post["lamb"], pa["lamb"] + pb["lamb"]])
                if post["ids"] != pa["ids"] + pb["ids"]:
                    ck.fail("params:" + key, "component list of the sum is not the concatenation", inp, post["ids"], pa["ids"] + pb["ids"])
            if status != "ok" and rec["op"] == "iadd" and post is not None:
                if relerr(post["data"], pa["data"]) > 0 or post["lamb"] != pa["lamb"] or post["ids"] != pa["ids"]:
                    ck.fail("refusal:left-operand-modified", "a refused in-place addition modified the left operand", inp,
                            [relerr(post["data"], pa["data"]), post["lamb"], post["ids"]], [0.0, pa["lamb"], pa["ids"]])
        if "expect_sum" in rec and status == "ok" and post is not None:
            want = sum(lv[i]["data"] for i in rec["expect_sum"])
            wl = sum(lv[i]["lamb"] for i in rec["expect_sum"])
            ed, el = relerr(post["data"], want), abs(post["lamb"] - wl) / abs(wl)
            if ed > 1e-9 or el > tol:
                ck.fail("list:%s" % rec["tag"], "function constructed from a component list is not the sum of its components",
                        dict(inp, kinds=[lv[i]["kind"] for i in rec["expect_sum"]]), [ed, el])
        if "expect_sum" in rec and status != "ok" and rec["tag"] == "cf":
            temps = {lv[i]["T"] for i in rec["ids"]} if "ids" in rec else set()
            if len(temps) <= 1:
                ck.fail("refused:list:%s" % rec["tag"], "construction from a component list was refused: %s" % status, inp)
        if "same_as" in rec and status == "ok" and post is not None:
            pre = rec["same_as"]
            if relerr(post["data"], pre["data"]) > tol or abs(post["lamb"] - pre["lamb"]) > tol * abs(pre["lamb"]) or post["ids"] != pre["ids"]:
                ck.fail("copy:%s:%s" % (rec["tag"], "ctx" if rec["ctx"] else "noctx"), "copy() differs from the original", inp,
                        [relerr(post["data"], pre["data"]), post["lamb"]], [0.0, pre["lamb"]])
        # ---- correspondence with the model ---------------------------------------------------------
        if out is None or rec.get("noline"):
            continue
        m = parse(out[k])
        if m["status"] != (status if not status.startswith("err-other") else "?"):
            ck.disagree("outcome", inp, status, out[k])
            continue
        if int(m.get("n", -1)) != rec["n"]:
            ck.disagree("store size", inp, rec["n"], m.get("n"))
        if post is not None and "params" in m:
            mp = [x // 8 for x in ids_of(m["params"])]
            if mp != post["ids"]:
                ck.disagree("component list", inp, post["ids"], mp)
                continue
            bag = ids_of(m["data"]); lbag = ids_of(m["lamb"])
            if all(x % 8 == 0 for x in bag + lbag):
                want = sum(lv[x // 8]["data"] for x in bag)
                wl = sum(lv[x // 8]["lamb"] for x in lbag)
                ed, el = relerr(post["data"], want), abs(post["lamb"] - wl) / abs(wl)
                ck.resid("model bag data", ed); ck.resid("model bag lamb", el)
                if ed > 1e-9:
                    ck.disagree("data vs sum over the model's bag", inp, ed, m["data"])
                if el > 1e-12:
                    ck.disagree("lamb vs sum over the model's bag", inp, [post["lamb"], wl], m["lamb"])
            if rec["tag"] == "cf":
                if m["temp"] != frac(post["T"]):
                    ck.disagree("temperature", inp, post["T"], m["temp"])
                if m["cut"] != frac(post["cut"]):
                    ck.disagree("cutoff time", inp, post["cut"], m["cut"])

    # ---- declared reorganisation energy in unit contexts, on composites -------------------------------
    for tag, cls in classes:
        kinds = [k for k in tabs[tag]["kinds"] if k in KINDS]
        for _ in range(ck.n(6, 40)):
            ks = [rng.choice(kinds) for _ in range(rng.randint(2, 4))]
            units = rng.choice(UNITS)
            ps = [leaf_params(k, 300.0, units) for k in ks]
            try:
                with energy_units(units):
                    objs = [cls(ta, dict(p)) for p in ps]
                s = objs[0]
                for o in objs[1:]:
                    s = s + o
            except Exception as ex:
                ck.fail("raises:%s:sum" % tag, "construction or addition raised %r" % (ex,), {"class": tag, "kinds": ks, "units": units})
                continue
            for u in ("1/cm", "int", "eV"):
                with energy_units(u):
                    got = s.get_reorganization_energy()
                    want = sum(o.get_reorganization_energy() for o in objs)
                    want_in = sum(float(convert(p["reorg"], units, u)) for p in ps)
                ck.case(("reorg", tag, tuple(ks), units, u), nontrivial=len(set(ks)) > 1, cls=tag)
                if abs(got - want) > 1e-12 * abs(want) or abs(got - want_in) > 1e-9 * abs(want_in):
                    ck.fail("declared-reorg:%s" % tag, "get_reorganization_energy of a sum is not the sum of the declared ones",
                            {"class": tag, "kinds": ks, "units": units, "read_in": u}, got, [want, want_in])

    # ---- analytic clauses ---------------------------------------------------------------------------
    tl_all = [TimeAxis(0.0, ck.n(3000, 6000), 1.0), TimeAxis(0.0, ck.n(6000, 12000), 0.5), TimeAxis(0.0, ck.n(1500, 3000), 2.0)]
    for kind in ("OverdampedBrownian-HighTemperature", "OverdampedBrownian"):
        for im_ in range(ck.n(4, 30)):
            tl = tl_all[im_ % 3]             # the recovered value is an integral over time: axes of different step
            tau = rng.choice([30.0, 60.0, 100.0, 150.0])
            lam = rng.choice([5.0, 20.0, 80.0, 300.0])
            T = rng.choice([77.0, 150.0, 300.0])
            p = dict(ftype=kind, reorg=lam, cortime=tau, T=T)
            if kind == "OverdampedBrownian":
                p["matsubara"] = 50
            try:
                with energy_units("1/cm"):
                    f = CorrelationFunction(tl, p)
                    decl, meas = f.get_reorganization_energy(), f.measure_reorganization_energy()
                    cons = f.reorganization_energy_consistent()
            except Exception as ex:
                ck.fail("raises:measure:%s" % kind, "raised %r" % (ex,), {"params": p})
                continue
            ck.case(("measure", kind, tau, lam, T, tl.step), cls="cf")
            ck.resid("measured vs declared reorganisation energy", abs(meas - decl) / decl)
            if abs(meas - decl) > 1e-3 * decl or abs(decl - lam) > 1e-12 * lam or not cons:
                ck.fail("measure:%s" % kind, "reorganisation energy recovered from the data differs from the declared one",
                        {"params": p, "axis": [tl.length, tl.step]}, [meas, decl, cons], lam)
            # a history on one object: measured, then a second analytic component is added in place (each of the three ways), measured again
            try:
                lam2 = rng.choice([10.0, 45.0, 120.0])
                p2 = dict(p, reorg=lam2, cortime=rng.choice([40.0, 90.0]))
                for how in ("add_to_data", "+=", "+"):
                    with energy_units("1/cm"):
                        f1 = CorrelationFunction(tl, dict(p)); g1 = CorrelationFunction(tl, dict(p2))
                        f1.measure_reorganization_energy()
                        if how == "add_to_data":
                            f1.add_to_data(g1)
                        elif how == "+=":
                            f1 += g1
                        else:
                            f1 = f1 + g1
                        decl2, meas2 = f1.get_reorganization_energy(), f1.measure_reorganization_energy()
                        cons2 = f1.reorganization_energy_consistent()
                    ck.case(("measure-after-add", kind, how, tau, lam, lam2), cls="cf")
                    if abs(decl2 - (lam + lam2)) > 1e-9 * (lam + lam2) or abs(meas2 - decl2) > 1e-3 * decl2 or not cons2:
                        ck.fail("measure:after:%s:%s" % (how, kind), "after an in-place addition (%s) of a second analytic function the reorganisation energy "
                                "recovered from the data differs from the declared one" % how, {"params": [p, p2], "how": how},
                                [meas2, decl2, cons2], lam + lam2)
            except Exception as ex:
                ck.fail("raises:measure:after-add:%s" % kind, "raised %r" % (ex,), {"params": p})
    tf = TimeAxis(0.0, ck.n(400, 1000), 2.0)
    for kind in [k for k in tabs["cf"]["kinds"] if k in KINDS]:
        for trial in range(ck.n(2, 8)):
            n = 1 if trial % 2 == 0 else 2
            ps = [KINDS[kind if j == 0 else rng.choice([k for k in tabs["cf"]["kinds"] if k in KINDS])](rng.choice([10.0, 40.0]), rng, 300.0) for j in range(n)]
            arg = ps[0] if n == 1 else ps
            try:
                with energy_units("1/cm"):
                    e = EvenFTCorrelationFunction(tf, arg)
                    o = OddFTCorrelationFunction(tf, arg)
            except Exception as ex:
                ck.fail("raises:fourier-parts:%s" % kind, "Even/OddFTCorrelationFunction raised %r" % (ex,), {"params": ps})
                continue
            N = tf.length
            ck.case(("parity", kind, trial), nontrivial=True, cls="ft")
            ed = numpy.abs(e.data[N + 1:] - e.data[1:N][::-1]).max() / numpy.abs(e.data).max()
            od = numpy.abs(o.data[N + 1:] + o.data[1:N][::-1]).max() / numpy.abs(o.data).max()
            ck.resid("even part asymmetry", ed); ck.resid("odd part asymmetry", od)
            if abs(e.axis.data[N]) > 1e-9 * e.axis.step or abs(e.axis.data[N + 3] + e.axis.data[N - 3]) > 1e-9 * e.axis.step:
                ck.fail("parity:axis", "frequency axis of the Fourier parts is not symmetric about index N", {"params": ps})
            if ed > 1e-12:
                ck.fail("parity:even:%s" % kind, "even Fourier part is not even in frequency", {"params": ps}, float(ed))
            if od > 1e-12 or abs(o.data[N]) > 1e-12 * numpy.abs(o.data).max():
                ck.fail("parity:odd:%s" % kind, "odd Fourier part is not odd in frequency", {"params": ps}, float(od))
    return ck.finish()
