import QV.Props.C05
import Mathlib.Algebra.BigOperators.Field
import Mathlib.Tactic.NormNum

/-!
# C05 — accessors that combine several stored energies

State energies (`ElectronicState.energy`, `VibronicState.energy`: site energies plus vibrational quanta)
and transition energies (`Aggregate.get_transition`: a difference of two state energies) are combinations
of stored internal values.  The exact conversion of the combination is `toCurrent (Σ e_k)`; converting the
contributions one by one and combining the converted values is the same thing for every ordinary unit
(`toCurrent_sum_ordinary`, `toCurrent_sub_ordinary`) and is NOT for a reciprocal unit
(`sum_of_wavelengths_witness`, `difference_of_wavelengths_witness`) - the defect repaired in
`ElectronicState.energy` and the change seeded into `get_transition`.
-/
namespace QV.C05
open QV.Gen.C05 Finset

section
variable {K : Type} [Field K] (fac : String → K)

/-- ordinary units are linear: the conversion of a sum is the sum of the conversions -/
theorem toCurrent_add_ordinary (u : String) (a b : K) (hu : u ∉ reciprocalUnits) :
    toCurrent fac u (a + b) = toCurrent fac u a + toCurrent fac u b := by
  simp only [toCurrent, hu, if_false]; ring

theorem toCurrent_sub_ordinary (u : String) (a b : K) (hu : u ∉ reciprocalUnits) :
    toCurrent fac u (a - b) = toCurrent fac u a - toCurrent fac u b := by
  simp only [toCurrent, hu, if_false]; ring

/-- a state energy (any number of contributions, with multiplicities `n k` for vibrational quanta): for an
ordinary unit the contribution-by-contribution sum the code used to form IS the exact conversion -/
theorem toCurrent_sum_ordinary {ι : Type} (s : Finset ι) (n : ι → K) (e : ι → K) (u : String)
    (hu : u ∉ reciprocalUnits) :
    toCurrent fac u (∑ k ∈ s, n k * e k) = ∑ k ∈ s, n k * toCurrent fac u (e k) := by
  simp only [toCurrent, hu, if_false, Finset.sum_div]
  apply Finset.sum_congr rfl; intro k _; ring

/-- what is read back is the exact conversion of the stored total: supplied contribution by contribution
under `u`, the total read under `u'` (both ordinary) is the total of the supplied values times the ratio of
the factors -/
theorem state_energy_exact {ι : Type} (s : Finset ι) (x : ι → K) (u u' : String)
    (hu : u ∉ reciprocalUnits) (hu' : u' ∉ reciprocalUnits) :
    toCurrent fac u' (∑ k ∈ s, toInternal fac u (x k)) = (∑ k ∈ s, x k) * fac u / fac u' := by
  simp only [toCurrent, toInternal, hu, hu', if_false, Finset.sum_mul]
end

/-- a reciprocal unit is not linear: two equal energies, wavelength of the sum ≠ sum of the wavelengths -/
theorem sum_of_wavelengths_witness :
    "nm" ∈ reciprocalUnits ∧
    toCurrent (K := ℚ) (fun _ => 1) "nm" (1 + 1) ≠ toCurrent (fun _ => 1) "nm" 1 + toCurrent (fun _ => 1) "nm" 1 := by
  refine ⟨by decide, ?_⟩
  have h : "nm" ∈ reciprocalUnits := by decide
  simp only [toCurrent, h, if_true]
  norm_num

/-- nor is the wavelength of a transition the difference of the wavelengths of its two levels -/
theorem difference_of_wavelengths_witness :
    toCurrent (K := ℚ) (fun _ => 1) "nm" (3 - 1) ≠ toCurrent (fun _ => 1) "nm" 3 - toCurrent (fun _ => 1) "nm" 1 := by
  have h : "nm" ∈ reciprocalUnits := by decide
  simp only [toCurrent, h, if_true]
  norm_num

end QV.C05
