import QV.Core.Tab
/-!
Model of the line-width / dephasing-rate blocks that `AggregateBase.diagonalize` builds for a purely
electronic aggregate with two-exciton states (quantarhei/builders/aggregate_base.py, "CASE OF NO
VIBRATIONAL MODES") and of `get_transition_width` / `get_transition_dephasing`, at the level of the
*squared* widths / the rates (the code stores square roots in some blocks; `numpy.sqrt` followed by
`**2` is the identity up to rounding and is not modelled).

* `N1`  : number of states of the ground + one-exciton block (`N1b`), index 0 is the ground state
* `M`   : number of two-exciton states
* `S1`, `S2` : the two diagonal blocks of the eigenvector matrix `SS`
* `w`   : site-basis value (`Wd[n,n]**2` resp. `Dr[n,n]**2`) of every state of the first block
* `tw`  : `twoex_indx`: the two singly excited states a two-exciton state is made of
-/
namespace QV.C12W
open QV

section
variable {α : Type} [Add α] [Mul α] [Zero α] [One α]

def kd {n : Nat} (i j : Fin n) : α := if i = j then 1 else 0
def sq (x : α) : α := x * x

/-- cross block `Wd[aa_2x, alpha]**2` -/
def cross {N1 M : Nat} (S1 : Fin N1 → Fin N1 → α) (S2 : Fin M → Fin M → α) (w : Fin N1 → α)
    (tw : Fin M → Fin N1 × Fin N1) (A : Fin M) (a : Fin N1) : α :=
  sumFin M fun K => sumFin N1 fun k =>
    (w (tw K).1 * kd (tw K).1 k + w (tw K).2 * kd (tw K).2 k) * sq (S2 K A) * sq (S1 k a)

/-- `kappa[n, A] = Σ_K (δ_{n,k_K} + δ_{n,l_K}) |⟨A|K⟩|²` -/
def kappa {N1 M : Nat} (S2 : Fin M → Fin M → α) (tw : Fin M → Fin N1 × Fin N1) (n : Fin N1) (A : Fin M) : α :=
  sumFin M fun K => (kd n (tw K).1 + kd n (tw K).2) * sq (S2 K A)

/-- two-exciton diagonal block `Wd[A,A]**2` -/
def twoDiag {N1 M : Nat} (S2 : Fin M → Fin M → α) (w : Fin N1 → α) (tw : Fin M → Fin N1 × Fin N1) (A : Fin M) : α :=
  sumFin M fun K => sq (S2 K A) * (w (tw K).1 * kappa S2 tw (tw K).1 A + w (tw K).2 * kappa S2 tw (tw K).2 A)

/-- one-exciton diagonal block `Wd[a,a]**2 = Σ_n w_n |S[n,a]|⁴` -/
def oneDiag {N1 : Nat} (S1 : Fin N1 → Fin N1 → α) (w : Fin N1 → α) (a : Fin N1) : α :=
  sumFin N1 fun n => w n * sq (sq (S1 n a))
end

section
variable {α : Type} [Add α] [Mul α] [Zero α] [One α] [Sub α]

/-- `get_transition_width((A, a))` / `get_transition_dephasing((A, a))` for a one- to two-exciton
transition: `g_ee + g_ff − 2 Re g_fe` -/
def transWidth {N1 M : Nat} (S1 : Fin N1 → Fin N1 → α) (S2 : Fin M → Fin M → α) (w : Fin N1 → α)
    (tw : Fin M → Fin N1 × Fin N1) (a : Fin N1) (A : Fin M) : α :=
  oneDiag S1 w a + twoDiag S2 w tw A - (cross S1 S2 w tw A a + cross S1 S2 w tw A a)
end

end QV.C12W
