/-!
Hand model of the parallel-region bookkeeping of `DistributedConfiguration`
(quantarhei/core/parallel.py: `start_parallel_region`, `finish_parallel_region`) and of the rule
"work is shared only at `parallel_level == 1`".  Import-free.
-/
namespace QV.C20

structure RState where
  level : Int        -- `parallel_level`
  region : Int       -- `parallel_region`
  deriving DecidableEq, Repr

inductive ROp where
  | start
  | finish
  deriving DecidableEq, Repr

/-- `active` = `have_mpi and size > 1` -/
def rstep (active : Bool) (s : RState) : ROp → RState
  | .start => { level := if active then s.level + 1 else s.level, region := s.region + 1 }
  | .finish => { level := if active then s.level - 1 else s.level, region := s.region - 1 }

def rrun (active : Bool) (s : RState) (ops : List ROp) : RState := ops.foldl (rstep active) s

/-- the helpers share the work iff the level is exactly one -/
def distributes (s : RState) : Bool := s.level == 1

/-- programs of properly nested regions -/
inductive Nested : List ROp → Prop where
  | nil : Nested []
  | block (body rest : List ROp) : Nested body → Nested rest → Nested (ROp.start :: body ++ ROp.finish :: rest)

end QV.C20
