import QV.Model.C01
import QV.Lemmas.Bridge
import Mathlib.Algebra.Star.Basic
import Mathlib.Algebra.Star.BigOperators
import Mathlib.Algebra.BigOperators.Ring.Finset
import Mathlib.Algebra.Field.Basic
import Mathlib.Tactic.Ring
import Mathlib.Tactic.FieldSimp

/-!
# C01 — relaxation generators preserve trace and Hermiticity
Theorems about the transcriptions in `QV.Model.C01`, for every dimension `n`,
every number of bath components and arbitrary operator entries.  The secular
keep/zero predicates are re-extracted from source on every run.
-/
namespace QV.C01
open QV QV.Gen.C01 Finset

variable {n : Nat}

/-- `sum_a R[a,a,c,d] = 0`: the tensor maps every operator to a traceless operator -/
def TraceFree {α : Type} [AddCommMonoid α] (R : Tens α n) : Prop := ∀ c d, ∑ a, R a a c d = 0
/-- `conj R[a,b,c,d] = R[b,a,d,c]`: the tensor commutes with Hermitian conjugation -/
def HermPres {α : Type} [Star α] (R : Tens α n) : Prop := ∀ a b c d, star (R a b c d) = R b a d c

section ring
variable {α : Type} [CommRing α]

theorem traceFree_add (R S : Tens α n) (hR : TraceFree R) (hS : TraceFree S) :
    TraceFree (fun a b c d => R a b c d + S a b c d) := by
  intro c d; simp [Finset.sum_add_distrib, hR c d, hS c d]

/-- **one bath component of `_loopit` is trace free for ANY operators `K, Kd, L, Ld`** -/
theorem loopTerm_trace (K Kd L Ld : Mat α n) : TraceFree (loopTerm K Kd L Ld) := by
  intro c d
  simp only [loopTerm, matMul, sumFin_eq_sum, Finset.sum_sub_distrib, Finset.sum_add_distrib,
    Finset.sum_ite_eq', Finset.mem_univ, if_true]
  have h1 : ∑ x, K x c * Ld d x = ∑ x, Ld d x * K x c := Finset.sum_congr rfl fun _ _ => by ring
  have h2 : ∑ x, L x c * Kd d x = ∑ x, Kd d x * L x c := Finset.sum_congr rfl fun _ _ => by ring
  rw [h1, h2]; ring

/-- **the assembled time-independent Redfield / Lindblad tensor is trace free** for every list of components -/
theorem redfieldTensor_trace (comps : List (Mat α n × Mat α n × Mat α n)) :
    TraceFree (redfieldTensor comps) := by
  unfold redfieldTensor
  suffices h : ∀ (R0 : Tens α n), TraceFree R0 → TraceFree (comps.foldl (fun R (c : Mat α n × Mat α n × Mat α n) =>
      fun a b cc d => R a b cc d + loopTerm c.1 (fun i j => c.1 j i) c.2.1 c.2.2 a b cc d) R0) from
    h _ (by intro c d; simp)
  induction comps with
  | nil => intro R0 h; exact h
  | cons c cs ih => intro R0 h; exact ih _ (traceFree_add _ _ h (loopTerm_trace _ _ _ _))

/-- the time-dependent element formula is trace free for ANY operators as well -/
theorem tdTerm_trace (K L Ld : Mat α n) : TraceFree (tdTerm K L Ld) := by
  intro c d
  simp only [tdTerm, matMul, sumFin_eq_sum, Finset.sum_sub_distrib, Finset.sum_add_distrib,
    Finset.sum_ite_eq', Finset.mem_univ, if_true]
  have h1 : ∑ x, K x c * Ld d x = ∑ x, Ld d x * K x c := Finset.sum_congr rfl fun _ _ => by ring
  have h2 : ∑ x, L x c * K d x = ∑ x, K d x * L x c := Finset.sum_congr rfl fun _ _ => by ring
  rw [h1, h2]; ring

theorem tdTensor_trace (comps : List (Mat α n × Mat α n × Mat α n)) : TraceFree (tdTensor comps) := by
  unfold tdTensor
  suffices h : ∀ (R0 : Tens α n), TraceFree R0 → TraceFree (comps.foldl (fun R (c : Mat α n × Mat α n × Mat α n) =>
      fun a b cc d => R a b cc d + tdTerm c.1 c.2.1 c.2.2 a b cc d) R0) from
    h _ (by intro c d; simp)
  induction comps with
  | nil => intro R0 h; exact h
  | cons c cs ih => intro R0 h; exact ih _ (traceFree_add _ _ h (tdTerm_trace _ _ _))

/-- the Foerster part of the combined tensor keeps a trace-free tensor trace free, whatever the rates -/
theorem addFoersterRates_trace [Div α] [OfNat α 2] (KF : Mat α n) (R : Tens α n) (hR : TraceFree R) :
    TraceFree (addFoersterRates KF R) := by
  intro c d
  unfold addFoersterRates
  by_cases hcd : c = d
  · subst hcd
    have e : ∀ a, (let R1 := if a = a ∧ c = c then R a a c c + KF a c else R a a c c
        if a = a ∧ a = c ∧ c = c then R1 - sumFin n (fun x => KF x a) else R1)
        = R a a c c + KF a c - (if a = c then ∑ x, KF x c else 0) := by
      intro a
      by_cases h : a = c
      · subst h; simp [sumFin_eq_sum]
      · simp [h]
    rw [Finset.sum_congr rfl (fun a _ => e a)]
    simp [Finset.sum_sub_distrib, Finset.sum_add_distrib, hR c c]
  · have e : ∀ a, (let R1 := if a = a ∧ c = d then R a a c d + KF a c else R a a c d
        if a = a ∧ a = c ∧ c = d then R1 - sumFin n (fun x => KF x a) else R1) = R a a c d := by
      intro a; simp [hcd]
    rw [Finset.sum_congr rfl (fun a _ => e a)]
    exact hR c d
end ring

section star
variable {α : Type} [CommRing α] [StarRing α]

theorem hermPres_add (R S : Tens α n) (hR : HermPres R) (hS : HermPres S) :
    HermPres (fun a b c d => R a b c d + S a b c d) := by
  intro a b c d; simp [hR a b c d, hS a b c d]

/-- **Hermiticity of one component**: `K` real, `Kd = Kᵀ`, `Ld = L†` -/
theorem loopTerm_herm (K L : Mat α n) (hK : ∀ i j, star (K i j) = K i j) :
    HermPres (loopTerm K (fun i j => K j i) L (fun i j => star (L j i))) := by
  intro a b c d
  simp only [loopTerm, matMul, sumFin_eq_sum, star_sub, star_add, star_mul', star_star, hK]
  have e1 : star (if b = d then ∑ x, K x a * L x c else 0) = if b = d then ∑ x, star (L x c) * K x a else 0 := by
    split_ifs
    · rw [star_sum]; exact Finset.sum_congr rfl fun x _ => by rw [star_mul', hK]; ring
    · simp
  have e2 : star (if a = c then ∑ x, star (L x d) * K x b else 0) = if a = c then ∑ x, K x b * L x d else 0 := by
    split_ifs
    · rw [star_sum]; exact Finset.sum_congr rfl fun x _ => by rw [star_mul', star_star, hK]; ring
    · simp
  rw [e1, e2]
  have c1 : (b = d) = (d = b) := propext eq_comm
  have c2 : (a = c) = (c = a) := propext eq_comm
  simp only [c1, c2]
  ring

theorem redfieldTensor_herm (comps : List (Mat α n × Mat α n × Mat α n))
    (h : ∀ c ∈ comps, (∀ i j, star (c.1 i j) = c.1 i j) ∧ c.2.2 = fun i j => star (c.2.1 j i)) :
    HermPres (redfieldTensor comps) := by
  unfold redfieldTensor
  suffices hs : ∀ (R0 : Tens α n), HermPres R0 → HermPres (comps.foldl (fun R (c : Mat α n × Mat α n × Mat α n) =>
      fun a b cc d => R a b cc d + loopTerm c.1 (fun i j => c.1 j i) c.2.1 c.2.2 a b cc d) R0) from
    hs _ (by intro a b c d; simp)
  induction comps with
  | nil => intro R0 h0; exact h0
  | cons c cs ih =>
    intro R0 h0
    have hc := h c (by simp)
    apply ih (fun c' hc' => h c' (by simp [hc']))
    apply hermPres_add _ _ h0
    rw [hc.2]
    exact loopTerm_herm c.1 c.2.1 hc.1

/-- the time-dependent formula needs in addition a *symmetric* `K`
(true for `K = S⁻¹ P S` with real orthogonal `S` and symmetric `P`) -/
theorem tdTerm_herm (K L : Mat α n) (hK : ∀ i j, star (K i j) = K i j) (hs : ∀ i j, K i j = K j i) :
    HermPres (tdTerm K L (fun i j => star (L j i))) := by
  have : tdTerm K L (fun i j => star (L j i)) = loopTerm K (fun i j => K j i) L (fun i j => star (L j i)) := by
    funext a b c d
    simp only [tdTerm, loopTerm, matMul]
    rw [hs d b]
    congr 2
    · congr 1
      apply congrArg
      funext x
      rw [hs a x]
  rw [this]
  exact loopTerm_herm K L hK

/-! ## secularisation (extracted masks) -/

/-- population-transfer elements `R[a,a,b,b]` and coherence-decay elements `R[a,b,a,b]` are kept -/
theorem secular_keeps (R : Tens α n) (a b : Fin n) :
    secularLegacy R a a b b = R a a b b ∧ secularLegacy R a b a b = R a b a b ∧
    secularTD R a a b b = R a a b b ∧ secularTD R a b a b = R a b a b := by
  simp [secularLegacy, secularTD, zeroedLegacy, zeroedTD]

/-- every other element is set to zero -/
theorem secular_zero_elsewhere (R : Tens α n) (a b c d : Fin n)
    (h : ¬ ((a = b ∧ c = d) ∨ (a = c ∧ b = d))) :
    secularLegacy R a b c d = 0 ∧ secularTD R a b c d = 0 := by
  have h' : ¬ ((a.val = b.val ∧ c.val = d.val) ∨ (a.val = c.val ∧ b.val = d.val)) := by
    simpa [Fin.val_inj] using h
  simp [secularLegacy, secularTD, zeroedLegacy, zeroedTD, h']

theorem secular_trace (R : Tens α n) (hR : TraceFree R) : TraceFree (secularLegacy R) ∧ TraceFree (secularTD R) := by
  constructor <;>
  · intro c d
    by_cases hcd : c = d
    · subst hcd
      have := hR c c
      simpa [secularLegacy, secularTD, zeroedLegacy, zeroedTD] using this
    · have hcd' : ¬ c.val = d.val := fun e => hcd (Fin.ext e)
      apply Finset.sum_eq_zero
      intro a _
      simp only [secularLegacy, secularTD, zeroedLegacy, zeroedTD]
      rw [if_pos]
      intro hh
      rcases hh with ⟨_, h2⟩ | ⟨h1, h2⟩
      · exact hcd' h2
      · exact hcd' (h1.symm.trans h2)

theorem zeroed_symm (a b c d : Nat) : (zeroedLegacy a b c d ↔ zeroedLegacy b a d c) ∧
    (zeroedTD a b c d ↔ zeroedTD b a d c) := by
  unfold zeroedLegacy zeroedTD
  constructor <;> omega

theorem secular_herm (R : Tens α n) (hR : HermPres R) : HermPres (secularLegacy R) ∧ HermPres (secularTD R) := by
  constructor
  · intro a b c d
    simp only [secularLegacy]
    by_cases h : zeroedLegacy a.val b.val c.val d.val
    · rw [if_pos h, if_pos ((zeroed_symm _ _ _ _).1.mp h)]; simp
    · rw [if_neg h, if_neg (fun h' => h ((zeroed_symm _ _ _ _).1.mpr h'))]; exact hR a b c d
  · intro a b c d
    simp only [secularTD]
    by_cases h : zeroedTD a.val b.val c.val d.val
    · rw [if_pos h, if_pos ((zeroed_symm _ _ _ _).2.mp h)]; simp
    · rw [if_neg h, if_neg (fun h' => h ((zeroed_symm _ _ _ _).2.mpr h'))]; exact hR a b c d
end star

/-! ## Foerster tensors -/
section field
variable {α : Type} [Field α] [StarRing α]

/-- the Foerster tensor (rates → `updateStructure` → pure dephasing) is trace free for any rate matrix
and any line-shape derivatives -/
theorem foerster_trace (KF : Mat α n) (h : Fin n → α) (cj : α → α) :
    TraceFree (addDephasing cj h (updateStructure (foersterBare KF))) := by
  intro c d
  have e : ∀ a, addDephasing cj h (updateStructure (foersterBare KF)) a a c d =
      if c = d then (if a = c then -(∑ x, (if x = c then 0 else KF x c)) else KF a c) else 0 := by
    intro a
    simp only [addDephasing, updateStructure, foersterBare, sumFin_eq_sum]
    by_cases hcd : c = d
    · subst hcd
      by_cases hac : a = c
      · subst hac
        simp
      · have : ¬ (a = c ∧ a = c ∧ a ≠ a) := by simp
        simp [hac]
    · by_cases hac : a = c
      · subst hac; simp [hcd]
      · simp [hac, hcd]
  rw [Finset.sum_congr rfl (fun a _ => e a)]
  by_cases hcd : c = d
  · simp only [hcd, if_true]
    rw [Finset.sum_ite, Finset.sum_const]
    simp [Finset.filter_eq', Finset.sum_ite, Finset.filter_ne']
  · simp [hcd]

/-- … and commutes with Hermitian conjugation for real rates: the bra side of a coherence decays with
the conjugate line-shape derivative (`h_a + conj h_b`; with `h_a + h_b` this fails, which was a defect) -/
theorem foerster_herm (KF : Mat α n) (h : Fin n → α) (hK : ∀ i j, star (KF i j) = KF i j) :
    HermPres (addDephasing star h (updateStructure (foersterBare KF))) := by
  intro a b c d
  have h2 : star (2 : α) = 2 := by simp
  have hsum : ∀ x : Fin n, star (∑ a, (if a = a ∧ x = x ∧ a ≠ x then KF a x else 0)) =
      ∑ a, (if a = a ∧ x = x ∧ a ≠ x then KF a x else 0) := by
    intro x
    rw [star_sum]
    apply Finset.sum_congr rfl
    intro y _
    split_ifs <;> simp [hK]
  have hs : ∀ y : Fin n, ∑ x, star (if x = y then 0 else KF x y) = ∑ x, if x = y then 0 else KF x y := by
    intro y
    exact Finset.sum_congr rfl (fun x _ => by split_ifs <;> simp [hK])
  simp only [addDephasing, updateStructure, foersterBare, sumFin_eq_sum]
  by_cases e1 : a = c ∧ b = d ∧ a ≠ b
  · obtain ⟨rfl, rfl, hab⟩ := e1
    have hba : b ≠ a := fun e => hab e.symm
    simp [hab, hba, star_sub, star_add, star_div₀, hK, hsum, hs, add_comm]
  · have e1' : ¬ (b = d ∧ a = c ∧ b ≠ a) := fun ⟨x, y, z⟩ => e1 ⟨y, x, fun e => z e.symm⟩
    simp only [e1, e1', if_false]
    by_cases e2 : a = b ∧ b = c ∧ c = d
    · obtain ⟨rfl, rfl, rfl⟩ := e2
      simp [star_sub, hsum, hs]
    · have e2' : ¬ (b = a ∧ a = d ∧ d = c) := fun ⟨x, y, z⟩ => e2 ⟨x.symm, by rw [x, y, z], z.symm⟩
      simp only [e2, e2', if_false]
      by_cases e3 : a = b ∧ c = d ∧ a ≠ c
      · obtain ⟨rfl, rfl, hac⟩ := e3
        simp [hac, hK]
      · have e3' : ¬ (b = a ∧ d = c ∧ b ≠ d) := fun ⟨x, y, z⟩ => e3 ⟨x.symm, y.symm, fun e => z (x.trans (e.trans y.symm))⟩
        simp [e3, e3']
end field

/-- non-vacuity: a real `K`, complex-like `L` over the integers with trivial star -/
example : TraceFree (loopTerm (n := 2) (α := Int) (fun i j => (i.val : Int) + 2 * j.val) (fun i j => 3 * i.val)
    (fun i j => (i.val : Int) - j.val) (fun _ _ => 7)) := loopTerm_trace _ _ _ _

end QV.C01
