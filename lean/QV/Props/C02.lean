import QV.Model.Prop
import QV.Lemmas.Bridge
import QV.Lemmas.Taylor
import QV.Props.C01
import QV.Props.C07
import Mathlib.Tactic.Ring
import Mathlib.Algebra.BigOperators.Ring.Finset
import Mathlib.Algebra.Field.Basic
import Mathlib.Algebra.Star.BigOperators
import QV.Lemmas.TruncBound

/-!
# C02 — propagated density matrices stay valid states and follow the generator
Exact statements (trace, Hermiticity) for every expansion order, refinement, step,
number of stored times and dimension; accuracy statements are in `TruncBound`.
-/
namespace QV.Prop
open QV QV.C01 Finset

variable {n : Nat}

section field
variable {α : Type} [Field α]

theorem trace_comm (H ρ : Mat α n) : ∑ a, comm H ρ a a = 0 := by
  simp only [comm, matMul, sumFin_eq_sum, Finset.sum_sub_distrib]
  rw [sub_eq_zero, Finset.sum_comm]
  apply Finset.sum_congr rfl; intro x _
  apply Finset.sum_congr rfl; intro y _
  ring

theorem trace_tensApply (R : Tens α n) (hR : TraceFree R) (ρ : Mat α n) : ∑ a, tensApply R ρ a a = 0 := by
  simp only [tensApply, sumFin_eq_sum]
  rw [Finset.sum_comm]
  apply Finset.sum_eq_zero; intro c _
  rw [Finset.sum_comm]
  apply Finset.sum_eq_zero; intro d _
  rw [← Finset.sum_mul, hR c d, zero_mul]

/-- the generator (Hamiltonian + trace-free tensor) produces traceless increments -/
theorem genTensor_trace (ii : α) (H : Mat α n) (R : Tens α n) (hR : TraceFree R) (c : α) (ρ : MatD α n n) :
    trace (genTensor ii H R c ρ).fn = 0 := by
  simp only [genTensor, MatD.fn_tab, trace_eq, Finset.sum_add_distrib, Finset.sum_neg_distrib,
    ← Finset.mul_sum, trace_comm, trace_tensApply R hR, mul_zero, neg_zero, add_zero]

theorem madd_trace (a b : MatD α n n) : trace (madd a b).fn = trace a.fn + trace b.fn := by
  simp [madd, trace_eq, Finset.sum_add_distrib]

/-- **the trace is the same at every stored time** (tensor form), for every `L`, `Nref`, `dt`, `nt` -/
theorem rdm_trace_conserved (ii : α) (H : Mat α n) (R : Tens α n) (hR : TraceFree R) (dt : α)
    (L Nref nt : Nat) (ρ0 : MatD α n n) :
    ∀ ρ ∈ rdmPropagate (genTensor ii H R) dt L Nref nt ρ0, trace ρ.fn = trace ρ0.fn :=
  taylorTrajectory_conserved (genTensor ii H R) madd _ (fun x => trace x.fn) madd_trace
    (genTensor_trace ii H R hR) L Nref nt ρ0

/-- … and in operator form, for ANY operator components (Redfield or Lindblad) -/
theorem rdm_trace_conserved_ops (ii : α) (H : Mat α n) (comps : List (Mat α n × Mat α n × Mat α n)) (dt : α)
    (L Nref nt : Nat) (ρ0 : MatD α n n) :
    ∀ ρ ∈ rdmPropagate (genOps ii H comps) dt L Nref nt ρ0, trace ρ.fn = trace ρ0.fn := by
  rw [propagate_ops_eq_tensor]
  exact rdm_trace_conserved ii H _ (redfieldTensor_trace comps) dt L Nref nt ρ0

/-- closed system (Hamiltonian only) -/
theorem rdm_trace_conserved_closed (ii : α) (H : Mat α n) (dt : α) (L Nref nt : Nat) (ρ0 : MatD α n n) :
    ∀ ρ ∈ rdmPropagate (genH ii H) dt L Nref nt ρ0, trace ρ.fn = trace ρ0.fn := by
  apply taylorTrajectory_conserved (genH ii H) madd _ (fun x => trace x.fn) madd_trace
  intro c ρ
  simp only [genH, MatD.fn_tab, trace_eq, Finset.sum_neg_distrib, ← Finset.mul_sum, trace_comm, mul_zero, neg_zero]
end field

section star
variable {α : Type} [Field α] [StarRing α]

/-- Hermitian conjugate of a materialised matrix -/
def dagger (x : MatD α n n) : MatD α n n := MatD.tab (fun a b => star (x.fn b a))

theorem dagger_madd (a b : MatD α n n) : dagger (madd a b) = madd (dagger a) (dagger b) := by
  unfold dagger madd
  congr 1; funext i j; simp

theorem comm_dagger (H ρ : Mat α n) (hH : ∀ i j, star (H i j) = H j i) (a b : Fin n) :
    star (comm H ρ b a) = -(comm H (fun i j => star (ρ j i)) a b) := by
  simp only [comm, matMul, sumFin_eq_sum, star_sub, star_sum, star_mul', hH, neg_sub]
  congr 1 <;> (apply Finset.sum_congr rfl; intro x _; ring)

theorem tensApply_dagger (R : Tens α n) (hR : HermPres R) (ρ : Mat α n) (a b : Fin n) :
    star (tensApply R ρ b a) = tensApply R (fun i j => star (ρ j i)) a b := by
  simp only [tensApply, sumFin_eq_sum, star_sum, star_mul']
  rw [Finset.sum_comm]
  apply Finset.sum_congr rfl; intro c _
  apply Finset.sum_congr rfl; intro d _
  rw [hR b a d c, mul_comm]

/-- the generator commutes with Hermitian conjugation for real time factors -/
theorem genTensor_dagger (ii : α) (hi : star ii = -ii) (H : Mat α n) (hH : ∀ i j, star (H i j) = H j i)
    (R : Tens α n) (hR : HermPres R) (c : α) (hc : star c = c) (ρ : MatD α n n) :
    dagger (genTensor ii H R c ρ) = genTensor ii H R c (dagger ρ) := by
  unfold dagger genTensor
  congr 1
  funext a b
  simp only [MatD.fn_tab, star_add, star_neg, star_mul', hi, hc, comm_dagger H _ hH, tensApply_dagger R hR]
  ring

/-- **a Hermitian initial state stays Hermitian at every stored time** when the Hamiltonian is
Hermitian, the tensor commutes with conjugation and the time step is real -/
theorem rdm_herm_preserved (ii : α) (hi : star ii = -ii) (H : Mat α n) (hH : ∀ i j, star (H i j) = H j i)
    (R : Tens α n) (hR : HermPres R) (dt : α) (hdt : star dt = dt) (L Nref nt : Nat) (ρ0 : MatD α n n)
    (h0 : dagger ρ0 = ρ0) :
    ∀ ρ ∈ rdmPropagate (genTensor ii H R) dt L Nref nt ρ0, dagger ρ = ρ := by
  apply taylorTrajectory_fixed_dt (genTensor ii H R) madd _ dagger dagger_madd _ L Nref nt ρ0 h0
  intro l x
  apply genTensor_dagger ii hi H hH R hR
  simp [star_div₀, hdt]
end star


/-! ## accuracy: the truncation bound -/
section bound
open NormedSpace Finset
variable {𝔸 : Type} [NormedRing 𝔸] [NormOneClass 𝔸] [NormedAlgebra ℚ 𝔸] [CompleteSpace 𝔸]

/-- **the stored states follow the generator**: in any complete normed algebra containing the generator
`𝓛` (superoperators for density matrices; `y` = the propagated object), `m` elementary steps of the
order-`L` short-exponential loop with step `dt` are within
`m·e^{(m−1)x}·(e^x − Σ_{k≤L} x^k/k!)·‖y‖`, `x = ‖dt·𝓛‖`, of `exp(m·dt·𝓛) y`.
For a GKSL generator this is the distance to the exact (completely positive) Lindblad evolution; for
`𝓛 = −i[H,·]` to the unitary evolution, whence norm, purity and energy are conserved within
multiples of the same bound. -/
theorem states_within_truncation_bound (𝓛 : 𝔸) (dt : ℚ) (L m : ℕ) (y : 𝔸) :
    ‖taylorSteps (algGen 𝓛) (· + ·) dt L m y - exp ((m : ℕ) • (dt • 𝓛)) * y‖ ≤
      (m * Real.exp ‖dt • 𝓛‖ ^ (m - 1) *
        (Real.exp ‖dt • 𝓛‖ - ∑ k ∈ range (L + 1), ‖dt • 𝓛‖ ^ k / k.factorial)) * ‖y‖ :=
  steps_within_truncation_bound 𝓛 dt L m y

/-- one step of the loop IS the order-`L` Taylor polynomial of `dt·𝓛` (what the bound is about) -/
theorem loop_is_taylor_polynomial (𝓛 : 𝔸) (dt : ℚ) (L : ℕ) (y : 𝔸) :
    taylorStep (algGen 𝓛) (· + ·) dt L y = taylorPoly (L + 1) (dt • 𝓛) * y :=
  taylorStep_alg 𝓛 dt L y
end bound

end QV.Prop
