def hello := "world"
