import QV.Core.Num
import QV.Model.C03
open QV QV.C03

def showNats (l : List Nat) : String := "".intercalate (l.map toString)

def stepD (_ : Unit) (ts : List String) : Unit × String :=
  match ts with
  | ["sigs", n, mult] =>
    match n.toNat?, mult.toNat? with
    | some n, some mult => ((), " ".intercalate ((elsigs (List.replicate n 1) mult).map showNats))
    | _, _ => ((), "bad-op")
  | "ham" :: n :: mult :: rest =>
    -- numbers: site energies (n), couplings (n*n), dipole x components (n)
    match n.toNat?, mult.toNat?, parseRats? rest with
    | some n, some mult, some vals =>
      if vals.length = n + n * n + n then
        let a := vals.toArray
        let sigs := (elsigs (List.replicate n 1) mult).toArray
        let elen : Nat → Nat → Rat := fun k lev => if lev = 0 then 0 else a[k]!
        let J : Nat → Nat → Rat := fun k l => a[n + k * n + l]!
        let d : Nat → Rat := fun k => a[n + n * n + k]!
        let N := sigs.size
        let hh := (List.range N).flatMap fun i => (List.range N).map fun j =>
          if i = j then energy elen sigs[i]! else coupling n J sigs[i]! sigs[j]! i j
        let dd := (List.range N).flatMap fun i => (List.range N).map fun j => transDipole d sigs[i]! sigs[j]!
        ((), " ".intercalate (hh.map showRat) ++ " | " ++ " ".intercalate (dd.map showRat))
      else ((), "bad-op")
    | _, _, _ => ((), "bad-op")
  | _ => ((), "bad-op")

def main : IO Unit := runDriver stepD ()
