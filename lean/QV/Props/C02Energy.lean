import QV.Props.C02
import Mathlib.LinearAlgebra.Matrix.Trace

/-!
# C02 — without relaxation the energy (and every constant of motion) is conserved exactly
For Hamiltonian-only propagation the truncated expansion conserves `tr(F ρ)` *exactly* - not only within the truncation
bound - for every matrix `F` that commutes with the Hamiltonian: the energy (`F = H`), its powers, the populations of the
Hamiltonian's eigenstates.  Every expansion order, refinement, step, length and dimension.
-/
namespace QV.Prop
open QV QV.C01 Finset

variable {n : Nat} {α : Type} [Field α]

theorem matMul_as_matrix (A B : Mat α n) :
    matMul A B = ((Matrix.of A) * (Matrix.of B) : Matrix (Fin n) (Fin n) α) := by
  funext i j; simp [matMul_eq_mul, Matrix.mul_apply]

theorem trace_as_matrix (A : Mat α n) : trace A = Matrix.trace (Matrix.of A) := by
  simp [trace_eq, Matrix.trace]

/-- `tr(F [H, ρ]) = 0` when `F` commutes with `H` -/
theorem trace_mul_comm_zero (F H ρ : Mat α n) (hFH : matMul F H = matMul H F) :
    trace (matMul F (comm H ρ)) = 0 := by
  have hc : comm H ρ = ((Matrix.of H) * (Matrix.of ρ) - (Matrix.of ρ) * (Matrix.of H) : Matrix (Fin n) (Fin n) α) := by
    funext a b; simp [comm, matMul_eq_mul, Matrix.mul_apply]
  have hFH' : (Matrix.of F) * (Matrix.of H) = ((Matrix.of H) * (Matrix.of F) : Matrix (Fin n) (Fin n) α) := by
    rw [← matMul_as_matrix, ← matMul_as_matrix, hFH]
  rw [trace_as_matrix, matMul_as_matrix, hc]
  show Matrix.trace ((Matrix.of F) * ((Matrix.of H) * (Matrix.of ρ) - (Matrix.of ρ) * (Matrix.of H))) = 0
  rw [mul_sub, Matrix.trace_sub, ← mul_assoc, ← mul_assoc, hFH', Matrix.trace_mul_cycle (Matrix.of F) (Matrix.of ρ) (Matrix.of H),
    sub_self]

/-- **constants of motion are conserved exactly** by the closed-system stepping -/
theorem rdm_constant_of_motion (ii : α) (H F : Mat α n) (hFH : matMul F H = matMul H F) (dt : α) (L Nref nt : Nat)
    (ρ0 : MatD α n n) :
    ∀ ρ ∈ rdmPropagate (genH ii H) dt L Nref nt ρ0, trace (matMul F ρ.fn) = trace (matMul F ρ0.fn) := by
  apply taylorTrajectory_conserved (genH ii H) madd _ (fun x => trace (matMul F x.fn))
  · intro a b
    simp only [madd, MatD.fn_tab, trace_eq, matMul_eq_mul, mul_add, Finset.sum_add_distrib]
  · intro c ρ
    have h := trace_mul_comm_zero F H ρ.fn hFH
    simp only [trace_eq, matMul_eq_mul] at h
    simp only [genH, MatD.fn_tab, trace_eq, matMul_eq_mul, mul_neg, Finset.sum_neg_distrib]
    have : ∀ a, ∑ l, F a l * (ii * c * comm H ρ.fn l a) = (ii * c) * ∑ l, F a l * comm H ρ.fn l a := by
      intro a; rw [Finset.mul_sum]; exact Finset.sum_congr rfl (fun l _ => by ring)
    simp only [this, ← Finset.mul_sum, h, mul_zero, neg_zero]

/-- **the energy `tr(H ρ)` is conserved exactly** -/
theorem rdm_energy_conserved (ii : α) (H : Mat α n) (dt : α) (L Nref nt : Nat) (ρ0 : MatD α n n) :
    ∀ ρ ∈ rdmPropagate (genH ii H) dt L Nref nt ρ0, trace (matMul H ρ.fn) = trace (matMul H ρ0.fn) :=
  rdm_constant_of_motion ii H H rfl dt L Nref nt ρ0

end QV.Prop
