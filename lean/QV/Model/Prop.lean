import QV.Model.C01
import QV.Model.Taylor
/-!
Density-matrix propagation (quantarhei/qm/propagators/rdmpropagator.py) and the
evolution superoperator (qm/liouvillespace/evolutionsuperoperator.py) on top of
the shared Taylor stepping and the tensor assembly of `QV.Model.C01`.
`ii` is the imaginary unit of the scalar type.
-/
namespace QV.Prop
open QV QV.C01

section
variable {α : Type} [Add α] [Sub α] [Mul α] [Neg α] [Zero α] {n : Nat}

def comm (H ρ : Mat α n) : Mat α n := fun a b => matMul H ρ a b - matMul ρ H a b

def madd (a b : MatD α n n) : MatD α n n := MatD.tab (fun i j => a.fn i j + b.fn i j)

/-- `-_COM(HH, ll, dt, rho1)` followed by `_TTI(rhoY, RR, 0, ll, dt, rho1)`: `c = dt/ll` -/
def genTensor (ii : α) (H : Mat α n) (R : Tens α n) (c : α) (ρ : MatD α n n) : MatD α n n :=
  MatD.tab (fun a b => -((ii * c) * comm H ρ.fn a b) + c * tensApply R ρ.fn a b)

/-- the same with `_OTI` (operator form), components `(K, L, Ld)` with `Kd = Kᵀ` -/
def genOps (ii : α) (H : Mat α n) (comps : List (Mat α n × Mat α n × Mat α n)) (c : α)
    (ρ : MatD α n n) : MatD α n n :=
  MatD.tab (fun a b => comps.foldl (fun acc (k : Mat α n × Mat α n × Mat α n) =>
      acc + c * applyOps k.1 (fun i j => k.1 j i) k.2.1 k.2.2 ρ.fn a b)
    (-((ii * c) * comm H ρ.fn a b)))

/-- Hamiltonian only -/
def genH (ii : α) (H : Mat α n) (c : α) (ρ : MatD α n n) : MatD α n n :=
  MatD.tab (fun a b => -((ii * c) * comm H ρ.fn a b))

/-- elementwise factor applied after every refined step (`_APPLY_DEPH`, Lorentzian: constant matrix) -/
def dephase (E : Mat α n) (ρ : MatD α n n) : MatD α n n := MatD.tab (fun a b => ρ.fn a b * E a b)
end

section
variable {α : Type} [Add α] [Sub α] [Mul α] [Neg α] [Zero α] [Div α] [NatCast α] {n : Nat}

/-- `ReducedDensityMatrixPropagator.propagate`: stored states; `dt` is the time-axis step, the
working step is `dt/Nref` -/
def rdmPropagate (gen : α → MatD α n n → MatD α n n) (dt : α) (L Nref nt : Nat) (ρ0 : MatD α n n) :
    List (MatD α n n) :=
  taylorTrajectory gen madd (dt / (Nref : α)) L Nref nt ρ0

/-- with pure dephasing: the factor is applied after each of the `Nref` refined steps -/
def rdmPropagateDeph (gen : α → MatD α n n → MatD α n n) (E : Mat α n) (dt : α) (L Nref : Nat) :
    Nat → MatD α n n → List (MatD α n n)
  | 0, _ => []
  | nt + 1, ρ =>
    let rec inner : Nat → MatD α n n → MatD α n n
      | 0, x => x
      | k + 1, x => inner k (dephase E (taylorStep gen madd (dt / (Nref : α)) L x))
    ρ :: rdmPropagateDeph gen E dt L Nref nt (inner Nref ρ)

/-- elementwise factor of the Gaussian pure dephasing after the refined step number `s` (counted from the start of the
time axis): `expo · exp(−t0·tt)` with `tt = s·dtd`, i.e. `E0 ∘ Q^s` for `E0 = exp(−γ dtd²/2)` (times the factor of the
axis start), `Q = exp(−γ dtd²)` -/
def gaussFactor (E0 Q : Mat α n) : Nat → Mat α n
  | 0 => E0
  | s + 1 => fun a b => gaussFactor E0 Q s a b * Q a b

/-- Gaussian pure dephasing: the time `tt = tNt + jj·dtd` of every refined step enters the factor; `s0` is the number of
refined steps before the current stored point -/
def rdmPropagateDephG (gen : α → MatD α n n → MatD α n n) (E0 Q : Mat α n) (dt : α) (L Nref : Nat) :
    Nat → Nat → MatD α n n → List (MatD α n n)
  | 0, _, _ => []
  | nt + 1, s0, ρ =>
    let rec inner : Nat → Nat → MatD α n n → MatD α n n
      | 0, _, x => x
      | k + 1, s, x => inner k (s + 1) (dephase (gaussFactor E0 Q s) (taylorStep gen madd (dt / (Nref : α)) L x))
    ρ :: rdmPropagateDephG gen E0 Q dt L Nref nt (s0 + Nref) (inner Nref s0 ρ)

/-- `StateVectorPropagator._propagate_short_exp`: `psi1 = -1j*(dt/ll)*dot(HH, psi1)` -/
def svGen (ii : α) (H : Mat α n) (c : α) (ψ : VecD α n) : VecD α n :=
  VecD.tab (fun a => -((ii * c) * matVec H ψ.fn a))
def vadd (a b : VecD α n) : VecD α n := VecD.tab (fun i => a.fn i + b.fn i)
def svPropagate (ii : α) (H : Mat α n) (dt : α) (L Nref nt : Nat) (ψ0 : VecD α n) : List (VecD α n) :=
  taylorTrajectory (svGen ii H) vadd (dt / (Nref : α)) L Nref nt ψ0

/-! ## evolution superoperator -/

def unitMat [One α] (p q : Fin n) : Mat α n := fun a b => if a = p ∧ b = q then 1 else 0

/-- `_elemental_step_TimeIndep`: propagate every matrix unit over one dense step -/
def elemStep [One α] (gen : α → MatD α n n → MatD α n n) (dtd : α) (L : Nat) : TensD α n :=
  TensD.tab (fun a b p q => (taylorStep gen madd dtd L (MatD.tab (unitMat p q))).fn a b)

/-- `numpy.tensordot(A, B)` of two superoperators -/
def tcomp (A B : TensD α n) : TensD α n :=
  TensD.tab (fun a b e f => sumFin n fun c => sumFin n fun d => A.fn a b c d * B.fn c d e f)

def tident [One α] : TensD α n := TensD.tab (fun a b c d => if a = c ∧ b = d then 1 else 0)

/-- `_one_step_with_dense_TimeIndep`: `Udt = Ut1; for ti in range(2, Ndense+1): Udt = Ut1·Udt`
(generic in the composition `*` so that the same definition is used with `tcomp` and in the theorems) -/
def denseStep {M : Type} [Mul M] (U1 : M) : Nat → M
  | 0 => U1
  | k + 1 => U1 * denseStep U1 k

/-- `calculate()`: `data[0] = 1`, `data[1] = Udt`, `data[ti] = Udt·data[ti-1]` -/
def evolAll {M : Type} [Mul M] (one Udt : M) : Nat → List M
  | 0 => []
  | nt + 1 =>
    let rec go : Nat → M → List M
      | 0, _ => []
      | k + 1, u => u :: go k (Udt * u)
    one :: go nt Udt

/-- `calculate_next()` called `k+1` times in jit mode: the stored tensor -/
def evolJit {M : Type} [Mul M] (Udt : M) : Nat → M
  | 0 => Udt
  | k + 1 => Udt * evolJit Udt k

/-- superoperators under `numpy.tensordot` -/
def tensMul : Mul (TensD α n) := ⟨tcomp⟩
end

end QV.Prop
