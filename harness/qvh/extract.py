"""Source-to-Lean extractor (T2).

Two services:
  * `literal(path, name)`: a module/class-level literal table read with
    ast.literal_eval (twod2 tables, M4, unit lists...).
  * `SymExec`: a symbolic executor for a deliberately tiny Python subset
    (integer + - * // %, comparisons, and/or/not, if/elif/else, assignments,
    `list()`/`[]` creation and `.append`) which turns straight-line integer
    kernels into Lean `Int` expressions.  Anything outside the subset raises
    ExtractError (reported by the check as a broken tie, never ignored).
"""
import ast, os


class ExtractError(Exception):
    pass


def read_source(repo, rel):
    with open(os.path.join(repo, rel)) as f:
        return f.read()


def find_def(tree, name, cls=None):
    body = tree.body
    if cls is not None:
        for n in body:
            if isinstance(n, ast.ClassDef) and n.name == cls:
                body = n.body
                break
        else:
            raise ExtractError("class %s not found" % cls)
    for n in body:
        if isinstance(n, (ast.FunctionDef,)) and n.name == name:
            return n
    raise ExtractError("function %s not found" % name)


def literal(src, name, cls=None):
    """value of `name = <literal>` at module or class level"""
    tree = ast.parse(src)
    body = tree.body
    if cls is not None:
        for n in body:
            if isinstance(n, ast.ClassDef) and n.name == cls:
                body = n.body
                break
        else:
            raise ExtractError("class %s not found" % cls)
    for n in body:
        if isinstance(n, ast.Assign) and len(n.targets) == 1 and isinstance(n.targets[0], ast.Name) and n.targets[0].id == name:
            try:
                return ast.literal_eval(n.value)
            except Exception as e:
                raise ExtractError("%s is not a literal: %s" % (name, e))
    raise ExtractError("assignment to %s not found" % name)


# --- expression trees --------------------------------------------------------
# ('var', name) ('int', k) ('bin', op, a, b) ('neg', a) ('cmp', op, a, b)
# ('and', a, b) ('or', a, b) ('not', a) ('ite', c, a, b)

def lean_expr(e, typed=True):
    if not typed:
        return _lean_expr_generic(e)
    k = e[0]
    if k == "var":
        return e[1]
    if k == "int":
        return "(%d : Int)" % e[1] if e[1] >= 0 else "(-%d : Int)" % (-e[1])
    if k == "neg":
        return "(-%s)" % lean_expr(e[1])
    if k == "bin":
        op, a, b = e[1], lean_expr(e[2]), lean_expr(e[3])
        if op in "+-*":
            return "(%s %s %s)" % (a, op, b)
        if op == "//":
            return "(Int.fdiv %s %s)" % (a, b)
        if op == "%":
            return "(Int.fmod %s %s)" % (a, b)
    if k == "cmp":
        op = {"<=": "≤", "<": "<", ">=": "≥", ">": ">", "==": "=", "!=": "≠"}[e[1]]
        return "(%s %s %s)" % (lean_expr(e[2]), op, lean_expr(e[3]))
    if k == "and":
        return "(%s ∧ %s)" % (lean_expr(e[1]), lean_expr(e[2]))
    if k == "or":
        return "(%s ∨ %s)" % (lean_expr(e[1]), lean_expr(e[2]))
    if k == "not":
        return "(¬ %s)" % lean_expr(e[1])
    if k == "ite":
        return "(if %s then %s else %s)" % (lean_expr(e[1]), lean_expr(e[2]), lean_expr(e[3]))
    raise ExtractError("cannot print %r" % (e,))


def _lean_expr_generic(e):
    """ring expressions over an arbitrary scalar type (no division, no constants but 0/1)"""
    k = e[0]
    if k == "var":
        return e[1]
    if k == "int" and e[1] in (0, 1):
        return str(e[1])
    if k == "neg":
        return "(-%s)" % _lean_expr_generic(e[1])
    if k == "bin" and e[1] in "+-*":
        return "(%s %s %s)" % (_lean_expr_generic(e[2]), e[1], _lean_expr_generic(e[3]))
    raise ExtractError("expression outside the generic ring subset: %r" % (e,))


class SymExec:
    def __init__(self, inputs, attr_map=None, cell_map=None):
        """inputs: names treated as free variables; attr_map: {'config.size': 'size'};
        cell_map: {'self.data[N, M]': 'dNM'} array cells treated as variables (the caller is
        responsible for knowing that distinct keys denote distinct cells)"""
        self.env = {n: ("var", n) for n in inputs}
        self.attr_map = attr_map or {}
        self.cell_map = cell_map or {}
        for v in self.cell_map.values():
            self.env[v] = ("var", v)
        self.ignored = []
        self.guards = []      # conditions under which the code raises

    # expressions
    def ev(self, n, env):
        if isinstance(n, ast.Constant):
            if isinstance(n.value, bool) or not isinstance(n.value, int):
                raise ExtractError("non-integer constant %r" % (n.value,))
            return ("int", n.value)
        if isinstance(n, ast.Name):
            if n.id not in env:
                raise ExtractError("unknown name %s" % n.id)
            v = env[n.id]
            if isinstance(v, list):
                raise ExtractError("list %s used as a number" % n.id)
            return v
        if isinstance(n, ast.Subscript):
            s = ast.unparse(n)
            if s in self.cell_map:
                return env[self.cell_map[s]]
            raise ExtractError("unknown array cell %s" % s)
        if isinstance(n, ast.Attribute):
            s = ast.unparse(n)
            if s in self.attr_map:
                return ("var", self.attr_map[s])
            raise ExtractError("unknown attribute %s" % s)
        if isinstance(n, ast.BinOp):
            ops = {ast.Add: "+", ast.Sub: "-", ast.Mult: "*", ast.FloorDiv: "//", ast.Mod: "%"}
            if type(n.op) not in ops:
                raise ExtractError("operator %s outside the subset" % type(n.op).__name__)
            return ("bin", ops[type(n.op)], self.ev(n.left, env), self.ev(n.right, env))
        if isinstance(n, ast.UnaryOp):
            if isinstance(n.op, ast.USub):
                return ("neg", self.ev(n.operand, env))
            if isinstance(n.op, ast.Not):
                return ("not", self.ev(n.operand, env))
            raise ExtractError("unary operator outside the subset")
        if isinstance(n, ast.Compare):
            if len(n.ops) != 1:
                raise ExtractError("chained comparison")
            ops = {ast.LtE: "<=", ast.Lt: "<", ast.GtE: ">=", ast.Gt: ">", ast.Eq: "==", ast.NotEq: "!="}
            if type(n.ops[0]) not in ops:
                raise ExtractError("comparison outside the subset")
            return ("cmp", ops[type(n.ops[0])], self.ev(n.left, env), self.ev(n.comparators[0], env))
        if isinstance(n, ast.BoolOp):
            vals = [self.ev(v, env) for v in n.values]
            k = "and" if isinstance(n.op, ast.And) else "or"
            r = vals[0]
            for v in vals[1:]:
                r = (k, r, v)
            return r
        if isinstance(n, ast.IfExp):
            return ("ite", self.ev(n.test, env), self.ev(n.body, env), self.ev(n.orelse, env))
        raise ExtractError("expression %s outside the subset" % ast.dump(n)[:80])

    # statements
    def run(self, stmts, env=None, skip=lambda s: False):
        env = self.env if env is None else env
        for s in stmts:
            if skip(s):
                self.ignored.append(ast.unparse(s)[:60])
                continue
            if isinstance(s, ast.Expr) and isinstance(s.value, ast.Constant) and isinstance(s.value.value, str):
                continue  # docstring
            if isinstance(s, ast.Pass):
                continue
            if isinstance(s, ast.If) and len(s.body) == 1 and isinstance(s.body[0], ast.Raise) and not s.orelse:
                self.guards.append(self.ev(s.test, env))
                continue
            if isinstance(s, ast.Assign) and len(s.targets) == 1 and isinstance(s.targets[0], ast.Subscript) \
                    and ast.unparse(s.targets[0]) in self.cell_map:
                env[self.cell_map[ast.unparse(s.targets[0])]] = self.ev(s.value, env)
                continue
            if isinstance(s, ast.AugAssign) and isinstance(s.target, ast.Subscript) and ast.unparse(s.target) in self.cell_map:
                nm = self.cell_map[ast.unparse(s.target)]
                ops = {ast.Add: "+", ast.Sub: "-", ast.Mult: "*"}
                if type(s.op) not in ops:
                    raise ExtractError("augmented operator outside the subset")
                env[nm] = ("bin", ops[type(s.op)], env[nm], self.ev(s.value, env))
                continue
            if isinstance(s, ast.Assign):
                if len(s.targets) != 1 or not isinstance(s.targets[0], ast.Name):
                    raise ExtractError("assignment target outside the subset: %s" % ast.unparse(s)[:60])
                t = s.targets[0].id
                v = s.value
                if (isinstance(v, ast.Call) and isinstance(v.func, ast.Name) and v.func.id == "list" and not v.args) or \
                   (isinstance(v, ast.List) and not v.elts):
                    env[t] = []
                else:
                    env[t] = self.ev(v, env)
                continue
            if isinstance(s, ast.AugAssign):
                if not isinstance(s.target, ast.Name):
                    raise ExtractError("augmented assignment target outside the subset")
                fake = ast.BinOp(left=ast.Name(id=s.target.id, ctx=ast.Load()), op=s.op, right=s.value)
                env[s.target.id] = self.ev(fake, env)
                continue
            if isinstance(s, ast.Expr) and isinstance(s.value, ast.Call) and isinstance(s.value.func, ast.Attribute) \
                    and s.value.func.attr == "append" and isinstance(s.value.func.value, ast.Name):
                lst = env.get(s.value.func.value.id)
                if not isinstance(lst, list) or len(s.value.args) != 1:
                    raise ExtractError("append outside the subset")
                env[s.value.func.value.id] = lst + [self.ev(s.value.args[0], env)]
                continue
            if isinstance(s, ast.If):
                c = self.ev(s.test, env)
                e1 = dict(env)
                e2 = dict(env)
                self.run(s.body, e1, skip)
                self.run(s.orelse, e2, skip)
                for k in set(e1) | set(e2):
                    a, b = e1.get(k), e2.get(k)
                    if a is None or b is None:
                        continue  # defined in one branch only: not visible afterwards
                    if isinstance(a, list) or isinstance(b, list):
                        if not (isinstance(a, list) and isinstance(b, list) and len(a) == len(b)):
                            raise ExtractError("list shapes differ between branches")
                        env[k] = [x if x == y else ("ite", c, x, y) for x, y in zip(a, b)]
                    else:
                        env[k] = a if a == b else ("ite", c, a, b)
                continue
            raise ExtractError("statement outside the subset: %s" % ast.unparse(s)[:80])
        return env


# --- restricted evaluation of module-level tables --------------------------------
def eval_tables(src, names, env=None):
    """Evaluate module-level assignments `name = <expr>` for the requested names in
    order of appearance, where <expr> may use: literals, lists, dicts, dict(k=v,...),
    names of earlier tables / of `env`, and constant subscripts of those."""
    env = dict(env or {})
    tree = ast.parse(src)

    def ev(n):
        if isinstance(n, ast.Constant):
            return n.value
        if isinstance(n, ast.Name):
            if n.id in env:
                return env[n.id]
            raise ExtractError("name %s not known to the table evaluator" % n.id)
        if isinstance(n, ast.List):
            return [ev(e) for e in n.elts]
        if isinstance(n, ast.Tuple):
            return tuple(ev(e) for e in n.elts)
        if isinstance(n, ast.Dict):
            return {ev(k): ev(v) for k, v in zip(n.keys, n.values)}
        if isinstance(n, ast.Subscript):
            return ev(n.value)[ev(n.slice)]
        if isinstance(n, ast.Call) and isinstance(n.func, ast.Name) and n.func.id == "dict" and not n.args:
            return {k.arg: ev(k.value) for k in n.keywords}
        raise ExtractError("table expression outside the subset: %s" % ast.unparse(n)[:80])

    out = {}
    for n in tree.body:
        if isinstance(n, ast.Assign) and len(n.targets) == 1 and isinstance(n.targets[0], ast.Name):
            t = n.targets[0].id
            if t in names:
                env[t] = out[t] = ev(n.value)
    missing = [n for n in names if n not in out]
    if missing:
        raise ExtractError("tables not found: %s" % missing)
    return out


def string_constants(src):
    """module-level NAME = "string" constants"""
    out = {}
    for n in ast.parse(src).body:
        if isinstance(n, ast.Assign) and len(n.targets) == 1 and isinstance(n.targets[0], ast.Name) \
                and isinstance(n.value, ast.Constant) and isinstance(n.value.value, str):
            out[n.targets[0].id] = n.value.value
    return out


def local_literal(src, func, name, cls=None):
    """literal assigned to `name` inside function `func`"""
    fn = find_def(ast.parse(src), func, cls)
    for n in ast.walk(fn):
        if isinstance(n, ast.Assign) and len(n.targets) == 1 and isinstance(n.targets[0], ast.Name) and n.targets[0].id == name:
            try:
                return ast.literal_eval(n.value)
            except Exception as e:
                raise ExtractError("%s is not a literal: %s" % (name, e))
    raise ExtractError("%s not found in %s" % (name, func))


def lean_str(s):
    return '"' + s.replace("\\", "\\\\").replace('"', '\\"') + '"'


def lean_list(xs, f=lambda x: x):
    return "[" + ", ".join(f(x) for x in xs) + "]"
