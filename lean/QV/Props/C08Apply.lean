import QV.Props.C08
import QV.Lemmas.Taylor
import Mathlib.Algebra.Field.Basic

/-!
# C08 — applying the evolution superoperator is propagating the state
`EvolutionSuperOperator` builds its one-step tensor by propagating every matrix unit.  Because every generator of the
density-matrix propagator acts on the state as a 4-index tensor (is linear in the state), the tensor built that way,
applied to ANY state, is the propagated state - for one dense step, for the `Ndense` steps inside a time-axis step and
for every stored time, every expansion order and step.
-/
namespace QV.Prop
open QV QV.C01 Finset

variable {α : Type} [Field α] {n : Nat}

/-- the map acts on matrices as a 4-index tensor -/
def ActsAs (F : MatD α n n → MatD α n n) (T : Tens α n) : Prop :=
  ∀ ρ a b, (F ρ).fn a b = ∑ p, ∑ q, T a b p q * ρ.fn p q

theorem sum_delta2 (f : Fin n → Fin n → α) (a b : Fin n) :
    (∑ p, ∑ q, if a = p ∧ b = q then f p q else 0) = f a b := by
  rw [Finset.sum_eq_single a]
  · rw [Finset.sum_eq_single b]
    · simp
    · intro q _ hq; simp [Ne.symm hq]
    · intro h; exact absurd (Finset.mem_univ _) h
  · intro p _ hp
    exact Finset.sum_eq_zero (fun q _ => by simp [Ne.symm hp])
  · intro h; exact absurd (Finset.mem_univ _) h

theorem actsAs_id : ActsAs (fun ρ : MatD α n n => ρ) (fun a b p q => if a = p ∧ b = q then 1 else 0) := by
  intro ρ a b
  have : ∀ p q, (if a = p ∧ b = q then (1 : α) else 0) * ρ.fn p q = if a = p ∧ b = q then ρ.fn p q else 0 := by
    intro p q; split_ifs <;> simp
  simp only [this]
  exact (sum_delta2 (fun p q => ρ.fn p q) a b).symm

theorem actsAs_madd {F G : MatD α n n → MatD α n n} {T S : Tens α n} (hF : ActsAs F T) (hG : ActsAs G S) :
    ActsAs (fun ρ => madd (F ρ) (G ρ)) (fun a b p q => T a b p q + S a b p q) := by
  intro ρ a b
  simp only [madd, MatD.fn_tab, hF ρ a b, hG ρ a b, add_mul, Finset.sum_add_distrib]

theorem actsAs_comp {F G : MatD α n n → MatD α n n} {T S : Tens α n} (hF : ActsAs F T) (hG : ActsAs G S) :
    ActsAs (fun ρ => F (G ρ)) (fun a b p q => ∑ c, ∑ d, T a b c d * S c d p q) := by
  intro ρ a b
  rw [hF (G ρ) a b]
  simp only [hG ρ, Finset.mul_sum, Finset.sum_mul]
  rw [sum4_comm]
  refine Finset.sum_congr rfl (fun p _ => Finset.sum_congr rfl (fun q _ => Finset.sum_congr rfl (fun c _ =>
    Finset.sum_congr rfl (fun d _ => by ring))))

/-- a generator that is linear in the state for every prefactor -/
def LinearGen (gen : α → MatD α n n → MatD α n n) : Prop := ∀ c, ∃ G : Tens α n, ActsAs (gen c) G

theorem taylorLoop_actsAs (gen : α → MatD α n n → MatD α n n) (hg : LinearGen gen) (dt : α) :
    ∀ (cnt l : Nat) (F1 F2 : MatD α n n → MatD α n n) (T1 T2 : Tens α n), ActsAs F1 T1 → ActsAs F2 T2 →
      ∃ T, ActsAs (fun ρ => taylorLoop gen madd dt l cnt (F1 ρ) (F2 ρ)) T := by
  intro cnt
  induction cnt with
  | zero => intro l F1 F2 T1 T2 _ h2; exact ⟨T2, h2⟩
  | succ cnt ih =>
    intro l F1 F2 T1 T2 h1 h2
    obtain ⟨G, hG⟩ := hg (dt / (l : α))
    have h1' := actsAs_comp hG h1
    have h2' := actsAs_madd h2 h1'
    exact ih (l + 1) _ _ _ _ h1' h2'

/-- one elementary step of the propagator acts as a tensor -/
theorem taylorStep_actsAs (gen : α → MatD α n n → MatD α n n) (hg : LinearGen gen) (dt : α) (L : Nat) :
    ∃ T, ActsAs (taylorStep gen madd dt L) T :=
  taylorLoop_actsAs gen hg dt L 1 _ _ _ _ actsAs_id actsAs_id

/-- **one dense step**: the tensor assembled from the propagated matrix units, applied to any state, is the
propagated state -/
theorem apply_elemStep (gen : α → MatD α n n → MatD α n n) (hg : LinearGen gen) (dtd : α) (L : Nat) (ρ : MatD α n n) :
    tensApply (elemStep gen dtd L).fn ρ.fn = (taylorStep gen madd dtd L ρ).fn := by
  obtain ⟨T, hT⟩ := taylorStep_actsAs gen hg dtd L
  have hel : (elemStep gen dtd L).fn = T := by
    funext a b p q
    simp only [elemStep, TensD.fn_tab]
    rw [hT (MatD.tab (unitMat p q)) a b]
    simp only [MatD.fn_tab, unitMat]
    have : ∀ p' q', T a b p' q' * (if p' = p ∧ q' = q then (1 : α) else 0) = if p = p' ∧ q = q' then T a b p' q' else 0 := by
      intro p' q'
      by_cases h : p' = p ∧ q' = q
      · rw [if_pos h, if_pos ⟨h.1.symm, h.2.symm⟩, mul_one]
      · rw [if_neg h, if_neg (fun h' => h ⟨h'.1.symm, h'.2.symm⟩), mul_zero]
    simp only [this]
    exact sum_delta2 (fun p' q' => T a b p' q') p q
  funext a b
  rw [hel, hT ρ a b]
  simp [tensApply, sumFin_eq_sum]

/-- `Ndense` dense steps composed with `tensordot` (`_one_step_with_dense_TimeIndep`) -/
def denseT (U1 : TensD α n) (k : Nat) : TensD α n := @denseStep (TensD α n) tensMul U1 k

theorem taylorSteps_succ_last (gen : α → MatD α n n → MatD α n n) (dt : α) (L k : Nat) (x : MatD α n n) :
    taylorSteps gen madd dt L (k + 1) x = taylorStep gen madd dt L (taylorSteps gen madd dt L k x) := by
  rw [taylorSteps_add gen madd dt L k 1 x]
  simp [taylorSteps]

/-- **a time-axis step**: the composed tensor applied to any state is the state after `k+1` elementary steps -/
theorem apply_denseT (gen : α → MatD α n n → MatD α n n) (hg : LinearGen gen) (dtd : α) (L k : Nat) (ρ : MatD α n n) :
    tensApply (denseT (elemStep gen dtd L) k).fn ρ.fn = (taylorSteps gen madd dtd L (k + 1) ρ).fn := by
  induction k with
  | zero =>
    simp only [denseT, denseStep, taylorSteps]
    exact apply_elemStep gen hg dtd L ρ
  | succ k ih =>
    have : denseT (elemStep gen dtd L) (k + 1) = tcomp (elemStep gen dtd L) (denseT (elemStep gen dtd L) k) := rfl
    rw [this, tensApply_tcomp, ih, apply_elemStep gen hg dtd L, taylorSteps_succ_last gen dtd L (k + 1) ρ]

/-- the generator of the density-matrix propagator (Hamiltonian commutator + relaxation tensor) is linear in the state -/
theorem genTensor_linear (ii : α) (H : Mat α n) (R : Tens α n) : LinearGen (genTensor ii H R) := by
  intro c
  refine ⟨fun a b p q => -((ii * c) * ((if b = q then H a p else 0) - (if a = p then H q b else 0))) + c * R a b p q, ?_⟩
  intro ρ a b
  simp only [genTensor, MatD.fn_tab, comm, matMul, tensApply, sumFin_eq_sum]
  have e1 : (∑ k, H a k * ρ.fn k b) = ∑ p, ∑ q, (if b = q then H a p else 0) * ρ.fn p q := by
    refine Finset.sum_congr rfl (fun p _ => ?_)
    simp [ite_mul]
  have e2 : (∑ k, ρ.fn a k * H k b) = ∑ p, ∑ q, (if a = p then H q b else 0) * ρ.fn p q := by
    have : ∀ p, (∑ q, (if a = p then H q b else 0) * ρ.fn p q) = if a = p then ∑ q, H q b * ρ.fn p q else 0 := by
      intro p
      by_cases h : a = p
      · simp [h]
      · simp [h]
    simp only [this]
    simp only [Finset.sum_ite_eq, Finset.mem_univ, if_true]
    exact Finset.sum_congr rfl (fun q _ => by ring)
  rw [e1, e2]
  simp only [Finset.mul_sum, ← Finset.sum_sub_distrib, ← Finset.sum_add_distrib, ← Finset.sum_neg_distrib]
  refine Finset.sum_congr rfl (fun p _ => Finset.sum_congr rfl (fun q _ => by ring))

/-- **`apply(U(t), ρ)` is `propagate(ρ)`** for the propagator with a Hamiltonian and a relaxation tensor: after any
number of dense steps, for every expansion order, step, Hamiltonian, tensor and state -/
theorem apply_eq_propagate (ii : α) (H : Mat α n) (R : Tens α n) (dtd : α) (L k : Nat) (ρ : MatD α n n) :
    tensApply (denseT (elemStep (genTensor ii H R) dtd L) k).fn ρ.fn
      = (taylorSteps (genTensor ii H R) madd dtd L (k + 1) ρ).fn :=
  apply_denseT _ (genTensor_linear ii H R) dtd L k ρ

end QV.Prop
