import QV.Props.C07Covariant
import Mathlib.LinearAlgebra.Matrix.Trace

/-!
# C02 — the trace of the propagated state does not depend on the basis it is propagated in
`trace_sandwich`: `tr(S1 A SS) = tr A` whenever `SS · S1 = 1`.  With `propagate_covariant` the traces stored by a
propagation carried out in another basis are, time by time, those of the propagation in the original basis - for every
expansion order, refinement and number of steps.
-/
namespace QV.Prop
open QV QV.C01 Finset

variable {α : Type} [CommRing α] {n : Nat}

theorem trace_sandwich (S1 SS A : Mat α n) (h3 : ∀ x y, ∑ a, SS x a * S1 a y = if x = y then 1 else 0) :
    QV.trace (sandwich S1 SS A) = QV.trace A := by
  have h3' : Matrix.of SS * Matrix.of S1 = (1 : Matrix (Fin n) (Fin n) α) := by
    ext x y; simp [Matrix.mul_apply, h3, Matrix.one_apply]
  have e : QV.trace (sandwich S1 SS A) = Matrix.trace (Matrix.of S1 * (Matrix.of A * Matrix.of SS)) := by
    simp only [QV.trace, sumFin_eq_sum, Matrix.trace, Matrix.diag, sandwich_eq]
  rw [e, Matrix.trace_mul_comm, Matrix.mul_assoc, h3', Matrix.mul_one]
  simp [QV.trace, sumFin_eq_sum, Matrix.trace, Matrix.diag]

/-- **the stored traces are the same in every basis** -/
theorem propagate_trace_basis_independent {β : Type} [Field β] (ii : β) (S1 SS H : Mat β n) (R : Tens β n) (dt : β)
    (L Nref nt : Nat) (ρ0 ρ0' : MatD β n n)
    (h1 : ∀ x y, ∑ c, S1 c x * S1 c y = if x = y then 1 else 0)
    (h2 : ∀ x y, ∑ d, SS x d * SS y d = if x = y then 1 else 0)
    (h3 : ∀ x y, ∑ a, SS x a * S1 a y = if x = y then 1 else 0)
    (h0 : ρ0'.fn = sandwich S1 SS ρ0.fn) :
    List.Forall₂ (fun x y => QV.trace y.fn = QV.trace x.fn)
      (rdmPropagate (genTensor ii H R) dt L Nref nt ρ0)
      (rdmPropagate (genTensor ii (sandwich S1 SS H) (transformTwoPass S1 SS R)) dt L Nref nt ρ0') := by
  refine List.Forall₂.imp ?_ (propagate_covariant ii S1 SS H R dt L Nref nt ρ0 ρ0' h1 h2 h3 h0)
  intro x y hxy
  rw [hxy, trace_sandwich S1 SS x.fn h3]

section herm
variable {β : Type} [Field β] [StarRing β]

/-- a Hermitian matrix stays Hermitian under the sandwich with a real orthogonal pair -/
theorem sandwich_herm (S1 SS A : Mat β n) (hreal : ∀ x y, star (SS x y) = SS x y) (hT : ∀ x y, S1 x y = SS y x)
    (hA : ∀ i j, star (A i j) = A j i) (i j : Fin n) :
    star (sandwich S1 SS A i j) = sandwich S1 SS A j i := by
  have ht : sandwich S1 SS A j i = sandwich S1 SS (fun i j => A j i) i j :=
    congrFun (congrFun (sandwich_transpose S1 SS A hT) i) j
  rw [ht]
  simp only [sandwich, matMul, sumFin_eq_sum, star_sum, star_mul', hT, hreal, hA]

/-- **Hermiticity of the stored states carries over to every basis** -/
theorem propagate_herm_basis {ii : β} (S1 SS H : Mat β n) (R : Tens β n) (dt : β)
    (L Nref nt : Nat) (ρ0 ρ0' : MatD β n n)
    (h1 : ∀ x y, ∑ c, S1 c x * S1 c y = if x = y then 1 else 0)
    (h2 : ∀ x y, ∑ d, SS x d * SS y d = if x = y then 1 else 0)
    (h3 : ∀ x y, ∑ a, SS x a * S1 a y = if x = y then 1 else 0)
    (hreal : ∀ x y, star (SS x y) = SS x y) (hT : ∀ x y, S1 x y = SS y x)
    (h0 : ρ0'.fn = sandwich S1 SS ρ0.fn) :
    List.Forall₂ (fun x y => (∀ i j, star (x.fn i j) = x.fn j i) → ∀ i j, star (y.fn i j) = y.fn j i)
      (rdmPropagate (genTensor ii H R) dt L Nref nt ρ0)
      (rdmPropagate (genTensor ii (sandwich S1 SS H) (transformTwoPass S1 SS R)) dt L Nref nt ρ0') := by
  refine List.Forall₂.imp ?_ (propagate_covariant ii S1 SS H R dt L Nref nt ρ0 ρ0' h1 h2 h3 h0)
  intro x y hxy hx i j
  rw [hxy]
  exact sandwich_herm S1 SS x.fn hreal hT hx i j
end herm

end QV.Prop
