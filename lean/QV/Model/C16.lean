import QV.Core.Tab
import QV.Model.Taylor
/-!
Model of the Kubo–Tanimura hierarchy bookkeeping (quantarhei/qm/liouvillespace/heom.py):
`generate_indices`, `_convert_2_matrix` (offsets), `_make_nmp1`, `_make_Gamma`,
and of one application of the right-hand sides `_ado_self_rhs` / `_ado_cros_rhs`.
-/
namespace QV.C16

/-- `nlist = old.copy(); nlist[nn] += 1` -/
def inc : List Nat → Nat → List Nat
  | [], _ => []
  | x :: xs, 0 => (x + 1) :: xs
  | x :: xs, n + 1 => x :: inc xs n

/-- `indxm[kk] -= 1`; `none` when the entry is 0 (numpy gives −1, which matches nothing) -/
def dec : List Nat → Nat → Option (List Nat)
  | [], _ => none
  | x :: xs, 0 => if x = 0 then none else some ((x - 1) :: xs)
  | x :: xs, n + 1 => (dec xs n).map (x :: ·)

/-- `if nlist not in new_level_prev: new_level_prev.append(nlist)` folded over the candidates -/
def appendNew (acc : List (List Nat)) (x : List Nat) : List (List Nat) :=
  if x ∈ acc then acc else acc ++ [x]

/-- candidates of the next level in generation order: for old in level: for nn in range(N) -/
def candidates (N : Nat) (lvl : List (List Nat)) : List (List Nat) :=
  lvl.flatMap (fun old => (List.range N).map (fun nn => inc old nn))

def nextLevel (N : Nat) (lvl : List (List Nat)) : List (List Nat) :=
  (candidates N lvl).foldl appendNew []

/-- level `k` of the hierarchy for `N` baths -/
def level (N : Nat) : Nat → List (List Nat)
  | 0 => [List.replicate N 0]
  | k + 1 => nextLevel N (level N k)

/-- `generate_indices(N, depth)`: levels 0 … depth -/
def genLevels (N depth : Nat) : List (List (List Nat)) := (List.range (depth + 1)).map (level N)

/-- `hinds`: all levels concatenated -/
def hinds (N depth : Nat) : List (List Nat) := (genLevels N depth).flatten

/-- `levels` (start offsets) and `levlengths` -/
def levLengths (N depth : Nat) : List Nat := (genLevels N depth).map List.length
def levStarts (N depth : Nat) : List Nat :=
  (List.range (depth + 1)).map (fun k => ((levLengths N depth).take k).sum)

/-- last index `ll < bound` with `h[ll] = v`, or −1 -/
def findLast (h : List (List Nat)) (bound : Nat) (v : List Nat) : Int :=
  (List.range bound).foldl (fun (acc : Int) (ll : Nat) => if h[ll]? = some v then (ll : Int) else acc) (-1)

def nm1 (h : List (List Nat)) (nn kk : Nat) : Int :=
  match h[nn]? with
  | none => -1
  | some v => match dec v kk with
    | none => -1
    | some w => findLast h nn w

def np1 (h : List (List Nat)) (nn kk : Nat) : Int :=
  match h[nn]? with
  | none => -1
  | some v => findLast h h.length (inc v kk)

section
variable {α : Type} [Add α] [Mul α] [Zero α] [NatCast α]
/-- `Gamma[nn] = Σ_k hinds[nn,k]·gamma[k]` -/
def bigGamma (gamma : List α) (v : List Nat) : α :=
  ((v.zip gamma).map (fun p => (p.1 : α) * p.2)).sum
end

end QV.C16

namespace QV.C16
open QV

/-! ## right-hand sides of the hierarchy (one application with time factor `c`) -/
section
variable {α : Type} [Add α] [Sub α] [Mul α] [Neg α] [Zero α] [NatCast α] [Inhabited α]

/-- static description of a hierarchy -/
structure Hier (α : Type) (n : Nat) where
  nbath : Nat
  h : List (List Nat)                 -- hinds
  HH : Fin n → Fin n → α               -- Hamiltonian (minus the RWA reference)
  Vs : Array (Fin n → Fin n → α)       -- system parts of the system–bath coupling
  lam : Array α
  gamma : Array α
  kBT : α
  ii : α                               -- the imaginary unit
  two : α

abbrev Ado (α : Type) (n : Nat) := Array (MatD α n n)

/-- python indexing `ado1[jj]` with negative `jj` counting from the end -/
def pyGet {n : Nat} (ado : Ado α n) (jj : Int) : Fin n → Fin n → α :=
  let idx : Nat := if jj < 0 then (ado.size - jj.natAbs) else jj.toNat
  (ado[idx]!).fn

def matAdd {n : Nat} (A B : Fin n → Fin n → α) : Fin n → Fin n → α := fun a b => A a b + B a b
def matSub {n : Nat} (A B : Fin n → Fin n → α) : Fin n → Fin n → α := fun a b => A a b - B a b
def matScale {n : Nat} (c : α) (A : Fin n → Fin n → α) : Fin n → Fin n → α := fun a b => c * A a b

/-- `_ado_self_rhs(ado1, c)` -/
def selfRhs {n : Nat} (hy : Hier α n) (ado : Ado α n) (c : α) (slevel : Nat) : Ado α n :=
  Array.ofFn (n := ado.size) fun nn =>
    if nn.val < slevel then MatD.tab (fun _ _ => 0)
    else
      let A := (ado[nn]).fn
      let G : α := bigGamma hy.gamma.toList (hy.h[nn.val]?.getD [])
      MatD.tab (matScale (-c) (matAdd (matScale hy.ii (matSub (matMul hy.HH A) (matMul A hy.HH))) (matScale G A)))

/-- `_ado_cros_rhs(ado1, c)` -/
def crosRhs {n : Nat} (hy : Hier α n) (ado : Ado α n) (c : α) (slevel : Nat) : Ado α n :=
  Array.ofFn (n := ado.size) fun nn =>
    if nn.val < slevel then MatD.tab (fun _ _ => 0)
    else
      let v := hy.h[nn.val]?.getD []
      let acc := (List.range hy.nbath).foldl (fun (acc : MatD α n n) kk =>
        let nk : Nat := v[kk]?.getD 0
        let jj := nm1 hy.h nn.val kk
        let V := hy.Vs[kk]!
        let acc1 : MatD α n n :=
          if (nk : Int) * jj ≥ 0 then
            let A := pyGet ado jj
            let rr := matMul V A
            let rl := matMul A V
            let th := matScale (c * (nk : α) * hy.lam[kk]! * hy.gamma[kk]!) (matAdd rr rl)
            let ps := matScale ((hy.ii * c) * hy.two * (nk : α) * hy.lam[kk]! * hy.kBT) (matSub rr rl)
            MatD.tab (matAdd (matAdd acc.fn th) ps)
          else acc
        let jp := np1 hy.h nn.val kk
        if jp > 0 then
          let A := pyGet ado jp
          MatD.tab (matAdd acc1.fn (matScale (hy.ii * c) (matSub (matMul V A) (matMul A V))))
        else acc1) (MatD.tab (fun _ _ => 0))
      acc

def adoAdd {n : Nat} (a b : Ado α n) : Ado α n :=
  Array.ofFn (n := a.size) fun i => MatD.tab (matAdd (a[i]).fn ((b[i.val]!).fn))

/-- `c * GEN(ado)` of the propagate loop -/
def heomGen {n : Nat} (hy : Hier α n) (slevel : Nat) (c : α) (ado : Ado α n) : Ado α n :=
  adoAdd (crosRhs hy ado c slevel) (selfRhs hy ado c slevel)
end

/-- `KTHierarchyPropagator.propagate`: reduced density matrix at the stored times -/
def heomPropagate {α : Type} [Add α] [Sub α] [Mul α] [Neg α] [Zero α] [NatCast α] [Inhabited α] [Div α]
    {n : Nat} (hy : Hier α n) (dt : α) (L nt : Nat) (rho0 : Fin n → Fin n → α) : List (MatD α n n) :=
  let ado0 : Ado α n := Array.ofFn (n := hy.h.length) fun i =>
    if i.val = 0 then MatD.tab rho0 else MatD.tab (fun _ _ => 0)
  (taylorTrajectory (heomGen hy 0) adoAdd dt L 1 nt ado0).map (fun a => a[0]!)

end QV.C16
