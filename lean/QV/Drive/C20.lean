import QV.Core.Num
import QV.Model.C20
open QV QV.C20 QV.Gen.C20

def showInts (l : List Int) : String := " ".intercalate (l.map toString)

def step (_ : Unit) (ts : List String) : Unit × String :=
  match ts with
  | ["ranges", s, a, b] =>
    match s.toInt?, a.toInt?, b.toInt? with
    | some s, some a, some b =>
      ((), " ".intercalate ((List.range s.toNat).map fun (k : Nat) => let r : Int := k;
        s!"{rangeLo s r a b}:{rangeHi s r a b}"))
    | _, _, _ => ((), "bad-op")
  | ["api", mode, s, a, b] =>
    match s.toInt?, a.toInt?, b.toInt? with
    | some s, some a, some b =>
      ((), " | ".intercalate ((List.range s.toNat).map fun (k : Nat) => let r : Int := k;
        showInts (if mode == "par" then blockRange s r a b else serialRange a b)))
    | _, _, _ => ((), "bad-op")
  | _ => ((), "bad-op")

def main : IO Unit := runDriver step ()
