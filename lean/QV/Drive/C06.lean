import QV.Core.Num
import QV.Model.C06
open QV QV.C06

def showRats (l : List Rat) : String := " ".intercalate (l.map showRat)

def splitBar (ts : List String) : List (List String) :=
  let (acc, cur) := ts.foldl (fun (p : List (List String) × List String) t =>
    if t == "|" then (p.1 ++ [p.2], []) else (p.1, p.2 ++ [t])) ([], [])
  acc ++ [cur]

/-- value of a tabulated function of the transition frequency: the table entry of the first pair
`(a, b)` whose exact energy difference is the argument; an argument that is no transition frequency
gives an absurd value that shows up in the comparison -/
def lookup {n : Nat} (E : Fin n → Rat) (tab : Fin n → Fin n → Rat) (x : Rat) : Rat :=
  match (List.finRange n).findSome? (fun a => (List.finRange n).findSome? (fun b =>
      if E a - E b = x then some (tab a b) else none)) with
  | some v => v
  | none => 123456789012345678901234567890

def step' (_ : Unit) (ts : List String) : Unit × String :=
  match ts with
  | "redfield" :: n :: nk :: cutoff :: rtol :: "|" :: rest =>
    match n.toNat?, nk.toNat?, parseRat? cutoff, parseRat? rtol, (splitBar rest).mapM parseRats? with
    | some n, some nk, some cutoff, some rtol, some [e, s1, s, kk, cwt, bz] =>
      if e.length = n ∧ s1.length = n * n ∧ s.length = n * n ∧ kk.length = nk * n * n ∧ cwt.length = nk * n * n
          ∧ bz.length = n * n then
        let E : Fin n → Rat := vecOfArray n e.toArray
        let S1 : Fin n → Fin n → Rat := matOfArray n n s1.toArray
        let S : Fin n → Fin n → Rat := matOfArray n n s.toArray
        let KKa := kk.toArray
        let CWa := cwt.toArray
        let KK : Fin nk → Fin n → Fin n → Rat := fun k i j => KKa[k.val * n * n + i.val * n + j.val]!
        let cwT : Fin nk → Fin n → Fin n → Rat := fun k i j => CWa[k.val * n * n + i.val * n + j.val]!
        let bzT : Fin n → Fin n → Rat := matOfArray n n bz.toArray
        -- tabulate the transformed operators once (the model is a function; evaluation would repeat the products)
        let KI : Fin nk → MatD Rat n n := fun k => MatD.tab (toEigen S1 S (KK k))
        let KIv : VecD (MatD Rat n n) nk := VecD.tab KI
        let R := rateMatrix rtol (fun k => (KIv.fn k).fn)
                   (fun k => ccEntry cutoff (lookup E (cwT k)) (lookup E bzT) E)
        ((), showRats (listOfMat R))
      else ((), "bad-op")
    | _, _, _, _, _ => ((), "bad-op")
  | "foerster" :: n :: "|" :: rest =>
    match n.toNat?, (splitBar rest).mapM parseRats? with
    | some n, some [h, f] =>
      if h.length = n * n ∧ f.length = n * n then
        let H : Fin n → Fin n → Rat := matOfArray n n h.toArray
        let F : Fin n → Fin n → Rat := matOfArray n n f.toArray
        ((), showRats (listOfMat (foersterRates H F)))
      else ((), "bad-op")
    | _, _ => ((), "bad-op")
  | _ => ((), "bad-op")

def main : IO Unit := runDriver step' ()
