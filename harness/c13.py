"""C13 - Fourier transforms and time/frequency axes are mutually inverse."""
import math
from qvh.core import *

DRIVER = "C13"
PROPS = "QV.Props.C13"


def run(ck):
    import numpy
    qr = import_quantarhei()
    from quantarhei import TimeAxis, FrequencyAxis, DFunction, energy_units
    rng = ck.rng
    PI = math.pi
    ck.rule = ("(a) axes: random dyadic starts/steps, lengths 2..64 (even and odd), both axis types, zero and non-zero frequency/time offsets, "
               "conversions done in internal units and inside energy_units('1/cm'/'eV') contexts: every field of the converted axis vs the "
               "rational model (frequencies divided by pi, rel 1e-12) and both round trips; (b) transforms: random complex dyadic data on "
               "centred complete axes of even and odd length and on upper-half axes: values vs the model's index map evaluated with the "
               "numerical root of unity (1e-9*scale), vs the direct Fourier sum on the returned axis, and transform-then-inverse; "
               "non-trivial = odd length or non-zero offset or length >= 3")
    ck.trusted += ["harness/c13.py; hand model QV/Model/C13.lean validated on generated inputs",
                   "numpy.fft computes the DFT with e^{-2 pi i/n} (contract; re-validated by the direct-sum oracle on every case)",
                   "the model's roots of unity are handed over as floating-point numbers (exact rationals of the floats)"]
    ck.prove(PROPS, extra_modules=["QV.Drive.C13"], also=["QV.Props.C13Inverse", "QV.Props.C13Linear"])
    lines, impl, kinds = [], [], []

    def emit(l, o, k):
        lines.append(l); impl.append(o); kinds.append(k)

    def dy(lo, hi, den):
        return rng.randint(lo * den, hi * den) / den

    # ---- (a) axes -------------------------------------------------------------------------------------
    for h in range(ck.n(120, 3000)):
        N = rng.randint(2, 64)
        dt = rng.choice([0.25, 0.5, 1.0, 2.0, 0.125, 3.0])
        if h % 7 == 3:
            dt = -dt                      # a descending axis (the constructor accepts a negative step)
        start = dy(-50, 50, 4) if rng.random() < 0.7 else 0.0
        upper = rng.random() < 0.5
        fs = rng.choice([0.0, 0.0, 1.5, -0.75, 2.25])
        ctx = rng.choice([None, None, "1/cm", "eV"])
        inp = {"start": start, "N": N, "dt": dt, "atype": "upper-half" if upper else "complete", "frequency_start": fs, "units": ctx}
        try:
            t = TimeAxis(start, N, dt, atype="upper-half" if upper else "complete", frequency_start=fs)
            if ctx:
                with energy_units(ctx):
                    w = t.get_FrequencyAxis()
                    t2 = w.get_TimeAxis()
                    w2 = t2.get_FrequencyAxis()
            else:
                w = t.get_FrequencyAxis()
                t2 = w.get_TimeAxis()
                w2 = t2.get_FrequencyAxis()
            with energy_units("int"):
                wf = (w.start, w.length, w.step, w.atype, w.time_start, numpy.array(w.data).copy())
                w2f = (w2.start, w2.length, w2.step, w2.atype, w2.time_start, numpy.array(w2.data).copy())
        except Exception as e:
            ck.fail("raises:axes", "axis conversion raised %r" % (e,), inp)
            continue
        ck.case(("axis", start, N, dt, upper, fs, ctx), nontrivial=(N % 2 == 1 or fs != 0.0 or start != 0.0), kind="axes",
                atype=inp["atype"], parity="odd" if N % 2 else "even", units=str(ctx), sample=inp if h < 2 else None)
        if dt > 0:
          emit("tofreq %d %s %d %s %s" % (1 if upper else 0, frac(start), N, frac(dt), frac(fs / PI)),
             "%s %d %s %d %s" % (frac(wf[0] / PI), wf[1], frac(wf[2] / PI), 1 if wf[3] == "upper-half" else 0, frac(wf[4])), "axis")
          emit("totime %d %s %d %s %s" % (1 if wf[3] == "upper-half" else 0, frac(wf[0] / PI), wf[1], frac(wf[2] / PI), frac(wf[4])),
             "%s %d %s %d %s" % (frac(t2.start), t2.length, frac(t2.step), 1 if t2.atype == "upper-half" else 0, frac(t2.frequency_start / PI)), "axis")
        # oracle: round trips
        sc = max(1.0, abs(start) + N * abs(dt))
        if (t2.length != N or t2.atype != t.atype or abs(t2.start - start) > 1e-9 * sc or abs(t2.step - dt) > 1e-12 * abs(dt)
                or numpy.abs(numpy.array(t2.data) - numpy.array(t.data)).max() > 1e-9 * sc or abs(t2.frequency_start - fs) > 1e-9 * max(1.0, abs(fs))):
            ck.fail("axis:time-freq-time", "time axis -> frequency axis -> time axis is not the identity", inp,
                    [t2.start, t2.length, t2.step, t2.atype, t2.frequency_start])
        scw = max(1.0, float(numpy.abs(wf[5]).max()))
        if w2f[1] != wf[1] or numpy.abs(w2f[5] - wf[5]).max() > 1e-9 * scw or abs(w2f[4] - wf[4]) > 1e-9 * sc:
            ck.fail("axis:freq-time-freq", "frequency axis -> time axis -> frequency axis is not the identity", inp,
                    float(numpy.abs(w2f[5] - wf[5]).max()) if w2f[1] == wf[1] else "length")
        # a copy of the time axis moved to zero (what the 2D containers do before transforming): the axis it was copied from stays where it is
        if h % 3 == 2 and start > 0 and dt > 0:
            try:
                t_orig = numpy.array(t.data).copy()
                tcp = t.copy(); tcp.shift_to_zero()
                back_ = t.get_FrequencyAxis().get_TimeAxis()
                if numpy.abs(numpy.array(t.data) - t_orig).max() != 0.0 or abs(back_.start - start) > 1e-9 * sc or numpy.abs(numpy.array(back_.data) - t_orig).max() > 1e-9 * sc:
                    ck.fail("axis:copy-shifted:original-changed", "after copy().shift_to_zero() the original time axis (or the axis its frequency axis maps back to) "
                            "no longer holds its values", inp, [float(numpy.array(t.data)[0]), float(back_.start)], start)
            except Exception as e:
                ck.fail("raises:axes:copy-shifted", "raised %r" % (e,), inp)
        # the copy of a derived frequency axis (what the spectrum classes keep) maps back to the same time axis
        if h % 2 == 1:
            try:
                with (energy_units(ctx) if ctx else energy_units("int")):
                    tc = w.copy().get_TimeAxis()
                if (tc.length != N or tc.atype != t.atype or abs(tc.start - start) > 1e-9 * sc or abs(tc.step - dt) > 1e-12 * abs(dt)
                        or numpy.abs(numpy.array(tc.data) - numpy.array(t.data)).max() > 1e-9 * sc):
                    ck.fail("axis:time-freq-copy-time", "time axis -> frequency axis -> copy() -> time axis is not the identity", inp,
                            [tc.start, tc.length, tc.step, tc.atype])
            except Exception as e:
                ck.fail("raises:axes:copy", "copy of a frequency axis / its time axis raised %r" % (e,), inp)
        # a history on ONE axis object: asked for its frequency axis (above), then moved (shift_to_zero) or given another frequency
        # origin, then asked again: the answer is that of a fresh axis with the present parameters, and it maps back to the present axis
        if h % 3 == 0:
            try:
                th = TimeAxis(abs(start) + abs(dt), N, dt, atype=t.atype, frequency_start=fs)
                th.get_FrequencyAxis()
                how = ("shift_to_zero", "frequency_start")[(h // 3) % 2]
                if how == "shift_to_zero":
                    th.shift_to_zero()
                else:
                    th.frequency_start = fs + 0.75
                wh = th.get_FrequencyAxis()
                tb = wh.get_TimeAxis()
                fresh = TimeAxis(th.start, N, dt, atype=th.atype, frequency_start=th.frequency_start).get_FrequencyAxis()
                with energy_units("int"):
                    a_ = (wh.start, wh.length, wh.step, wh.atype, wh.time_start)
                    b_ = (fresh.start, fresh.length, fresh.step, fresh.atype, fresh.time_start)
                inph = dict(inp, start=abs(start) + abs(dt), history="get_FrequencyAxis; %s; get_FrequencyAxis" % how)
                ck.case(("axis-history", N, dt, upper, fs, how), nontrivial=True, kind="axes", atype=inp["atype"], parity="odd" if N % 2 else "even",
                        units="history")
                if a_[1] != b_[1] or a_[3] != b_[3] or max(abs(a_[0] - b_[0]), abs(a_[2] - b_[2]), abs(a_[4] - b_[4])) > 1e-9 * sc:
                    ck.fail("axis:history:frequency-axis", "frequency axis of a time axis that was changed after an earlier request differs from "
                            "that of a fresh axis with the same parameters", inph, list(a_), list(b_))
                if (tb.length != N or tb.atype != th.atype or abs(tb.start - th.start) > 1e-9 * sc or abs(tb.step - dt) > 1e-12 * abs(dt)
                        or abs(tb.frequency_start - th.frequency_start) > 1e-9 * max(1.0, abs(th.frequency_start))):
                    ck.fail("axis:history:time-freq-time", "time axis -> frequency axis -> time axis is not the identity for an axis that was "
                            "changed after an earlier request", inph, [tb.start, tb.length, tb.step, tb.atype, tb.frequency_start],
                            [th.start, N, dt, th.atype, th.frequency_start])
            except Exception as e:
                ck.fail("raises:axes:history", "axis history raised %r" % (e,), inp)
    # ---- (b) transforms ---------------------------------------------------------------------------------
    for h in range(ck.n(60, 1200)):
        N = rng.randint(2, 33) if rng.random() < 0.8 else rng.randint(34, 64)
        dt = rng.choice([0.25, 0.5, 1.0, 2.0])
        upper = rng.random() < 0.4
        y = numpy.array([rng.randint(-8, 8) / 8.0 + 1j * rng.randint(-8, 8) / 8.0 for _ in range(N)])
        # "all complex-valued data": the overall magnitude is part of the data (powers of two, so the exact model values scale exactly)
        yscale = (1.0, 2.0 ** -50, 2.0 ** 40, 1.0, 2.0 ** -70)[h % 5]
        y = y * yscale
        if upper:
            y[0] = y[0].real            # Hermitian-extendable: f(0) real
            t = TimeAxis(0.0, N, dt)
        else:
            t = TimeAxis(-(N // 2) * dt, N, dt, atype="complete")
        inp = {"N": N, "dt": dt, "atype": t.atype, "y": [str(z) for z in y[:6]], "scale": yscale}
        # how the values got into the function: at construction, by assignment to .data of a function built real, or
        # by apply_to_data on a real function - the transform may only depend on axis and values
        how = rng.choice(["constructor", "constructor", "assigned", "applied"])
        if h % 6 == 5:
            # whole-number samples handed over as an integer array (real data; on a half axis they are Hermitian-extendable as they are)
            y = numpy.array([rng.randint(-8, 8) for _ in range(N)], dtype=int)
            yscale = 1.0
            how = "integer array"
            inp["y"] = [str(z) for z in y[:6]]; inp["scale"] = 1.0
        inp["values_set_by"] = how
        try:
            if how in ("constructor", "integer array"):
                f = DFunction(t, y.copy())
            elif how == "assigned":
                f = DFunction(t, numpy.real(y).copy())
                f.data = y.copy()
            else:
                f = DFunction(t, numpy.ones(N))
                f.apply_to_data(lambda d_: d_ * y)
            F = f.get_Fourier_transform()
            with energy_units("int"):
                wd = numpy.array(F.axis.data).copy()
            Fd = numpy.array(F.data)
            back = F.get_inverse_Fourier_transform()
            bd = numpy.array(back.data)
        except Exception as e:
            ck.fail("raises:ft", "Fourier transform raised %r" % (e,), inp)
            continue
        ck.case(("ft", N, dt, upper, how, y.tobytes()), nontrivial=(N >= 3), kind="transform", atype=t.atype, parity="odd" if N % 2 else "even", values_set_by=how,
                sample=inp if h < 1 else None)
        sc = max(yscale, float(numpy.abs(Fd).max()))
        td = numpy.array(t.data)
        if upper:
            tt = numpy.concatenate([td, -td[1:]])
            yy = numpy.concatenate([y, numpy.conj(y[1:])])
        else:
            tt, yy = td, y
        ref = numpy.array([numpy.sum(yy * numpy.exp(1j * w_ * tt)) * dt for w_ in wd])
        dev = float(numpy.abs(Fd - ref).max())
        key = "ft:%s:%s" % ("upper" if upper else "complete", "odd" if N % 2 else "even")
        if len(wd) != len(Fd) or dev > 1e-9 * sc * max(1, N):
            ck.fail(key, "Fourier transform differs from the direct Fourier sum at the frequencies of the returned axis", inp, dev, 1e-9 * sc * N)
        rt = float(numpy.abs(bd[:N] - y).max()) if len(bd) >= N else float("inf")
        if rt > 1e-9 * max(yscale, float(numpy.abs(y).max())) * N or numpy.abs(numpy.array(back.axis.data)[:N] - td).max() > 1e-9 * max(1.0, abs(td).max()):
            ck.fail("roundtrip:%s:%s" % ("upper" if upper else "complete", "odd" if N % 2 else "even"),
                    "transforming and inverse-transforming does not return the original values on the original axis", inp, rt)
        # the pair in the other order: the inverse transform of a function of time (direct sum with e^{-iwt}, Hermitian extension on
        # half axes) and the transform of the result (a function on a frequency axis) back to time
        try:
            G = f.get_inverse_Fourier_transform()
            Gd = numpy.array(G.data)
            with energy_units("int"):
                wg = numpy.array(G.axis.data).copy()
            refg = numpy.array([numpy.sum(yy * numpy.exp(-1j * w_ * tt)) * dt for w_ in wg])
            devg = float(numpy.abs(Gd - refg).max()) if len(Gd) == len(refg) else float("inf")
            scg = max(yscale, float(numpy.abs(refg).max()))
            if devg > 1e-9 * scg * max(1, N):
                ck.fail("ift:%s:%s" % ("upper" if upper else "complete", "odd" if N % 2 else "even"),
                        "inverse Fourier transform of a function of time differs from the direct sum with exp(-i w t) on the returned axis", inp, devg)
            # the model of this direction is the same index map with the conjugate root
            if upper and len(Gd) == 2 * N and N <= (20 if ck.quick else 40):
                z2c = complex(math.cos(PI / N), -math.sin(PI / N))
                emit("ftu %d %s %s %s" % (N, cfrac(dt), cfrac(z2c), " ".join(cfrac(v) for v in y)), " ".join(cfrac(v) for v in Gd), "ft")
            elif not upper and len(Gd) == N and N <= 40:
                zc = complex(math.cos(2 * PI / N), -math.sin(2 * PI / N))
                emit("ft %d %s %s %s" % (N, cfrac(dt), cfrac(zc), " ".join(cfrac(v) for v in y)), " ".join(cfrac(v) for v in Gd), "ft")
            gb = numpy.array(G.get_Fourier_transform().data)
            rt2 = float(numpy.abs(gb[:N] - y).max()) if len(gb) >= N else float("inf")
            ck.resid("inverse transform then transform (time -> frequency -> time)", rt2)
            if rt2 > 1e-9 * max(yscale, float(numpy.abs(y).max())) * N:
                ck.fail("roundtrip:inverse-first:%s:%s" % ("upper" if upper else "complete", "odd" if N % 2 else "even"),
                        "inverse-transforming and then transforming does not return the original values", inp, rt2)
        except Exception as e:
            ck.fail("raises:ift-first", "inverse transform of a function of time raised %r" % (e,), inp)
        # the same inside a units context: neither transform may depend on the units that happen to be current
        try:
            uc = rng.choice(["1/cm", "eV", "THz"])
            with energy_units(uc):
                Fu = f.get_Fourier_transform()
                bu = numpy.array(Fu.get_inverse_Fourier_transform().data)
                bu2 = numpy.array(F.get_inverse_Fourier_transform().data)
            du = max(float(numpy.abs(numpy.array(Fu.data) - Fd).max()) / sc,
                     float(numpy.abs(bu - bd).max()) / yscale, float(numpy.abs(bu2 - bd).max()) / yscale)
            ck.resid("transforms inside a units context vs outside", du)
            if du > 1e-9 * N:
                ck.fail("roundtrip:units-context", "Fourier transform or its inverse gives other values inside energy_units(%r)" % uc,
                        dict(inp, units=uc), du)
        except Exception as e:
            ck.fail("raises:ft:units-context", "transform inside a units context raised %r" % (e,), inp)
        # a refused request in between (axis of a type the transforms do not know): the function and its later transforms are as before
        if h % 3 == 1:
            try:
                at0 = f.axis.atype
                f.axis.atype = "other"
                refused = 0
                for meth in (f.get_inverse_Fourier_transform, f.get_Fourier_transform):
                    try:
                        meth()
                    except Exception:
                        refused += 1
                f.axis.atype = at0
                ck.dist["refused transforms in a history=%d" % refused] += 1
                F3 = numpy.array(f.get_Fourier_transform().data)
                d3 = max(float(numpy.abs(F3 - Fd).max()) / sc if len(F3) == len(Fd) else float("inf"),
                         float(numpy.abs(numpy.array(f.data) - y).max()) / max(yscale, 1e-300))
                if d3 > 1e-12 * N:
                    ck.fail("history:after-refused-transform", "after a refused transform the function or its Fourier transform differs from before",
                            dict(inp, history="axis type set to an unknown one; transforms refused; axis type restored; get_Fourier_transform"), d3)
            except Exception as e:
                ck.fail("raises:ft:after-refused", "history with a refused transform raised %r" % (e,), inp)
        # a window function handed to the transform: the result is the Fourier sum of the windowed values (also when the windowed
        # values need a richer number type than the stored ones: whole-number data with a fractional window)
        if h % 4 == 2 or h % 6 == 5:
            try:
                wv = numpy.array([rng.randint(0, 8) / 8.0 for _ in range(N)])
                Fw = f.get_Fourier_transform(window=DFunction(t, wv.copy()))
                Fwd = numpy.array(Fw.data)
                yw = yy * (numpy.concatenate([wv, wv[1:]]) if upper else wv)
                refw = numpy.array([numpy.sum(yw * numpy.exp(1j * w_ * tt)) * dt for w_ in wd])
                devw = float(numpy.abs(Fwd - refw).max()) if len(Fwd) == len(refw) else float("inf")
                ck.case(("ft-window", N, dt, upper, y.tobytes(), wv.tobytes()), nontrivial=(N >= 3), kind="transform", atype=t.atype,
                        parity="odd" if N % 2 else "even", values_set_by="window")
                if devw > 1e-9 * sc * max(1, N):
                    ck.fail(key + ":window", "Fourier transform with a window differs from the direct Fourier sum of the windowed values",
                            dict(inp, window=wv[:6].tolist()), devw)
                if numpy.abs(numpy.array(f.data) - y).max() != 0.0:
                    ck.fail(key + ":window:data", "transforming with a window changed the values of the function", dict(inp, window=wv[:6].tolist()))
                if upper and len(Fwd) == 2 * N and N <= (20 if ck.quick else 40):
                    emit("ftu %d %s %s %s" % (N, cfrac(dt), cfrac(complex(math.cos(PI / N), math.sin(PI / N))), " ".join(cfrac(v) for v in y * wv)),
                         " ".join(cfrac(v) for v in Fwd), "ft")
                elif not upper and N <= 40:
                    emit("ft %d %s %s %s" % (N, cfrac(dt), cfrac(complex(math.cos(2 * PI / N), math.sin(2 * PI / N))), " ".join(cfrac(v) for v in y * wv)),
                         " ".join(cfrac(v) for v in Fwd), "ft")
            except Exception as e:
                ck.fail("raises:ft:window", "transform with a window raised %r" % (e,), inp)
        if upper and len(Fd) == 2 * N and len(bd) == N and N <= (20 if ck.quick else 40):
            # upper-half axes: the Hermitian extension + 2N-point transform, and the upper half of the complete inverse
            z2 = complex(math.cos(PI / N), math.sin(PI / N))
            emit("ftu %d %s %s %s" % (N, cfrac(dt), cfrac(z2), " ".join(cfrac(v) for v in y)), " ".join(cfrac(v) for v in Fd), "ft")
            with energy_units("int"):
                cw = float(F.axis.step) / (2 * PI)
            emit("iftu %d %s %s %s" % (2 * N, cfrac(cw), cfrac(z2.conjugate()), " ".join(cfrac(v) for v in Fd)), " ".join(cfrac(v) for v in bd), "ft")
        if not upper:
            z = complex(math.cos(2 * PI / N), math.sin(2 * PI / N))
            emit("ft %d %s %s %s" % (N, cfrac(dt), cfrac(z), " ".join(cfrac(v) for v in y)), " ".join(cfrac(v) for v in Fd), "ft")
            # the inverse transform of the same data: conjugate root, extra factor step_w/(2 pi) handled by the code on frequency axes
    model = ck.drive(DRIVER, lines)
    if model is not None:
        for l, a, b, k in zip(lines, impl, model, kinds):
            ck.traces += 1
            if k == "axis":
                fa, fb = a.split(), b.split()
                bad = len(fa) != len(fb)
                for i, (x, y_) in enumerate(zip(fa, fb)):
                    if i in (1, 3):
                        bad = bad or x != y_
                    else:
                        xv, yv = float(Fraction(x)), float(Fraction(y_))
                        bad = bad or abs(xv - yv) > 1e-11 * max(1.0, abs(yv))
                if bad:
                    ck.disagree("axis fields differ", l, a, b)
            else:
                va = [cfrac_to_complex(x) for x in a.split()]
                vb = [cfrac_to_complex(x) for x in b.split()]
                d = max(abs(x - y_) for x, y_ in zip(va, vb)) if len(va) == len(vb) else float("inf")
                ck.resid("max |impl-model| (ft)", d if d != float("inf") else 1e300)
                if d > 1e-9 * max([1e-300] + [abs(v) for v in vb]) * len(vb):     # relative to the size of the data, whatever it is
                    ck.disagree("transform differs by %.3g" % d, l[:120], a[:160], b[:160])
    return ck.finish()
