import QV.Props.C10
import Mathlib.Analysis.Complex.Basic

/-!
# C10 — displacements with an imaginary part: the shift operator is unitary

`operator_factory.shift_operator(d)` exponentiates `(d·a† − conj(d)·a)/√2` (`a† = aᴴ`).  For a complex displacement
`d` (a shift in momentum as well as in position; the package's own docstring uses `shift_operator(1j)`) the generator
is anti-Hermitian, so the (untruncated) matrix is exactly unitary for every `d` and every basis size.  A generator
written as `d·(a† − a)/√2` (the seeded change C10-12) is anti-Hermitian only for real `d`.
-/
namespace QV.C10
open NormedSpace Matrix

/-- the exponential of an anti-Hermitian matrix is unitary -/
theorem exp_skewHermitian_unitary {n : Type} [Fintype n] [DecidableEq n] (A : Matrix n n ℂ) (h : Aᴴ = -A) :
    exp A * (exp A)ᴴ = 1 := by
  rw [← Matrix.exp_conjTranspose, h, Matrix.exp_neg]
  exact Matrix.mul_nonsing_inv _ ((Matrix.isUnit_iff_isUnit_det _).mp (Matrix.isUnit_exp A))

/-- the generator of the shift operator is anti-Hermitian for every complex displacement `d` and real prefactor `c` -/
theorem shift_generator_skewHermitian {n : Type} [Fintype n] (a : Matrix n n ℂ) (d : ℂ) (c : ℝ) :
    ((c : ℂ) • (d • aᴴ - (starRingEnd ℂ d) • a))ᴴ = -((c : ℂ) • (d • aᴴ - (starRingEnd ℂ d) • a)) := by
  simp only [Matrix.conjTranspose_smul, Matrix.conjTranspose_sub, Matrix.conjTranspose_conjTranspose, ← starRingEnd_apply,
    Complex.conj_conj, Complex.conj_ofReal]
  rw [← smul_neg, neg_sub]

/-- **`shift_operator(d)` is unitary for every complex displacement** -/
theorem shift_operator_unitary {n : Type} [Fintype n] [DecidableEq n] (a : Matrix n n ℂ) (d : ℂ) (c : ℝ) :
    exp ((c : ℂ) • (d • aᴴ - (starRingEnd ℂ d) • a)) * (exp ((c : ℂ) • (d • aᴴ - (starRingEnd ℂ d) • a)))ᴴ = 1 :=
  exp_skewHermitian_unitary _ (shift_generator_skewHermitian a d c)

/-- the generator `d·(a† − a)` is *not* anti-Hermitian for imaginary `d` (1×… witness: `a = [[0,1],[0,0]]`, `d = i`) -/
theorem naive_generator_not_skew :
    ((Complex.I • ((!![0, 1; 0, 0] : Matrix (Fin 2) (Fin 2) ℂ)ᴴ - !![0, 1; 0, 0]))ᴴ)
      ≠ -(Complex.I • ((!![0, 1; 0, 0] : Matrix (Fin 2) (Fin 2) ℂ)ᴴ - !![0, 1; 0, 0])) := by
  intro h
  have h01 := congrFun (congrFun h 0) 1
  simp [Matrix.conjTranspose_apply, Matrix.sub_apply, Matrix.smul_apply] at h01
  have him := congrArg Complex.im h01
  simp at him
  norm_num at him

end QV.C10
