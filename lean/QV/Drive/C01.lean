import QV.Core.Num
import QV.Model.C01
open QV QV.C01

instance : OfNat GRat 2 := ⟨⟨2, 0⟩⟩

def showT {n : Nat} (t : Tens GRat n) : String := " ".intercalate ((listOfTens t).map GRat.show_)
def showMt {n : Nat} (t : Mat GRat n) : String := " ".intercalate ((listOfMat t).map GRat.show_)

def mats (n k : Nat) (a : Array GRat) (off : Nat) : List (Mat GRat n) :=
  (List.range k).map fun i => (MatD.tab (matOfArray n n (a.extract (off + i * n * n) (off + (i + 1) * n * n)))).fn

def tens (n : Nat) (a : Array GRat) (off : Nat) : Tens GRat n :=
  (TensD.tab (tensOfArray n (a.extract off (off + n * n * n * n)))).fn

def stepD (_ : Unit) (ts : List String) : Unit × String :=
  match ts with
  | op :: n :: rest =>
    match n.toNat?, parseGRats? rest with
    | some n, some vals =>
      let a := vals.toArray
      let n2 := n * n
      let n4 := n2 * n2
      if op == "loopit" ∨ op == "td" then
        let nb := a.size / (3 * n2)
        if a.size = 3 * nb * n2 then
          let Ks := mats n nb a 0
          let Ls := mats n nb a (nb * n2)
          let Lds := mats n nb a (2 * nb * n2)
          let comps := (Ks.zip (Ls.zip Lds))
          ((), showT (if op == "loopit" then redfieldTensor comps else tdTensor comps))
        else ((), "bad-op")
      else if op == "seclegacy" ∧ a.size = n4 then ((), showT (secularLegacy (tens n a 0)))
      else if op == "sectd" ∧ a.size = n4 then ((), showT (secularTD (tens n a 0)))
      else if op == "update" ∧ a.size = n4 then ((), showT (updateStructure (tens n a 0)))
      else if op == "dephase" ∧ a.size = n4 + n then
        ((), showT (addDephasing GRat.conj (vecOfArray n (a.extract n4 (n4 + n))) (tens n a 0)))
      else if op == "foerster" ∧ a.size = n4 + n2 then
        ((), showT (addFoersterRates ((mats n 1 a n4).head!) (tens n a 0)))
      else if op == "transform" ∧ a.size = n4 + 2 * n2 then
        match mats n 2 a n4 with
        | [S1, SS] => ((), showT (TensD.tab (transformTwoPass S1 SS (tens n a 0))).fn)
        | _ => ((), "bad-op")
      else if op == "apply" ∧ a.size = n4 + n2 then
        ((), showMt (apply (tens n a 0) ((mats n 1 a n4).head!)))
      else if op == "applyops" ∧ a.size = 5 * n2 then
        match mats n 5 a 0 with
        | [K, Kd, L, Ld, rho] => ((), showMt (applyOps K Kd L Ld rho))
        | _ => ((), "bad-op")
      else ((), "bad-op")
    | _, _ => ((), "bad-op")
  | _ => ((), "bad-op")

def main : IO Unit := runDriver stepD ()
