import QV.Model.C17
import QV.Lemmas.Bridge
import QV.Lemmas.Taylor
import Mathlib.Tactic.Ring
import Mathlib.Tactic.Abel
import Mathlib.Algebra.BigOperators.Ring.Finset

/-!
# C17 — population (master-equation) dynamics conserve and match the exponential
`setRateNM`/`setRateMM` are re-extracted from `RateMatrix.set_rate` on every run.
-/
namespace QV.C17
open QV QV.Gen.C17 Finset

section
variable {α : Type} [CommRing α] {N : Nat}

theorem colSum_eq (K : Fin N → Fin N → α) (j : Fin N) : colSum K j = ∑ i, K i j := by
  simp [colSum, sumFin_eq_sum]

/-- the assigned off-diagonal element holds the assigned value -/
theorem setRate_value (K K' : Fin N → Fin N → α) (n m : Fin N) (v : α)
    (h : setRate K n m v = some K') : K' n m = v := by
  unfold setRate at h
  split_ifs at h with hnm
  injection h with h
  subst h
  simp [setRateNM]

/-- a diagonal assignment is refused, everything else is accepted -/
theorem setRate_refused_iff (K : Fin N → Fin N → α) (n m : Fin N) (v : α) :
    setRate K n m v = none ↔ n = m := by
  unfold setRate; split_ifs <;> simp_all

/-- no other off-diagonal element is touched -/
theorem setRate_frame (K K' : Fin N → Fin N → α) (n m : Fin N) (v : α)
    (h : setRate K n m v = some K') (i j : Fin N) (hij : i ≠ j) (hnm : ¬ (i = n ∧ j = m)) :
    K' i j = K i j := by
  unfold setRate at h
  split_ifs at h
  injection h with h
  subst h
  have : ¬ (i = m ∧ j = m) := fun ⟨a, b⟩ => hij (a.trans b.symm)
  simp [hnm, this]

/-- **every column sum is unchanged by `set_rate`** (the diagonal compensates) -/
theorem setRate_colsum (K K' : Fin N → Fin N → α) (n m : Fin N) (v : α)
    (h : setRate K n m v = some K') (j : Fin N) : colSum K' j = colSum K j := by
  unfold setRate at h
  split_ifs at h with hnm
  injection h with h
  subst h
  rw [colSum_eq, colSum_eq]
  by_cases hj : j = m
  · subst hj
    have e : ∀ i, (if i = n ∧ j = j then setRateNM (K n j) (K j j) v
          else if i = j ∧ j = j then setRateMM (K n j) (K j j) v else K i j)
        = K i j + (if i = n then v - K n j else 0) + (if i = j then K n j - v else 0) := by
      intro i
      by_cases h1 : i = n
      · subst h1
        simp [hnm, setRateNM]
      · by_cases h2 : i = j
        · subst h2
          simp [h1, setRateMM]; ring
        · simp [h1, h2]
    rw [Finset.sum_congr rfl (fun i _ => e i)]
    simp only [Finset.sum_add_distrib, Finset.sum_ite_eq', Finset.mem_univ, if_true]
    ring
  · apply Finset.sum_congr rfl
    intro i _
    simp [hj]

/-- **any history of rate assignments keeps zero column sums** -/
theorem setRates_colsum (hist : List (Fin N × Fin N × α)) (K : Fin N → Fin N → α) (j : Fin N) :
    colSum (setRates K hist) j = colSum K j := by
  induction hist generalizing K with
  | nil => rfl
  | cons op rest ih =>
    obtain ⟨n, m, v⟩ := op
    simp only [setRates]
    cases h : setRate K n m v with
    | none => exact ih K
    | some K' => rw [ih K', setRate_colsum K K' n m v h]

theorem setRates_from_zero (hist : List (Fin N × Fin N × α)) (j : Fin N) :
    colSum (setRates (fun _ _ => (0 : α)) hist) j = 0 := by
  rw [setRates_colsum]; simp [colSum_eq]

/-- the value found at an off-diagonal position after a history is the last one assigned there -/
def lastAssigned (hist : List (Fin N × Fin N × α)) (i j : Fin N) : Option α :=
  (hist.reverse.find? (fun op => op.1 = i ∧ op.2.1 = j)).map (·.2.2)

theorem setRates_last_value (hist : List (Fin N × Fin N × α)) (K : Fin N → Fin N → α)
    (i j : Fin N) (hij : i ≠ j) :
    setRates K hist i j = (lastAssigned hist i j).getD (K i j) := by
  induction hist generalizing K with
  | nil => simp [setRates, lastAssigned]
  | cons op rest ih =>
    obtain ⟨n, m, v⟩ := op
    simp only [setRates]
    have hl : lastAssigned ((n, m, v) :: rest) i j =
        (lastAssigned rest i j).or (if n = i ∧ m = j then some v else none) := by
      unfold lastAssigned
      simp only [List.reverse_cons, List.find?_append]
      cases hr : rest.reverse.find? (fun op => op.1 = i ∧ op.2.1 = j) with
      | some x => simp
      | none =>
        by_cases hc : n = i ∧ m = j <;> simp [hc]
    cases h : setRate K n m v with
    | none =>
      have hnm : n = m := (setRate_refused_iff K n m v).mp h
      have : ¬ (n = i ∧ m = j) := fun ⟨a, b⟩ => hij (a.symm.trans (hnm.trans b))
      rw [ih K, hl]
      simp [this]
    | some K' =>
      rw [ih K', hl]
      by_cases hc : n = i ∧ m = j
      · obtain ⟨rfl, rfl⟩ := hc
        rw [setRate_value K K' n m v h]
        cases lastAssigned rest n m <;> simp
      · have hc' : ¬ (i = n ∧ j = m) := fun ⟨a, b⟩ => hc ⟨a.symm, b.symm⟩
        rw [setRate_frame K K' n m v h i j hij hc']
        simp [hc]
end

/-! ## propagation -/
section
variable {α : Type} [Field α] {N : Nat}

theorem popGen_sum (K : Fin N → Fin N → α) (hK : ∀ j, colSum K j = 0) (c : α) (x : VecD α N) :
    sumFin N (popGen K c x).fn = 0 := by
  simp only [popGen, VecD.fn_tab, sumFin_eq_sum, matVec]
  rw [← Finset.mul_sum, Finset.sum_comm]
  have : ∀ j, ∑ i, K i j * x.fn j = 0 := by
    intro j
    rw [← Finset.sum_mul]
    have := hK j
    rw [colSum_eq] at this
    rw [this, zero_mul]
  simp [this]

theorem popAdd_sum (a b : VecD α N) : sumFin N (popAdd a b).fn = sumFin N a.fn + sumFin N b.fn := by
  simp [popAdd, sumFin_eq_sum, Finset.sum_add_distrib]

/-- **the population sum is conserved at every stored time**, for every expansion order `L`,
refinement `Nref`, step `dt` and number of stored points, whenever the columns sum to zero -/
theorem pop_sum_conserved (K : Fin N → Fin N → α) (hK : ∀ j, colSum K j = 0) (dt : α) (L Nref nt : Nat)
    (p0 : VecD α N) : ∀ p ∈ popPropagate K dt L Nref nt p0, sumFin N p.fn = sumFin N p0.fn :=
  taylorTrajectory_conserved (popGen K) popAdd dt (fun x => sumFin N x.fn) popAdd_sum
    (popGen_sum K hK) L Nref nt p0

/-- a rate matrix edited through any history of `set_rate` calls from zero conserves the sum -/
theorem pop_sum_conserved_after_history (hist : List (Fin N × Fin N × α)) (dt : α) (L Nref nt : Nat)
    (p0 : VecD α N) :
    ∀ p ∈ popPropagate (setRates (fun _ _ => (0 : α)) hist) dt L Nref nt p0,
      sumFin N p.fn = sumFin N p0.fn :=
  pop_sum_conserved _ (setRates_from_zero hist) dt L Nref nt p0
end

/-! ## propagation matrix on a sub-axis (grid algebra) -/
section
variable {M : Type} [Monoid M]

theorem propMatrices_pw (E : M) : ∀ k u, propMatrices.pw E k u = E ^ k * u := by
  intro k
  induction k with
  | zero => intro u; simp [propMatrices.pw]
  | succ k ih => intro u; simp [propMatrices.pw, ih, pow_succ, mul_assoc]

theorem propMatrices_go (E : M) : ∀ len u i, i < len →
    (propMatrices.go E len u)[i]? = some (E ^ i * u) := by
  intro len
  induction len with
  | zero => intro u i h; omega
  | succ n ih =>
    intro u i h
    cases i with
    | zero => simp [propMatrices.go]
    | succ i =>
      simp only [propMatrices.go, List.getElem?_cons_succ]
      rw [ih (E * u) i (by omega), pow_succ, mul_assoc]

/-- **the i-th returned matrix is `E^i · U₀`** with `U₀ = 1`, `E^Ns` (shifted start on the sub-axis
grid) or `Edt` (shifted start off the grid); with `E = exp(K·step)`, `Edt = exp(K·Δ)` this is
`exp(K·(Δ + i·step))` -/
theorem propMatrices_get (E Edt : M) (same grid : Bool) (Ns len i : Nat) (h : i < len) :
    (propMatrices 1 E Edt same grid Ns len)[i]? =
      some (E ^ i * (if same then 1 else if grid then E ^ Ns else Edt)) := by
  unfold propMatrices
  rw [propMatrices_go E len _ i h]
  congr 2
  by_cases hs : same <;> by_cases hg : grid <;> simp [hs, hg, propMatrices_pw]

theorem propMatrices_on_grid (E Edt : M) (Ns len i : Nat) (h : i < len) :
    (propMatrices 1 E Edt false true Ns len)[i]? = some (E ^ (Ns + i)) := by
  rw [propMatrices_get E Edt false true Ns len i h]
  simp [pow_add, (Commute.pow_pow (Commute.refl E) Ns i).eq]
end

/-- non-vacuity: overwrite a rate, column sums stay zero and the last value wins -/
example : (setRates (fun _ _ => (0 : Int)) [((0 : Fin 3), (1 : Fin 3), 5), (0, 1, 2), (2, 2, 7), (2, 1, 4)]) 0 1 = 2
    ∧ colSum (setRates (fun _ _ => (0 : Int)) [((0 : Fin 3), (1 : Fin 3), 5), (0, 1, 2), (2, 2, 7), (2, 1, 4)]) 1 = 0 := by
  decide

end QV.C17
