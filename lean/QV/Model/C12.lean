import QV.Core.Tab
import QV.Gen.C12

/-! # C12 - orientational prefactor of a third-order Liouville pathway

`LabSetup.set_pulse_polarizations` (`F4e`, `F4eM4`), `liouville_pathway.build` (`F4n`, sign) and
`orientational_averaging` (`pref`), with the matrix `M4` and the index pairings re-extracted from the
source.  Import-free. -/
namespace QV.C12
open QV QV.Gen.C12

section
variable {K : Type} [Add K] [Mul K] [Zero K]

def dot3 (u v : Fin 3 → K) : K := u 0 * v 0 + u 1 * v 1 + u 2 * v 2

/-- the three pairings `(v_a·v_b)(v_c·v_d)` of four vectors, in the order the source lists them -/
def f4 (pairs : List ((Nat × Nat) × (Nat × Nat))) (v : Nat → Fin 3 → K) : List K :=
  pairs.map (fun p => dot3 (v p.1.1) (v p.1.2) * dot3 (v p.2.1) (v p.2.2))

def dotList : List K → List K → K
  | x :: xs, y :: ys => x * y + dotList xs ys
  | _, _ => 0

/-- `numpy.dot(F4e, M4)` with `M4` given as rows -/
def vecMat (x : List K) (rows : List (List K)) : List K :=
  match rows with
  | [] => []
  | r :: _ => (List.range r.length).map (fun j => dotList x (rows.map (fun row => row.getD j 0)))

/-- `pref = sign * dot(F4eM4, F4n) * rho0 * evolfac` -/
def pref (m4 : List (List K)) (sign rho0 evolfac : K) (e d : Nat → Fin 3 → K) : K :=
  sign * (dotList (vecMat (f4 f4ePairs e) m4) (f4 f4nPairs d) * rho0) * evolfac
end

/-- `M4` as rationals -/
def m4Rat : List (List Rat) := m4num.map (fun (r : List Int) => r.map (fun (n : Int) => ((n : Rat) / (m4den : Rat) : Rat)))

end QV.C12
