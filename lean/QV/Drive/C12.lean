import QV.Core.Num
import QV.Model.C12
open QV QV.C12

def vec3 (a : Array Rat) (o : Nat) : Fin 3 → Rat := fun i => a[o + i.val]!

def step' (_ : Unit) (ts : List String) : Unit × String :=
  match ts with
  | "pref" :: rest =>
    match parseRats? rest with
    | some vals =>
      if vals.length = 27 then
        let a := vals.toArray
        let e : Nat → Fin 3 → Rat := fun n => vec3 a (3 + 3 * n)
        let d : Nat → Fin 3 → Rat := fun n => vec3 a (15 + 3 * n)
        ((), showRat (pref m4Rat a[0]! a[1]! a[2]! e d))
      else ((), "bad-op")
    | none => ((), "bad-op")
  | ["m4"] => ((), " ".intercalate ((m4Rat.flatMap id).map showRat))
  | _ => ((), "bad-op")

def main : IO Unit := runDriver step' ()
