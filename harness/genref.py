"""Freeze the tables generated from the UNCHANGED tree as the reference for the second tie mode.

  genref.py            run every extractor against /repo (which must be clean and at a committed state), copy
                       lean/QV/Gen/<Cxx>.lean to lean/QV/GenRef/<Cxx>.lean.ref and the facts the extractor hands to its
                       harness to lean/QV/GenRef/<Cxx>.json.
The reference is only used when a static extraction fails (core.Check.tie_fallback); it is committed and never written
by a check.
"""
import os, sys, json, shutil, subprocess
ROOT = os.path.dirname(os.path.dirname(os.path.abspath(__file__)))
LEAN = os.path.join(ROOT, "lean")
out = subprocess.run(["git", "-C", "/repo", "status", "--porcelain", "--untracked-files=no"], capture_output=True, text=True).stdout
assert out.strip() == "", "/repo has uncommitted changes: the reference must come from the unchanged tree"
os.makedirs(os.path.join(LEAN, "QV", "GenRef"), exist_ok=True)
for pid in ["C01", "C05", "C09", "C11", "C12", "C15", "C17", "C18", "C19", "C20"]:
    fj = os.path.join(LEAN, ".lake", "facts_%s.json" % pid)
    if os.path.exists(fj):
        os.remove(fj)
    r = subprocess.run(["./check", pid, "--tier", "quick"], cwd=ROOT, capture_output=True, text=True, env=dict(os.environ, QV_NO_TIE_FALLBACK="1"))
    last = r.stdout.strip().split("\n")[-1]
    assert r.returncode == 0 and "TIE-FALLBACK" not in r.stdout, (pid, last)
    shutil.copy(os.path.join(LEAN, "QV", "Gen", pid + ".lean"), os.path.join(LEAN, "QV", "GenRef", pid + ".lean.ref"))
    if os.path.exists(fj):
        shutil.copy(fj, os.path.join(LEAN, "QV", "GenRef", pid + ".json"))
    print(pid, "reference frozen;", last)
