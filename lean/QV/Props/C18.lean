import QV.Model.C18
import QV.Props.C04

/-!
# C18 — saved objects and exported data load back to the same physical values
-/
namespace QV.C18
open QV.Gen.C18

/-! ## data with an accompanying axis -/
section pack
variable {K : Type} {N : Nat}

def Arr.cols : Arr K N → Option Nat
  | .r1 _ => none
  | .r2 M _ => some M

/-- **a 1-D array exported with its axis comes back as the same axis and the same 1-D array** -/
theorem extract_pack_r1 (axis d : Fin N → K) :
    extract 2 (pack1 axis d) = some (axis, .r1 d) := by
  simp [extract, pack1]

/-- **an `(N,M)` array with `M ≥ 2` exported with its axis comes back as the same axis and the same
`(N,M)` array** (same shape, same values in the same order) -/
theorem extract_pack_r2 (axis : Fin N → K) (M : Nat) (hM : 2 ≤ M) (d : Fin N → Fin M → K) :
    ∃ r, extract (M + 1) (pack2 M axis d) = some r ∧ r.1 = axis ∧ r.2.cols = some M ∧
      r.2.flat = (Arr.r2 M d).flat := by
  have h2 : ¬ (M + 1 = 2) := by omega
  have h3 : M + 1 > 2 := by omega
  simp only [extract, h2, h3, dite_false, dite_true]
  refine ⟨_, rfl, ?_, ?_, ?_⟩
  · funext i
    simp [pack2]
  · simp [Arr.cols]
  · simp only [Arr.flat, pack2]
    show (List.finRange N).flatMap (fun i => (List.finRange M).map _) = _
    congr 1

/-- the recorded shape loss: an `(N,1)` array exported with its axis makes a two-column file, which is
read back as a 1-D array - same values, other shape -/
theorem extract_pack_N1_witness (axis : Fin N → K) (d : Fin N → Fin 1 → K) :
    ∃ r, extract 2 (pack2 1 axis d) = some r ∧ r.1 = axis ∧ r.2.cols = none ∧
      r.2.flat = (Arr.r2 1 d).flat := by
  refine ⟨_, rfl, ?_, rfl, ?_⟩
  · funext i; simp [pack2]
  · simp only [Arr.flat, pack2]
    induction (List.finRange N) with
    | nil => rfl
    | cons a l ih =>
      simp only [List.map_cons, List.flatMap_cons, ih]
      simp [List.finRange_succ, List.finRange_zero]

/-- a file with fewer than two columns cannot hold an axis and data: refused -/
theorem extract_refuses_narrow (C : Nat) (hC : C < 2) (f : Fin N → Fin C → K) : extract C f = none := by
  have h2 : ¬ (C = 2) := by omega
  have h3 : ¬ (C > 2) := by omega
  simp [extract, h2, h3]

end pack

/-! ## format dispatch (extracted tables) -/

/-- `save_data` and `load_data` accept the same extensions, and for each the reader is the inverse of the
writer; every writer packs and every reader unpacks the axis -/
theorem dispatch_consistent : dispatchConsistent = true := by decide
/-- a two-column file is read as axis + 1-D data by the reader (the rule `extract` models) -/
theorem two_columns_rank1 : twoColumnsMeansRank1 = true := by decide

/-! ## pickled basis-managed objects -/
section load
open QV.C04
variable {G R : Type} [Group G] {act : G → R → R}

/-- **an object saved while it is represented in the outermost basis (never read inside a context, or
saved after all contexts were left) can be loaded under ANY manager state**: it satisfies the invariant
of the basis bookkeeping (C04) for every stack of open contexts, so every later read presents the same
physical object in whatever basis is current -/
theorem load_level0_any_context (levels' : List G) (o : Obj R) (orig : R) (h : ObjInv act ([] : List G) o orig)
    (ha : IsAction act) : ObjInv act levels' o orig := by
  obtain ⟨hrep, hb, hregs⟩ := restored_at_depth_zero ha o orig h
  refine ⟨h.unprot, by omega, ?_, ?_, ?_⟩
  · rw [hrep, hb, Gto_zero, ha.one]
  · intro hne; exact absurd hb hne
  · intro l hl; rw [hregs] at hl; cases hl

/-- ... and what a read then returns is the original transformed by everything that is open -/
theorem load_level0_read (s' : BState G R) (o : Obj R) (orig : R) (h : ObjInv act ([] : List G) o orig)
    (ha : IsAction act) : (toCurrent (grpAlg act) s' o).rep = act (Gfull s'.levels) orig := by
  have hi := load_level0_any_context s'.levels o orig h ha
  obtain ⟨hinv, hbasis, _⟩ := toCurrent_inv ha s' o orig hi
  rw [hinv.rep, hbasis, Gto_full]

/-- undoing the open contexts innermost first recovers the representation in the outermost basis -/
theorem undo_spec (ha : IsAction act) : ∀ (l : List G) (orig : R),
    l.foldl (fun r S => act S⁻¹ r) (act (Gfull l) orig) = orig := by
  intro l
  induction l with
  | nil => intro orig; simp [Gfull, ha.one]
  | cons S l ih =>
    intro orig
    simp only [List.foldl_cons]
    have : act S⁻¹ (act (Gfull (S :: l)) orig) = act (Gfull l) orig := by
      rw [Gfull_cons, ← ha.mul, mul_assoc, mul_inv_cancel, mul_one]
    rw [this]
    exact ih orig

/-- **saving under ANY open contexts stores the object as it looks outside all of them**: whatever basis the
object was in when it was pickled (also after reads inside nested contexts), the stored state satisfies the
bookkeeping invariant of the empty stack -/
theorem save_any_context (ha : IsAction act) (hp : portablePickle = true) (levels : List G) (o : Obj R) (orig : R)
    (h : ObjInv act levels o orig) : ObjInv act ([] : List G) (saveObj (grpAlg act) levels o) orig := by
  by_cases hb : o.basis = 0
  · have e : saveObj (grpAlg act) levels o = { o with regs := [] } := by
      unfold saveObj
      have : (portablePickle && o.basis != 0 && !o.prot && decide (o.basis ≤ levels.length)) = false := by simp [hb]
      rw [this]; rfl
    rw [e]
    refine ⟨h.unprot, by simp [hb], ?_, ?_, ?_⟩
    · show o.rep = act (Gto [] o.basis) orig
      rw [h.rep, hb, Gto_zero, Gto_zero]
    · intro hne; exact absurd hb hne
    · intro l hl; cases hl
  · have e : saveObj (grpAlg act) levels o =
        { rep := (levels.drop (levels.length - o.basis)).foldl (fun r S => act S⁻¹ r) o.rep,
          basis := 0, prot := false, regs := [] } := by
      unfold saveObj
      have : (portablePickle && o.basis != 0 && !o.prot && decide (o.basis ≤ levels.length)) = true := by
        simp [hp, hb, h.unprot, h.le]
      rw [this]; rfl
    rw [e]
    refine ⟨rfl, by simp, ?_, ?_, ?_⟩
    · show List.foldl _ o.rep _ = act (Gto [] 0) orig
      rw [Gto_zero, ha.one, h.rep]
      exact undo_spec ha _ orig
    · intro hne; exact absurd rfl hne
    · intro l hl; cases hl

/-- **save anywhere, load anywhere**: an object saved under any stack of basis contexts and loaded under any
other presents, on every later read, the same physical object in the basis that is then current -/
theorem save_load_any_contexts (ha : IsAction act) (hp : portablePickle = true) (levels : List G) (s' : BState G R)
    (o : Obj R) (orig : R) (h : ObjInv act levels o orig) :
    (toCurrent (grpAlg act) s' (saveObj (grpAlg act) levels o)).rep = act (Gfull s'.levels) orig :=
  load_level0_read s' _ orig (save_any_context ha hp levels o orig h) ha

theorem pickle_is_portable : portablePickle = true := by decide

/-- what the portable state repairs: an object pickled with its basis id `k > 0` is not readable once loaded
where fewer contexts are open -/
theorem saved_inside_unreadable_outside (k : Nat) (hk : 0 < k) : readable k 0 = false := by
  simp [readable]; omega

end load
end QV.C18
