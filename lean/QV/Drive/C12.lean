import QV.Core.Num
import QV.Model.C12
import QV.Model.C12W
open QV QV.C12

def vec3 (a : Array Rat) (o : Nat) : Fin 3 → Rat := fun i => a[o + i.val]!

def step' (_ : Unit) (ts : List String) : Unit × String :=
  match ts with
  | "pref" :: rest =>
    match parseRats? rest with
    | some vals =>
      if vals.length = 27 then
        let a := vals.toArray
        let e : Nat → Fin 3 → Rat := fun n => vec3 a (3 + 3 * n)
        let d : Nat → Fin 3 → Rat := fun n => vec3 a (15 + 3 * n)
        ((), showRat (pref m4Rat a[0]! a[1]! a[2]! e d))
      else ((), "bad-op")
    | none => ((), "bad-op")
  | "widths" :: n1 :: m :: rest =>
    match n1.toNat?, m.toNat?, parseRats? rest with
    | some n1, some m, some vals =>
      if h0 : vals.length = n1 * n1 + m * m + n1 + 2 * m ∧ 0 < n1 then
        have hpos : 0 < n1 := h0.2
        let a := vals.toArray
        let S1 : Fin n1 → Fin n1 → Rat := fun i j => a[i.val * n1 + j.val]!
        let S2 : Fin m → Fin m → Rat := fun i j => a[n1 * n1 + i.val * m + j.val]!
        let w : Fin n1 → Rat := fun i => a[n1 * n1 + m * m + i.val]!
        let idx (q : Rat) : Fin n1 := ⟨q.num.toNat % n1, Nat.mod_lt _ hpos⟩
        let tw : Fin m → Fin n1 × Fin n1 := fun K =>
          (idx a[n1 * n1 + m * m + n1 + 2 * K.val]!, idx a[n1 * n1 + m * m + n1 + 2 * K.val + 1]!)
        let one := (List.finRange n1).map fun i => showRat (QV.C12W.oneDiag S1 w i)
        let two := (List.finRange m).map fun A => showRat (QV.C12W.twoDiag S2 w tw A)
        let crs := (List.finRange m).flatMap fun A => (List.finRange n1).map fun i => showRat (QV.C12W.cross S1 S2 w tw A i)
        ((), " ".intercalate one ++ " | " ++ " ".intercalate two ++ " | " ++ " ".intercalate crs)
      else ((), "bad-op")
    | _, _, _ => ((), "bad-op")
  | ["m4"] => ((), " ".intercalate ((m4Rat.flatMap id).map showRat))
  | _ => ((), "bad-op")

def main : IO Unit := runDriver step' ()
