import QV.Props.C07

/-!
# C07 — "in every basis": the transformed tensor acts on the transformed operator as the transformed result
`RelaxationTensor.transform(SS, inv=S1)` (model `transformTwoPass`, the two passes as written in the code and
tied to it by the C01 correspondence) contracts the first and third index with `S1` and the second and fourth with
`SS`.  For the orthogonal eigenvector matrices the package passes (`S1 = SSᵀ`, `S1ᵀ S1 = 1`, `SS SSᵀ = 1`) this is
a similarity transformation of the superoperator: acting with the transformed tensor on the transformed operator
`S1 ρ SS` gives the transformed result `S1 (R ρ) SS`, for every tensor, every operator and every dimension.  With
`applyOps_eq_apply` it carries the equality of the operator and tensor forms from one basis to every other.
-/
namespace QV.Prop
open QV QV.C01 Finset

variable {α : Type} [CommRing α] {n : Nat}

/-- `S1 ρ SS`: an operator transformed as `Operator.transform(SS, inv=S1)` does -/
def sandwich (S1 SS ρ : Mat α n) : Mat α n := matMul S1 (matMul ρ SS)

theorem sum4_swap (f : Fin n → Fin n → Fin n → Fin n → α) :
    ∑ c, ∑ d, ∑ x, ∑ y, f c d x y = ∑ x, ∑ y, ∑ c, ∑ d, f c d x y := by
  calc ∑ c, ∑ d, ∑ x, ∑ y, f c d x y
      = ∑ c, ∑ x, ∑ d, ∑ y, f c d x y := Finset.sum_congr rfl (fun c _ => Finset.sum_comm)
    _ = ∑ x, ∑ c, ∑ d, ∑ y, f c d x y := Finset.sum_comm
    _ = ∑ x, ∑ c, ∑ y, ∑ d, f c d x y :=
        Finset.sum_congr rfl (fun x _ => Finset.sum_congr rfl (fun c _ => Finset.sum_comm))
    _ = ∑ x, ∑ y, ∑ c, ∑ d, f c d x y := Finset.sum_congr rfl (fun x _ => Finset.sum_comm)

/-- moving the second pass of the transformation from the tensor onto the operator it acts on -/
theorem pass_to_operator (S1 SS R1 P : Mat α n) :
    ∑ c, ∑ d, (∑ c', ∑ d', S1 c c' * R1 c' d' * SS d' d) * P c d
      = ∑ c', ∑ d', R1 c' d' * (∑ c, ∑ d, S1 c c' * P c d * SS d' d) := by
  simp only [Finset.sum_mul, Finset.mul_sum]
  rw [sum4_swap]
  exact Finset.sum_congr rfl fun c' _ => Finset.sum_congr rfl fun d' _ =>
    Finset.sum_congr rfl fun c _ => Finset.sum_congr rfl fun d _ => by ring

/-- the back transformation with the transposes undoes the sandwich when `S1ᵀ S1 = 1` and `SS SSᵀ = 1` -/
theorem unsandwich (S1 SS ρ : Mat α n)
    (h1 : ∀ x y, ∑ c, S1 c x * S1 c y = if x = y then 1 else 0)
    (h2 : ∀ x y, ∑ d, SS x d * SS y d = if x = y then 1 else 0) (c' d' : Fin n) :
    ∑ c, ∑ d, S1 c c' * (∑ x, S1 c x * ∑ y, ρ x y * SS y d) * SS d' d = ρ c' d' := by
  have e : ∑ c, ∑ d, S1 c c' * (∑ x, S1 c x * ∑ y, ρ x y * SS y d) * SS d' d
      = ∑ x, ∑ y, ρ x y * (∑ c, S1 c c' * S1 c x) * (∑ d, SS d' d * SS y d) := by
    simp only [Finset.sum_mul, Finset.mul_sum]
    rw [sum4_swap]
    refine Finset.sum_congr rfl fun x _ => Finset.sum_congr rfl fun y _ => ?_
    rw [Finset.sum_comm]
    refine Finset.sum_congr rfl fun c _ => Finset.sum_congr rfl fun d _ => by ring
  rw [e]
  simp only [h1, h2, mul_ite, mul_one, mul_zero, Finset.sum_ite_eq, Finset.mem_univ, if_true]

/-- the first pass commutes with the action on an operator -/
theorem first_pass (S1 SS : Mat α n) (R : Tens α n) (ρ : Mat α n) (a b : Fin n) :
    ∑ c', ∑ d', (∑ a', ∑ b', S1 a a' * R a' b' c' d' * SS b' b) * ρ c' d'
      = ∑ a', S1 a a' * ∑ b', (∑ c', ∑ d', R a' b' c' d' * ρ c' d') * SS b' b := by
  simp only [Finset.sum_mul, Finset.mul_sum]
  rw [sum4_swap]
  exact Finset.sum_congr rfl fun a' _ => Finset.sum_congr rfl fun b' _ =>
    Finset.sum_congr rfl fun c' _ => Finset.sum_congr rfl fun d' _ => by ring

/-- **the transformed tensor acts in the new basis as the original acts in the old one**: for orthogonal
`S1 = SSᵀ`, every tensor `R`, every operator `ρ`, every dimension -/
theorem transform_apply (S1 SS : Mat α n) (R : Tens α n) (ρ : Mat α n)
    (h1 : ∀ x y, ∑ c, S1 c x * S1 c y = if x = y then 1 else 0)
    (h2 : ∀ x y, ∑ d, SS x d * SS y d = if x = y then 1 else 0) :
    apply (transformTwoPass S1 SS R) (sandwich S1 SS ρ) = sandwich S1 SS (apply R ρ) := by
  funext a b
  simp only [apply, tensApply, transformTwoPass, sandwich, matMul, sumFin_eq_sum]
  rw [pass_to_operator S1 SS (fun c' d' => ∑ a', ∑ b', S1 a a' * R a' b' c' d' * SS b' b)
    (fun c d => ∑ x, S1 c x * ∑ y, ρ x y * SS y d)]
  simp only [unsandwich S1 SS ρ h1 h2]
  exact first_pass S1 SS R ρ a b

/-- **operator form in the new basis ≡ transformed tensor form**: the operator-form action computed in the old
basis and carried over equals the action of the transformed explicit tensor on the transformed operator -/
theorem applyOps_transform (S1 SS K Kd L Ld ρ : Mat α n)
    (h1 : ∀ x y, ∑ c, S1 c x * S1 c y = if x = y then 1 else 0)
    (h2 : ∀ x y, ∑ d, SS x d * SS y d = if x = y then 1 else 0) :
    apply (transformTwoPass S1 SS (loopTerm K Kd L Ld)) (sandwich S1 SS ρ)
      = sandwich S1 SS (applyOps K Kd L Ld ρ) := by
  rw [transform_apply S1 SS _ ρ h1 h2, applyOps_eq_apply]

/-- the identity matrices meet the hypotheses and the transformation is then the identity -/
theorem transform_one (R : Tens α n) :
    transformTwoPass (fun i j => if i = j then (1 : α) else 0) (fun i j => if i = j then 1 else 0) R = R := by
  funext a b c d
  simp [transformTwoPass, sumFin_eq_sum, Finset.sum_ite_eq, Finset.sum_ite_eq']

/-- non-vacuity: a genuine rotation-free orthogonal matrix, the swap of two levels, meets both hypotheses -/
example : ∀ x y : Fin 2, ∑ c : Fin 2, (if c.val + x.val = 1 then (1 : ℤ) else 0) * (if c.val + y.val = 1 then 1 else 0)
    = if x = y then 1 else 0 := by decide

end QV.Prop
