import QV.Props.C01

/-!
# C01 — the trace identity survives a change of basis
`RelaxationTensor.transform(SS, inv=S1)` (model `transformTwoPass`, the two passes as written, tied to the code by the
C01 driver) keeps a trace-free tensor trace free for EVERY pair of mutually inverse matrices (`SS · S1 = 1`; no
orthogonality is needed), every dimension and every tensor: the identity `sum_a R[a,a,c,d] = 0` that the property
asks for holds inside every basis context if it holds in the site basis.
-/
namespace QV.C01
open QV Finset

variable {α : Type} [CommRing α] {n : Nat}

/-- the first pass followed by the trace over the first index pair: `tr(S1 X SS) = tr X` column by column -/
theorem first_pass_trace (S1 SS : Mat α n) (R : Tens α n) (hR : TraceFree R)
    (h : ∀ x y, ∑ a, S1 a x * SS y a = if x = y then 1 else 0) (c' d' : Fin n) :
    ∑ a, ∑ a', ∑ b', S1 a a' * R a' b' c' d' * SS b' a = 0 := by
  rw [Finset.sum_comm]
  have e : ∀ a', ∑ a, ∑ b', S1 a a' * R a' b' c' d' * SS b' a = ∑ b', R a' b' c' d' * ∑ a, S1 a a' * SS b' a := by
    intro a'
    rw [Finset.sum_comm]
    refine Finset.sum_congr rfl fun b' _ => ?_
    rw [Finset.mul_sum]
    exact Finset.sum_congr rfl fun a _ => by ring
  simp only [e, h, mul_ite, mul_one, mul_zero, Finset.sum_ite_eq, Finset.mem_univ, if_true]
  exact hR c' d'

/-- **a trace-free tensor is trace free in every basis** (any inverse pair `SS · S1 = 1`) -/
theorem transform_trace (S1 SS : Mat α n) (R : Tens α n) (hR : TraceFree R)
    (h : ∀ x y, ∑ a, S1 a x * SS y a = if x = y then 1 else 0) :
    TraceFree (transformTwoPass S1 SS R) := by
  intro c d
  simp only [transformTwoPass, sumFin_eq_sum]
  have z : ∀ c' d', ∑ a, S1 c c' * (∑ a', ∑ b', S1 a a' * R a' b' c' d' * SS b' a) * SS d' d = 0 := by
    intro c' d'
    rw [← Finset.sum_mul, ← Finset.mul_sum, first_pass_trace S1 SS R hR h, mul_zero, zero_mul]
  rw [Finset.sum_comm]
  refine Finset.sum_eq_zero fun c' _ => ?_
  rw [Finset.sum_comm]
  exact Finset.sum_eq_zero fun d' _ => z c' d'

/-- non-vacuity: the swap of two levels is its own inverse -/
example : ∀ x y : Fin 2, ∑ a : Fin 2, (if a.val + x.val = 1 then (1 : ℤ) else 0) * (if y.val + a.val = 1 then 1 else 0)
    = if x = y then 1 else 0 := by decide

end QV.C01

namespace QV.C01
open QV Finset

variable {α : Type} [CommRing α] [StarRing α] {n : Nat}

/-- **a tensor that commutes with Hermitian conjugation does so in every basis**: real orthogonal eigenvector
matrices (`S1 = SSᵀ`, real entries - what the package passes), every tensor, every dimension -/
theorem transform_herm (S1 SS : Mat α n) (R : Tens α n) (hR : HermPres R)
    (hreal : ∀ x y, star (SS x y) = SS x y) (hT : ∀ x y, S1 x y = SS y x) :
    HermPres (transformTwoPass S1 SS R) := by
  obtain rfl : S1 = fun x y => SS y x := funext fun x => funext fun y => hT x y
  intro a b c d
  have hR' : ∀ a b c d, star (R a b c d) = R b a d c := hR
  simp only [transformTwoPass, sumFin_eq_sum, star_sum, star_mul', hreal, hR']
  rw [Finset.sum_comm]
  refine Finset.sum_congr rfl fun x _ => Finset.sum_congr rfl fun y _ => ?_
  have inner : (∑ a', ∑ b', SS a' a * R b' a' x y * SS b' b) = ∑ a', ∑ b', SS a' b * R a' b' x y * SS b' a := by
    rw [Finset.sum_comm]
    exact Finset.sum_congr rfl fun _ _ => Finset.sum_congr rfl fun _ _ => by ring
  rw [inner]; ring

end QV.C01
