import QV.Model.C13
import QV.Lemmas.Bridge
import Mathlib.Algebra.Field.Basic
import Mathlib.Algebra.BigOperators.Fin
import Mathlib.Data.Nat.ModEq
import Mathlib.Data.Fintype.Card
import Mathlib.Data.Fintype.BigOperators
import Mathlib.Tactic.FieldSimp
import Mathlib.Tactic.Ring

/-!
# C13 — Fourier transforms and time/frequency axes are mutually inverse
-/
namespace QV.C13
open QV Finset

section axes
variable {K : Type} [Field K] [CharZero K]

theorem shiftedFreq_step (n : Nat) (d : K) :
    shiftedFreq n d 1 - shiftedFreq n d 0 = 2 / ((n : K) * d) := by
  unfold shiftedFreq; push_cast; ring

/-- **time → frequency → time is the identity on complete axes**, for every length (even or odd),
start, step and frequency offset -/
theorem axis_roundtrip_complete (t : TAxis K) (hu : t.upper = false) (hN : (t.len : K) ≠ 0) (hd : t.step ≠ 0) :
    toTime (toFreq t) = some t := by
  obtain ⟨start, len, step, upper, fstart⟩ := t
  simp only at hu hN hd
  subst hu
  simp only [toFreq, toTime, Bool.false_eq_true, if_false, shiftedFreq_step, Option.some.injEq, TAxis.mk.injEq,
    and_true, true_and]
  have h2 : (2 : K) ≠ 0 := by exact_mod_cast (by norm_num : (2 : ℕ) ≠ 0)
  refine ⟨?_, ?_, ?_⟩
  all_goals (try unfold shiftedFreq)
  all_goals push_cast
  all_goals (try field_simp)
  all_goals (first | (simp; done) | ring)

/-- **… and on upper-half axes** (the frequency axis has `2N` points) -/
theorem axis_roundtrip_upper (t : TAxis K) (hu : t.upper = true) (hN : (t.len : K) ≠ 0) (hd : t.step ≠ 0) :
    toTime (toFreq t) = some t := by
  have h2 : (2 : K) ≠ 0 := by exact_mod_cast (by norm_num : (2 : ℕ) ≠ 0)
  obtain ⟨start, len, step, upper, fstart⟩ := t
  simp only at hu hN hd
  subst hu
  have hm : 2 * len % 2 = 0 := by omega
  have hh : 2 * len / 2 = len := by omega
  simp only [toFreq, toTime, if_true, hm, ne_eq, not_true_eq_false, if_false, hh, shiftedFreq_step,
    Option.some.injEq, TAxis.mk.injEq, and_true]
  refine ⟨?_, ?_, ?_⟩
  all_goals (try unfold shiftedFreq)
  all_goals (try simp only [hh])
  all_goals push_cast
  all_goals (try field_simp)
  all_goals (first | (simp; done) | ring)

/-- **frequency → time → frequency is the identity on complete axes** -/
theorem freq_roundtrip_complete (w : FAxis K) (hu : w.upper = false) (hN : (w.len : K) ≠ 0) (hd : w.step ≠ 0)
    (t : TAxis K) (ht : toTime w = some t) : toFreq t = w := by
  obtain ⟨start, len, step, upper, tstart⟩ := w
  simp only at hu hN hd
  subst hu
  simp only [toTime, Bool.false_eq_true, if_false, Option.some.injEq] at ht
  subst ht
  simp only [toFreq, Bool.false_eq_true, if_false, shiftedFreq_step, FAxis.mk.injEq, and_true, true_and]
  have h2 : (2 : K) ≠ 0 := by exact_mod_cast (by norm_num : (2 : ℕ) ≠ 0)
  refine ⟨?_, ?_, ?_⟩
  all_goals (try unfold shiftedFreq)
  all_goals push_cast
  all_goals (try field_simp)
  all_goals (first | (simp; done) | ring)

/-- an upper-half frequency axis with an odd number of points has no time axis (the code raises) -/
theorem upper_odd_refused (w : FAxis K) (hu : w.upper = true) (ho : w.len % 2 = 1) : toTime w = none := by
  simp [toTime, hu, ho]
end axes


/-! ## the transform on a complete axis is the direct Fourier sum (index arithmetic, any root `ζ`) -/
section ft
variable {α : Type} [CommSemiring α]

theorem rot_mod (n h m : Nat) (hh : h < n) : (m + n - (n - h) % n) % n = (m + h) % n := by
  by_cases h0 : h = 0
  · subst h0
    simp
  · have : (n - h) % n = n - h := Nat.mod_eq_of_lt (by omega)
    rw [this]
    have : m + n - (n - h) = m + h := by omega
    rw [this]

/-- **`N·fftshift(ifft(ifftshift(y)))·dt` is `Σ_m y[m] ζ^{(j−h)(m−h)}·dt` with `h = N//2`**, i.e. the
direct Fourier sum `Σ f(t_m) e^{iω_j t_m} dt` on axes centred at zero (`t_m = (m−h)dt`,
`ω_j = 2π(j−h)/(N dt)`), for EVERY length `N ≥ 1`, even or odd -/
theorem ftComplete_eq_directSum {n : Nat} (hn : 0 < n) (ζ dt : α) (y : Fin n → α) (j : Fin n) :
    ftComplete ζ dt y j = directSum ζ dt y j := by
  have hh : n / 2 < n := Nat.div_lt_self hn (by norm_num)
  have hmod : (n / 2) % n = n / 2 := Nat.mod_eq_of_lt hh
  unfold ftComplete directSum fftshift ifftshift roll dft
  simp only [sumFin_eq_sum, hmod]
  congr 1
  let σ : Fin n → Fin n := fun m => ⟨(m.val + n - (n - n / 2) % n) % n, Nat.mod_lt _ hn⟩
  have hinj : Function.Injective σ := by
    intro a b hab
    have e : (a.val + n / 2) % n = (b.val + n / 2) % n := by
      have := congrArg Fin.val hab
      simp only [σ] at this
      rwa [rot_mod n (n / 2) a.val hh, rot_mod n (n / 2) b.val hh] at this
    have : a.val % n = b.val % n := Nat.ModEq.add_right_cancel' (n / 2) e
    rw [Nat.mod_eq_of_lt a.isLt, Nat.mod_eq_of_lt b.isLt] at this
    exact Fin.ext this
  have hbij : Function.Bijective σ := Finite.injective_iff_bijective.mp hinj
  refine Fintype.sum_bijective σ hbij _ _ ?_
  intro m
  congr 2
  -- exponents agree modulo n
  show ((j.val + n - n / 2) % n * m.val) % n = ((j.val + n - n / 2) * ((σ m).val + n - n / 2)) % n
  have e1 : (σ m).val = (m.val + n / 2) % n := rot_mod n (n / 2) m.val hh
  have e2 : ((σ m).val + n - n / 2) ≡ m.val [MOD n] := by
    rw [e1]
    have h1 : ((m.val + n / 2) % n + n - n / 2) ≡ (m.val + n / 2 + n - n / 2) [MOD n] := by
      have : (m.val + n / 2) % n ≡ m.val + n / 2 [MOD n] := Nat.mod_modEq _ _
      have h3 := Nat.ModEq.add_right (n - n / 2) this
      have a1 : (m.val + n / 2) % n + (n - n / 2) = (m.val + n / 2) % n + n - n / 2 := by omega
      have a2 : m.val + n / 2 + (n - n / 2) = m.val + n / 2 + n - n / 2 := by omega
      rwa [a1, a2] at h3
    have h2 : m.val + n / 2 + n - n / 2 = m.val + n := by omega
    rw [h2] at h1
    exact h1.trans (by simp [Nat.ModEq])
  have e3 : (j.val + n - n / 2) % n ≡ (j.val + n - n / 2) [MOD n] := Nat.mod_modEq _ _
  exact (Nat.ModEq.mul e3 e2.symm)

/-- the inverse transform on a complete axis is the same index map with the conjugate root -/
theorem iftComplete_eq_directSum {n : Nat} (hn : 0 < n) (ζ dt : α) (y : Fin n → α) (j : Fin n) :
    iftComplete ζ dt y j = directSum ζ dt y j :=
  ftComplete_eq_directSum hn ζ dt y j
end ft

end QV.C13
