import QV.Model.C09
import QV.Gen.C09

/-! The two model configurations, read from the tables the extractor regenerates on every run. -/
namespace QV.C09
open QV.Gen.C09

/-- the model configuration of `CorrelationFunction` as extracted -/
def cfCfg : Cfg := { own := fun k => cfOwn.getD k true, accData := fun k => cfAccData.getD k true,
                     accLamb := fun k => cfAccLamb.getD k true, checkTemp := cfCheckTemp,
                     checkFirst := cfCheckFirst, rebuildInt := cfRebuildInt }
/-- the model configuration of `SpectralDensity` as extracted (no temperature check in additions) -/
def sdCfg : Cfg := { own := fun k => sdOwn.getD k true, accData := fun k => sdAccData.getD k true,
                     accLamb := fun k => sdAccLamb.getD k true, checkTemp := false,
                     checkFirst := true, rebuildInt := sdRebuildInt }
end QV.C09
