import QV.Core.Num
import QV.Model.C04
open QV QV.C04

abbrev M (n : Nat) := MatD Rat n n

def mmul {n : Nat} (a b : M n) : M n := MatD.tab (matMul a.fn b.fn)
def mone {n : Nat} : M n := MatD.tab (fun i j => if i = j then 1 else 0)
def minv {n : Nat} (a : M n) : M n :=
  match ratInv n (a.toArray.map (·.toArray)) with
  | some r => MatD.tab (fun i j => (r[i.val]!)[j.val]!)
  | none => mone

def alg (n : Nat) : Alg (M n) (M n) :=
  { mul := mmul, inv := minv, one := mone, act := fun S r => mmul (minv S) (mmul r S) }

def showM {n : Nat} (m : M n) : String := " ".intercalate ((listOfMat m.fn).map showRat)

def insertSorted (x : Nat) : List Nat → List Nat
  | [] => [x]
  | y :: ys => if x ≤ y then x :: y :: ys else y :: insertSorted x ys
def sortNats (l : List Nat) : List Nat := l.foldl (fun acc x => insertSorted x acc) []

/-- canonical dump: depth | curOp | inCtx | registry per level (1..depth) | per object id:basis:prot -/
def dump {n : Nat} (s : BState (M n) (M n)) : String :=
  let d := depth s
  let regs := (List.range d).map fun l =>
    let ids := sortNats ((s.objs.filter fun p => (l + 1) ∈ p.2.regs).map (·.1))
    s!"{l + 1}:[" ++ ",".intercalate (ids.map toString) ++ "]"
  let objs := (sortNats (s.objs.map (·.1))).map fun i =>
    match s.objs.lookup i with
    | some o => s!"{i}:{o.basis}:{if o.prot then 1 else 0}"
    | none => ""
  s!"d={d} op={match s.curOp with | some i => toString i | none => "-"} in={if s.inCtx then 1 else 0} " ++
    " ".intercalate regs ++ " | " ++ " ".intercalate objs

structure DS (n : Nat) where
  s : BState (M n) (M n)

def parseM (n : Nat) (ts : List String) : Option (M n) :=
  match parseRats? ts with
  | some v => if v.length = n * n then some (MatD.tab (matOfArray n n v.toArray)) else none
  | none => none

def stepD {n : Nat} (d : DS n) (ts : List String) : DS n × String :=
  match ts with
  | ["reset"] => ({ s := empty }, "ok")
  | "enter" :: i :: rest =>
    match i.toNat?, parseM n rest with
    | some i, some S => let s' := enter (alg n) d.s i S; ({ s := s' }, dump s')
    | _, _ => (d, "bad-op")
  | ["exit"] => let s' := exit (alg n) d.s; ({ s := s' }, dump s')
  | "create" :: i :: rest =>
    match i.toNat?, parseM n rest with
    | some i, some r => let s' := create d.s i r; ({ s := s' }, dump s')
    | _, _ => (d, "bad-op")
  | ["read", i] =>
    match i.toNat? with
    | some i => let (s', v) := read (alg n) d.s i
                ({ s := s' }, match v with | some v => showM v | none => "no-such-object")
    | none => (d, "bad-op")
  | "write" :: i :: rest =>
    match i.toNat?, parseM n rest with
    | some i, some r => let s' := write (alg n) d.s i r; ({ s := s' }, dump s')
    | _, _ => (d, "bad-op")
  | ["protect", i] => match i.toNat? with
    | some i => let s' := setProt d.s i true; ({ s := s' }, dump s')
    | none => (d, "bad-op")
  | ["unprotect", i] => match i.toNat? with
    | some i => let s' := setProt d.s i false; ({ s := s' }, dump s')
    | none => (d, "bad-op")
  | ["raw", i] => match i.toNat? with      -- stored representation without triggering a transformation
    | some i => (d, match getObj d.s i with | some o => showM o.rep | none => "no-such-object")
    | none => (d, "bad-op")
  | ["dump"] => (d, dump d.s)
  | _ => (d, "bad-op")

def main (args : List String) : IO Unit :=
  match args.head? >>= String.toNat? with
  | some 2 => runDriver (stepD (n := 2)) { s := empty }
  | some 4 => runDriver (stepD (n := 4)) { s := empty }
  | _ => runDriver (stepD (n := 3)) { s := empty }
