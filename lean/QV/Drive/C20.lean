import QV.Core.Num
import QV.Model.C20
import QV.Model.C20Regions
open QV QV.C20 QV.Gen.C20

def showInts (l : List Int) : String := " ".intercalate (l.map toString)

def step (_ : Unit) (ts : List String) : Unit × String :=
  match ts with
  | ["ranges", s, a, b] =>
    match s.toInt?, a.toInt?, b.toInt? with
    | some s, some a, some b =>
      ((), " ".intercalate ((List.range s.toNat).map fun (k : Nat) => let r : Int := k;
        s!"{rangeLo s r a b}:{rangeHi s r a b}"))
    | _, _, _ => ((), "bad-op")
  | ["api", mode, s, a, b] =>
    match s.toInt?, a.toInt?, b.toInt? with
    | some s, some a, some b =>
      ((), " | ".intercalate ((List.range s.toNat).map fun (k : Nat) => let r : Int := k;
        showInts (if mode == "par" then blockRange s r a b else serialRange a b)))
    | _, _, _ => ((), "bad-op")
  | "regions" :: act :: lvl :: reg :: ops =>
    -- regions <active 0|1> <level> <region> <s|f>...  ->  level:region:distributes after every op
    match lvl.toInt?, reg.toInt? with
    | some l, some r =>
      let active := act == "1"
      let rec go (s : RState) (os : List String) (acc : List String) : List String :=
        match os with
        | [] => acc.reverse
        | o :: rest =>
          let s' := rstep active s (if o == "s" then ROp.start else ROp.finish)
          go s' rest (s!"{s'.level}:{s'.region}:{if distributes s' then 1 else 0}" :: acc)
      ((), " ".intercalate (go { level := l, region := r } ops []))
    | _, _ => ((), "bad-op")
  | _ => ((), "bad-op")

def main : IO Unit := runDriver step ()
