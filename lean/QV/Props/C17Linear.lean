import QV.Props.C17
import QV.Lemmas.TaylorRel
import Mathlib.Algebra.BigOperators.Ring.Finset
import Mathlib.Tactic.Ring

/-!
# C17 — population propagation is linear in the initial populations

`PopulationPropagator.propagate` (model `popPropagate`: the order-`L` expansion per refined step) maps `c·p0` to `c` times the
trajectory of `p0` - for every rate matrix, order, refinement and
number of stored times.  The clauses of C17 about the stored populations (sum conserved, distance to `exp(Kt)p0` within the
truncation bound) are therefore scale free: they hold for populations of size 1e-10 exactly as for normalised ones, and an
absolute threshold applied to the expansion terms breaks them for small populations (seeded change C17-8).  The harness uses
populations of magnitude 2^-36 … 2^20 and tolerances relative to `Σ p0`.
-/
namespace QV.C17
open QV Finset

section
variable {α : Type} [Field α] {N : Nat}

/-- the relation "`y` is `c` times `x`" between stored vectors -/
def Scaled (c : α) (x y : VecD α N) : Prop := ∀ i, y.fn i = c * x.fn i

theorem popGen_scaled (K : Fin N → Fin N → α) (c pref : α) (x y : VecD α N) (h : Scaled c x y) :
    Scaled c (popGen K pref x) (popGen K pref y) := by
  intro i
  simp only [popGen, VecD.fn_tab, matVec, sumFin_eq_sum]
  have : ∀ j, K i j * y.fn j = c * (K i j * x.fn j) := by intro j; rw [h j]; ring
  simp only [this, ← Finset.mul_sum]; ring

theorem popAdd_scaled (c : α) (a a' b b' : VecD α N) (h : Scaled c a b) (h' : Scaled c a' b') :
    Scaled c (popAdd a a') (popAdd b b') := by
  intro i
  simp only [popAdd, VecD.fn_tab, h i, h' i]; ring

/-- **homogeneity**: every stored population vector of `propagate(c·p0)` is `c` times the one of `propagate(p0)` -/
theorem popPropagate_scaled (K : Fin N → Fin N → α) (dt : α) (L Nref nt : Nat) (c : α) (p0 q0 : VecD α N)
    (h : Scaled c p0 q0) :
    List.Forall₂ (Scaled c) (popPropagate K dt L Nref nt p0) (popPropagate K dt L Nref nt q0) := by
  unfold popPropagate
  exact taylorTrajectory_rel (popGen K) popAdd (popGen K) popAdd dt (Scaled c)
    (fun l x y hxy => popGen_scaled K c (dt / (l : α)) x y hxy)
    (fun a a' b b' hab hab' => popAdd_scaled c a a' b b' hab hab') L Nref nt p0 q0 h

end

/-- non-vacuity: a two-state exchange, one step of first order, populations (1,0) and (3,0) -/
example : (popPropagate (α := ℚ) (N := 2) (fun i j => if i = j then -1 else 1) (1 / 2) 1 1 2 (VecD.tab fun i => if i = 0 then 3 else 0)).map (fun v => (v.fn 0, v.fn 1))
    = (popPropagate (α := ℚ) (N := 2) (fun i j => if i = j then -1 else 1) (1 / 2) 1 1 2 (VecD.tab fun i => if i = 0 then 1 else 0)).map (fun v => (3 * v.fn 0, 3 * v.fn 1)) := by
  decide +kernel

end QV.C17
