import QV.Core.Tab

/-! # C06 - population-transfer rate matrices

Model of `RedfieldRateMatrix._set_rates` (transition frequencies, frequency cut-off, the
downhill / uphill branch) with the kernel `ssRedfieldRateMatrix` (accumulation over bath components,
clean-up of small negative rates, diagonal as negative column sum) and of the Foerster
`_reference_implementation`.  The Fourier-transformed correlation function `cw` (its real part), the
Boltzmann factor `boltz` and the Foerster integral are parameters.  Import-free. -/
namespace QV.C06
open QV

section
variable {K : Type} [Add K] [Sub K] [Mul K] [Zero K] [Neg K] [LT K] [DecidableLT K]

def absK (x : K) : K := if x < 0 then -x else x

/-- `Om[a,b] = hD[a] - hD[b]` -/
def om {n : Nat} (E : Fin n → K) (a b : Fin n) : K := E a - E b

/-- `cc[k,i,j]` of `_set_rates` for one bath component with Fourier-transformed correlation function
`cw`: zero beyond the frequency cut-off, the downhill value `Re cw(ω)` at the positive transition
frequency, and for an uphill transfer the downhill value times the Boltzmann factor -/
def ccEntry {n : Nat} (cutoff : K) (cw boltz : K → K) (E : Fin n → K) (i j : Fin n) : K :=
  if i = j then 0
  else if cutoff < absK (om E j i) then 0
  else if om E j i < 0 then cw (om E i j) * boltz (om E i j)
  else cw (om E j i)

/-- `KI[k] = S1 · KK[k] · SS` -/
def toEigen {n : Nat} (S1 S Kk : Fin n → Fin n → K) : Fin n → Fin n → K := matMul S1 (matMul Kk S)

/-- accumulation loop of `ssRedfieldRateMatrix`: `RR[i,j] += cc[k,i,j]*KK[i,j]*KK[j,i]`, `i ≠ j` -/
def rawRate {n nk : Nat} (KI cc : Fin nk → Fin n → Fin n → K) (i j : Fin n) : K :=
  if i = j then 0 else sumFin nk (fun k => cc k i j * KI k i j * KI k j i)

/-- clean-up: a negative rate smaller in magnitude than `rtol` is set to zero -/
def clean (rtol r : K) : K := if r < 0 then (if absK r < rtol then 0 else r) else r

/-- the rate matrix handed out: cleaned off-diagonal rates, diagonal = minus the column sum -/
def rateMatrix {n nk : Nat} (rtol : K) (KI cc : Fin nk → Fin n → Fin n → K) (i j : Fin n) : K :=
  if i = j then 0 - sumFin n (fun i' => if i' = j then 0 else clean rtol (rawRate KI cc i' j))
  else clean rtol (rawRate KI cc i j)

/-- the whole of `_set_rates` -/
def redfieldRates {n nk : Nat} (cutoff rtol : K) (cw : Fin nk → K → K) (boltz : K → K) (E : Fin n → K)
    (S1 S : Fin n → Fin n → K) (KK : Fin nk → Fin n → Fin n → K) : Fin n → Fin n → K :=
  rateMatrix rtol (fun k => toEigen S1 S (KK k)) (fun k => ccEntry cutoff (cw k) boltz E)

/-- Foerster `_reference_implementation`: `KK[a,b] = HH[a,b]^2 * fint(a,b)`, diagonal = minus the column sum -/
def foersterRates {n : Nat} (H fint : Fin n → Fin n → K) (a b : Fin n) : K :=
  if a = b then 0 - sumFin n (fun a' => if a' = b then 0 else H a' b * H a' b * fint a' b)
  else H a b * H a b * fint a b

end
end QV.C06
