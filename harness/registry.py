"""Registry of claimed properties -> MANIFEST.json (run: /venv/bin/python harness/registry.py)"""
import json, os
ROOT = os.path.dirname(os.path.dirname(os.path.abspath(__file__)))

CLAIMED = {
    "C20": dict(
        text="Machine-checked proof (Lean 4) about the per-rank range kernel that is re-extracted from "
             "parallel.py on every run: contiguity, exact end points, sizes differing by at most one, disjoint "
             "exact cover and reduce=serial for every process count and every integer range; the dispatch of "
             "block_distributed_range/list/array is a hand model tied by exact differential runs. The region bookkeeping (start/finish_parallel_region, work shared only at level one) is a second hand model: properly nested regions restore level and region count, the outer region distributes after a nested one as before (nested_restores, outer_distributes_after_nested), tied by exact comparison of level, region count and sharing after every operation of random nested programs.",
        note="Lean kernel + propext/Classical.choice/Quot.sound; our extractor (Python AST subset) and "
             "correspondence harness; MPI communication itself is not executed (simulated parallel region).",
        technique="Lean 4 theorems over extracted kernel (omega, induction) + exact model/implementation correspondence",
        ref="DESIGN.md §5 C20"),
}

CLAIMED["C19"] = dict(
    text="Lean 4 proof over the storage model whose partition tables (_ptypes/_processes/_signals/_resolutions/"
         "_conversion_paths) are re-extracted from twod2.py on every run: each pathway type lies in exactly one process and "
         "one signal (decide on the extracted tables); for EVERY history of _add_data calls (any level, tags, accepted or "
         "refused) and set_resolution calls the total read back equals the sum of the accepted additions "
         "(conservation_total, induction over histories with a well-formedness invariant); refused additions leave the "
         "store unchanged; per-view conservation is proved per step (view_add) and observed end-to-end by the oracle. The "
         "model is tied to TwoDResponse by exact differential runs of random histories (outcomes, reads, storage dumps).",
    note="Lean kernel + standard axioms; table extractor and correspondence harness (ours); hand model of "
         "_add_data/getter/setter/set_resolution validated on generated histories only; per-view conservation across "
         "reductions is checked by the oracle on the implementation, not proved.",
    technique="Lean 4 invariant proof over operation histories + extracted tables + exact model/implementation correspondence",
    ref="DESIGN.md §5 C19")

CLAIMED["C17"] = dict(
    text="Lean 4 proof: the diagonal compensation of RateMatrix.set_rate is re-extracted from source on every run and proved "
         "to leave every column sum unchanged, to store the assigned value and to touch no other off-diagonal element; lifted by "
         "induction to every history of assignments (zero column sums, last assigned value wins, diagonal assignments refused). "
         "For every expansion order, refinement, step and number of stored points the short-exponential population propagation "
         "conserves the population sum when columns sum to zero (loop-invariant proof of the shared Taylor stepping). The grid "
         "algebra of get_PropagationMatrix (U_i = E^i U_0, U_0 = 1 | E^Ns | E_dt) is proved in any monoid. Tied to the code by "
         "bit-exact runs of set_rate histories, 1e-9 runs of propagate and of sub-axis propagation matrices. The distance of m "
         "elementary steps to exp(m dt K) p is within the truncation bound m e^{(m-1)x}(e^x - sum_{k<=L} x^k/k!)|p|, x = |dt K|, in "
         "any complete normed algebra (populations_within_truncation_bound). Non-negativity is proved for EVERY expansion order: with "
         "non-negative off-diagonal rates, -K_jj <= s and dt*s <= 1 every stored population vector is non-negative "
         "(populations_nonneg; the step polynomial is regrouped as sum_m e_{L-m}(-x)/m! A^m with A = dt K + x >= 0 entrywise and the "
         "alternating partial sums e_j(-x) >= 0 on [0,1]); euler_step_nonneg is the first-order case with the sharper condition.",
    note="Lean kernel + standard axioms; extractor for the set_rate arithmetic; hand model of which cells set_rate writes and of the "
         "propagation loop; scipy.linalg.expm / numpy.linalg.eig as externals.",
    technique="Lean 4 theorems over extracted kernel + loop-invariant induction + binomial regrouping / alternating-series positivity proof + normed-algebra truncation bound + model/implementation correspondence",
    ref="DESIGN.md §5 C17")

CLAIMED["C16"] = dict(
    text="Lean 4 proof about the transcription of KTHierarchy.generate_indices/_make_nmp1 for every number of baths and every "
         "depth: level k holds exactly the multi-indices of total order k, each once (level_complete, level_nodup); the whole "
         "index set is {n : |n| <= depth}, duplicate free and ordered level by level; lowering-then-raising and raising-then-"
         "lowering links return to the start, the lowering link is absent iff the entry is 0 and the raising link iff the index "
         "is at the deepest level. The tables produced by the real methods (hinds, levels, levlengths, nm1, np1, Gamma) are "
         "compared exactly with the model for baths 1-5 x depths 0-7, and propagate() of hand-parameterised hierarchies agrees "
         "with the rational model of the right-hand sides + Taylor loop to 1e-15. For that model of _ado_self_rhs/_ado_cros_rhs/"
         "propagate it is proved, for every number of baths, depth, Hamiltonian, coupling operators, bath parameters, step, "
         "expansion order and number of steps, that the reduced density matrix keeps the trace of the initial state "
         "(heom_trace_conserved), stays Hermitian for Hermitian operators and real parameters (heom_hermitian_preserved) and, "
         "with all reorganisation energies zero, is exactly the closed-system trajectory (heom_zero_coupling_is_closed). "
         "Convergence with depth to exp(-iwt-g(t)) is measured by the oracle (partial: not proved).",
    note="Lean kernel + standard axioms; hand model validated on generated inputs; KTHierarchy objects for table/dynamics cases are "
         "allocated with object.__new__ and filled by the class's own methods; convergence with depth is measured only.",
    technique="Lean 4 inductive proofs over the index generator + simulation-relation proofs on the hierarchy stepping (trace, Hermiticity, closed limit) + exact table and trajectory correspondence + numeric oracle for depth convergence",
    ref="DESIGN.md §5 C16")

CLAIMED["C05"] = dict(
    text="Lean 4 proof over a field with symbolic non-zero conversion factors: the exact conversion law for every pair of units "
         "including the reciprocal (wavelength) branch, round trip in one unit, independence of the stored value; the unit lists "
         "and the reciprocal branch are re-extracted from managers.py/units.py on every run (every unit has a factor, both "
         "conversion directions agree on the reciprocal units). Context bookkeeping: every properly nested program of "
         "energy_units blocks (any depth, blocks left through exceptions) restores units, backup stack and nesting counter "
         "(contexts_restore, induction over bracketed programs); the single raw set/unset slot is proved NOT to nest "
         "(raw_slot_clobbered, the mechanism of the fixed Aggregate.build defect). Tied to the code by the unit-pair x accessor "
         "matrix (8 accessors, exact rational conversion from the code's own factors) and by random context programs with "
         "exceptions, unknown units, raw set/unset and 11 library calls, each of which must leave the caller's units unchanged. A block also restores units, backup stack and nesting counter whatever hand switches (set_current_units) and nested blocks its body contains, also when it asked for the units already active (block_restores_despite_hand_switches).",
    note="Lean kernel + standard axioms; extractor + harness (ours); numeric factor values are the code's (symbolic in the "
         "theorems); 'no library call changes units' is decided by the oracle over the calls exercised, not proved for all calls. One open finding: Molecule.get_transition_width / get_adiabatic_coupling hand out the stored internal value under any units context (KNOWN-FINDING).",
    technique="Lean 4 field identities + induction over bracketed context programs + exact state correspondence",
    ref="DESIGN.md §5 C05")

CLAIMED["C04"] = dict(
    text="Lean 4 proof over an arbitrary group of basis transformations acting on representations: for EVERY program of entering and "
         "leaving (nested) eigenbasis_of contexts, creating, reading and writing managed objects — leaving through an exception runs the "
         "same exit — each object satisfies 'representation = original transported to its basis level, registered exactly where exit "
         "will find it' (theorem restore, induction over programs); hence whenever all contexts are left every object is in its original "
         "representation with basis label 0 and an empty registry (restore_from_empty), every value read inside is the original "
         "transported to the current basis (same basis for all objects), and traces / tr(AB) / products are basis independent "
         "(conjugation action instance). The model is tied to Manager/eigenbasis_of/BasisManaged by exact comparison of the whole "
         "bookkeeping (stack depth, registry per level, basis labels, protection flags, current basis operator, flags) after every "
         "event of random programs and 1e-9 comparison of every value read; four-index tensors are not in the executable "
         "C04 model: for them transform_back (there and back restores every tensor when SS S1 = 1) and transform_comp (nested "
         "transformations compose) are proved on the transcription of RelaxationTensor.transform that the C01 driver ties to the code, "
         "and the stream of tensors, superoperators and Lindblad forms in nested contexts with exceptions is the oracle. Partial: protected objects inside contexts are modelled but "
         "excluded from the restoration theorem; the eigh contract (S orthogonal, diagonalising, ascending) is re-checked numerically.",
    note="Lean kernel + standard axioms; hand model validated on generated programs; numpy.linalg.eigh / inv externals; exact group "
         "inverses in the theorem vs floating inverses in the code ('up to rounding' observed at 1e-9).",
    technique="Lean 4 invariant proof over operation programs (group action) + exact state correspondence",
    ref="DESIGN.md §5 C04")

CLAIMED["C01"] = dict(
    text="Lean 4 proof over an arbitrary commutative (star) ring, every dimension and number of bath components: the Redfield/Lindblad "
         "assembly (_loopit) and the time-dependent element formula are trace free for ANY operators K, Kd, L, Ld, and commute with "
         "Hermitian conjugation when K is real, Kd = K^T, Ld = L^dagger (plus K symmetric for the time-dependent formula); sums over "
         "components keep both; both secular masks (re-extracted from source on every run) keep R[a,a,b,b] and R[a,b,a,b], zero "
         "everything else and preserve both identities; the Foerster tensor (rates -> updateStructure -> pure dephasing h_a + conj h_b) "
         "and the Foerster part of the combined tensor are trace free and (real rates) Hermiticity preserving. Tied to the code by exact "
         "element-wise comparison of the real kernels (_convert_operators_2_tensor of both Redfield classes, secularize incl. repeated "
         "calls on one object, updateStructure, add_dephasing, transform) with the rational model on Gaussian-integer operators, and by "
         "evaluating both identities on get_RelaxationTensor output for every theory x option in site and exciton basis. "
         "Partial: invariance under RelaxationTensor.transform (real orthogonal S) is observed, not proved.",
    note="Lean kernel + standard axioms; mask extractor + harness (ours); hand model validated on generated inputs; eigh and spline "
         "quadrature only supply operators (their accuracy does not enter the identities).",
    technique="Lean 4 algebraic identities over commutative star rings + extracted masks + exact kernel correspondence + API oracle",
    ref="DESIGN.md §5 C01")

CLAIMED["C02"] = dict(
    text="Lean 4 proof, for every expansion order L, refinement Nref, step, number of stored times and dimension: (i) the trace of every "
         "stored state equals the initial trace for Hamiltonian-only, tensor-form and operator-form propagation whenever the tensor is "
         "trace free (which C01 proves for every Redfield/Lindblad assembly); (ii) a Hermitian initial state stays Hermitian for a Hermitian "
         "Hamiltonian, a conjugation-commuting tensor and a real time step; (iii) operator-form and tensor-form propagation store identical "
         "states; (iv) in any complete normed algebra, m elementary steps of the loop are within m e^{(m-1)x}(e^x - sum_{k<=L} x^k/k!) |y|, "
         "x = |dt*generator|, of exp(m dt generator) y, and one step of the code's loop IS the order-L Taylor polynomial (the 'truncation "
         "bound' of the statement, Mathlib NormedSpace.exp); (v) without relaxation tr(F rho) is conserved EXACTLY, not only within the bound, "
         "for every F commuting with the Hamiltonian - the energy, its powers, the eigenstate populations (rdm_constant_of_motion, "
         "rdm_energy_conserved); (vi) with Lorentzian or Gaussian pure dephasing (elementwise factor after every refined step, "
         "E0*Q^s for the refined step number s) the trace is kept when the factor has a unit diagonal and Hermiticity when the "
         "factor matrices are Hermitian (rdm_trace_conserved_deph/_gauss, rdm_herm_preserved_deph/_gauss). Tied to the code by 1e-9 comparison of every stored state of "
         "ReducedDensityMatrixPropagator (orders 2/4/6, Nref 1/2/5 incl. sticky reuse of propagators, Lindblad tensor/operator form, "
         "Lorentzian and Gaussian pure dephasing, time axes not starting at zero) and StateVectorPropagator (complex Hermitian H) with the rational model, and by the oracle: trace, "
         "Hermiticity, positivity, distance to scipy expm of the GKSL generator within the bound, purity/energy, sv-vs-dm, RWA-vs-lab.",
    note="Lean kernel + standard axioms (Classical.choice via Mathlib analysis); positivity of the exact GKSL semigroup (Lindblad's theorem) "
         "and unitarity of exp(-iHt) are NOT proved: positivity / norm / purity / energy 'within the bound' are consequences checked "
         "numerically; the link between the algebra-level bound and the matrix model is by the shared taylorStep definition.",
    technique="Lean 4 loop-invariant proofs + Mathlib normed-algebra exponential bound + model/implementation correspondence",
    ref="DESIGN.md §5 C02")

CLAIMED["C07"] = dict(
    text="Lean 4 proof over any commutative ring / field, every dimension and component count: the operator form "
         "K rho Ld + L rho Kd - Kd L rho - rho Ld K equals the action of the assembled four-index tensor on every operator "
         "(applyOps_eq_apply), the two generators used by the propagation loops coincide for every list of components, hence "
         "operator-form and tensor-form propagation store identical states for every order, refinement, step and number of stored "
         "times (propagate_ops_eq_tensor). Tied to the code by the operator-form model run against ReducedDensityMatrixPropagator "
         "with the code's own K, Lambda, Lambda^+ (1e-16), and by the oracle on API-built Redfield twins and random Lindblad twins: "
         "apply on random non-Hermitian operators inside/outside eigenbasis_of, convert_2_tensor (time independent and time dependent, "
         "then used in another basis), dynamics, the time-dependent tensor at t=0 and at its last index vs the time-independent tensor, "
         "coarse propagation axes with partial refinement (also with step ratios that are whole but not exactly so in binary), "
         "cut-off times, propagation inside eigenbasis_of for all four forms, and uncoupled sites vs exp(-iwt-g(t)). The element "
         "formula of the time-dependent tensor vanishes where Lambda vanishes (time zero) and, for symmetric K, IS the "
         "time-independent formula for the same Lambda (last time index): tdTerm_zero, tdTensor_zero, tdTerm_eq_loopTerm, "
         "tdTensor_eq_redfieldTensor. In every basis (C07Basis, C07Covariant): for orthogonal S1 = SS^T the transformed tensor acts "
         "on the transformed operator as the transformed result (transform_apply), the operator form with transformed components "
         "(Kd recomputed as the transpose) acts as the transformed tensor (redfield_ops_in_new_basis), and the propagated trajectory "
         "is covariant (propagate_covariant); code-side oracle apply:covariance:* through the package's own contexts. Partial: that the running spline integral is empty at t0 and is the full integral at the last "
         "index is a contract checked numerically; the analytic pure-dephasing comparison (time-step error) is measured, not proved.",
    note="Lean kernel + standard axioms; model validated on generated inputs; spline quadrature / c2g are externals. The former "
         "finding (time-dependent operator-form propagation on an axis coarser than the bath axis sampled the tensor at wrong times) is "
         "repaired in /repo (f3e9e73) and stays under watch by the ops-vs-tensor oracle.",
    technique="Lean 4 algebraic identity + congruence of the propagation loops + correspondence and API oracle",
    ref="DESIGN.md §5 C07")

CLAIMED["C08"] = dict(
    text="Lean 4 proof in an arbitrary monoid (the model's denseStep/evolAll/evolJit are generic in the composition): U(t_0)=1, "
         "U(t_i)=U_dt^i=U_1^(Ndense*i), U(t_i+t_j)=U(t_i)U(t_j) on the grid, k calls of calculate_next store exactly the value "
         "calculate() stores at index k (any number of incremental steps); superoperators under numpy.tensordot with the delta-delta "
         "identity are proved to form such a monoid (associativity, unit) and composition acts as successive application; in a complete "
         "normed algebra the elementary step is the order-L Taylor polynomial of dt_d*generator and refining the internal step changes "
         "U(t) by at most the sum of the two truncation bounds (refine_bound). Tied to EvolutionSuperOperator by 1e-9 (relative) "
         "comparison of the whole data array in both modes (jit with/without save, boundary (step,Ndense) pairs where float division is "
         "inexact) and by the oracle: identity, semigroup, trace/Hermiticity preservation, apply() vs direct propagation, jit vs all, "
         "refinement and distance to expm within the bound. The tensor assembled from the propagated matrix units, applied to ANY state, IS the propagated state: "
         "for one dense step, for the Ndense steps of a time-axis step and hence for every stored time, every expansion order, "
         "step, Hamiltonian and relaxation tensor (apply_elemStep, apply_denseT, apply_eq_propagate; the generator acts on the state "
         "as a 4-index tensor, genTensor_linear, and so does every Taylor step, taylorStep_actsAs). Trace and Hermiticity of "
         "U then follow from those of the propagated states (C02); as statements about U they are observed, not separately proved. "
         "With a pure-dephasing factor D (|D| <= 1) applied after every internal step, m steps (D T_L(hG))^m stay within the same "
         "truncation bound of the untruncated steps (D exp(hG))^m (dephased_steps_within_truncation_bound, refinement_with_dephasing; "
         "evaluated numerically by the oracle `pure-dephasing:refine`). Hamiltonians with rotating-wave blocks: U applied vs direct "
         "propagation in the rotating frame and after conversion to the laboratory frame (requested once and again) by the oracle.",
    note="Lean kernel + standard axioms; model validated on generated inputs; scipy expm / spectral norms in the oracle.",
    technique="Lean 4 monoid-power proofs + tensordot associativity + Mathlib exponential bound + correspondence",
    ref="DESIGN.md §5 C08")

CLAIMED["C13"] = dict(
    text="Lean 4 proof over any field of characteristic zero (angular frequencies in units of pi so that all axis arithmetic is "
         "rational): time axis -> frequency axis -> time axis and frequency -> time -> frequency are the identity for complete axes of "
         "every length (even and odd), start, step and offset, and for upper-half axes; upper-half frequency axes with an odd number "
         "of points are refused. Over any commutative semiring and ANY root zeta: the transform on a complete axis, "
         "N*fftshift(ifft(ifftshift(y)))*dt, equals the direct Fourier sum Sum_m y[m] zeta^((j-h)(m-h)) dt with h = N//2 for every "
         "length N >= 1 (pure index arithmetic: rotation bijection + congruence of exponents), i.e. the Fourier sum at the points of "
         "the returned axis for axes centred at zero. Tied to the code by exact-rational comparison of every field of converted axes "
         "(incl. conversions inside 1/cm and eV unit contexts with non-zero offsets), by the model's index map evaluated with the "
         "numerical root of unity against DFunction.get_Fourier_transform, and by the oracle: direct Fourier sum on the returned "
         "axis (complete and upper-half with Hermitian extension), transform-then-inverse. For a primitive n-th root of unity in ANY field the model of "
         "get_inverse_Fourier_transform applied to the model of get_Fourier_transform gives the function back, for every length "
         "n >= 1 and every data, whenever dt*(dw/2pi)*n = 1 (iftComplete_ftComplete: exchange of sums, shift of a complete residue "
         "system, geometric sum of a non-trivial root; the hypothesis is satisfiable over C for every n). Upper-half axes: the "
         "model of that branch (Hermitian extension yy, 2N-point transform, upper half of the complete inverse) is run against the "
         "package sample by sample, and transform-then-inverse gives the function back for every N, every data and whatever fills "
         "the lower half (iftUpper_ftUpper via ifftshift_fftshift and the complete-axis theorem at length 2N).",
    note="Lean kernel + standard axioms; numpy.fft contract (DFT with e^{-2 pi i/n}); hand model validated on generated inputs.",
    technique="Lean 4 field identities + Fin-rotation/ModEq index proof + correspondence and direct-sum oracle",
    ref="DESIGN.md §5 C13")

CLAIMED["C11"] = dict(
    text="Lean 4 proof about the array pipeline of one_transition_spectrum re-extracted from source on every run (hfft without length, "
         "fftshift, flipud, slice [Nt//2, Nt+Nt//2)): exactly Nt samples are returned and sample j is the Fourier sum at signed index "
         "-(j+Nt//2-Nt+2) of the (2Nt-2)-point transform for every Nt >= 4 (spectrum_index_map) - hence never the index the returned "
         "2Nt-point axis assigns to it (axis_displacement_witness: the recorded two-point displacement, a known finding). Dipole "
         "algebra over any commutative ring: strengths scale with the square of a common factor, scalar products (strengths and "
         "dipole-dipole geometry factors) are invariant under a common orthogonal rotation, and the exciton transformation conserves the "
         "total dipole strength (sum rule) for every orthogonal S. The assembled spectrum A(j) = sum_a |D_a|^2 line(c_a, w_a)(j) with "
         "D_a = sum_k S_ka d_k and c_a = sum_kl S_ka^2 S_la^2 C_kl (for ANY line-shape map): a common dipole factor s multiplies every "
         "sample by s^2, a common rotation and a relabelling of the molecules (rows of S, dipoles and baths permuted together) and a "
         "reordering of the eigenstates leave every sample unchanged, equal line integrals give integral = I sum_k |d_k|^2 whatever the "
         "couplings, uncoupled sites give the sum of the monomer lines (Props/C11Spectrum.lean). Tied to the code by comparing the "
         "exciton correlation function of _excitonic_coft with sum_k S_ka^4 c_k from the site functions (1e-12), every sample of calculate(raw=True) "
         "with the Fourier sum selected by the Lean index map evaluated on the package's own line-shape functions (2e-14 relative), "
         "the returned axis with rwa + index*pi/(Nt dt), and by the oracle: dipole scaling, common rotation (also with point-dipole "
         "couplings), relabelling, coupling-independent integral = 2 pi sum|d_k|^2, unchanged Hamiltonian/dipole operator/tensor, repeated "
         "calculate() and repeated bootstrap() with and without supplied tensor / effective Hamiltonian.",
    note="Lean kernel + standard axioms; extractor + harness (ours); _c2g line-shape integration, eigh and hfft are externals; the "
         "equality with the Fourier integral ON THE RETURNED AXIS fails on the unchanged tree (known finding, open).",
    technique="Lean 4 omega proofs over extracted index kernel + ring identities + sample-exact correspondence and symmetry oracle",
    ref="DESIGN.md §5 C11")

CLAIMED["C03"] = dict(
    text="Lean 4 proof about the transcription of elsignatures/_add_excitation and of the element rules of Aggregate.build, for every "
         "number of two-level molecules and every multiplicity: every generated state is a 0/1 signature of the right length whose "
         "band is its number of excitations (induction over excitation count), states are ordered by band, no Hamiltonian element "
         "connects different bands, inside a band an element is J_kl exactly between states that differ by moving one excitation k<->l "
         "(one-exciton band: indexed by site), the matrix is symmetric for symmetric couplings, and a non-zero dipole element needs "
         "exactly one molecule changing state between bands and is that molecule's dipole. Tied to the code by exact comparison "
         "(internal units; 1e-9 after unit conversion) of signatures, Hamiltonian and dipole operator for 1-6(7) molecules x "
         "multiplicity 1,2 built under random unit contexts, and by the oracle: independent Frenkel reference element by element, band "
         "sizes and RWA indices, relabelling + unit-context invariance of spectrum, site and exciton dipole strengths, and the "
         "point-dipole formula in Debye/Angstrom from SI constants (float, whole-number and integer positions, several eps_r). "
         "The list of electronic states holds EVERY 0/1 signature with at most `mult` excitations, each exactly once, for "
         "every N and mult (elsigs_complete_nodup: bandSigs_complete by removing the last excitation, bandItems_nodup because "
         "the last-added index is the largest excited position). Partial: the numerical value of eps0_int is compared, not derived.",
    note="Lean kernel + standard axioms; hand model validated on generated inputs; three-level molecules are outside the claim.",
    technique="Lean 4 induction over the signature generator + element-rule case analysis + exact correspondence and Frenkel reference",
    ref="DESIGN.md §5 C03")

CLAIMED["C10"] = dict(
    text="Lean 4 proof: numpy.ndindex (the full vibrational state generator) contains exactly the index tuples below the declared "
         "level counts, each once, and their number is the product of the level counts (every number of modes); the Franck-Condon "
         "factor of two vibronic states is the product over modes of single-mode overlaps, the coupling between vibronic states of two "
         "one-exciton states is J_kl times that product and the dipole element is the changing molecule's dipole times it (zero "
         "otherwise); the matrix shift_operator exponentiates, c(a^T - a), is antisymmetric, hence its exponential is exactly orthogonal "
         "for every displacement and basis size (Mathlib matrix exponential); the Poisson weights e^{-S}S^n/n! sum to one. Tied to the "
         "code by comparing number/order of vibronic states, FC matrix, Hamiltonian and dipole operator of built aggregates with the "
         "model fed with the truncated shift-operator tables (1e-9), and by the oracle: level counts per electronic state, stored "
         "displacement sqrt(2S) for both call orders and state-dependent frequencies, Poisson law of the overlaps (1e-8), orthogonality "
         "of the 100-level matrix, independent product structure. Partial: that the numerically diagonalised truncated operator "
         "reproduces the Poisson law is measured, not proved; truncated state-generation approximations are not claimed.",
    note="Lean kernel + standard axioms; numpy.linalg.eig/inv/exp inside shift_operator are externals (tables passed as data).",
    technique="Lean 4 structural induction (ndindex) + product lemmas + Mathlib matrix exponential + table-driven correspondence",
    ref="DESIGN.md §5 C10")

CLAIMED["C14"] = dict(
    text="Lean 4 proof over the reals about the plan of _thermal_population (which energies, what is subtracted, where the block starts, "
         "T=0 branch): at every positive temperature all exponents are <= 0 and one is exactly 0, hence for ANY implementation of exp "
         "with exp(0)=1 and non-negative values (it may underflow anywhere) the normalisation is >= 1 - no 0/0 at any temperature "
         "(no_zero_division), while the unshifted sum can be 0 (witness = the repaired defect); populations sum to one, their ratios "
         "are exp(-(E_a-E_b)/kT) independent of the shift, T=0 puts all population on one state; a diagonal matrix of non-negative "
         "populations, |d| rho |d| (impulsive excitation) and S^T rho S (another basis) are positive semidefinite. Tied to the code by "
         "comparing the diagonal handed out with exp(plan)/sum for the strong-coupling case and by the oracle over 2-4 site aggregates "
         "(site 0 not lowest, 700 1/cm gaps, with/without bath temperature and modes) x all condition types x temperature ladder "
         "0..1000 K and None, requested inside and outside eigenbasis_of: finiteness, Hermiticity, positivity, unit trace, Boltzmann "
         "populations (absolute 1e-12, log-space ratios where resolvable), T=0 = lowest state, same physical state in and out of a context.",
    note="Lean kernel + standard axioms; numpy.exp and the final normalisation are applied by the harness to the exponents of the Lean "
         "plan; floating-point behaviour beyond the abstract-exp argument is observed only.",
    technique="Lean 4 real-analysis lemmas on the shifted Boltzmann algorithm + Mathlib PosSemidef + plan correspondence and oracle",
    ref="DESIGN.md §5 C14")

CLAIMED["C09"] = dict(
    text="Lean 4 proof by induction over user programs (constructions from single components and lists, x+y in any grouping, x+=y, "
         "x+=x, copy(), refused additions in between, inside or outside a units context) on a store of CorrelationFunction / "
         "SpectralDensity objects modelled as (component list, data, reorganisation energy, temperature, cutoff) over an arbitrary "
         "commutative monoid of data vectors: every object of every reachable store has data = sum of its components' generators, "
         "lamb = sum of theirs, one temperature, the largest cutoff (run_consistent); (x+y).data = x.data + y.data, lamb and component "
         "list likewise (plus_spec), any grouping gives the same function (plus_assoc), different temperatures are refused and a "
         "refusal leaves the operands as they were (plus_refuses, addToData_refusal_keeps), success exactly when the left operand has "
         "no value-defined component and the temperatures agree (plus_succeeds), x+=x doubles, copy reproduces. The model's switches "
         "(dispatch on the component's own converted parameters, accumulate vs assign in every maker, refusal before modification, "
         "rebuild in internal units) are re-extracted from the two source files on every run and the theorems need them all true "
         "(decide). Fourier parts: for EVERY length the upper-half transform of real data is even and of imaginary data odd in the "
         "real part (even_part_is_even, odd_part_is_odd, via dft reflection and the symmetry of the completed sequence); closed-form "
         "integral of -Im C(t) equals the declared reorganisation energy (reorg_closed_form, reorg_window). Tied to the code by random "
         "programs compared statement by statement with the model and by oracles on the implementation alone.",
    note="Lean kernel + standard axioms; the numerical formulas of the makers are not modelled (generic generator); that the spline "
         "quadrature recovers the closed-form integral is measured (1e-3), not proved.",
    technique="Lean 4 invariant induction over programs (commutative monoid) + Mathlib DFT reflection / improper integral + extracted switches + program correspondence",
    ref="DESIGN.md §5 C09")

CLAIMED["C06"] = dict(
    text="Lean 4 proof over the reals about the model of RedfieldRateMatrix._set_rates + ssRedfieldRateMatrix (transition frequencies, "
         "3000 1/cm cut-off, downhill value Re cw(w) / uphill value times the Boltzmann factor, accumulation over bath components, "
         "clean-up of small negative rates, diagonal = minus column sum) and of the Foerster _reference_implementation: columns sum to "
         "zero for ANY bath functions, energies, couplings (rate_colsum, foerster_colsum); off-diagonal rates are non-negative when Re cw "
         ">= 0 at non-negative frequencies, because S^T K S stays symmetric (rate_offdiag_nonneg, toEigen_symm), otherwise the clean-up "
         "leaves a rate >= 0 or <= -rtol (clean_nonneg_or_flagged); no transfer to or from the ground state for a block-diagonal "
         "eigenvector matrix (rate_ground_decoupled, toEigen_ground); k(a<-b) = exp(-(E_a-E_b)/kT) k(b<-a) for every pair, bath and "
         "cut-off, by construction (rate_detailed_balance, cc_detailed_balance, cc_degenerate); the downhill rate IS "
         "sum_n c_na^2 c_nb^2 cw_n(w_ba) for site projectors (rate_goldenrule_form, toEigen_projector) and the tensor element "
         "R[a,a,c,c] of the C01 model is K_ac conj(L_ac) + L_ac K_ac (tensor_population_element); Foerster detailed balance given the "
         "ratio of the two integrals (foerster_detailed_balance_partial); analytic spectral densities are odd (jOverdamped_odd, "
         "jUnderdamped_odd) and (1+coth(w/2kT)) J(w) satisfies C(-w) = exp(-w/kT) C(w) for every odd J (ftCorr_kms via coth_identity). "
         "Tied to the code by evaluating the rational model on the code's own eigen-decomposition and tabulated bath values and comparing "
         "all rates (1e-11), plus oracles on random aggregates. Partial: that the FFT/spline transforms reproduce (1+coth)J (5%/15%) and "
         "that the numerical Foerster integrals are in the Boltzmann ratio (2e-2 fs / 2%) is measured inside the resolved window "
         "(40-700 1/cm, T >= 77 K, decayed integrand), not proved.",
    note="Lean kernel + standard axioms; eigh/inv, spline values of the FFT-transformed correlation functions and exp are externals "
         "handed to the model as tables; numerical-transform accuracy is observed only.",
    technique="Lean 4 real-analysis proofs on a hand model of the rate kernels (Finset sums, coth identity) + table-driven correspondence and oracles",
    ref="DESIGN.md §5 C06")

CLAIMED["C15"] = dict(
    text="Lean 4 proof on a history model of the hidden fields that calls on shared objects read and write (refinement stored on a "
         "density-matrix propagator, auxiliary operators kept on a hierarchy, remainder-coupling and basis-protection flags of the system "
         "Hamiltonian, context depth), with calls as state transformers whose shape is re-extracted from the source on every run (the "
         "bracket-call sequence of EVERY branch of get_RelaxationTensor incl. try/finally, how propagate treats Nref, the position of "
         "reset_ados, the array recover_cutoff_coupling adds to): recover after subtract gives every coupling back exactly for every "
         "value and cut-off (recover_subtract), every branch leaves the Hamiltonian's flags and the context depth as they were "
         "(tensor_frame from branches_balanced_clean), state-vector / population / superoperator calls touch nothing (pure_frame), the "
         "hierarchy result does not depend on earlier runs (heom_history_independent), and after ANY two histories that store no "
         "refinement every call reads the same hidden values, i.e. its result is a function of its explicit inputs "
         "(result_history_independent, history_frame); with refinement-storing histories only a propagate() that names no refinement "
         "can differ (result_independent_except_default_propagate; default_propagate_depends_on_history formalises the recorded "
         "finding). Results themselves are abstract. Tied to the code by random histories on ONE set of shared real objects: every "
         "array/flag reachable from the inputs compared with its value before the history after every call, every repeated call "
         "compared with its first result (inside/outside energy_units and eigenbasis_of, after failed calls), hidden fields compared "
         "with the model, and the attributes propagate() creates or changes on the propagator compared with the declared set.",
    note="Lean kernel + standard axioms; that no hidden field exists beyond the modelled ones is checked dynamically (attribute diff, "
         "repeated calls), not proved; one open finding (sticky Nref argument).",
    technique="Lean 4 induction over call histories on an extracted effect model + exact algebra of the cut-off bracket + history differential testing with deep snapshots",
    ref="DESIGN.md §5 C15")

CLAIMED["C18"] = dict(
    text="Lean 4 proof about (a) the model of _data_with_axis / _extract_data_with_axis on arrays of shape (N,) and (N,M): a 1-D array and "
         "every (N,M>=2) array exported with its axis come back as the same axis and the same array, same shape and order, for every N "
         "(extract_pack_r1, extract_pack_r2); an (N,1) array comes back with the same values as rank 1 (extract_pack_N1_witness); files "
         "with fewer than two columns are refused; (b) the dispatch tables of save_data / load_data re-extracted from the source: same "
         "extensions, the reader is the inverse of the writer, every writer packs and every reader unpacks the axis (dispatch_consistent, "
         "decide); (c) pickled basis-managed objects on the bookkeeping model of C04: the state written under ANY stack of open basis "
         "contexts (also after reads inside them) is the representation outside all contexts (save_any_context via undo_spec) and, loaded "
         "under ANY other stack, every later read presents the same physical object in the basis then current "
         "(save_load_any_contexts, load_level0_any_context); that __getstate__ has this shape is re-extracted on every run. Units: stored "
         "values are internal by construction (observed). Tied to the code by the format x dtype x shape x axis matrix compared exactly, "
         "pack/extract and the dispatch compared with the model, and 17 saveable classes saved and loaded (files and scopy) under all "
         "combinations of unit/basis contexts at save and load time, observables compared under a common context.",
    note="Lean kernel + standard axioms; byte-level fidelity of dill, numpy.save/savetxt/loadtxt and scipy.io is trusted and observed "
         "through the round trips only; text files cannot hold degenerate shapes (values compared, shape not demanded there).",
    technique="Lean 4 proofs on pack/extract (all N, M) + extracted dispatch tables (decide) + group-action save/load theorem on the C04 model + round-trip matrix",
    ref="DESIGN.md §5 C18")

CLAIMED["C12"] = dict(
    text="Lean 4 proof that the orientational prefactor computed by the code IS the exact orientational average: for EVERY averaging "
         "functional over 3x3 matrices that is linear, normalised, blind outside the orthogonal matrices and - on products of four "
         "matrix elements - invariant under multiplication from both sides by three explicit rational rotations (quarter turns about z "
         "and x, the rotation with cos 3/5, sin 4/5) - properties the average over all molecular orientations has for every rotation - "
         "and such a functional EXISTS (designAvg_isRotationAverage: the explicit rational design 13/40 mean over the 24 cube rotations "
         "+ 27/40 mean over O Q1 O, Q1 the half turn about (1,1,1); its sixteen determining moments are computed by the kernel) - the "
         "averaged tensor "
         "<R_ia R_jb R_kc R_ld> equals sum_ab M4_ab I^a_ijkl I^b_abcd (T8_eq), where the classification of the invariant rank-4 "
         "tensors is PROVED (cubic_form over the 81 components, weyl4), the nine coefficients follow from R^T R = 1 (T8_contractions), "
         "and hence sign*(F4eM4.F4n)*rho0*evolfac with the M4 and the index pairings re-extracted from labsetup.py / diagramatics.py is "
         "sign*rho0*evolfac times the average of (e3.Rd3)(e2.Rd2)(e1.Rd1)(e0.Rd0) for all polarisation and dipole four-tuples "
         "(orientational_average, pref_is_orientational_average); M4 is the inverse Gram matrix of the three isotropic tensors "
         "(m4_is_gram_inverse, decide); the prefactor is invariant under a common rotation/reflection of all dipoles or of all "
         "polarisations and scales with s^4 (pref_rotate_dipoles, pref_rotate_fields, pref_scale_dipoles); the sum over pathway types "
         "is the sum over the signals (total_eq_sum_of_signals, C19 tables). Tied to the code by comparing pref of every generated "
         "pathway with the rational model and with an independent degree-4-exact quadrature over SO(3). Additivity for uncoupled "
         "molecules rests on the line shape of the excited-state-absorption transitions: the three width / dephasing-rate blocks that "
         "diagonalize() builds (one-exciton, two-exciton, cross terms) are modelled (Model/C12W.lean), compared block by block with "
         "Wd and Dr of coupled two- and three-site aggregates for both line shapes (driver op widths, 1e-10), and for the identity "
         "eigenvector matrix the combination g_ee + g_ff - 2 g_fe used by get_transition_width / get_transition_dephasing is PROVED "
         "to be the value of the molecule that is being excited (uncoupled_first, uncoupled_second). Partial (measured on the "
         "implementation, not proved): rotation, scaling, total = R + NR and the additivity of the SPECTRA themselves (pathway "
         "generation and the cancellation of cross peaks against excited-state absorption are not modelled). The prefactor is linear in each single polarisation vector (pref_scale_one_field, pref_add_one_field, pref_scale_all_fields): polarisation four-tuples need not be unit vectors.",
    note="Lean kernel + standard axioms; no hypothesis about the Haar measure is left: an averaging functional with the listed "
         "properties is constructed (a finite rational 4-design) and every such functional gives the same value; pathway generation / "
         "line shapes observed only.",
    technique="Lean 4 proof of the rank-4 isotropic average (invariant-tensor classification + contraction equations + explicit rational 4-design as witness) + extracted M4/pairings + pathway-level correspondence and SO(3) quadrature oracle",
    ref="DESIGN.md §5 C12")

NOT_APPLICABLE = {}


def write_root():
    mods = ["QV.Core.Num", "QV.Core.Tab", "QV.Lemmas.Bridge", "QV.Lemmas.Taylor"]
    mods += sorted("QV.Props." + os.path.basename(f)[:-5] for f in __import__("glob").glob(os.path.join(ROOT, "lean/QV/Props/*.lean")))
    open(os.path.join(ROOT, "lean", "QV.lean"), "w").write("".join("import %s\n" % m for m in mods))


def main():
    write_root()
    props = [json.loads(l) for l in open(os.path.join(ROOT, "properties.jsonl"))]
    checks = []
    for p in props:
        pid = p["id"]
        if pid in CLAIMED:
            c = CLAIMED[pid]
            checks.append({
                "property_id": pid,
                "quick_cmd": "./check %s --tier quick" % pid,
                "thorough_cmd": "./check %s --tier thorough" % pid,
                "evidence_file": "evidence/%s.json" % pid,
                "replay_cmd_template": "./check %s --replay {path}" % pid,
                "engine": "lean4+correspondence",
                "level_claimed": {"category": "proof", "text": c["text"], "design_ref": c["ref"]},
                "level_note": c["note"],
                "technique": c["technique"],
            })
    na = [{"property_id": p["id"], "reason": NOT_APPLICABLE.get(p["id"], "not yet claimed: model, theorems and correspondence for this property are still under construction (see DESIGN.md §8)")}
          for p in props if p["id"] not in CLAIMED]
    man = {
        "version": 1,
        "setup_cmd": "./setup.sh",
        "hooks": {"guard": "QUANTARHEI_VERIF", "enable": "no hooks: checks import /repo's working tree as is (PYTHONPATH=/repo, /venv/bin/python)",
                  "baseline_off_cmd": "cd /repo && /venv/bin/python -m pytest -ra -q -p no:cacheprovider --timeout=900 --continue-on-collection-errors",
                  "source_commits": [], "add_only": True},
        "engines": [{"name": "lean4+correspondence", "path": "lean/ harness/", "serves_properties": sorted(CLAIMED),
                     "kind_free_text": "Lean 4 models + theorems (lake project QV), Python correspondence harness driving /repo and the model drivers with the same op lines, source extractor regenerating QV/Gen"}],
        "checks": checks,
        "notes": "Fixes of genuine defects are 'fix:' commits in /repo, listed as fixed in known_findings.json.",
        "not_applicable": na,
    }
    json.dump(man, open(os.path.join(ROOT, "MANIFEST.json"), "w"), indent=1)
    print("MANIFEST.json: %d claimed, %d not claimed" % (len(checks), len(na)))


if __name__ == "__main__":
    main()
