"""C02 - propagated density matrices stay valid states and follow the generator."""
from qvh.core import *
from qvh import systems as SY

DRIVER = "Prop"
PROPS = "QV.Props.C02"


def run(ck):
    import numpy, scipy.linalg
    qr = import_quantarhei()
    from quantarhei import Hamiltonian, TimeAxis, ReducedDensityMatrix, StateVector
    from quantarhei.qm import (ReducedDensityMatrixPropagator, StateVectorPropagator, LindbladForm, SystemBathInteraction,
                               Operator, PureDephasing)
    rng = ck.rng
    ck.rule = ("random Hermitian Hamiltonians (real and complex, dims 2-3, dyadic entries), generators none / Lindblad form in tensor and "
               "operator representation / Lindblad + Lorentzian / Gaussian pure dephasing (time axes not starting at zero included), orders 2,4,6, refinement 1,2,5 (per call and sticky), "
               "3-7 stored times: every stored state compared with the rational model (1e-9), and checked for trace, Hermiticity, positivity, "
               "distance to the exact exponential of the GKSL generator within the truncation bound; closed systems: norm, purity, energy, "
               "state-vector vs density-matrix propagation, RWA vs laboratory frame; propagators are reused for several calls; "
               "non-trivial = non-zero couplings and a mixed or superposition initial state")
    ck.trusted += ["harness/c02.py; hand model QV/Model/Prop.lean + QV/Model/Taylor.lean validated on generated inputs only",
                   "scipy.linalg.expm of the dense GKSL generator is the reference for the 'exact exponential' (oracle only)",
                   "positivity of the exact GKSL semigroup (Lindblad's theorem) is assumed, not proved",
                   "the truncation bound m e^{(m-1)x}(e^x - T_L(x)) is evaluated in floating point with the spectral norm of dt*generator"]
    ck.prove(PROPS, extra_modules=["QV.Drive.Prop"], also=["QV.Props.C02Energy", "QV.Props.C02Deph", "QV.Props.C02Basis"])
    lines, impl, tol = [], [], []
    cv = lambda a: SY.cvals(numpy, a)

    def emit(l, arr, t=1e-9):
        lines.append(l); impl.append(" | ".join(cv(x) for x in arr)); tol.append(t)

    methods = {2: "short-exp-2", 4: "short-exp-4", 6: "short-exp-6"}
    for h in range(ck.n(30, 400)):
        n = rng.choice([2, 3])
        kind = rng.choice(["H", "H", "H", "lind-tensor", "lind-ops", "lind-deph", "lind-gauss"])
        if h < 4:
            kind = ("lind-tensor", "lind-ops", "lind-gauss", "lind-deph")[h]       # every run has each of them, whatever the seed
        cplx = kind == "H" and rng.random() < 0.5
        H = SY.rand_herm(numpy, rng, n, cplx=cplx)
        L = rng.choice([2, 4, 4, 6])
        nref = rng.choice([1, 1, 2, 5])
        nt = rng.randint(3, 7)
        dt = rng.choice([0.25, 0.5, 1.0])
        tstart = rng.choice([0.0, 0.0, 1.5, -2.0]) if kind == "lind-gauss" else 0.0
        if kind == "lind-gauss" and nref * (nt - 1) > 12:
            nt = max(3, 12 // nref + 1)      # the exact model carries Q^s: keep the rationals small
        ta = TimeAxis(tstart, nt, dt)
        rho0, psi0 = SY.rand_state(numpy, rng, n, pure=(kind == "H" and rng.random() < 0.75))
        ham = Hamiltonian(data=H.copy())
        inp = {"kind": kind, "n": n, "L": L, "Nref": nref, "nt": nt, "dt": dt, "tstart": tstart, "H": [[str(z) for z in r] for r in H],
               "rho0": [[str(z) for z in r] for r in rho0]}
        Ks, rates, E = [], [], None
        try:
            if kind == "H":
                prop = ReducedDensityMatrixPropagator(ta, ham)
            else:
                Ks, rates = SY.lindblad_ops(numpy, rng, n)
                sbi = SystemBathInteraction([Operator(data=K) for K in Ks], rates=tuple(rates))
                LF = LindbladForm(ham, sbi, as_operators=(kind == "lind-ops"))
                if kind == "lind-tensor" and h % 2 == 0:
                    # the four-index form obtained from the operator form by convert_2_tensor(), called as the first access inside a basis context
                    from quantarhei import eigenbasis_of
                    LF = LindbladForm(ham, sbi, as_operators=True)
                    with eigenbasis_of(ham):
                        LF.convert_2_tensor()
                    inp["tensor_obtained_by"] = "convert_2_tensor() inside eigenbasis_of(H)"
                if kind == "lind-gauss":
                    gam = numpy.zeros((n, n))
                    for i in range(n):
                        for j in range(i + 1, n):
                            gam[i, j] = gam[j, i] = rng.randint(0, 8) / 32.0
                    pd = PureDephasing(drates=gam, dtype="Gaussian")
                    prop = ReducedDensityMatrixPropagator(ta, ham, RTensor=LF, PDeph=pd)
                    dtw_ = dt / nref
                    # factor after the refined step that starts at tt = tstart + s*dtw: exp(-g dtw^2/2) exp(-g dtw tt) = E0 * Q^s
                    E = numpy.exp(-gam * dtw_ ** 2 / 2.0) * numpy.exp(-gam * dtw_ * tstart)
                    Q = numpy.exp(-gam * dtw_ ** 2)
                elif kind == "lind-deph":
                    gam = numpy.zeros((n, n))
                    for i in range(n):
                        for j in range(i + 1, n):
                            gam[i, j] = gam[j, i] = rng.randint(0, 8) / 64.0
                    pd = PureDephasing(drates=gam, dtype="Lorentzian")
                    prop = ReducedDensityMatrixPropagator(ta, ham, RTensor=LF, PDeph=pd)
                    E = numpy.exp(-gam * (dt / nref))
                else:
                    prop = ReducedDensityMatrixPropagator(ta, ham, RTensor=LF)
            # a propagator is reused: first an unrelated call with another refinement, then the call under test
            calls = rng.choice([1, 1, 2, 3])
            if kind == "lind-deph" and h % 2 == 1:
                # the propagator was used with a Gaussian dephasing object before it got the Lorentzian one
                prop.PDeph = PureDephasing(drates=gam.copy(), dtype="Gaussian")
                prop.propagate(ReducedDensityMatrix(data=rho0.copy()), method=methods[L], Nref=nref)
                prop.PDeph = pd
                inp["history"] = "propagate with a Gaussian pure-dephasing object; PDeph replaced by the Lorentzian one; propagate"
            # ONE state object for all calls (a state is an input: it can be used again)
            rin = ReducedDensityMatrix(data=numpy.array(rho0, dtype=complex).copy())
            if h % 3 == 0:
                calls = max(calls, 2)
            for c in range(calls - 1):
                prop.propagate(rin, method=methods[L], Nref=nref)
            rhot = prop.propagate(rin, method=methods[L], Nref=nref)
            if not numpy.array_equal(numpy.asarray(rin._data), numpy.array(rho0, dtype=complex)):
                ck.fail("initial-state-changed:%s" % kind, "propagate() changed the state it was given (the same object propagated again starts somewhere else)",
                        dict(inp, calls=calls), float(numpy.abs(numpy.asarray(rin._data) - rho0).max()), 0)
        except Exception as e:
            ck.fail("raises:propagate:%s" % kind, "propagate raised %r" % (e,), inp)
            continue
        data = numpy.array(rhot.data)
        if nref > 1:
            # "for every step refinement": refining the step inside propagate() is the same as propagating on the finer axis
            try:
                ta2 = TimeAxis(tstart, (nt - 1) * nref + 1, dt / nref)
                if kind == "H":
                    prop2 = ReducedDensityMatrixPropagator(ta2, ham)
                elif kind in ("lind-deph", "lind-gauss"):
                    prop2 = ReducedDensityMatrixPropagator(ta2, ham, RTensor=LF, PDeph=pd)
                else:
                    prop2 = ReducedDensityMatrixPropagator(ta2, ham, RTensor=LF)
                fine = numpy.array(prop2.propagate(ReducedDensityMatrix(data=rho0.copy()), method=methods[L]).data)[::nref]
                dev = float(numpy.abs(fine - data).max())
                ck.resid("refined step vs finer axis", dev)
                if dev > 1e-11:
                    ck.fail("refinement:%s" % kind, "propagate(Nref=k) differs from propagating on the k times finer time axis", inp, dev, 1e-11)
            except Exception as e:
                ck.fail("raises:refinement:%s" % kind, "propagation on the finer axis raised %r" % (e,), inp)
        head = "%d %d %d %d %s" % (n, L, nref, nt, cfrac(dt))
        if kind == "H":
            emit("proph %s 0 %s %s" % (head, cv(H), cv(rho0)), data)
        elif kind == "lind-tensor":
            emit("propt %s 0 %s %s %s" % (head, cv(H), cv(numpy.array(LF.data)), cv(rho0)), data)
        elif kind == "lind-gauss":
            emit("proptg %s 0 %s %s %s %s %s" % (head, cv(H), cv(numpy.array(LF.data)), cv(rho0), cv(E), cv(Q)), data)
        elif kind == "lind-deph":
            emit("proptd %s 0 %s %s %s %s" % (head, cv(H), cv(numpy.array(LF.data)), cv(rho0), cv(E)), data)
        else:
            Km, Lm, Ld = numpy.array(LF.Km), numpy.array(LF.Lm), numpy.array(LF.Ld)
            emit("propo %s %d %s %s %s %s %s" % (head, len(Ks), cv(H), cv(Km), cv(Lm), cv(Ld), cv(rho0)), data)
        coupled = numpy.abs(H - numpy.diag(numpy.diag(H))).max() > 0
        ck.case((kind, n, L, nref, nt, dt, H.tobytes(), rho0.tobytes()), nontrivial=bool(coupled), kind=kind, L=L, Nref=nref, calls=calls,
                sample=inp if h < 1 else None)
        # ---- oracle ------------------------------------------------------------------------------
        sc = 1.0
        tr = numpy.abs(numpy.trace(data, axis1=1, axis2=2) - 1.0).max()
        he = numpy.abs(data - numpy.conj(numpy.transpose(data, (0, 2, 1)))).max()
        if tr > 1e-10 * nt * nref * L:
            ck.fail("trace:%s" % kind, "trace of the propagated state deviates from one", inp, float(tr), 0)
        if he > 1e-10 * nt * nref * L:
            ck.fail("herm:%s" % kind, "propagated state not Hermitian", inp, float(he), 0)
        if kind in ("H", "lind-tensor", "lind-ops"):
            Lv = SY.gksl_superop(numpy, H, Ks, rates)
            dtw = dt / nref
            x = float(numpy.linalg.norm(Lv * dtw, 2))
            worst, worst_b = 0.0, 0.0
            for i in range(nt):
                ref = (scipy.linalg.expm(Lv * dt * i) @ rho0.reshape(-1)).reshape(n, n)
                err = float(numpy.linalg.norm(data[i] - ref))
                bound = SY.trunc_bound(x, L, i * nref, float(numpy.linalg.norm(rho0))) + 1e-9
                if err > bound:
                    ck.fail("exp:%s" % kind, "stored state further from exp(t*generator) rho0 than the truncation bound", dict(inp, i=i), err, bound)
                    break
                if kind != "H":
                    mn = float(numpy.linalg.eigvalsh((data[i] + data[i].conj().T) / 2).min())
                    if mn < -(bound + 1e-9):
                        ck.fail("psd:%s" % kind, "Lindblad-propagated state not positive semidefinite within the bound", dict(inp, i=i), mn, -bound)
                        break
            if kind == "H":
                # closed system: norm (trace), purity, energy conserved within the bound; state vector agrees
                bnd = SY.trunc_bound(x, L, (nt - 1) * nref, float(numpy.linalg.norm(rho0))) + 1e-9
                pur = numpy.array([numpy.trace(d @ d).real for d in data])
                ene = numpy.array([numpy.trace(H @ d).real for d in data])
                if numpy.abs(pur - pur[0]).max() > 4 * bnd:
                    ck.fail("closed:purity", "purity not conserved within the truncation bound", inp, float(numpy.abs(pur - pur[0]).max()), 4 * bnd)
                if numpy.abs(ene - ene[0]).max() > 2 * float(numpy.linalg.norm(H)) * bnd + 1e-9:
                    ck.fail("closed:energy", "energy not conserved within the truncation bound", inp, float(numpy.abs(ene - ene[0]).max()))
                # ... and exactly (theorem rdm_constant_of_motion): tr(F rho) for F = H, H^2 moves by rounding only
                H2 = H @ H
                for F_, nm in ((H, "H"), (H2, "H^2")):
                    com = numpy.array([numpy.trace(F_ @ d) for d in data])
                    tol_ = 1e-12 * (1.0 + float(numpy.linalg.norm(F_))) * float(numpy.linalg.norm(rho0)) * max(1, (nt - 1) * nref) * (1 + x) ** 2
                    ck.resid("closed system: |tr(%s rho)(t) - tr(%s rho)(0)|" % (nm, nm), float(numpy.abs(com - com[0]).max()))
                    if numpy.abs(com - com[0]).max() > tol_:
                        ck.fail("closed:constant-of-motion:" + nm, "tr(%s rho) is not conserved to rounding by Hamiltonian-only propagation" % nm,
                                inp, float(numpy.abs(com - com[0]).max()), tol_)
                if psi0 is not None:
                    try:
                        svp = StateVectorPropagator(ta, Hamiltonian(data=H.copy()))
                        svp.setDtRefinement(nref)
                        psit = numpy.array(svp.propagate(StateVector(data=psi0.copy()), L=L).data)
                        emit("propsv %s 0 %s %s" % (head, cv(H), cv(psi0)), psit)
                        dm = numpy.einsum("ti,tj->tij", psit, psit.conj())
                        xs = float(numpy.linalg.norm(H * dt / nref, 2))
                        dev = float(numpy.abs(dm - data).max())
                        bsv = 2 * SY.trunc_bound(xs, L, (nt - 1) * nref) + bnd + 1e-9
                        ck.dist["sv-vs-dm:complexH=%s" % bool(cplx)] += 1
                        if dev > 2 * bsv:
                            ck.fail("closed:sv-vs-dm", "state-vector and density-matrix propagation disagree beyond the truncation bound", inp, dev, 2 * bsv)
                        # the entry point for an externally supplied Hamiltonian function (which the package leaves unused: the constant
                        # Hamiltonian is propagated), with the same refinement: the same evolution
                        svp_h = StateVectorPropagator(ta, Hamiltonian(data=H.copy()))
                        svp_h.setDtRefinement(nref)
                        psit_h = numpy.array(svp_h.propagate(StateVector(data=psi0.copy()), L=L, hfce=(lambda *a_, **k_: None)).data)
                        dvh_ = float(numpy.abs(psit_h - psit).max())
                        if dvh_ > 1e-10:
                            ck.fail("closed:sv:hfce-entry-point", "state-vector propagation through the entry point with a Hamiltonian function (refinement %d) differs from "
                                    "the ordinary one" % nref, inp, dvh_)
                        nrm = numpy.abs(numpy.linalg.norm(psit, axis=1) - 1.0).max()
                        if nrm > 2 * SY.trunc_bound(xs, L, (nt - 1) * nref) + 1e-9:
                            ck.fail("closed:norm", "state-vector norm not conserved within the bound", inp, float(nrm))
                    except Exception as e:
                        ck.fail("raises:svpropagate", "state-vector propagation raised %r" % (e,), inp)
    # ---- a state vector propagated inside a basis context and used outside it: the same evolution (three and four levels: the
    # transformation matrix is then not symmetric) -------------------------------------------------------------------------------
    from quantarhei import eigenbasis_of
    for nlev in (3, 4):
        Hf = numpy.diag([0.0, 1.0, 1.25, 1.75][:nlev])
        for i_ in range(nlev):
            for j_ in range(i_ + 1, nlev):
                Hf[i_, j_] = Hf[j_, i_] = (0.25, -0.125, 0.375, 0.0625, -0.3125, 0.1875)[(i_ * 3 + j_) % 6]
        psi_f = numpy.array([0.5, 0.5j, -0.5, 0.5][:nlev], dtype=complex); psi_f = psi_f / numpy.linalg.norm(psi_f)
        inp = {"H": Hf.tolist(), "psi0": [str(z) for z in psi_f], "history": "propagate inside eigenbasis_of(H); read outside"}
        ck.case(("sv-in-context", nlev), nontrivial=True, kind="H", L=4, Nref=1, calls=1)
        try:
            taf = TimeAxis(0.0, 6, 0.5)
            hf1, hf2 = Hamiltonian(data=Hf.copy()), Hamiltonian(data=Hf.copy())
            out_ = numpy.array(StateVectorPropagator(taf, hf1).propagate(StateVector(data=psi_f.copy())).data).copy()
            psi_obj2 = StateVector(data=psi_f.copy())            # the state is given in the site basis, outside the context
            with eigenbasis_of(hf2):
                ev_in = StateVectorPropagator(taf, hf2).propagate(psi_obj2)
            in_ = numpy.array(ev_in.data).copy()
            rho_sv = numpy.einsum("ti,tj->tij", in_, in_.conj())
            rho_dm = numpy.array(ReducedDensityMatrixPropagator(taf, Hamiltonian(data=Hf.copy())).propagate(
                ReducedDensityMatrix(data=numpy.outer(psi_f, psi_f.conj()))).data)
            xs_ = float(numpy.linalg.norm(Hf * 0.5, 2))
            d1_, d2_ = float(numpy.abs(in_ - out_).max()), float(numpy.abs(rho_sv - rho_dm).max())
            ck.resid("state vector propagated inside a context vs outside", d1_)
            if d1_ > 1e-10 or d2_ > 6 * SY.trunc_bound(xs_, 4, 5) + 1e-9:
                ck.fail("closed:sv-vs-dm:propagated-in-context", "a state-vector evolution obtained inside eigenbasis_of(H) and read after the context differs from "
                        "the one obtained outside / from the density-matrix propagation", inp, [d1_, d2_])
        except Exception as e:
            ck.fail("raises:svpropagate:in-context", "raised %r" % (e,), inp)
    # ---- the pure-dephasing object an aggregate builds from the transition widths of its molecules (dimer and trimer), Lorentzian and
    # Gaussian, with a Lindblad generator in both forms: stored states Hermitian, unit trace, positive --------------------------------------
    try:
        from quantarhei import Molecule, Aggregate, energy_units
        from quantarhei.qm import ElectronicPureDephasing
        for nm_ in (2, 3):
            with energy_units("1/cm"):
                msd = []
                for k_ in range(nm_):
                    mo_ = Molecule([0.0, 12000.0 + 150.0 * k_]); mo_.set_transition_width((0, 1), 150.0 + 50.0 * k_); msd.append(mo_)
                agd = Aggregate(molecules=msd)
                for k_ in range(nm_ - 1):
                    agd.set_resonance_coupling(k_, k_ + 1, 120.0 - 40.0 * k_)
            agd.build()
            hamd = agd.get_Hamiltonian(); Nd_ = hamd.dim
            for dtp in ("Lorentzian", "Gaussian"):
                pdd = ElectronicPureDephasing(agd, dtype=dtp)
                Kd_ = numpy.zeros((Nd_, Nd_)); Kd_[1, 2] = 1.0
                sbd = SystemBathInteraction([Operator(data=Kd_)], rates=(1.0 / 500.0,))
                for as_ops in (True, False):
                    inp = {"aggregate": "%d molecules, transition widths 150.. 1/cm" % nm_, "dephasing": dtp, "generator_as_operators": as_ops}
                    ck.case(("electronic-pure-dephasing", nm_, dtp, as_ops), nontrivial=True, kind="lind-deph", L=4, Nref=2, calls=1)
                    LFd = LindbladForm(hamd, sbd, as_operators=as_ops)
                    vd_ = numpy.array([0.6, 0.5 + 0.3j, 0.4 - 0.2j, 0.3 + 0.1j][:Nd_]); vd_ = vd_ / numpy.linalg.norm(vd_)
                    r0d = 0.8 * numpy.outer(vd_, vd_.conj()) + 0.2 * numpy.eye(Nd_) / Nd_
                    dd_ = numpy.array(ReducedDensityMatrixPropagator(TimeAxis(0.0, 60, 1.0), hamd, RTensor=LFd, PDeph=pdd).propagate(
                        ReducedDensityMatrix(data=r0d.copy()), Nref=2).data)
                    herm_ = float(numpy.abs(dd_ - numpy.conj(numpy.transpose(dd_, (0, 2, 1)))).max())
                    trc_ = float(numpy.abs(numpy.trace(dd_, axis1=1, axis2=2) - 1.0).max())
                    mine_ = min(float(numpy.linalg.eigvalsh(0.5 * (x_ + x_.conj().T)).min()) for x_ in dd_)
                    if herm_ > 1e-10 or trc_ > 1e-10 or mine_ < -1e-9:
                        ck.fail("valid-state:electronic-pure-dephasing", "with the aggregate's own pure-dephasing object the stored states are not Hermitian / of unit trace / "
                                "positive", inp, [herm_, trc_, mine_])
    except Exception as e:
        ck.fail("raises:electronic-pure-dephasing", "raised %r" % (e,), {})
    rwa_cases(ck, qr, numpy, scipy)
    model = ck.drive(DRIVER, lines)
    if model is not None:
        for l, a, b, t in zip(lines, impl, model, tol):
            ck.traces += 1
            try:
                fa = [cfrac_to_complex(x) for x in a.replace("|", " ").split()]
                fb = [cfrac_to_complex(x) for x in b.replace("|", " ").split()]
                d = max(abs(x - y) for x, y in zip(fa, fb)) if len(fa) == len(fb) and fa else float("inf")
            except Exception:
                d = float("inf")
            ck.resid("max |impl-model| (%s)" % l.split()[0], d if d != float("inf") else 1e300)
            if d > t * max([1.0] + [abs(y) for y in fb] if d != float("inf") else [1.0]):
                ck.disagree("stored states differ by %.3g (%s)" % (d, l.split()[0]), l[:200], a[:200], b[:200])
    return ck.finish()


def rwa_cases(ck, qr, numpy, scipy):
    """no relaxation: RWA propagation converted back equals laboratory-frame propagation"""
    from quantarhei import Hamiltonian, TimeAxis, ReducedDensityMatrix
    from quantarhei.qm import ReducedDensityMatrixPropagator
    rng = ck.rng
    for h in range(ck.n(8, 80)):
        n = rng.choice([3, 4])
        H = SY.rand_herm(numpy, rng, n, ground=True)
        for i in range(1, n):
            H[i, i] += 2.0 + rng.randint(0, 4) / 8.0
        # (fine internal steps: the truncation bound of the two runs must stay far below one, or the comparison decides nothing)
        nt, dt, nref = rng.randint(3, 6), rng.choice([0.25, 0.5]), rng.choice([8, 16])
        ta = TimeAxis(0.0, nt, dt)
        rho0, _ = SY.rand_state(numpy, rng, n)
        inp = {"H": H.tolist(), "nt": nt, "dt": dt, "Nref": nref}
        lab = ReducedDensityMatrixPropagator(ta, Hamiltonian(data=H.copy()))
        d_lab = numpy.array(lab.propagate(ReducedDensityMatrix(data=rho0.copy()), Nref=nref).data)
        if h % 2 == 1:
            # the same Hamiltonian supplied, and its rotating-wave blocks declared, inside a units context
            from quantarhei import energy_units, convert
            uctx = ("1/cm", "eV", "THz")[(h // 2) % 3]
            inp["hamiltonian_and_set_rwa_inside_energy_units"] = uctx
            with energy_units(uctx):
                hr = Hamiltonian(data=numpy.array(convert(H, "int", to=uctx)))
                hr.set_rwa([0, 1])
        else:
            hr = Hamiltonian(data=H.copy())
            hr.set_rwa([0, 1])
        if h % 3 == 2:
            # the rotating-wave blocks are declared on the Hamiltonian only after the propagator was created from it
            hr = Hamiltonian(data=H.copy())
            pr = ReducedDensityMatrixPropagator(ta, hr)
            hr.set_rwa([0, 1])
            inp["set_rwa"] = "after the propagator was created"
        else:
            pr = ReducedDensityMatrixPropagator(ta, hr)
        ev = pr.propagate(ReducedDensityMatrix(data=rho0.copy()), Nref=nref)
        ev.convert_from_RWA(hr)
        d_rwa = numpy.array(ev.data)
        x = float(numpy.linalg.norm(2 * H * dt / nref, 2))
        bound = 2 * SY.trunc_bound(x, 4, (nt - 1) * nref, float(numpy.linalg.norm(rho0))) + 1e-9
        dev = float(numpy.abs(d_lab - d_rwa).max())
        ck.resid("RWA vs laboratory frame: truncation bound of the comparison", bound)
        ck.case(("rwa", H.tobytes(), nt, dt, nref), nontrivial=True, kind="rwa")
        if dev > bound:
            ck.fail("rwa:equivalence", "RWA dynamics converted back differs from laboratory-frame dynamics beyond the bound", inp, dev, bound)
        # conversion to the rotating frame and back is the identity on the stored evolution
        try:
            back = numpy.array(ev.data).copy()
            ev.convert_to_RWA(hr)
            ev.convert_from_RWA(hr)
            if numpy.abs(numpy.array(ev.data) - back).max() > 1e-12:
                ck.fail("rwa:roundtrip", "convert_to_RWA followed by convert_from_RWA changes the stored evolution", inp,
                        float(numpy.abs(numpy.array(ev.data) - back).max()))
        except Exception as e:
            ck.fail("raises:rwa:roundtrip", "RWA round trip raised %r" % (e,), inp)
        # the same for state vectors, and the density matrices built from them
        try:
            from quantarhei import StateVector
            from quantarhei.qm import StateVectorPropagator
            _, psi0 = SY.rand_state(numpy, rng, n, pure=True)
            if psi0 is not None:
                sv_lab = StateVectorPropagator(ta, Hamiltonian(data=H.copy()))
                sv_lab.setDtRefinement(nref)
                p_lab = numpy.array(sv_lab.propagate(StateVector(data=psi0.copy())).data)
                sv_r = StateVectorPropagator(ta, hr)
                sv_r.setDtRefinement(nref)
                psi_obj = StateVector(data=psi0.copy())
                pe = sv_r.propagate(psi_obj)
                pe.convert_from_RWA(hr)
                p_rwa = numpy.array(pe.data)
                # the caller goes on using his state-vector object for something else: the stored evolution is not affected
                psi_obj.data = numpy.roll(psi0, 1) * (0.5 + 0.5j)
                xs = float(numpy.linalg.norm(H * dt / nref, 2))
                bsv = 2 * SY.trunc_bound(xs, 4, (nt - 1) * nref) + 1e-9
                dsv = float(numpy.abs(p_lab - p_rwa).max())
                ck.case(("rwa-sv", H.tobytes(), nt, dt, nref), nontrivial=True, kind="rwa-statevector")
                if dsv > bsv:
                    ck.fail("rwa:statevector", "state-vector dynamics in the rotating frame converted back differs from the laboratory-frame "
                            "dynamics beyond the bound", inp, dsv, bsv)
                dm = numpy.array(pe.get_DensityMatrixEvolution().data)
                want = numpy.einsum("ti,tj->tij", p_rwa, p_rwa.conj())
                if numpy.abs(dm - want).max() > 1e-12:
                    ck.fail("sv:density-matrix", "get_DensityMatrixEvolution is not |psi(t)><psi(t)|", inp, float(numpy.abs(dm - want).max()))
        except Exception as e:
            ck.fail("raises:rwa:statevector", "state-vector RWA propagation raised %r" % (e,), inp)
