import QV.Model.C05
import Mathlib.Algebra.Field.Basic
import Mathlib.Tactic.FieldSimp
import Mathlib.Tactic.Ring

/-!
# C05 — energy-units management is transparent and contexts restore units
`energyUnits`, `reciprocalUnits`, `facKeys`, `unitFactors` are re-extracted from
managers.py / units.py on every run.
-/
namespace QV.C05
open QV.Gen.C05

/-! ## the extracted tables -/
theorem every_unit_has_a_factor : ∀ u ∈ energyUnits, u ∈ facKeys := by decide
theorem reciprocal_units_are_units : ∀ u ∈ reciprocalUnits, u ∈ energyUnits := by decide
theorem internal_units_have_factor_one : "1/fs" ∈ unitFactors ∧ "int" ∈ unitFactors := by decide

section
variable {K : Type} [Field K] (fac : String → K)

/-- **round trip in one unit**: what is supplied under `u` reads back under `u` unchanged -/
theorem get_set_same (u : String) (x : K) (hf : fac u ≠ 0) (hx : x ≠ 0) :
    toCurrent fac u (toInternal fac u x) = x := by
  unfold toCurrent toInternal
  split_ifs <;> field_simp

/-- **exact conversion law**, ordinary units: supplied under `u`, read under `u'` -/
theorem get_set_ordinary (u u' : String) (x : K) (hu : u ∉ reciprocalUnits) (hu' : u' ∉ reciprocalUnits) :
    toCurrent fac u' (toInternal fac u x) = x * fac u / fac u' := by
  simp [toCurrent, toInternal, hu, hu']

/-- supplied as a wavelength, read in an ordinary unit -/
theorem get_set_from_reciprocal (u u' : String) (x : K) (hu : u ∈ reciprocalUnits) (hu' : u' ∉ reciprocalUnits) :
    toCurrent fac u' (toInternal fac u x) = 1 / (x * fac u * fac u') := by
  simp only [toCurrent, toInternal, hu, hu', if_true, if_false]
  rw [div_div, div_div, ← mul_assoc]

/-- supplied in an ordinary unit, read as a wavelength -/
theorem get_set_to_reciprocal (u u' : String) (x : K) (hu : u ∉ reciprocalUnits) (hu' : u' ∈ reciprocalUnits) :
    toCurrent fac u' (toInternal fac u x) = 1 / (x * fac u * fac u') := by
  simp only [toCurrent, toInternal, hu, hu', if_true, if_false]
  rw [div_div]

/-- both wavelengths -/
theorem get_set_reciprocal_both (u u' : String) (x : K) (hu : u ∈ reciprocalUnits) (hu' : u' ∈ reciprocalUnits)
    (hx : x ≠ 0) (hf : fac u ≠ 0) :
    toCurrent fac u' (toInternal fac u x) = x * fac u / fac u' := by
  simp only [toCurrent, toInternal, hu, hu', if_true]
  field_simp

/-- the stored (internal) value does not depend on the units active when it is read -/
theorem stored_independent (x : K) (u reading reading' : String) :
    (fun (_ : String) => toInternal fac u x) reading = (fun (_ : String) => toInternal fac u x) reading' := rfl

/-- two inputs describing the same energy in different ordinary units are stored identically -/
theorem stored_same_energy (u u' : String) (x : K) (hu : u ∉ reciprocalUnits) (hu' : u' ∉ reciprocalUnits)
    (hf' : fac u' ≠ 0) :
    toInternal fac u' (toCurrent fac u' (toInternal fac u x)) = toInternal fac u x := by
  simp only [toCurrent, toInternal, hu, hu', if_false]
  field_simp
end

/-! ## contexts -/

/-- what a block must not change -/
def visible (s : UState) : String × List String × Nat := (s.current, s.backups, s.count)

theorem enter_ok (s : UState) (u : String) (hu : u ∈ energyUnits) :
    (ustep s (.enter u)).1.current = u ∧ (ustep s (.enter u)).1.backups = s.current :: s.backups ∧
    (ustep s (.enter u)).1.count = s.count + 1 ∧ (ustep s (.enter u)).1.flag = true := by
  simp [ustep, rawSet, hu]

/-- the units every state on the stack refers to are known units -/
def Known (s : UState) : Prop := s.current ∈ energyUnits ∧ ∀ b ∈ s.backups, b ∈ energyUnits

theorem Known_step (s : UState) (hk : Known s) (op : UOp) (hraw : ∀ u, op ≠ .rawSet u) (hun : op ≠ .rawUnset) :
    Known (ustep s op).1 := by
  cases op with
  | enter u =>
    by_cases hu : u ∈ energyUnits
    · simp only [ustep, rawSet, hu, if_true]
      exact ⟨hu, by intro b hb; simp at hb; rcases hb with rfl | hb; exact hk.1; exact hk.2 b hb⟩
    · simpa [ustep, hu] using hk
  | exit =>
    cases hb : s.backups with
    | nil => simpa [ustep, hb] using hk
    | cons b rest =>
      have hbk : b ∈ energyUnits := hk.2 b (by simp [hb])
      simp only [ustep, hb, rawSet, hbk, if_true]
      exact ⟨hbk, fun c hc => hk.2 c (by simp [hb, hc])⟩
  | rawSet u => exact absurd rfl (hraw u)
  | rawUnset => exact absurd rfl hun

/-- **a properly nested program of units contexts restores the active units, the stack of backups
and the nesting counter** — for every nesting depth; blocks left through exceptions run the same exit -/
theorem contexts_restore (ops : List UOp) (hb : Bracketed ops) :
    ∀ s, Known s → visible (urun s ops) = visible s ∧ Known (urun s ops) := by
  induction hb with
  | nil => intro s hk; exact ⟨rfl, hk⟩
  | block u body rest hu _ _ ihb ihr =>
    intro s hk
    have e : urun s (UOp.enter u :: body ++ UOp.exit :: rest)
        = urun (ustep (urun (ustep s (.enter u)).1 body) .exit).1 rest := by
      simp [urun, List.foldl_append]
    rw [e]
    obtain ⟨e1, e2, e3, _⟩ := enter_ok s u hu
    have hk1 : Known (ustep s (.enter u)).1 := Known_step s hk _ (by simp) (by simp)
    obtain ⟨hv, hk2⟩ := ihb _ hk1
    simp only [visible, Prod.mk.injEq] at hv
    obtain ⟨v1, v2, v3⟩ := hv
    have hs3 : visible (ustep (urun (ustep s (.enter u)).1 body) .exit).1 = visible s := by
      have hbk : s.current ∈ energyUnits := hk.1
      have b2 : (urun (ustep s (.enter u)).1 body).backups = s.current :: s.backups := v2.trans e2
      have c2 : (urun (ustep s (.enter u)).1 body).count = s.count + 1 := v3.trans e3
      generalize urun (ustep s (.enter u)).1 body = s2 at b2 c2
      simp [ustep, b2, rawSet, hbk, visible, c2]
    have hk3 : Known (ustep (urun (ustep s (.enter u)).1 body) .exit).1 := Known_step _ hk2 _ (by simp) (by simp)
    obtain ⟨hv4, hk4⟩ := ihr _ hk3
    exact ⟨hv4.trans hs3, hk4⟩

/-- the flag `_in_energy_units_context` is back to false when the outermost block is left -/
theorem flag_cleared (s : UState) (b : String) (rest : List String) (hb : s.backups = b :: rest) (hc : s.count = 1) :
    (ustep s .exit).1.flag = false := by
  simp [ustep, hb, rawSet, hc]

/-- the raw single slot is *not* a stack: `set; with …: …; unset` restores the wrong units.
(This is how `Aggregate.build()` used to lose the caller's units.) -/
theorem raw_slot_clobbered :
    (urun { current := "1/cm", backups := [], count := 0, flag := false, saved := none }
      [.rawSet "int", .enter "int", .exit, .rawUnset]).current = "int" := by decide

/-- non-vacuity of `contexts_restore`: a nested program -/
example : Bracketed [.enter "1/cm", .enter "eV", .exit, .enter "nm", .exit, .exit] := by
  have h1 : Bracketed [UOp.enter "nm", UOp.exit] := Bracketed.block "nm" [] [] (by decide) .nil .nil
  have h2 : Bracketed [UOp.enter "eV", UOp.exit, UOp.enter "nm", UOp.exit] :=
    Bracketed.block "eV" [] _ (by decide) .nil h1
  exact Bracketed.block "1/cm" _ [] (by decide) h2 .nil

end QV.C05
