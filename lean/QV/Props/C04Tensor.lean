import QV.Props.C07Covariant

/-!
# C04 — a relaxation tensor is restored by the back transformation
Leaving a basis context applies `transform(S1, inv=SS)` to what `transform(SS, inv=S1)` produced on entering.  For every
pair with `SS · S1 = 1` the two passes of the code, applied there and back, return every tensor unchanged (every
dimension; no orthogonality needed): the four-index object is restored exactly as operators are.
-/
namespace QV.Prop
open QV QV.C01 Finset

variable {α : Type} [CommRing α] {n : Nat}

/-- first pass: the sandwich on the index pair `(a, b)` -/
def pass1 (S1 SS : Mat α n) (R : Tens α n) : Tens α n := fun a b c d => sandwich S1 SS (fun a b => R a b c d) a b
/-- second pass: the sandwich on the index pair `(c, d)` -/
def pass2 (S1 SS : Mat α n) (R : Tens α n) : Tens α n := fun a b c d => sandwich S1 SS (fun c d => R a b c d) c d

theorem transformTwoPass_eq (S1 SS : Mat α n) (R : Tens α n) :
    transformTwoPass S1 SS R = pass2 S1 SS (pass1 S1 SS R) := by
  funext a b c d
  simp only [transformTwoPass, pass1, pass2, sandwich, matMul, sumFin_eq_sum, Finset.mul_sum, Finset.sum_mul, mul_assoc]

/-- the two passes act on different index pairs and commute -/
theorem pass1_pass2_comm (A B C D : Mat α n) (R : Tens α n) :
    pass1 A B (pass2 C D R) = pass2 C D (pass1 A B R) := by
  funext a b c d
  simp only [pass1, pass2, sandwich, matMul, sumFin_eq_sum, Finset.mul_sum, Finset.sum_mul]
  rw [sum4_swap]
  exact Finset.sum_congr rfl fun _ _ => Finset.sum_congr rfl fun _ _ =>
    Finset.sum_congr rfl fun _ _ => Finset.sum_congr rfl fun _ _ => by ring

/-- there and back on a matrix -/
theorem sandwich_back (S1 SS A : Mat α n) (h3 : ∀ x y, ∑ a, SS x a * S1 a y = if x = y then 1 else 0) :
    sandwich SS S1 (sandwich S1 SS A) = A := by
  have h3' : Matrix.of SS * Matrix.of S1 = (1 : Matrix (Fin n) (Fin n) α) := by
    ext x y; simp [Matrix.mul_apply, h3, Matrix.one_apply]
  have hin : Matrix.of (sandwich S1 SS A) = Matrix.of S1 * (Matrix.of A * Matrix.of SS) := by
    ext i j; simp [sandwich_eq]
  funext a b
  rw [sandwich_eq, hin]
  have hm : Matrix.of SS * (Matrix.of S1 * (Matrix.of A * Matrix.of SS) * Matrix.of S1) = Matrix.of A := by
    calc Matrix.of SS * (Matrix.of S1 * (Matrix.of A * Matrix.of SS) * Matrix.of S1)
        = (Matrix.of SS * Matrix.of S1) * Matrix.of A * (Matrix.of SS * Matrix.of S1) := by
          simp only [Matrix.mul_assoc]
      _ = Matrix.of A := by rw [h3', Matrix.one_mul, Matrix.mul_one]
  rw [hm]; rfl

theorem pass1_back (S1 SS : Mat α n) (R : Tens α n) (h3 : ∀ x y, ∑ a, SS x a * S1 a y = if x = y then 1 else 0) :
    pass1 SS S1 (pass1 S1 SS R) = R := by
  funext a b c d
  show sandwich SS S1 (sandwich S1 SS (fun a b => R a b c d)) a b = R a b c d
  rw [sandwich_back S1 SS _ h3]

theorem pass2_back (S1 SS : Mat α n) (R : Tens α n) (h3 : ∀ x y, ∑ a, SS x a * S1 a y = if x = y then 1 else 0) :
    pass2 SS S1 (pass2 S1 SS R) = R := by
  funext a b c d
  show sandwich SS S1 (sandwich S1 SS (fun c d => R a b c d)) c d = R a b c d
  rw [sandwich_back S1 SS _ h3]

/-- **entering and leaving a basis context restores every tensor** -/
theorem transform_back (S1 SS : Mat α n) (R : Tens α n)
    (h3 : ∀ x y, ∑ a, SS x a * S1 a y = if x = y then 1 else 0) :
    transformTwoPass SS S1 (transformTwoPass S1 SS R) = R := by
  rw [transformTwoPass_eq, transformTwoPass_eq, pass1_pass2_comm, pass1_back S1 SS R h3, pass2_back S1 SS R h3]

/-- two sandwiches in a row are the sandwich with the products (no hypothesis) -/
theorem sandwich_comp (S1 SS S1' SS' A : Mat α n) :
    sandwich S1' SS' (sandwich S1 SS A) = sandwich (matMul S1' S1) (matMul SS SS') A := by
  have hin : Matrix.of (sandwich S1 SS A) = Matrix.of S1 * (Matrix.of A * Matrix.of SS) := by
    ext i j; simp [sandwich_eq]
  have hl : Matrix.of (matMul S1' S1) = Matrix.of S1' * Matrix.of S1 := by ext i j; simp [matMul_eq_mul]
  have hr : Matrix.of (matMul SS SS') = Matrix.of SS * Matrix.of SS' := by ext i j; simp [matMul_eq_mul]
  funext a b
  rw [sandwich_eq, hin, sandwich_eq, hl, hr]
  simp only [Matrix.mul_assoc]

/-- **nested basis contexts compose**: transforming with `(S1, SS)` and then with `(S1', SS')` is the transformation
with the products - the group-action law that the C04 invariant proof assumes of every managed object, here for
four-index tensors (every tensor, every dimension, no hypothesis on the matrices) -/
theorem transform_comp (S1 SS S1' SS' : Mat α n) (R : Tens α n) :
    transformTwoPass S1' SS' (transformTwoPass S1 SS R) = transformTwoPass (matMul S1' S1) (matMul SS SS') R := by
  have p1 : ∀ X : Tens α n, pass1 S1' SS' (pass1 S1 SS X) = pass1 (matMul S1' S1) (matMul SS SS') X := by
    intro X; funext a b c d
    show sandwich S1' SS' (sandwich S1 SS (fun a b => X a b c d)) a b = _
    rw [sandwich_comp]; rfl
  have p2 : ∀ X : Tens α n, pass2 S1' SS' (pass2 S1 SS X) = pass2 (matMul S1' S1) (matMul SS SS') X := by
    intro X; funext a b c d
    show sandwich S1' SS' (sandwich S1 SS (fun c d => X a b c d)) c d = _
    rw [sandwich_comp]; rfl
  rw [transformTwoPass_eq, transformTwoPass_eq, transformTwoPass_eq, pass1_pass2_comm, p1, p2]

end QV.Prop
