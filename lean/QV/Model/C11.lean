import QV.Core.Tab
import QV.Gen.C11
/-!
Index model of `AbsSpectrumCalculator.one_transition_spectrum`
(quantarhei/spectroscopy/abscalculator.py): which Fourier sum each returned
sample is, and which frequency the returned axis assigns to it; plus the dipole
algebra (strengths, rotation, exciton transformation).
-/
namespace QV.C11
open QV QV.Gen.C11

/-- `numpy.fft.hfft(a)` without a length argument returns `2(len(a)−1)` points -/
def hfftLen (Nt : Int) : Int := 2 * (Nt - 1)

/-- position in the input of an operation from the position in its output -/
def backOp (M : Int) (op : String) (p : Int) : Int :=
  if op = "flipud" then M - 1 - p
  else if op = "fftshift" then (p - M / 2) % M      -- out[p] = in[(p − M//2) mod M]
  else p

/-- signed frequency index of `hfft`/`fft` output position `k` (`k ≥ M/2` are negative frequencies) -/
def signed (M k : Int) : Int := if 2 * k < M then k else k - M

/-- returned sample `j` is the DFT `Σ_n a_ext[n] e^{−2πi κ n / M}` with `κ = sampleK Nt j` -/
def sampleK (Nt j : Int) : Int :=
  let M := hfftLen Nt
  signed M ((pipeline.drop 1).reverse.foldl (fun p op => backOp M op p) (sliceLo Nt + j))

/-- number of returned samples -/
def nSamples (Nt : Int) : Int := sliceHi Nt - sliceLo Nt

/-- index (relative to the centre of the `2Nt`-point frequency axis) that `_calculate_monomer/_aggregate`
assign to sample `j`: `axis.start = ω[Nt//2]` of `fftshift(2π fftfreq(2Nt, dt)) + rwa` -/
def axisIndex (Nt j : Int) : Int := Nt / 2 + j - Nt

section
variable {α : Type} [Add α] [Mul α] [Zero α]

def dot3 (a b : Fin 3 → α) : α := sumFin 3 (fun i => a i * b i)
/-- `dipole_strength`: `|d|²` -/
def strength (d : Fin 3 → α) : α := dot3 d d
/-- dipole of exciton `a`: `D_a = Σ_k S[k,a] d_k` (`DD.transform(SS)`) -/
def excitonDipole {n : Nat} (S : Fin n → Fin n → α) (d : Fin n → Fin 3 → α) (a : Fin n) : Fin 3 → α :=
  fun i => sumFin n (fun k => S k a * d k i)
/-- rotated dipole `Q d` -/
def rotate (Q : Fin 3 → Fin 3 → α) (d : Fin 3 → α) : Fin 3 → α := matVec Q d
end

end QV.C11
