import QV.Model.C11
import QV.Lemmas.Bridge
import Mathlib.Algebra.BigOperators.Ring.Finset
import Mathlib.Tactic.Ring
import Mathlib.Tactic.Linarith

/-!
# C11 — linear spectra match the Fourier integral and symmetry relations
`pipeline`, `sliceLo`, `sliceHi` are re-extracted from
`AbsSpectrumCalculator.one_transition_spectrum` on every run.
-/
namespace QV.C11
open QV QV.Gen.C11 Finset

/-! ## which Fourier sum each returned sample is -/

theorem signed_emod (M x : Int) (hM : 0 < M) (h1 : -(M / 2) ≤ x) (h2 : 2 * x < M) :
    signed M (x % M) = x := by
  unfold signed
  by_cases hx : 0 ≤ x
  · have : x % M = x := Int.emod_eq_of_lt hx (by omega)
    rw [this, if_pos h2]
  · have hlt : x < 0 := by omega
    have e : x % M = x + M := by
      have : (x + M) % M = x % M := Int.add_emod_right x M
      rw [← this]
      exact Int.emod_eq_of_lt (by omega) (by omega)
    rw [e]
    have : ¬ (2 * (x + M) < M) := by omega
    rw [if_neg this]; ring

/-- the calculators return exactly `Nt` samples -/
theorem sample_count (Nt : Int) : nSamples Nt = Nt := by
  unfold nSamples sliceHi sliceLo; ring

/-- **index map of the spectrum**: sample `j` is the Fourier sum at the signed frequency index
`−(axisIndex Nt j + 2)` of the `2Nt−2`-point transform (the minus sign is the `flipud`: the sum is
`Σ a(t) e^{+iωt}`), for every `Nt ≥ 4` and every `0 ≤ j < Nt`.  The returned axis, however, places the
sample at index `axisIndex Nt j` of a `2Nt`-point grid: every line is displaced by two grid points and the
grid is stretched by `Nt/(Nt−1)` (recorded finding; the transform itself is the exact Fourier sum). -/
theorem spectrum_index_map (Nt j : Int) (hN : 4 ≤ Nt) (hj0 : 0 ≤ j) (hj : j < Nt) :
    sampleK Nt j = -(axisIndex Nt j + 2) := by
  unfold sampleK axisIndex hfftLen
  have hp : pipeline.drop 1 = ["fftshift", "flipud"] := by decide
  simp only [hp, List.reverse_cons, List.reverse_nil, List.nil_append, List.cons_append, List.foldl_cons,
    List.foldl_nil]
  have hfd : sliceLo Nt = Nt / 2 := by
    unfold sliceLo
    exact Int.fdiv_eq_ediv_of_nonneg _ (by norm_num)
  simp only [backOp, hfd]
  have hs : ¬ ("fftshift" = "flipud") := by decide
  simp only [hs, if_false, if_true]
  have e : (2 * (Nt - 1) - 1 - (Nt / 2 + j) - 2 * (Nt - 1) / 2) = -(Nt / 2 + j - Nt + 2) := by omega
  rw [e]
  exact signed_emod _ _ (by omega) (by omega) (by omega)

/-- the returned axis would be the right one only if the sample index were `−axisIndex`; it never is -/
theorem axis_displacement_witness (Nt j : Int) (hN : 4 ≤ Nt) (hj0 : 0 ≤ j) (hj : j < Nt) :
    sampleK Nt j ≠ -(axisIndex Nt j) := by
  rw [spectrum_index_map Nt j hN hj0 hj]; omega

/-! ## dipole algebra -/
section
variable {α : Type} [CommRing α]

/-- a common dipole factor scales every strength, hence the spectrum, by its square -/
theorem strength_scale (c : α) (d : Fin 3 → α) : strength (fun i => c * d i) = c ^ 2 * strength d := by
  simp only [strength, dot3, sumFin_eq_sum, Finset.mul_sum]
  apply Finset.sum_congr rfl; intro i _; ring

/-- a common rotation of all dipoles leaves every scalar product (strengths and dipole–dipole
geometry factors) unchanged -/
theorem dot_rotate (Q : Fin 3 → Fin 3 → α) (hQ : ∀ i j, ∑ k, Q k i * Q k j = if i = j then 1 else 0)
    (a b : Fin 3 → α) : dot3 (rotate Q a) (rotate Q b) = dot3 a b := by
  simp only [dot3, rotate, matVec, sumFin_eq_sum, Finset.sum_mul, Finset.mul_sum]
  rw [Finset.sum_comm]
  have : ∀ x y : Fin 3, ∑ k, Q k x * a x * (Q k y * b y) = (∑ k, Q k x * Q k y) * (a x * b y) := by
    intro x y; rw [Finset.sum_mul]; apply Finset.sum_congr rfl; intro k _; ring
  calc ∑ y, ∑ x, ∑ i, Q x i * a i * (Q x y * b y)
      = ∑ y, ∑ i, ∑ x, Q x i * a i * (Q x y * b y) := by
        apply Finset.sum_congr rfl; intro y _; rw [Finset.sum_comm]
    _ = ∑ y, ∑ i, (if i = y then 1 else 0) * (a i * b y) := by
        apply Finset.sum_congr rfl; intro y _
        apply Finset.sum_congr rfl; intro i _
        rw [this i y, hQ i y]
    _ = ∑ y, a y * b y := by
        apply Finset.sum_congr rfl; intro y _
        simp [Finset.sum_ite_eq']

theorem strength_rotate (Q : Fin 3 → Fin 3 → α) (hQ : ∀ i j, ∑ k, Q k i * Q k j = if i = j then 1 else 0)
    (d : Fin 3 → α) : strength (rotate Q d) = strength d := dot_rotate Q hQ d d

/-- **sum rule**: the exciton transformation (orthogonal `S`) conserves the total dipole strength,
whatever the couplings: `Σ_a |D_a|² = Σ_k |d_k|²` -/
theorem sum_rule {n : Nat} (S : Fin n → Fin n → α) (hS : ∀ k l, ∑ a, S k a * S l a = if k = l then 1 else 0)
    (d : Fin n → Fin 3 → α) : ∑ a, strength (excitonDipole S d a) = ∑ k, strength (d k) := by
  simp only [strength, dot3, excitonDipole, sumFin_eq_sum, Finset.sum_mul, Finset.mul_sum]
  have step : ∀ i : Fin 3, ∑ a, ∑ k, ∑ l, S l a * d l i * (S k a * d k i) = ∑ k, d k i * d k i := by
    intro i
    calc ∑ a, ∑ k, ∑ l, S l a * d l i * (S k a * d k i)
        = ∑ k, ∑ l, ∑ a, S l a * d l i * (S k a * d k i) := by
          rw [Finset.sum_comm]; apply Finset.sum_congr rfl; intro k _; rw [Finset.sum_comm]
      _ = ∑ k, ∑ l, (if l = k then 1 else 0) * (d l i * d k i) := by
          apply Finset.sum_congr rfl; intro k _
          apply Finset.sum_congr rfl; intro l _
          rw [← hS l k, Finset.sum_mul]; apply Finset.sum_congr rfl; intro a _; ring
      _ = ∑ k, d k i * d k i := by
          apply Finset.sum_congr rfl; intro k _; simp [Finset.sum_ite_eq']
  calc ∑ a, ∑ i, ∑ k, ∑ l, S l a * d l i * (S k a * d k i)
      = ∑ i, ∑ a, ∑ k, ∑ l, S l a * d l i * (S k a * d k i) := Finset.sum_comm
    _ = ∑ i, ∑ k, d k i * d k i := Finset.sum_congr rfl fun i _ => step i
    _ = ∑ k, ∑ i, d k i * d k i := Finset.sum_comm
end

/-- non-vacuity: eight time points -/
example : (List.range 8).map (fun (j : Nat) => sampleK 8 j) = [2, 1, 0, -1, -2, -3, -4, -5] := by decide

end QV.C11
