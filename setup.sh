#!/bin/bash
# MANIFEST.setup_cmd: offline build of the whole Lean library (theorems + model drivers) from files on disk.
set -e
cd "$(dirname "$0")/lean"
mods="QV"
for f in QV/Drive/*.lean; do m=$(basename "$f" .lean); mods="$mods QV.Drive.$m"; done
lake build $mods
