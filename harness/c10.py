"""C10 - vibronic structure follows the displaced-oscillator model."""
import math
from qvh.core import *

DRIVER = "C10"
PROPS = "QV.Props.C10"


def run(ck):
    import numpy
    qr = import_quantarhei()
    from quantarhei import Molecule, Aggregate, Mode, energy_units
    from quantarhei.qm.oscillators.ho import operator_factory
    rng = ck.rng
    ck.rule = ("aggregates of 1-2 molecules (also a molecule without modes placed before one with modes), 0-2 harmonic modes per molecule, "
               "level counts 1-4 per electronic state, random Huang-Rhys factors, equal and state-dependent mode frequencies (set in both "
               "call orders), random couplings: number and order of vibronic states, Franck-Condon matrix, Hamiltonian and dipole operator "
               "compared with the model fed with the truncated shift-operator tables (1e-9); oracle: Poisson law from the vibrational "
               "ground state, orthogonality of the 100-level overlap matrix, product structure from an independent evaluation; "
               "non-trivial = at least one mode with a non-zero Huang-Rhys factor and two or more levels")
    ck.trusted += ["harness/c10.py; hand model QV/Model/C10.lean validated on generated inputs",
                   "numpy.linalg.eig/inv/exp inside operator_factory.shift_operator (the tables are handed to the model as data); "
                   "that the numerically exponentiated 100-level matrix reproduces the Poisson law is measured (1e-8), not proved"]
    ck.prove(PROPS, extra_modules=["QV.Drive.C10"], also=["QV.Props.C10Complex"])
    _ops = operator_factory()

    class _Cached:
        """the reference tables: shift_operator is a 100x100 eigen-decomposition, evaluated once per distinct shift"""
        def __init__(self):
            self.c = {}

        def shift_operator(self, s_):
            k = round(float(s_), 14)
            if k not in self.c:
                self.c[k] = _ops.shift_operator(s_)
            return self.c[k]
    ops = _Cached()
    lines, impl = [], []
    # ---- ndindex ----------------------------------------------------------------------------------------
    for dims in ([1], [3], [2, 3], [3, 1, 2], [4, 4], [2, 2, 2], [1, 1]):
        lines.append("ndindex " + ",".join(str(d) for d in dims))
        impl.append(" ".join("".join(str(x) for x in v) for v in numpy.ndindex(tuple(dims))))
    for h in range(ck.n(14, 150)):
        nmol = rng.choice([1, 2, 2])
        spec = []    # per molecule: list of modes (omega0, omega1, n0, n1, HR, order)
        for m in range(nmol):
            nm = rng.choice([0, 1, 1, 2]) if nmol == 2 else rng.choice([1, 1, 2])
            modes = []
            for k in range(nm):
                w0 = rng.choice([0.5, 1.0, 0.25])
                w1 = w0 if rng.random() < 0.6 else rng.choice([0.75, 0.375, 1.25])
                modes.append(dict(w0=w0, w1=w1, n0=rng.randint(1, 3), n1=rng.randint(1, 4), HR=rng.choice([0.0, 0.1, 0.5, 0.7, 1.2, 2.0]),
                                  order=rng.choice(["energy-first", "HR-first"])))
            spec.append(modes)
        if nmol == 2 and sum(len(x) for x in spec) * 1 > 3:
            spec[1] = spec[1][:1]
        if h < 2:
            # boundary: a molecule without modes next to one with a mode, in both orders
            nmol = 2
            md = dict(w0=0.5, w1=0.5, n0=3, n1=4, HR=0.7, order="HR-first")
            spec = [[], [md]] if h == 0 else [[md], []]
        if h in (2, 3):
            # boundary: many declared levels with a large Huang-Rhys factor (overlaps between HIGH vibrational levels)
            if h == 2:
                nmol = 1
                spec = [[dict(w0=0.5, w1=0.5, n0=2, n1=16, HR=2.0, order="HR-first")]]
            else:
                nmol = 2
                spec = [[dict(w0=0.5, w1=0.375, n0=1, n1=13, HR=1.2, order="energy-first")], [dict(w0=1.0, w1=1.0, n0=2, n1=2, HR=0.5, order="HR-first")]]
        E = [rng.randint(8, 16) * 1.0 for _ in range(2)][:max(nmol, 1)] if False else [rng.randint(8, 16) * 1.0 for _ in range(nmol)]
        Jc = rng.randint(-4, 4) / 4.0
        D = [[rng.randint(-3, 3) * 1.0 for _ in range(3)] for _ in range(nmol)]
        inp = {"nmol": nmol, "modes": spec, "E": E, "J": Jc, "D": D}
        if h % 3 == 1:
            # Huang-Rhys factors that no earlier system of this run has used (the package tabulates overlaps per displacement)
            for ms_ in spec:
                for md_ in ms_:
                    md_["HR"] = round(0.31 + 0.013 * h + 0.001 * len(ms_), 6)
            inp = {"nmol": nmol, "modes": spec, "E": E, "J": Jc, "D": D}
            # the script has used a small operator factory with the same displacements before (as the package's own example does)
            try:
                from quantarhei.qm.oscillators.ho import operator_factory as _of
                for ms_ in spec:
                    for md_ in ms_:
                        _of(N=4).shift_operator(math.sqrt(2.0 * md_["HR"])); _of(N=4).shift_operator(-math.sqrt(2.0 * md_["HR"]))
                inp["small_operator_factory_used_before"] = True
            except Exception:
                pass
        try:
            mols = []
            for m in range(nmol):
                mol = Molecule([0.0, E[m]])
                mol.set_dipole(0, 1, D[m])
                for km_, md in enumerate(spec[m]):
                    mod = Mode(frequency=md["w0"])
                    # the number of ground-state levels is declared on the mode either after it was attached to the molecule or
                    # (every second mode) before - a Mode is an object of its own and may be prepared first
                    if (h + m + km_) % 2 == 1:
                        md["ground_levels_declared"] = "before add_Mode"
                        mod.set_nmax(0, md["n0"])
                        mol.add_Mode(mod)
                        mod.set_nmax(1, md["n1"])
                    else:
                        md["ground_levels_declared"] = "after add_Mode"
                        mol.add_Mode(mod)
                        mod.set_nmax(0, md["n0"]); mod.set_nmax(1, md["n1"])
                    if md["order"] == "energy-first":
                        if md["w1"] != md["w0"]:
                            mod.set_energy(1, md["w1"])
                        mod.set_HR(1, md["HR"])
                    else:
                        mod.set_HR(1, md["HR"])
                        if md["w1"] != md["w0"]:
                            mod.set_energy(1, md["w1"])
                mols.append(mol)
            if nmol == 1:
                agg = Aggregate(mols)
            else:
                agg = Aggregate(mols)
                agg.set_resonance_coupling(0, 1, Jc)
            agg.build()
        except Exception as e:
            ck.fail("raises:build", "building the vibronic aggregate raised %r" % (e,), inp)
            continue
        # phase 0: the aggregate as built; phase 1 (every third system with a mode): the Huang-Rhys factor of one mode is changed on
        # the SAME objects and build() is called again - the second build must follow the current parameters
        phases = [0, 1] if (h % 3 == 2 and any(spec)) else [0]
        for phase in phases:
            if phase == 1:
                cand = [(m, k) for m in range(nmol) for k in range(len(spec[m]))]
                m_, k_ = cand[rng.randrange(len(cand))]
                newHR = rng.choice([x for x in (0.1, 0.5, 0.9, 1.3) if x != spec[m_][k_]["HR"]])
                spec[m_][k_] = dict(spec[m_][k_], HR=newHR)
                inp = dict(inp, modes=spec, second_build_after_set_HR=[m_, k_, newHR])
                try:
                    mols[m_].get_Mode(k_).set_HR(1, newHR)
                    agg.build()
                except Exception as e:
                    ck.fail("raises:rebuild", "build() after set_HR raised %r" % (e,), inp)
                    continue
            Ntot = agg.Ntot
            states = ["%s:%s" % ("".join(str(x) for x in es), "".join(str(int(x)) for x in vs)) for (es, vs) in agg.vibsigs]
            HH, DD, FC = numpy.array(agg.HH), numpy.array(agg.DD), numpy.array(agg.FCf)
            anyshift = any(md["HR"] > 0 and (md["n0"] > 1 or md["n1"] > 1) for ms in spec for md in ms)
            ck.case(("vib", str(spec), tuple(E), Jc, phase), nontrivial=anyshift, second_build=(phase == 1), nmol=nmol, modes=sum(len(x) for x in spec), Ntot=min(Ntot, 40) // 10 * 10,
                    sample=inp if h < 1 else None)
            # ---- oracle: declared level counts and displaced-oscillator law -------------------------------------
            for m in range(nmol):
                for lev in (0, 1):
                    want = 1
                    for md in spec[m]:
                        want *= md["n%d" % lev]
                    # states in which molecule m is at level lev and all others in the ground state
                    sig = tuple(lev if i == m else 0 for i in range(nmol))
                    others = 1
                    for i in range(nmol):
                        if i != m:
                            for md in spec[i]:
                                others *= md["n0"]
                    cnt = sum(1 for (es, vs) in agg.vibsigs if tuple(es) == sig)
                    if cnt != want * others:
                        ck.fail("level-count", "number of vibronic states of an electronic state is not the product of the declared level counts",
                                dict(inp, molecule=m, level=lev), cnt, want * others)
            # the shifts actually stored must be sqrt(2 HR) whatever the frequencies / call order
            gmodes = []
            for m in range(nmol):
                for k, md in enumerate(spec[m]):
                    sm0, sm1 = mols[m].get_Mode(k).get_SubMode(0), mols[m].get_Mode(k).get_SubMode(1)
                    if abs(sm1.shift - math.sqrt(2 * md["HR"])) > 1e-12 or abs(mols[m].get_Mode(k).get_HR(1) - md["HR"]) > 1e-12:
                        ck.fail("huang-rhys", "stored displacement is not sqrt(2 S) for the declared Huang-Rhys factor S", dict(inp, molecule=m, mode=k),
                                float(sm1.shift), math.sqrt(2 * md["HR"]))
                    gmodes.append((m, k, sm0, sm1, md))
                    # Poisson law of the overlaps from the vibrational ground state
                    Dm = numpy.real(ops.shift_operator(sm0.shift - sm1.shift))
                    if Dm.shape[0] < 24:
                        ck.fail("displaced-oscillator", "the 100-level operator factory handed out a %dx%d shift operator" % Dm.shape, dict(inp, S=md["HR"]), list(Dm.shape), [100, 100])
                        Dm = numpy.array(displaced_overlaps(math, (sm0.shift - sm1.shift) / math.sqrt(2.0), 30))
                    S = md["HR"]
                    for nq in range(6):
                        p = math.exp(-S) * S ** nq / math.factorial(nq)
                        if abs(Dm[0, nq] ** 2 - p) > 1e-8:
                            ck.fail("poisson", "overlaps from the vibrational ground state are not Poissonian with mean S", dict(inp, S=S, n=nq),
                                    float(Dm[0, nq] ** 2), p)
                            break
                    # the displaced-oscillator law for ALL declared levels: <m|D(beta)|n>, beta = shift/sqrt(2), by the exact recurrence
                    nl = max(md["n0"], md["n1"])
                    An = displaced_overlaps(math, (sm0.shift - sm1.shift) / math.sqrt(2.0), nl)
                    dev = max(abs(Dm[a_, b_] - An[a_][b_]) for a_ in range(nl) for b_ in range(nl))
                    ck.resid("max |shift_operator - analytic displaced-oscillator overlap| over the declared levels", dev)
                    if dev > 1e-9:
                        ck.fail("displaced-oscillator", "overlap matrix of the reference 100-level shift operator differs from the analytic law", dict(inp, S=S), dev)
                    ck.resid("orthogonality of the 100-level overlap matrix", numpy.abs(Dm @ Dm.T - numpy.eye(Dm.shape[0])).max())
                    if numpy.abs(Dm @ Dm.T - numpy.eye(Dm.shape[0])).max() > 1e-9:
                        ck.fail("orthogonality", "overlap matrix not orthogonal", dict(inp, S=S))
            # ---- independent product structure ------------------------------------------------------------------
            def fcf(a, b):
                (e1, v1), (e2, v2) = agg.vibsigs[a], agg.vibsigs[b]
                r = 1.0
                for g, (m, k, sm0, sm1, md) in enumerate(gmodes):
                    s1 = (sm1 if e1[m] == 1 else sm0).shift
                    s2 = (sm1 if e2[m] == 1 else sm0).shift
                    r *= numpy.real(ops.shift_operator(s1 - s2))[int(v1[g]), int(v2[g])]
                return r
            analytic = {}
            def fca(a, b):
                (e1, v1), (e2, v2) = agg.vibsigs[a], agg.vibsigs[b]
                r = 1.0
                for g, (m, k, sm0, sm1, md) in enumerate(gmodes):
                    s1 = (sm1 if e1[m] == 1 else sm0).shift
                    s2 = (sm1 if e2[m] == 1 else sm0).shift
                    key = round(s1 - s2, 15)
                    if key not in analytic:
                        analytic[key] = displaced_overlaps(math, (s1 - s2) / math.sqrt(2.0), 24)
                    r *= analytic[key][int(v1[g])][int(v2[g])]
                return r
            worst = max(abs(FC[a, b] - fca(a, b)) for a in range(Ntot) for b in range(Ntot))
            ck.resid("max |aggregate FC factor - analytic displaced-oscillator product|", worst)
            if worst > 1e-9:
                ab = max(((abs(FC[a, b] - fca(a, b)), a, b) for a in range(Ntot) for b in range(Ntot)))
                ck.fail("fc:analytic", "Franck-Condon factor of the aggregate differs from the displaced-oscillator law",
                        dict(inp, states=[states[ab[1]], states[ab[2]]]), float(FC[ab[1], ab[2]]), fca(ab[1], ab[2]))
            bad = None
            for a in range(Ntot):
                for b in range(Ntot):
                    (e1, v1), (e2, v2) = agg.vibsigs[a], agg.vibsigs[b]
                    f = fcf(a, b)
                    if abs(FC[a, b] - f) > 1e-9:
                        bad = ("FC", a, b, float(FC[a, b]), f)
                    diff = [i for i in range(nmol) if e1[i] != e2[i]]
                    wantD = numpy.array(D[diff[0]]) * f if len(diff) == 1 else numpy.zeros(3)
                    if numpy.abs(DD[a, b] - wantD).max() > 1e-9:
                        bad = ("dipole", a, b, DD[a, b].tolist(), wantD.tolist())
                    if a != b:
                        wantH = Jc * f if (nmol == 2 and sum(e1) == 1 and sum(e2) == 1 and tuple(e1) != tuple(e2)) else 0.0
                        if abs(HH[a, b] - wantH) > 1e-9:
                            bad = ("coupling", a, b, float(HH[a, b]), wantH)
            if bad:
                ck.fail("product:%s" % bad[0], "%s element between vibronic states is not the electronic quantity times the product of the modes' overlaps" % bad[0],
                        dict(inp, states=[states[bad[1]], states[bad[2]]]), bad[3], bad[4])
            # ---- a history: the aggregate diagonalises itself; the operators handed out afterwards are the same vibronic operators -------
            if h % 3 == 0 and phase == phases[-1]:
                try:
                    agg.diagonalize()
                    D_after = numpy.array(agg.get_TransitionDipoleMoment().data)
                    H_after = numpy.array(agg.get_Hamiltonian().data)
                    if numpy.abs(D_after - DD).max() > 1e-12 or numpy.abs(H_after - HH).max() > 1e-12:
                        ck.fail("product:after-diagonalize", "the dipole operator / Hamiltonian handed out after Aggregate.diagonalize() is no longer the vibronic "
                                "operator built from the overlaps", inp, [float(numpy.abs(D_after - DD).max()), float(numpy.abs(H_after - HH).max())])
                except Exception as e:
                    ck.fail("raises:diagonalize", "diagonalize / operator access raised %r" % (e,), inp)
            # ---- model line ---------------------------------------------------------------------------------------
            shifts = sorted(set(round(sm.shift, 15) for (_, _, sm0, sm1, _) in gmodes for sm in (sm0, sm1)))
            L = max([1] + [max(md["n0"], md["n1"]) for ms in spec for md in ms])
            fields = []
            for (m, k, sm0, sm1, md) in gmodes:
                for lev, sm in ((0, sm0), (1, sm1)):
                    fields += [str(int(sm.nmax)), str(shifts.index(round(sm.shift, 15))), frac(sm.omega)]
            tabs = []
            for sa in shifts:
                for sb in shifts:
                    Mx = numpy.real(ops.shift_operator(sa - sb))[:L, :L]
                    tabs += [frac(x) for x in Mx.flatten()]
            line = "vib %d %s %s %s %s %s %d %d %s" % (
                nmol, " ".join(str(len(x)) for x in spec), " ".join(fields), " ".join(frac(e) for e in E),
                " ".join(frac(Jc if i != j else 0.0) for i in range(nmol) for j in range(nmol)), " ".join(frac(D[k][0]) for k in range(nmol)),
                L, len(shifts), " ".join(tabs))
            lines.append(" ".join(line.split()))
            impl.append("%d ; %s ; %s ; %s ; %s" % (Ntot, " ".join(states), " ".join(frac(x) for x in HH.flatten()),
                                                      " ".join(frac(x) for x in DD[:, :, 0].flatten()), " ".join(frac(x) for x in FC.flatten())))
    # ---- single molecules, level counts beyond the 20 of the Franck-Condon table: as many vibronic states as declared -------------------
    for hm_ in range(ck.n(3, 10)):
        counts = [[(22, 2), (3, 2)], [(1, 25), (2, 1)], [(21, 1), (24, 3)]][hm_ % 3] if hm_ < 3 else [(rng.randint(1, 26), rng.randint(1, 3)) for _ in range(2)]
        inpm = {"molecule": "two electronic states, two modes", "declared_levels_(ground,excited)_per_mode": counts}
        try:
            mol = Molecule([0.0, 10.0])
            for (g_, e_) in zip(*[[c[0] for c in counts], [c[1] for c in counts]]) if False else counts:
                md_ = Mode(frequency=0.5); mol.add_Mode(md_)
                md_.set_nmax(0, g_); md_.set_nmax(1, e_); md_.set_HR(1, 0.2)
            dimw = 1
            dime = 1
            for (g_, e_) in counts:
                dimw *= g_; dime *= e_
            Hm_ = mol.get_Hamiltonian()
            got_n = [(int(mol.get_Mode(k_).get_nmax(0)), int(mol.get_Mode(k_).get_nmax(1))) for k_ in range(len(counts))]
            ck.case(("molecule-levels", str(counts)), nontrivial=True, second_build=False, nmol=1, modes=len(counts), Ntot=0)
            if Hm_.dim != dimw + dime or got_n != [tuple(c) for c in counts]:
                ck.fail("level-count:molecule", "a molecule does not carry as many vibronic states as the product of the declared level counts", inpm,
                        [int(Hm_.dim), got_n], [dimw + dime, counts])
        except Exception as e:
            ck.fail("raises:molecule-levels", "molecule with many vibrational levels raised %r" % (e,), inpm)
    # ---- molecules with several modes: the dipole operator of the molecule (common oscillator basis: overlaps are Kronecker deltas
    #      mode by mode) ----------------------------------------------------------------------------------------------------------
    for hm_ in range(ck.n(3, 8)):
        nmodes = (2, 3, 2)[hm_ % 3]
        lv = [(rng.randint(2, 3), rng.randint(2, 3)) for _ in range(nmodes)]
        dvec = [float(rng.randint(1, 3)), float(rng.randint(-2, 2)), 0.5]
        inpm = {"molecule": "two electronic states, %d modes" % nmodes, "declared_levels_(ground,excited)_per_mode": lv, "dipole": dvec}
        try:
            mol = Molecule([0.0, 10.0]); mol.set_dipole(0, 1, dvec)
            for (g_, e_) in lv:
                md_ = Mode(frequency=0.5 + 0.125 * rng.randint(0, 2)); mol.add_Mode(md_)
                md_.set_nmax(0, g_); md_.set_nmax(1, e_); md_.set_HR(1, rng.choice([0.2, 0.6]))
            mol.get_Hamiltonian()
            dip = numpy.array(mol.get_TransitionDipoleMoment().data)
            sts = list(mol.all_states)
            ck.case(("molecule-dipole", str(lv), hm_), nontrivial=True, second_build=False, nmol=1, modes=nmodes, Ntot=0)
            badm = None
            for a_, (na_, va_) in enumerate(sts):
                for b_, (nb_, vb_) in enumerate(sts):
                    same = all(int(x_) == int(y_) for x_, y_ in zip(va_, vb_))
                    want = numpy.array(dvec) if (same and {int(na_), int(nb_)} == {0, 1}) else numpy.zeros(3)
                    if numpy.abs(dip[a_, b_] - want).max() > 1e-12:
                        badm = (a_, b_, dip[a_, b_].tolist(), want.tolist(), [int(na_), [int(x_) for x_ in va_]], [int(nb_), [int(x_) for x_ in vb_]])
            if badm:
                ck.fail("product:dipole:molecule", "dipole element of a molecule with several modes is not the electronic dipole times the product of the "
                        "modes' overlaps", dict(inpm, states=[badm[4], badm[5]]), badm[2], badm[3])
        except Exception as e:
            ck.fail("raises:molecule-dipole", "dipole operator of a molecule with several modes raised %r" % (e,), inpm)
    # ---- two-exciton band of a vibronic trimer: every coupling and dipole element is the electronic quantity times the overlap product -----
    for ht_ in range(ck.n(1, 4)):
        try:
            Et = [10.0, 11.0, 12.5]
            Jt = {(0, 1): 0.75, (0, 2): -0.5, (1, 2): 1.25}
            Dt = [[1.0, 0.0, 0.0], [0.0, 2.0, 0.0], [1.0, 1.0, -1.0]]
            hrs = [rng.choice([0.3, 0.7, 1.1]), rng.choice([0.4, 0.9])]
            inpt = {"trimer": "modes on molecules 0 and 1, two levels each, exciton multiplicity 2", "E": Et, "J": {"%d-%d" % k: v for k, v in Jt.items()}, "HR": hrs}
            molt = []
            for m_ in range(3):
                mo = Molecule([0.0, Et[m_]]); mo.set_dipole(0, 1, Dt[m_])
                if m_ < 2:
                    mdd = Mode(frequency=0.5); mo.add_Mode(mdd)
                    mdd.set_nmax(0, 2); mdd.set_nmax(1, 2); mdd.set_HR(1, hrs[m_])
                molt.append(mo)
            aggt = Aggregate(molt)
            for (i_, j_), v_ in Jt.items():
                aggt.set_resonance_coupling(i_, j_, v_)
            aggt.build(mult=2)
            HHt, DDt = numpy.array(aggt.HH), numpy.array(aggt.DD)
            ov = [[displaced_overlaps(math, sg * math.sqrt(2 * hrs[m_]) / math.sqrt(2.0), 4) for sg in (0.0, -1.0, 1.0)] for m_ in range(2)]

            def fct(a, b):
                (e1, v1), (e2, v2) = aggt.vibsigs[a], aggt.vibsigs[b]
                r = 1.0
                for g_ in range(2):
                    k_ = 0 if e1[g_] == e2[g_] else (1 if e1[g_] == 1 else 2)       # shift(e1) - shift(e2): 0, +s, -s
                    k_ = 0 if e1[g_] == e2[g_] else (2 if e1[g_] == 1 else 1)
                    r *= ov[g_][k_][int(v1[g_])][int(v2[g_])]
                return r
            ck.case(("trimer-mult2", ht_, str(hrs)), nontrivial=True, second_build=False, nmol=3, modes=2, Ntot=20)
            badt = None
            for a in range(aggt.Ntot):
                for b in range(aggt.Ntot):
                    (e1, v1), (e2, v2) = aggt.vibsigs[a], aggt.vibsigs[b]
                    diff = [i for i in range(3) if e1[i] != e2[i]]
                    f = fct(a, b)
                    if a != b:
                        wantH = Jt[tuple(diff)] * f if (len(diff) == 2 and sum(e1) == sum(e2)) else 0.0
                        if abs(HHt[a, b] - wantH) > 1e-9:
                            badt = ("coupling", a, b, float(HHt[a, b]), wantH)
                    wantD = numpy.array(Dt[diff[0]]) * f if len(diff) == 1 else numpy.zeros(3)
                    if numpy.abs(DDt[a, b] - wantD).max() > 1e-9:
                        badt = ("dipole", a, b, DDt[a, b].tolist(), wantD.tolist())
            if badt:
                ck.fail("product:%s:two-exciton" % badt[0], "%s element between vibronic states of a trimer with two-exciton states is not the electronic quantity "
                        "times the product of the modes' overlaps" % badt[0], dict(inpt, states=[str(aggt.vibsigs[badt[1]]), str(aggt.vibsigs[badt[2]])]), badt[3], badt[4])
        except Exception as e:
            ck.fail("raises:trimer-mult2", "vibronic trimer with two-exciton states raised %r" % (e,), {})
    # ---- displacements with an imaginary part (momentum shifts): the shift operator is still the unitary displacement operator ---------------
    from quantarhei.qm.oscillators.ho import operator_factory as _of2
    for dcx in (1j, 0.5 + 0.5j, -0.3j + 0.8)[:ck.n(3, 3)]:
        try:
            Dc = numpy.array(_of2(N=60).shift_operator(dcx))
            S_ = abs(dcx) ** 2 / 2.0
            ck.case(("complex-shift", str(dcx)), nontrivial=True, second_build=False, nmol=0, modes=1, Ntot=0)
            devp = max(abs(abs(Dc[nq, 0]) ** 2 - math.exp(-S_) * S_ ** nq / math.factorial(nq)) for nq in range(6))
            devu = float(numpy.abs((Dc.conj().T @ Dc)[:20, :20] - numpy.eye(20)).max())
            ck.resid("complex displacement: Poisson law / unitarity", max(devp, devu))
            if devp > 1e-8 or devu > 1e-8:
                ck.fail("displaced-oscillator:complex-shift", "shift operator for a displacement with an imaginary part is not the unitary displacement operator "
                        "(Poisson law with mean |d|^2/2 from the ground state, D^+ D = 1 on the low levels)", {"shift": str(dcx)}, [devp, devu])
        except Exception as e:
            ck.fail("raises:complex-shift", "shift_operator raised %r" % (e,), {"shift": str(dcx)})
    model = ck.drive(DRIVER, lines)
    if model is not None:
        for l, a, b in zip(lines, impl, model):
            ck.traces += 1
            if l.startswith("ndindex"):
                if a != b:
                    ck.disagree("ndindex order differs", l, a, b)
                continue
            pa, pb = a.split(" ; "), b.split(" ; ")
            if pa[0].strip() != pb[0].strip() or pa[1].split() != pb[1].split():
                ck.disagree("vibronic state list differs", l[:120], pa[:2], pb[:2])
                continue
            for name, xa, xb in zip(("H", "D", "FC"), pa[2:], pb[2:]):
                fa = [float(Fraction(x)) for x in xa.split()]
                fb = [float(Fraction(x)) for x in xb.split()]
                d = max([abs(x - y) for x, y in zip(fa, fb)] + [0.0]) if len(fa) == len(fb) else float("inf")
                ck.resid("max |impl-model| (%s)" % name, d if d != float("inf") else 1e300)
                if d > 1e-9 * max([1.0] + [abs(y) for y in fb]):
                    ck.disagree("%s elements differ by %.3g" % (name, d), l[:120], xa[:160], xb[:160])
    return ck.finish()


def displaced_overlaps(math, beta, n):
    """<m|D(beta)|n> for real beta, D = exp(beta (a^+ - a)), exact three-term recurrence (no matrix exponential)"""
    F = [[0.0] * n for _ in range(n)]
    F[0][0] = math.exp(-beta * beta / 2.0)
    for k in range(1, n):
        F[0][k] = F[0][k - 1] * (-beta) / math.sqrt(k)
    for m in range(0, n - 1):
        for k in range(n):
            F[m + 1][k] = ((math.sqrt(k) * F[m][k - 1] if k > 0 else 0.0) + beta * F[m][k]) / math.sqrt(m + 1)
    return F
