import QV.Model.C03
/-!
Model of the vibronic state space and element rules of `Aggregate.build` with
harmonic modes (aggregate_states.py `vsignatures(approx=None)` = numpy.ndindex,
aggregate_base.py `allstates`, `fc_factor`, vibronic branches of `coupling` and
`transition_dipole`).  Franck–Condon tables (the truncated shift-operator
matrices) are data.
-/
namespace QV.C10
open QV QV.C03

/-- `numpy.ndindex(dims)`: row-major product of ranges -/
def ndindex : List Nat → List (List Nat)
  | [] => [[]]
  | d :: ds => (List.range d).flatMap fun i => (ndindex ds).map (i :: ·)

/-- a vibronic state: electronic signature and vibrational signature -/
abbrev VState := List Nat × List Nat

/-- `allstates`: electronic-major enumeration; `nmax σ` lists the level counts of the modes carried by
the molecules in electronic signature `σ` (molecule by molecule, mode by mode) -/
def allStates (elsigs : List (List Nat)) (nmax : List Nat → List Nat) : List VState :=
  elsigs.flatMap fun σ => (ndindex (nmax σ)).map fun v => (σ, v)

section
variable {α : Type} [Add α] [Mul α] [Zero α] [One α]

/-- `fc_factor`: `res = 1.0; for kk: res = res * FC_kk[qn1, qn2]`; `fc σ1 σ2 k` is the table of mode `k`
for the shift difference between the two electronic states -/
def fcFactor (fc : List Nat → List Nat → Nat → Nat → Nat → α) (s1 s2 : VState) : α :=
  (List.range s1.2.length).foldl (fun res k => res * fc s1.1 s2.1 k (s1.2[k]?.getD 0) (s2.2[k]?.getD 0)) 1

/-- diagonal element: electronic energy + vibrational quanta -/
def vibEnergy (elen : Nat → Nat → α) (omega : List Nat → Nat → α) (natCast : Nat → α) (s : VState) : α :=
  (List.range s.2.length).foldl (fun acc k => acc + natCast (s.2[k]?.getD 0) * omega s.1 k) 0 + energy elen s.1

/-- off-diagonal Hamiltonian element between two vibronic states (one-exciton manifold and ground state) -/
def vibCoupling (nmono : Nat) (J : Nat → Nat → α) (fc : List Nat → List Nat → Nat → Nat → Nat → α)
    (idxOf : List Nat → Nat) (s1 s2 : VState) : α :=
  if nmono > 1 then
    if band s1.1 = band s2.1 then
      if band s1.1 = 1 then
        let kk := idxOf s1.1
        let ll := idxOf s2.1
        if kk ≥ 1 ∧ ll ≥ 1 then J (kk - 1) (ll - 1) * fcFactor fc s1 s2 else 0
      else 0
    else 0
  else 0

/-- dipole element: the dipole of the molecule that changes state times the overlap of all modes -/
def vibDipole (d : Nat → α) (fc : List Nat → List Nat → Nat → Nat → Nat → α) (s1 s2 : VState) : α :=
  match exIndex s1.1 s2.1 with
  | some k => d k * fcFactor fc s1 s2
  | none => 0
end

end QV.C10
