import QV.Core.Tab
import Mathlib.Algebra.BigOperators.Fin
import Mathlib.Data.Matrix.Mul

/-! Bridge between the import-free `QV` finite sums and Mathlib's big operators. -/
namespace QV
open Finset

theorem sumFin_eq_sum {α : Type} [AddCommMonoid α] (n : Nat) (f : Fin n → α) :
    sumFin n f = ∑ i, f i := by
  unfold sumFin
  induction n with
  | zero => simp [Fin.foldl_zero]
  | succ n ih =>
    rw [Fin.foldl_succ_last, Fin.sum_univ_castSucc, ← ih]

attribute [simp] VecD.fn_tab MatD.fn_tab TensD.fn_tab

theorem matVec_eq_mulVec {α : Type} [NonUnitalNonAssocSemiring α] {n m : Nat}
    (A : Fin n → Fin m → α) (x : Fin m → α) : matVec A x = Matrix.mulVec (Matrix.of A) x := by
  funext i; simp [matVec, sumFin_eq_sum, Matrix.mulVec, dotProduct]

theorem matMul_eq_mul {α : Type} [NonUnitalNonAssocSemiring α] {n m k : Nat}
    (A : Fin n → Fin m → α) (B : Fin m → Fin k → α) :
    matMul A B = fun i j => ∑ l, A i l * B l j := by
  funext i j; simp [matMul, sumFin_eq_sum]

theorem tensApply_eq {α : Type} [NonUnitalNonAssocSemiring α] {n : Nat}
    (R : Fin n → Fin n → Fin n → Fin n → α) (ρ : Fin n → Fin n → α) :
    tensApply R ρ = fun a b => ∑ c, ∑ d, R a b c d * ρ c d := by
  funext a b; simp [tensApply, sumFin_eq_sum]

theorem trace_eq {α : Type} [NonUnitalNonAssocSemiring α] {n : Nat} (A : Fin n → Fin n → α) :
    trace A = ∑ i, A i i := by simp [trace, sumFin_eq_sum]

end QV
