import QV.Core.Num
import QV.Model.C17
open QV QV.C17

/-- state: current rate matrix (row-major rationals) and its dimension -/
structure DS where
  n : Nat
  k : Array Rat

def showRats (l : List Rat) : String := " ".intercalate (l.map showRat)

def stepD (s : DS) (ts : List String) : DS × String :=
  match ts with
  | "new" :: n :: rest =>
    match n.toNat?, parseRats? rest with
    | some n, some vals =>
      if vals.length = n * n then ({ n := n, k := vals.toArray }, "ok")
      else if vals.length = 0 then ({ n := n, k := Array.replicate (n * n) 0 }, "ok")
      else (s, "bad-op")
    | _, _ => (s, "bad-op")
  | ["set", a, b, v] =>
    match a.toNat?, b.toNat?, parseRat? v with
    | some a, some b, some v =>
      if h : a < s.n ∧ b < s.n then
        let K : Fin s.n → Fin s.n → Rat := matOfArray s.n s.n s.k
        match setRate K ⟨a, h.1⟩ ⟨b, h.2⟩ v with
        | some K' => ({ s with k := (listOfMat K').toArray }, "ok " ++ showRats (listOfMat K'))
        | none => (s, "refused")
      else (s, "bad-op")
    | _, _, _ => (s, "bad-op")
  | "prop" :: dt :: L :: nref :: nt :: p0 =>
    match parseRat? dt, L.toNat?, nref.toNat?, nt.toNat?, parseRats? p0 with
    | some dt, some L, some nref, some nt, some p0 =>
      if p0.length = s.n then
        let K : Fin s.n → Fin s.n → Rat := matOfArray s.n s.n s.k
        let traj := popPropagate K dt L nref nt (VecD.tab (vecOfArray s.n p0.toArray))
        (s, " | ".intercalate (traj.map fun v => showRats v.toList))
      else (s, "bad-op")
    | _, _, _, _, _ => (s, "bad-op")
  | "pm" :: n :: same :: grid :: ns :: len :: rest =>
    match n.toNat?, ns.toNat?, len.toNat?, parseRats? rest with
    | some n, some ns, some len, some vals =>
      if vals.length = 2 * n * n then
        let E : MatD Rat n n := MatD.tab (matOfArray n n (vals.take (n * n)).toArray)
        let Edt : MatD Rat n n := MatD.tab (matOfArray n n (vals.drop (n * n)).toArray)
        let one : MatD Rat n n := MatD.tab (fun i j => if i = j then 1 else 0)
        let mul : Mul (MatD Rat n n) := ⟨fun a b => MatD.tab (matMul a.fn b.fn)⟩
        let us := @propMatrices _ mul one E Edt (same == "1") (grid == "1") ns len
        (s, " | ".intercalate (us.map fun u => showRats (listOfMat u.fn)))
      else (s, "bad-op")
    | _, _, _, _ => (s, "bad-op")
  | _ => (s, "bad-op")

def main : IO Unit := runDriver stepD { n := 0, k := #[] }
